(* Properties/C01.v — Cutting gates and reconstructing reproduces the uncut expectation values.
   Only theorem statements (closed by `exact`), non-vacuity examples, the facts obligation, Print Assumptions.

   WHAT IS PROVED.  The finite-sum algebra that connects the code's bookkeeping — coefficient list (C05), exact
   infinite-budget weights (C04), per-partition map-id projection (C05/C10), sample-major layout z*G+m and the
   estimator (C06), refusal of an observable on a dropped idle qubit (C10) — to the expectation values of the
   uncut circuit, GIVEN the physics postulates P1-P3 as hypotheses (never axioms):
     P1     multilinearity of quantum mechanics in each cut slot, applied to the exact decompositions of C02:
              Ev k = sum over all joint maps ids of (prod_j c_j[ids_j]) * term ids k
     P2+P3  tensor factorisation over the partitions + instrument rule for the QPD measurements:
              term ids k = prod over partitions l of E l (project l ids) k
   Each component model is tied to the code by its own correspondence (C02, C04, C05, C06, C10, C11, C13, C14);
   the END-TO-END numbers of the implementation are compared with an independent simulation of the uncut circuit
   by harness/c01.py on every run.

   Vocabulary (Model/Roundtrip.v): all_maps dims, coeff_prod C ids, project_ids sfx ids, part_prod L E ids k,
   cut_value C L E k; (Proofs/ExperimentsP.v) exact_weights C W; (Model/Reconstruct.v) reconstruct_parts,
   reconstruct, E, estimator. *)
From Coq Require Import QArith Qabs Permutation String.
From CKT Require Import Common.Base Common.Circ Model.Observables Model.Partition Model.Decompose Model.Measurement Model.Experiments Model.Roundtrip
  Proofs.ExperimentsP Proofs.PartitionP Proofs.RoundtripP.
From CKT Require Model.Reconstruct Model.Weights Proofs.WeightsGen.
Close Scope Q_scope.

(* ------------------------------------------------------------------------------------------------
   1. generic rearrangement lemmas, unbounded in the number of cuts, basis sizes, partitions, observables *)

(* the product space: membership, no duplicates, size *)
Theorem c01_all_maps : forall dims,
  (forall ids, In ids (all_maps dims) <-> Forall2 lt ids dims) /\
  NoDup (all_maps dims) /\
  length (all_maps dims) = fold_right Nat.mul 1 dims.
Proof. intros dims. split; [apply In_all_maps|split; [apply NoDup_all_maps|apply all_maps_count]]. Qed.

(* a sum over a duplicate-free enumeration that contains the support = the sum over the whole space *)
Theorem c01_support_sum : forall (f : jkey -> Q) (l full : list jkey),
  NoDup l -> NoDup full -> incl l full ->
  (forall x, In x full -> ~ In x l -> (f x == 0)%Q) ->
  (sumQ (map f l) == sumQ (map f full))%Q.
Proof. exact (sum_over_support jkey_eqb jkey_eqb_spec). Qed.

(* multilinear expansion: the sum over all joint maps of the coefficient products is the product of the sums *)
Theorem c01_multilinear : forall C,
  (sumQ (map (coeff_prod C) (all_maps (map (@length Q) C))) == prodQ (map sumQ C))%Q.
Proof. exact all_maps_sum_prod. Qed.

(* the vocabulary of this file IS the vocabulary of C05: chosen coefficients, projection, enumeration *)
Theorem c01_c05_vocabulary : forall C joint sfx,
  (forall ids cs, chosen_coeffs C ids = Ok cs -> coeff_prod C ids = prodQ cs) /\
  (forall ids, In ids (all_maps (map (@length Q) C)) -> exists cs, chosen_coeffs C ids = Ok cs) /\
  (forall ms, project joint sfx = Ok ms -> ms = project_ids sfx joint) /\
  ((forall k, In k sfx -> k < length joint) -> project joint sfx = Ok (project_ids sfx joint)) /\
  all_maps (map (@length Q) C) = joint_maps (map (@length Q) C).
Proof.
  intros C joint sfx. split; [apply chosen_coeff_prod|split; [apply chosen_coeffs_total|split;
    [apply project_is_project_ids|split; [apply project_total|apply all_maps_joint_maps]]]].
Qed.

(* ------------------------------------------------------------------------------------------------
   2. the round trip.  Hypotheses, in order:
        P1, P2+P3                     the physics (see the header)
        kappa <> 0, exact_weights     the weights dictionary is the one C04 proves for num_samples = inf when no joint
                                      map has a probability in (0, 1e-14)  (c04_infinite; c01_weights_from_c04 below)
        the Forall2                   the coefficient list is the one C05 proves (conclusion of c05_coeffs)
        length / counts / shapes / keys   the shape conditions of c06_estimator (counts = c05_counts_layout)
        exact results                 the results of partition li for sample z decode (C06's E: mean over the lookup
                                      locations (m, n) of the experiment at index z*G + m) to the exact value
                                      E li (projection of the sample's joint map) k
      Conclusion: reconstruction returns the uncut expectation values, for every observable. *)
(* FULL STATEMENT (the property text; NOT proved, kept visible):
     forall circuit labels observables, well_formed ->
       reconstruct (run_exactly (generate (partition_problem circuit labels observables) inf))
         = map (expectation_of_uncut circuit) observables          (or Refused on an idle-qubit observable)
   PROVED below (hence the name _partial): the same conclusion from hypotheses.  What stays UNDISCHARGED:
     * P1, P2+P3 (physics; n-qubit Hilbert-space semantics is not formalised) and the "exact results" equation that
       identifies the decoded results of partition li, sample z with E li (projection) k;
     * that the projection lists L, the lookup tables / group sizes and the per-partition counts are the ones the models
       of partition_problem / _get_mapping_ids_by_partition / ObservableCollection produce: C10's c10_cuts (the two
       halves of cut k carry suffix k, in the partitions of its two qubits) and C05's c05_scans / c05_counts_layout /
       c05_projection state them for the models, but no theorem here derives "every cut id occurs in exactly two
       projection lists" from them; the correspondence checks these facts on the implementation's output instead
       (projection_ok_sep, counts_ok, lookup_ok);
     * exact_weights is discharged from the C04 model only under no_subcutoff_map (c01_weights_from_c04);
       the coefficient list is discharged from the C05 model (c01_roundtrip_generated_partial). *)
Theorem c01_roundtrip_partial :
  forall (C : list (list Q)) (L : list (list nat)) (nobs : nat)
         (term : jkey -> nat -> Q) (Ev : nat -> Q) (E : nat -> jkey -> nat -> Q),
  (forall k, k < nobs ->
     (Ev k == sumQ (map (fun ids => (coeff_prod C ids * term ids k)%Q) (all_maps (map (@length Q) C))))%Q) ->
  (forall ids k, In ids (all_maps (map (@length Q) C)) -> k < nobs -> (term ids k == part_prod L E ids k)%Q) ->
  forall (W : sdict) (cq : list (Q * wkind)),
  (forall v, In v C -> ~ (kappa_of v == 0)%Q) ->
  exact_weights C W ->
  Forall2 (fun s c => exists cs, chosen_coeffs C (s_ids s) = Ok cs /\
                                 c = (coeff_value (total_weight W) (kappa_all C) (s_w s) cs, s_t s))
          (sort_samples W) cq ->
  forall pyint0 den (pds : list (Reconstruct.part * Reconstruct.pdata)),
  length pds = length L ->
  (forall pd, In pd pds ->
     Reconstruct.data_len (snd pd) = length (map fst cq) * length (Reconstruct.pgroups (fst pd))) ->
  (forall pd, In pd pds -> length (Reconstruct.plookup (fst pd)) = nobs /\ locs_wf (fst pd)) ->
  (forall pd key, In pd pds -> In key (Reconstruct.keys_of (snd pd)) ->
     Reconstruct.outcome_to_int pyint0 key = Some (den key)) ->
  (forall li pd sfx z s k,
     nth_error pds li = Some pd -> nth_error L li = Some sfx ->
     nth_error (sort_samples W) z = Some s -> k < nobs ->
     (Reconstruct.E den pd z k == E li (project_ids sfx (s_ids s)) k)%Q) ->
  Reconstruct.res_Qeq (Reconstruct.reconstruct_parts pyint0 nobs (map fst cq) pds)
                      (Ok (map Ev (seq 0 nobs))).
Proof. exact roundtrip. Qed.

(* the same with the coefficient list literally PRODUCED by the C05 model of generate_cutting_experiments (its shared
   second half `core`, reached by both call forms: c05_generate_is_core) on the exact weights *)
Theorem c01_roundtrip_generated_partial :
  forall gh gsx env (C : list (list Q)) table og (W : sdict) out (cq : list (Q * wkind))
         (L : list (list nat)) (nobs : nat) (term : jkey -> nat -> Q) (Ev : nat -> Q) (E : nat -> jkey -> nat -> Q),
  core gh gsx env C table og W = Ok (out, cq) ->
  (forall k, k < nobs ->
     (Ev k == sumQ (map (fun ids => (coeff_prod C ids * term ids k)%Q) (all_maps (map (@length Q) C))))%Q) ->
  (forall ids k, In ids (all_maps (map (@length Q) C)) -> k < nobs -> (term ids k == part_prod L E ids k)%Q) ->
  (forall v, In v C -> ~ (kappa_of v == 0)%Q) ->
  exact_weights C W ->
  forall pyint0 den (pds : list (Reconstruct.part * Reconstruct.pdata)),
  length pds = length L ->
  (forall pd, In pd pds ->
     Reconstruct.data_len (snd pd) = length (map fst cq) * length (Reconstruct.pgroups (fst pd))) ->
  (forall pd, In pd pds -> length (Reconstruct.plookup (fst pd)) = nobs /\ locs_wf (fst pd)) ->
  (forall pd key, In pd pds -> In key (Reconstruct.keys_of (snd pd)) ->
     Reconstruct.outcome_to_int pyint0 key = Some (den key)) ->
  (forall li pd sfx z s k,
     nth_error pds li = Some pd -> nth_error L li = Some sfx ->
     nth_error (sort_samples W) z = Some s -> k < nobs ->
     (Reconstruct.E den pd z k == E li (project_ids sfx (s_ids s)) k)%Q) ->
  Reconstruct.res_Qeq (Reconstruct.reconstruct_parts pyint0 nobs (map fst cq) pds)
                      (Ok (map Ev (seq 0 nobs))).
Proof.
  intros gh gsx env C table og W out cq L nobs term Ev E H P1 P23 Hk HW.
  exact (roundtrip C L nobs term Ev E P1 P23 W cq Hk HW (core_coeffs _ _ _ _ _ _ _ _ _ H)).
Qed.

(* ------------------------------------------------------------------------------------------------
   2b. THE WHOLE CHAIN  generate (C05 model) ; exact sampler ; reconstruct (C06 model).
       `run : mcirc -> quasi-distribution` is the exact evaluation of one subexperiment (the sampler; C13).  The results
       handed to reconstruction are `results_of run rparts full` = every generated circuit evaluated, in order.
       Compared with c01_roundtrip_partial the following hypotheses are GONE — they are now theorems about the models:
         * "exact results" (the results of partition li for sample z decode to E li (projection) k): E is DEFINED from the
           generated circuits (E_all / E_gen: decode of run (optimise (build1 .. pids g))) and the equation is
           c01_generated_exact_results, proved from C05's layout (index z*G+m) and projection;
         * the projection lists L: they are L_of = the label suffixes of the one-qubit placeholders of each subcircuit in
           circuit order (separated form, c01_projection_lists) resp. all cut ids in order (unseparated form);
         * the counts (#results = #coefficients x #groups) and the coefficient list shape: from C05's core.
       What REMAINS assumed (hence _partial): P1 and P2+P3 — now statements about the value E_all that the generated
       circuits decode to under `run`, i.e. pure physics of those circuits —, exact_weights (from C04 under
       no_subcutoff_map), and that reconstruction's view `rparts` of each ObservableCollection has as many groups as
       generation's view and well-formed lookups (both views are read from the same object; C11). *)
Theorem c01_generated_exact_results :
  forall gh gsx env run den (C : list (list Q)) table (W : sdict) nobs lg le rp z s k,
  entry_ok gh gsx env table (sort_samples W) lg le ->
  length (Reconstruct.pgroups rp) = length (snd lg) ->
  length (Reconstruct.plookup rp) = nobs -> locs_wf rp ->
  nth_error (sort_samples W) z = Some s -> length (s_ids s) = length C -> k < nobs ->
  Reconstruct.E den (rp, Reconstruct.DV1 (map run (snd le))) z k
  = E_gen gh gsx env run den rp (pinfo_of table (fst lg)) (snd lg)
      (project_ids (sfx_of (length C) (pinfo_of table (fst lg))) (s_ids s)) k.
Proof.
  intros gh gsx env run den C table W nobs lg le rp z s k H1 H2 H3 H4.
  apply (generated_partition_exact gh gsx env run den C table W [rp] nobs); auto.
  intros rp0 [<-|[]]; auto.
Qed.

Theorem c01_generated_roundtrip_partial :
  forall gh gsx env run den (C : list (list Q)) table og (W : sdict) out (cq : list (Q * wkind)),
  core gh gsx env C table og W = Ok (out, cq) ->
  forall (rparts : list Reconstruct.part) (nobs : nat),
  Forall2 (fun lg rp => length (Reconstruct.pgroups rp) = length (snd lg)) og rparts ->
  (forall rp, In rp rparts -> length (Reconstruct.plookup rp) = nobs /\ locs_wf rp) ->
  forall full, Forall2 (entry_ok gh gsx env table (sort_samples W)) og full ->
  forall (term : jkey -> nat -> Q) (Ev : nat -> Q) pyint0,
  (forall k, k < nobs ->
     (Ev k == sumQ (map (fun ids => (coeff_prod C ids * term ids k)%Q) (all_maps (map (@length Q) C))))%Q) ->
  (forall ids k, In ids (all_maps (map (@length Q) C)) -> k < nobs ->
     (term ids k == part_prod (L_of (length C) table og) (E_all gh gsx env run den table og rparts) ids k)%Q) ->
  (forall v, In v C -> ~ (kappa_of v == 0)%Q) ->
  exact_weights C W ->
  (forall pd key, In pd (results_of run rparts full) -> In key (Reconstruct.keys_of (snd pd)) ->
     Reconstruct.outcome_to_int pyint0 key = Some (den key)) ->
  Reconstruct.res_Qeq (Reconstruct.reconstruct_parts pyint0 nobs (map fst cq) (results_of run rparts full))
                      (Ok (map Ev (seq 0 nobs))).
Proof. exact generated_roundtrip. Qed.

(* such a `full` exists and the returned dictionary is `full` without its empty entries (C05) *)
Theorem c01_generated_layout : forall gh gsx env C table og W out cq,
  core gh gsx env C table og W = Ok (out, cq) ->
  exists full, Forall2 (entry_ok gh gsx env table (sort_samples W)) og full /\
               out = filter (fun le => negb (Nat.eqb (length (snd le)) 0)) full.
Proof. exact core_layout. Qed.

(* the projection lists are derived from the subcircuits *)
Theorem c01_projection_lists :
  (forall d M og ncuts li lg qc,
     mapping_by_partition d = Ok M -> nth_error og li = Some lg -> alookup d (fst lg) = Some qc ->
     nth_error (L_of ncuts (table_of d M) og) li = Some (suffixes (mdata qc))) /\
  (forall ncuts qc ids groups,
     L_of ncuts [(label_A, mkPI qc ids None)] [(label_A, groups)] = [identity_sfx ncuts]).
Proof. split; [exact L_of_dict|exact L_of_single]. Qed.

(* from the PUBLIC model of generate_cutting_experiments: separated form ... *)
Theorem c01_generated_roundtrip_dict_partial :
  forall gh gsx env cenv d od NS W dd cq (run : Measurement.mcirc -> list (Reconstruct.key * Q)) (den : Reconstruct.key -> N),
  generate gh gsx env cenv (CDict d) (ODict od) NS W = Ok (OutDict dd, cq) ->
  let C := map (fun b => nth b cenv []) (bases_by_partition d) in
  exists M og full,
    mapping_by_partition d = Ok M /\ all_groups od = Ok og /\
    dd = filter (fun le => negb (Nat.eqb (length (snd le)) 0)) full /\
    Forall2 (entry_ok gh gsx env (table_of d M) (sort_samples W)) og full /\
    (forall li lg qc, nth_error og li = Some lg -> alookup d (fst lg) = Some qc ->
       nth_error (L_of (length C) (table_of d M) og) li = Some (suffixes (mdata qc))) /\
    forall (rparts : list Reconstruct.part) (nobs : nat) (term : jkey -> nat -> Q) (Ev : nat -> Q) pyint0,
    Forall2 (fun lg rp => length (Reconstruct.pgroups rp) = length (snd lg)) og rparts ->
    (forall rp, In rp rparts -> length (Reconstruct.plookup rp) = nobs /\ locs_wf rp) ->
    (forall k, k < nobs ->
       (Ev k == sumQ (map (fun ids => (coeff_prod C ids * term ids k)%Q) (all_maps (map (@length Q) C))))%Q) ->
    (forall ids k, In ids (all_maps (map (@length Q) C)) -> k < nobs ->
       (term ids k == part_prod (L_of (length C) (table_of d M) og)
                                (E_all gh gsx env run den (table_of d M) og rparts) ids k)%Q) ->
    (forall v, In v C -> ~ (kappa_of v == 0)%Q) ->
    exact_weights C W ->
    (forall pd key, In pd (results_of run rparts full) -> In key (Reconstruct.keys_of (snd pd)) ->
       Reconstruct.outcome_to_int pyint0 key = Some (den key)) ->
    Reconstruct.res_Qeq (Reconstruct.reconstruct_parts pyint0 nobs (map fst cq) (results_of run rparts full))
                        (Ok (map Ev (seq 0 nobs))).
Proof. exact generated_roundtrip_dict. Qed.

(* ... and unseparated form *)
Theorem c01_generated_roundtrip_single_partial :
  forall gh gsx env cenv qc gs NS W l cq (run : Measurement.mcirc -> list (Reconstruct.key * Q)) (den : Reconstruct.key -> N),
  generate gh gsx env cenv (CSingle qc) (OPaulis gs) NS W = Ok (OutList l, cq) ->
  exists groups bs ids,
    gs = Ok groups /\ get_bases 0 (mdata qc) = Ok (bs, ids) /\
    let C := map (fun b => nth b cenv []) bs in
    let table := [(label_A, mkPI qc ids None)] in
    let og := [(label_A, groups)] in
    forall (rp : Reconstruct.part) (nobs : nat) (term : jkey -> nat -> Q) (Ev : nat -> Q) pyint0,
    length (Reconstruct.pgroups rp) = length groups ->
    length (Reconstruct.plookup rp) = nobs -> locs_wf rp ->
    (forall k, k < nobs ->
       (Ev k == sumQ (map (fun ids => (coeff_prod C ids * term ids k)%Q) (all_maps (map (@length Q) C))))%Q) ->
    (forall ids k, In ids (all_maps (map (@length Q) C)) -> k < nobs ->
       (term ids k == part_prod [identity_sfx (length C)] (E_all gh gsx env run den table og [rp]) ids k)%Q) ->
    (forall v, In v C -> ~ (kappa_of v == 0)%Q) ->
    exact_weights C W ->
    (forall key, In key (Reconstruct.keys_of (Reconstruct.DV1 (map run l))) ->
       Reconstruct.outcome_to_int pyint0 key = Some (den key)) ->
    Reconstruct.res_Qeq (Reconstruct.reconstruct_parts pyint0 nobs (map fst cq) [(rp, Reconstruct.DV1 (map run l))])
                        (Ok (map Ev (seq 0 nobs))).
Proof. exact generated_roundtrip_single. Qed.

(* the chain on the weights dictionary that the C04 model returns for an infinite budget (c04_infinite /
   c01_weights_from_c04): the hypothesis exact_weights is discharged, no_subcutoff_map C remains *)
Theorem c01_generated_roundtrip_c04_partial :
  forall gh gsx env run den (C : list (list Q)) table og out (cq : list (Q * wkind)),
  no_subcutoff_map C ->
  core gh gsx env C table og (of_wdict (Weights.all_exact (probs_of C) 1)) = Ok (out, cq) ->
  forall (rparts : list Reconstruct.part) (nobs : nat),
  Forall2 (fun lg rp => length (Reconstruct.pgroups rp) = length (snd lg)) og rparts ->
  (forall rp, In rp rparts -> length (Reconstruct.plookup rp) = nobs /\ locs_wf rp) ->
  forall full, Forall2 (entry_ok gh gsx env table (sort_samples (of_wdict (Weights.all_exact (probs_of C) 1)))) og full ->
  forall (term : jkey -> nat -> Q) (Ev : nat -> Q) pyint0,
  (forall k, k < nobs ->
     (Ev k == sumQ (map (fun ids => (coeff_prod C ids * term ids k)%Q) (all_maps (map (@length Q) C))))%Q) ->
  (forall ids k, In ids (all_maps (map (@length Q) C)) -> k < nobs ->
     (term ids k == part_prod (L_of (length C) table og) (E_all gh gsx env run den table og rparts) ids k)%Q) ->
  (forall v, In v C -> ~ (kappa_of v == 0)%Q) ->
  (forall pd key, In pd (results_of run rparts full) -> In key (Reconstruct.keys_of (snd pd)) ->
     Reconstruct.outcome_to_int pyint0 key = Some (den key)) ->
  Reconstruct.res_Qeq (Reconstruct.reconstruct_parts pyint0 nobs (map fst cq) (results_of run rparts full))
                      (Ok (map Ev (seq 0 nobs))).
Proof. exact generated_roundtrip_c04. Qed.

(* the two steps separately: the postulates turn the uncut value into the cut value ... *)
Theorem c01_expansion :
  forall C L nobs term Ev E,
  (forall k, k < nobs ->
     (Ev k == sumQ (map (fun ids => (coeff_prod C ids * term ids k)%Q) (all_maps (map (@length Q) C))))%Q) ->
  (forall ids k, In ids (all_maps (map (@length Q) C)) -> k < nobs -> (term ids k == part_prod L E ids k)%Q) ->
  forall k, k < nobs -> (cut_value C L E k == Ev k)%Q.
Proof. exact cut_value_is_Ev. Qed.

(* ... and the code's sample list with the code's coefficients sums to the cut value (no physics involved) *)
Theorem c01_listed_samples :
  forall C L E W (cq : list (Q * wkind)),
  (forall v, In v C -> ~ (kappa_of v == 0)%Q) -> exact_weights C W ->
  Forall2 (fun s c => exists cs, chosen_coeffs C (s_ids s) = Ok cs /\
                                 c = (coeff_value (total_weight W) (kappa_all C) (s_w s) cs, s_t s))
          (sort_samples W) cq ->
  forall (F : nat -> Q) k,
  (forall z s, nth_error (sort_samples W) z = Some s -> (F z == part_prod L E (s_ids s) k)%Q) ->
  (sumQ (map (fun ic => (snd ic * F (fst ic))%Q) (enum (map fst cq))) == cut_value C L E k)%Q.
Proof. exact coefficient_sum. Qed.

(* the separated form on the PUBLIC function reconstruct_expectation_values (Model/Reconstruct.reconstruct): the key
   set and phase validations pass, each partition's results are found under its label *)
Theorem c01_roundtrip_public_partial :
  forall (C : list (list Q)) (L : list (list nat)) (term : jkey -> nat -> Q) (Ev : nat -> Q)
         (E : nat -> jkey -> nat -> Q) (W : sdict) (cq : list (Q * wkind)) pyint0 den
         (p0 : Reconstruct.part) (ps : list Reconstruct.part) (m : list (nat * Reconstruct.pdata)),
  let nobs := length (Reconstruct.plookup p0) in
  (forall k, k < nobs ->
     (Ev k == sumQ (map (fun ids => (coeff_prod C ids * term ids k)%Q) (all_maps (map (@length Q) C))))%Q) ->
  (forall ids k, In ids (all_maps (map (@length Q) C)) -> k < nobs -> (term ids k == part_prod L E ids k)%Q) ->
  (forall v, In v C -> ~ (kappa_of v == 0)%Q) ->
  exact_weights C W ->
  Forall2 (fun s c => exists cs, chosen_coeffs C (s_ids s) = Ok cs /\
                                 c = (coeff_value (total_weight W) (kappa_all C) (s_w s) cs, s_t s))
          (sort_samples W) cq ->
  (forall l, In l (map Reconstruct.plabel (p0 :: ps)) <-> In l (map fst m)) ->
  (forall p x, In p (p0 :: ps) -> In x (Reconstruct.pphases p) -> x = 0) ->
  length (p0 :: ps) = length L ->
  (forall p, In p (p0 :: ps) -> length (Reconstruct.plookup p) = nobs /\ locs_wf p) ->
  (forall p d, In p (p0 :: ps) -> Reconstruct.assoc m (Reconstruct.plabel p) = Some d ->
     Reconstruct.data_len d = length (map fst cq) * length (Reconstruct.pgroups p) /\
     (forall key, In key (Reconstruct.keys_of d) -> Reconstruct.outcome_to_int pyint0 key = Some (den key))) ->
  (forall li p d sfx z s k, nth_error (p0 :: ps) li = Some p -> Reconstruct.assoc m (Reconstruct.plabel p) = Some d ->
     nth_error L li = Some sfx -> nth_error (sort_samples W) z = Some s -> k < nobs ->
     (Reconstruct.E den (p, d) z k == E li (project_ids sfx (s_ids s)) k)%Q) ->
  Reconstruct.res_Qeq (Reconstruct.reconstruct pyint0 (Reconstruct.RMap m) (map fst cq) (Reconstruct.OMap (p0 :: ps)))
                      (Ok (map Ev (seq 0 nobs))).
Proof. exact roundtrip_public. Qed.

(* ------------------------------------------------------------------------------------------------
   3. the unseparated call form (cut gates marked in one circuit): the instance |L| = 1, label "A",
      projection = identity, stated on the public reconstruct with a PauliList / single result *)
Theorem c01_unseparated_partial :
  forall (C : list (list Q)) (nobs : nat) (term : jkey -> nat -> Q) (Ev : nat -> Q) (E0 : jkey -> nat -> Q)
         (W : sdict) (cq : list (Q * wkind)) pyint0 den (p : Reconstruct.part) (d : Reconstruct.pdata),
  (forall k, k < nobs ->
     (Ev k == sumQ (map (fun ids => (coeff_prod C ids * term ids k)%Q) (all_maps (map (@length Q) C))))%Q) ->
  (forall ids k, In ids (all_maps (map (@length Q) C)) -> k < nobs -> (term ids k == E0 ids k)%Q) ->
  (forall v, In v C -> ~ (kappa_of v == 0)%Q) ->
  exact_weights C W ->
  Forall2 (fun s c => exists cs, chosen_coeffs C (s_ids s) = Ok cs /\
                                 c = (coeff_value (total_weight W) (kappa_all C) (s_w s) cs, s_t s))
          (sort_samples W) cq ->
  (forall x, In x (Reconstruct.pphases p) -> x = 0) ->
  Reconstruct.data_len d = length (map fst cq) * length (Reconstruct.pgroups p) ->
  length (Reconstruct.plookup p) = nobs -> locs_wf p ->
  (forall key, In key (Reconstruct.keys_of d) -> Reconstruct.outcome_to_int pyint0 key = Some (den key)) ->
  (forall z s k, nth_error (sort_samples W) z = Some s -> k < nobs ->
     (Reconstruct.E den (p, d) z k == E0 (s_ids s) k)%Q) ->
  Reconstruct.res_Qeq (Reconstruct.reconstruct pyint0 (Reconstruct.RLeaf d) (map fst cq) (Reconstruct.OList p))
                      (Ok (map Ev (seq 0 nobs))).
Proof. exact unseparated. Qed.

Theorem c01_identity_projection : forall ids, project_ids (identity_sfx (length ids)) ids = ids.
Proof. exact project_identity. Qed.

(* ------------------------------------------------------------------------------------------------
   4. maps below the cut-off.  The code skips a joint map iff its probability is below 1e-14 and normalises the
      coefficients by the total weight that is left.  If the dictionary lists SOME maps (each once, exact
      probability) and every omitted map has probability <= cutoff, then with D = #omitted maps:
        total weight = 1 - delta,  0 <= delta <= D * cutoff;
        (value computed with the code's coefficients) * (1 - delta) = Ev k - lost k;
        |lost k| <= D * cutoff * kappa * B     whenever |term ids k| <= B on the omitted maps.
      Hence |computed - Ev| <= (delta |Ev| + D cutoff kappa B) / (1 - delta): of order D * 1e-14 * kappa.
      (c01_roundtrip_partial itself assumes no such map: exact_weights.)
      NOTE (_partial): conjunct 2 is an identity about the EXPRESSION sum_{s in W} coeff_value(..) * part_prod L E (s_ids s) k —
      the estimator's sum written with the code's coefficient formula —, not about the output of `core` /
      reconstruct_parts; it uses P1 and P2+P3; the final bound |computed - Ev| <= .. is a consequence left in this comment. *)
Theorem c01_subcutoff_partial :
  forall (C : list (list Q)) (L : list (list nat)) (nobs : nat) (term : jkey -> nat -> Q) (Ev : nat -> Q)
         (E : nat -> jkey -> nat -> Q),
  (forall k, k < nobs ->
     (Ev k == sumQ (map (fun ids => (coeff_prod C ids * term ids k)%Q) (all_maps (map (@length Q) C))))%Q) ->
  (forall ids k, In ids (all_maps (map (@length Q) C)) -> k < nobs -> (term ids k == part_prod L E ids k)%Q) ->
  (forall v, In v C -> ~ (kappa_of v == 0)%Q) ->
  forall (W : sdict) (cutoff : Q),
  NoDup (map s_ids W) ->
  (forall s, In s W -> In (s_ids s) (all_maps (map (@length Q) C)) /\
                       (s_w s == joint_prob (probs_of C) (s_ids s))%Q) ->
  (forall ids, In ids (dropped C W) -> (joint_prob (probs_of C) ids <= cutoff)%Q) ->
  let D := inject_Z (Z.of_nat (length (dropped C W))) in
  let delta := sumQ (map (joint_prob (probs_of C)) (dropped C W)) in
  ((sumQ (map s_w W) == 1 - delta)%Q /\ (0 <= delta)%Q /\ (delta <= D * cutoff)%Q) /\
  (forall k, k < nobs -> (0 < sumQ (map s_w W))%Q ->
     (sumQ (map (fun s => (coeff_value (total_weight W) (kappa_all C) (s_w s)
                             (map (fun p => nth (snd p) (fst p) 0%Q) (combine C (s_ids s)))
                           * part_prod L E (s_ids s) k)%Q) W)
      * sumQ (map s_w W) == Ev k - lost C term W k)%Q) /\
  (forall k B, (forall ids, In ids (dropped C W) -> (Qabs (term ids k) <= B)%Q) -> (0 <= cutoff)%Q ->
     (Qabs (lost C term W k) <= D * (cutoff * kappa_all C * B))%Q).
Proof.
  intros C L nobs term Ev E P1 P23 Hk W cutoff Hnd Hl Hd. split; [|split].
  - exact (subcutoff_total C Hk W cutoff Hnd Hl Hd).
  - intros k. exact (subcutoff_identity C L nobs term Ev E P1 P23 Hk W Hnd Hl k).
  - intros k B. exact (subcutoff_lost_bound C term Hk W cutoff Hd k B).
Qed.

(* ------------------------------------------------------------------------------------------------
   5. the weights hypothesis comes from C04: with an infinite budget the C04 model returns `all_exact probs 1`
      (c04_infinite), and when no joint map has a probability strictly between 0 and the cut-off that dictionary
      satisfies exact_weights *)
Theorem c01_weights_from_c04 : forall C perms tape,
  no_subcutoff_map C ->
  Forall (Forall (fun x => (0 <= x)%Q)) (probs_of C) ->
  Forall (fun v => exists x, In x v /\ (Extracted.Facts.nonzero_atol < x)%Q) (probs_of C) ->
  Weights.gen_weights (probs_of C) perms Weights.PInf tape = Some (Ok (Weights.all_exact (probs_of C) 1)) /\
  exact_weights C (of_wdict (Weights.all_exact (probs_of C) 1)).
Proof.
  intros C perms tape Hno Hnn Hbig. split; [now apply WeightsGen.infinite_budget|now apply all_exact_is_exact_weights].
Qed.

(* ------------------------------------------------------------------------------------------------
   6. idle qubits: a request whose observable is non-identity on a qubit that partitioning drops (label None:
      explicit, or automatic for an idle qubit) is never answered — whatever the rest of the pipeline (`rest` =
      generate ; run ; reconstruct) would do — and otherwise the observables are accepted (C10) *)
Theorem c01_idle_refusal :
  forall (A : Type) basis_of relabel dx n ncl ncr c labels ps p q (rest : Partition.problem -> res A) v,
  In p ps -> q < n -> nth q (labels_used n c labels) None = None -> nth q (plets p) 0 <> 0 ->
  res_bind (partition_problem basis_of relabel dx n ncl ncr c labels (Some ps)) rest <> Ok v.
Proof. intros A. exact (@idle_refusal A). Qed.

(* sharper: the first stage answers Refused (ValueError) — unless an earlier stage of partition_problem itself crashed *)
Theorem c01_idle_refused :
  forall basis_of relabel dx n ncl ncr c labels ps p q,
  In p ps -> q < length (labels_used n c labels) ->
  nth q (labels_used n c labels) None = None -> nth q (plets p) 0 <> 0 ->
  partition_problem basis_of relabel dx n ncl ncr c labels (Some ps) = Refused \/
  partition_circuit_qubits basis_of n c (labels_used n c labels) = Crashed \/
  exists qc, partition_circuit_qubits basis_of n c (labels_used n c labels) = Ok qc /\
             Separate.separate_circuit n [] (dx (fst (number_qpd relabel qc 0))) (Some (labels_used n c labels)) = Crashed.
Proof. exact idle_refused. Qed.

Theorem c01_idle_rule : forall ls ps,
  (forall p q, In p ps -> q < length ls -> nth q ls None = None -> nth q (plets p) 0 <> 0 ->
     pipeline_refuses ls ps = true) /\
  ((forall p q, In p ps -> q < length ls -> nth q ls None = None -> nth q (plets p) 0 = 0) ->
   (forall p, In p ps -> length (plets p) = length ls) -> pipeline_refuses ls ps = false).
Proof.
  intros ls ps. destruct (idle_observable_spec ls ps) as (H1 & H2). unfold pipeline_refuses. split.
  - intros p q Hp Hq Hn Hz. now rewrite (H1 p q Hp Hq Hn Hz).
  - intros Ha Hb. destruct (H2 Ha Hb) as (so & ->). reflexivity.
Qed.

(* ------------------------------------------------------------------------------------------------
   6b. what the boolean structure checks of the correspondence (Corr/C01Corr.v) establish about one run of the
       implementation: the sample list is duplicate-free, inside the product space, contains every joint map of
       probability >= hi and none below lo; every coefficient is the product of the chosen coefficients within tol*kappa *)
Theorem c01_checker_sound : forall C lo hi tol (samples : list (jkey * Q)),
  support_ok C lo hi (map fst samples) = true -> coeffs_ok C tol samples = true ->
  NoDup (map fst samples) /\ incl (map fst samples) (all_maps (map (@length Q) C)) /\
  (forall ids, In ids (map fst samples) -> (lo <= map_prob C ids)%Q) /\
  (forall ids, In ids (all_maps (map (@length Q) C)) -> ~ In ids (map fst samples) -> (map_prob C ids < hi)%Q) /\
  (forall s, In s samples -> (Qabs (snd s - coeff_prod C (fst s)) <= tol * kappa_all C)%Q).
Proof.
  intros C lo hi tol samples H1 H2. destruct (support_ok_sound C lo hi _ H1) as (A & B & D & F).
  repeat (split; [assumption|]). now apply coeffs_ok_sound.
Qed.

(* ------------------------------------------------------------------------------------------------
   7. NON-VACUITY: a concrete problem on which every hypothesis of c01_roundtrip_partial holds and everything is computed
      exactly inside Coq.   Circuit  h 0 ; cx 0 1  on two qubits, partitions A = {qubit 0} | B = {qubit 1}, the cx is
      cut with the REAL basis of Model/Bases.v (six maps, coefficients +-1/2), observables ZZ, XX, IZ.
        Ev          from the exact Pauli-transfer matrix of cx (Common/Ptm.v) applied to the Bell circuit
        term, E     from the one-qubit PTMs of the maps' operations; a QPD measurement is the instrument
                    rho -> P0 rho P0 - P1 rho P1 (the (-1)^outcome sign, P3)
        results     every one of the 6 x 2 + 6 x 2 subexperiments is SIMULATED by the C13 model of ExactSampler over
                    the exact state-vector simulator Common/QSim.v (outcome distributions over the observable bit 0
                    and the QPD bit 1), then decoded by the C06 model *)
From CKT Require Import Common.PolyRing Common.Ptm Common.QSim Model.Bases Model.Sim.

Module Ex.
  Import Reconstruct.
  Definition uenv0 : nat -> list (list (Q * Q)) := fun _ => [].
  Definition M1 (s : list op1) : list (list (Q * Q)) := ptm_seq QR uenv0 s.
  Definition col (v : list (Q * Q)) : list (list (Q * Q)) := map (fun x => [x]) v.
  Definition v0 := col [r1 QR; r0 QR; r0 QR; r1 QR].                (* |0><0| in Pauli coordinates (I,X,Y,Z) *)
  (* rational part / irrational part (coefficient of 1/sqrt 2) of component i of a column vector *)
  Definition comp (V : list (list (Q * Q))) (i : nat) : Q := fst (nth 0 (nth i V []) (r0 QR)).
  Definition irr (V : list (list (Q * Q))) (i : nat) : Q := snd (nth 0 (nth i V []) (r0 QR)).

  Definition terms : list term := basis_terms "cx".                   (* Model/Bases.v *)
  Definition dterm : term := (e0, [], []).
  Definition s0_of (m : nat) : list op1 := snd (fst (nth m terms dterm)).   (* operations on the control (qubit 0) *)
  Definition s1_of (m : nat) : list op1 := snd (nth m terms dterm).         (* operations on the target (qubit 1) *)
  Definition C : list (list Q) := [map (fun t => fst (ceval QR (fst (fst t)))) terms].
  Definition L : list (list nat) := [[0]; [0]].                      (* each partition holds one half of cut 0 *)
  (* letters of ZZ, XX, IZ on (qubit 0, qubit 1); Qiskit's label "IZ" has Z on qubit 0 *)
  Definition obs : list (nat * nat) := [(3, 3); (1, 1); (3, 0)].
  Definition a0 (k : nat) := fst (nth k obs (0, 0)).
  Definition a1 (k : nat) := snd (nth k obs (0, 0)).

  (* after h on qubit 0 *)
  Definition prepared : list (list (Q * Q)) := mmul QR (kron QR (ident QR 4) (M1 [OH])) (kron QR v0 v0).
  Definition Ev (k : nat) : Q := comp (mmul QR (ptm_unitary2 QR U_cx) prepared) (4 * a1 k + a0 k).
  Definition term_ (ids : jkey) (k : nat) : Q :=
    let m := nth 0 ids 0 in
    comp (mmul QR (kron QR (M1 (s1_of m)) (M1 (s0_of m))) prepared) (4 * a1 k + a0 k).
  Definition E_ (li : nat) (pids : jkey) (k : nat) : Q :=
    let m := nth 0 pids 0 in
    match li with
    | 0 => comp (mmul QR (M1 (s0_of m)) (mmul QR (M1 [OH]) v0)) (a0 k)
    | _ => comp (mmul QR (M1 (s1_of m)) v0) (a1 k)
    end.

  (* the weights dictionary of generate_qpd_weights(bases, inf): six maps of probability (1/2)/3 *)
  Definition W : sdict := map (fun m => ([m], ((1 # 6)%Q, KExact))) (seq 0 6).
  Definition cq : list (Q * wkind) :=
    map (fun s => (coeff_value (total_weight W) (kappa_all C) (s_w s) [nth (nth 0 (s_ids s) 0) (nth 0 C []) 0%Q], s_t s))
        (sort_samples W).

  (* the subexperiments as programs of the C13 model; observable bit = clbit 0, QPD bit = clbit 1 *)
  Definition gate_of (o : op1) : list (pinstr qgate) :=
    match o with
    | OH => [PGate Gh [0]] | OS => [PGate Gs [0]] | OSdg => [PGate Gsdg [0]] | OZ => [PGate Gz [0]]
    | OX => [PGate Gx [0]] | OY => [PGate Gy [0]] | OSX => [PGate Gsx [0]] | OSXdg => [PGate Gsxdg [0]]
    | OMeas => [PMeasure 0 1]
    | _ => []
    end.
  Definition rotation (letter : nat) : list (pinstr qgate) := match letter with 1 => [PGate Gh [0]] | _ => [] end.
  Definition exp_A (m g : nat) : list (pinstr qgate) :=      (* group 0 measures Z, group 1 measures X *)
    [PGate Gh [0]] ++ flat_map gate_of (s0_of m) ++ rotation (match g with 0 => 3 | _ => 1 end) ++ [PMeasure 0 0].
  Definition exp_B (m g : nat) : list (pinstr qgate) :=      (* group 0 = {Z, I} measures Z, group 1 measures X *)
    flat_map gate_of (s1_of m) ++ rotation (match g with 0 => 3 | _ => 1 end) ++ [PMeasure 0 0].
  Definition sim (p : list (pinstr qgate)) : list (key * Q) :=
    match qsimulate (1 # 10000000000000000)%Q 1 p with
    | Ok l => map (fun kp => (KInt (fst kp), snd kp)) l
    | _ => []
    end.
  Definition data (e : nat -> nat -> list (pinstr qgate)) : pdata :=
    DV1 (flat_map (fun m => [sim (e m 0); sim (e m 1)]) (seq 0 6)).       (* index m*2 + g *)
  Definition pA : part := mkPart 0 [0; 0; 0] [(1, [1%N]); (1, [1%N])] [[(0, 0)]; [(1, 0)]; [(0, 0)]].
  Definition pB : part := mkPart 1 [0; 0; 0] [(1, [1%N; 0%N]); (1, [1%N])] [[(0, 0)]; [(1, 0)]; [(0, 1)]].
  Definition pds : list (part * pdata) := Eval vm_compute in [(pA, data exp_A); (pB, data exp_B)].
  Definition den (k : key) : N := match outcome_to_int pyint0_ref k with Some n => n | None => 0%N end.
End Ex.

(* the basis really is the six-map cx basis, all quantities are rational (no 1/sqrt 2 left) *)
Definition all_rational (V : list (list (Q * Q))) : bool :=
  forallb (fun row => forallb (fun x => Qeq_bool (snd x) 0) row) V.
Example c01_ex_basis :
  Ex.C = [[1 # 2; 1 # 2; 1 # 2; - (1 # 2); 1 # 2; - (1 # 2)]%Q] /\
  map Ex.s0_of (seq 0 6) = [[OSdg]; [OS]; [OSdg; OMeas]; [OSdg; OMeas]; []; [OZ]] /\
  map Ex.s1_of (seq 0 6) = [[OH; OSdg; OH]; [OH; OS; OH]; []; [OH; OZ; OH]; [OH; OSdg; OMeas; OH]; [OH; OSdg; OMeas; OH]] /\
  all_rational (Ptm.mmul QR (ptm_unitary2 QR U_cx) Ex.prepared) = true.
Proof. split; [|split; [|split]]; vm_compute; reflexivity. Qed.

(* P1 and P2+P3 hold for this instance, and the uncut values are <ZZ> = 1, <XX> = 1, <IZ> = 0 *)
Example c01_hyps_satisfiable :
  (forall k, k < 3 ->
     (Ex.Ev k == sumQ (map (fun ids => (coeff_prod Ex.C ids * Ex.term_ ids k)%Q) (all_maps (map (@length Q) Ex.C))))%Q) /\
  (forall ids k, In ids (all_maps (map (@length Q) Ex.C)) -> k < 3 ->
     (Ex.term_ ids k == part_prod Ex.L Ex.E_ ids k)%Q) /\
  list_beq Qeq_bool (map Ex.Ev (seq 0 3)) [1; 1; 0]%Q = true.
Proof.
  split; [|split].
  - intros [|[|[|k]]] Hk; [vm_compute; reflexivity..|lia].
  - intros ids k Hin Hk. vm_compute in Hin.
    repeat (destruct Hin as [<-|Hin]; [destruct k as [|[|[|k]]]; [vm_compute; reflexivity..|lia]|]). destruct Hin.
  - vm_compute. reflexivity.
Qed.

(* the bookkeeping hypotheses hold for this instance *)
Example c01_ex_bookkeeping :
  (forall v, In v Ex.C -> ~ (kappa_of v == 0)%Q) /\
  exact_weights Ex.C Ex.W /\
  Forall2 (fun s c => exists cs, chosen_coeffs Ex.C (s_ids s) = Ok cs /\
                                 c = (coeff_value (total_weight Ex.W) (kappa_all Ex.C) (s_w s) cs, s_t s))
          (sort_samples Ex.W) Ex.cq /\
  list_beq Qeq_bool (map fst Ex.cq) [1 # 2; 1 # 2; 1 # 2; - (1 # 2); 1 # 2; - (1 # 2)]%Q = true.
Proof.
  split; [|split; [|split]].
  - intros v [<-|[]]. vm_compute. discriminate.
  - split; [|split].
    + vm_compute. repeat constructor; simpl; intuition discriminate.
    + intros s Hs. vm_compute in Hs.
      repeat (destruct Hs as [<-|Hs]; [split; [vm_compute; tauto|vm_compute; reflexivity]|]). destruct Hs.
    + intros ids Hin _. vm_compute in Hin. vm_compute. tauto.
  - unfold Ex.cq. change (sort_samples Ex.W) with (map (fun m => ([m], ((1 # 6)%Q, KExact))) (seq 0 6)).
    cbn [seq map]. repeat constructor; (eexists; split; [reflexivity|reflexivity]).
  - vm_compute. reflexivity.
Qed.

(* the simulated results satisfy the shape and exactness hypotheses: every decoded partition value equals the PTM
   value of the projected map — the instrument algebra of Common/Ptm.v and the branch simulation of C13 agree *)
Example c01_ex_results :
  length Ex.pds = length Ex.L /\
  (forall pd, In pd Ex.pds ->
     Reconstruct.data_len (snd pd) = length (map fst Ex.cq) * length (Reconstruct.pgroups (fst pd))) /\
  (forall pd, In pd Ex.pds -> length (Reconstruct.plookup (fst pd)) = 3 /\ locs_wf (fst pd)) /\
  (forall pd key, In pd Ex.pds -> In key (Reconstruct.keys_of (snd pd)) ->
     Reconstruct.outcome_to_int Reconstruct.pyint0_ref key = Some (Ex.den key)) /\
  (forall li pd sfx z s k,
     nth_error Ex.pds li = Some pd -> nth_error Ex.L li = Some sfx ->
     nth_error (sort_samples Ex.W) z = Some s -> k < 3 ->
     (Reconstruct.E Ex.den pd z k == Ex.E_ li (project_ids sfx (s_ids s)) k)%Q).
Proof.
  split; [reflexivity|split; [|split; [|split]]].
  - intros pd [<-|[<-|[]]]; vm_compute; reflexivity.
  - intros pd [<-|[<-|[]]]; (split; [reflexivity|]);
      (split; [|intros locs HL; cbn in HL; repeat (destruct HL as [<-|HL]; [discriminate|]); destruct HL]);
      intros locs m n HL HM; cbn in HL;
      repeat (destruct HL as [<-|HL]; [cbn in HM; repeat (destruct HM as [HM|HM]; [inversion HM; subst; cbn; lia|]); destruct HM|]);
      destruct HL.
  - intros pd key [<-|[<-|[]]] HK; vm_compute in HK;
      repeat (destruct HK as [<-|HK]; [reflexivity|]); destruct HK.
  - intros li pd sfx z s k Hpd Hsfx Hs Hk.
    destruct li as [|[|li]]; [| |destruct li; discriminate]; inversion Hpd; inversion Hsfx; subst; clear Hpd Hsfx;
      (destruct z as [|[|[|[|[|[|z]]]]]]; [| | | | | |destruct z; discriminate]; inversion Hs; subst; clear Hs;
       (destruct k as [|[|[|k]]]; [vm_compute; reflexivity..|lia])).
Qed.

(* hence the theorem applies, and the value it predicts is the one the C06 model computes on the simulated results *)
Example c01_ex_roundtrip :
  Reconstruct.res_Qeq (Reconstruct.reconstruct_parts Reconstruct.pyint0_ref 3 (map fst Ex.cq) Ex.pds)
                      (Ok (map Ex.Ev (seq 0 3))).
Proof.
  destruct c01_hyps_satisfiable as (P1 & P23 & _).
  destruct c01_ex_bookkeeping as (Hk & HW & Hcq & _).
  destruct c01_ex_results as (H1 & H2 & H3 & H4 & H5).
  exact (c01_roundtrip_partial Ex.C Ex.L 3 Ex.term_ Ex.Ev Ex.E_ P1 P23 Ex.W Ex.cq Hk HW Hcq
           Reconstruct.pyint0_ref Ex.den Ex.pds H1 H2 H3 H4 H5).
Qed.

Example c01_ex_value :
  Reconstruct.reconstruct_parts Reconstruct.pyint0_ref 3 (map fst Ex.cq) Ex.pds = Ok [1; 1; 0]%Q.
Proof. vm_compute. reflexivity. Qed.

(* NON-VACUITY of the chain theorem: the two-partition / two-cut request of C05's example (partition 7 holds half 0 of
   cut 0 and both halves of cut 1, partition 9 the other half of cut 0 and an identity group), all four joint maps with
   their exact probabilities, some exact evaluation `run`.  The call succeeds, the projection lists are the label
   suffixes, the structural hypotheses hold, and with term/Ev DEFINED by the right-hand sides of P2+P3 / P1 the theorem
   yields the reconstructed values (for the physics itself see c01_hyps_satisfiable above). *)
Module Ex2.
  Definition B0 : basis := [ ([BGate 10], [BGate 11]); ([BMeas], [BGate 12]) ].
  Definition B1 : basis := [ ([BMeas; BReset], [BReset; BGate 13]); ([BGate 14; BReset], [BReset]) ].
  Definition env : benv := [B0; B1].
  Definition cenv : list (list Q) := [ [1 # 2; - (1 # 2)]%Q ; [1; -1]%Q ].
  Definition L0 : qlabel := Some (0, Some 0).
  Definition L1 : qlabel := Some (0, Some 1).
  Definition cA : mcirc :=
    mkMC 2 0 [] [ mkI (Gate 1) [0] []; mkI (Qpd1 0 0 None L0) [0] []; mkI (Gate 2) [0; 1] [];
                  mkI (Qpd1 1 0 None L1) [1] []; mkI (Qpd1 1 1 None L1) [0] [] ].
  Definition cB : mcirc := mkMC 1 0 [] [ mkI (Qpd1 0 1 None L0) [0] []; mkI (Gate 3) [0] []; mkI Reset [0] [] ].
  Definition d : list (nat * mcirc) := [(7, cA); (9, cB)].
  Definition od : list (nat * res (list ogroup)) :=
    [ (7, Ok [mkOG [3; 1] [0; 1]]); (9, Ok [mkOG [0] []; mkOG [2] [0]]) ].
  Definition W : sdict :=
    [ ([0; 0], ((1 # 4)%Q, KExact)); ([0; 1], ((1 # 4)%Q, KExact)); ([1; 0], ((1 # 4)%Q, KExact)); ([1; 1], ((1 # 4)%Q, KExact)) ].
  Definition C : list (list Q) := map (fun b => nth b cenv []) (bases_by_partition d).
  (* an "exact sampler": any function of the circuit will do for the bookkeeping *)
  Definition run (e : mcirc) : list (Reconstruct.key * Q) :=
    [ (Reconstruct.KInt (N.of_nat (length (mdata e))), (3 # 4)%Q); (Reconstruct.KInt 1, (1 # 4)%Q) ].
  Definition den (k : Reconstruct.key) : N := match k with Reconstruct.KInt n => n | _ => 0%N end.
  (* reconstruction's view: partition 7 one group of two members, partition 9 two groups; two observables *)
  Definition rparts : list Reconstruct.part :=
    [ Reconstruct.mkPart 7 [0; 0] [(2, [3; 1]%N)] [[(0, 0)]; [(0, 1)]];
      Reconstruct.mkPart 9 [0; 0] [(0, [0%N]); (1, [1%N])] [[(1, 0)]; [(0, 0)]] ].
End Ex2.

Example c01_ex_generated :
  exists dd cq M og full,
    generate 20 21 Ex2.env Ex2.cenv (CDict Ex2.d) (ODict Ex2.od) NPosInf Ex2.W = Ok (OutDict dd, cq) /\
    mapping_by_partition Ex2.d = Ok M /\ all_groups Ex2.od = Ok og /\
    Forall2 (entry_ok 20 21 Ex2.env (table_of Ex2.d M) (sort_samples Ex2.W)) og full /\
    L_of (length Ex2.C) (table_of Ex2.d M) og = [[0; 1; 1]; [0]] /\
    Forall2 (fun lg rp => length (Reconstruct.pgroups rp) = length (snd lg)) og Ex2.rparts /\
    (forall rp, In rp Ex2.rparts -> length (Reconstruct.plookup rp) = 2 /\ locs_wf rp) /\
    (forall v, In v Ex2.C -> ~ (kappa_of v == 0)%Q) /\ exact_weights Ex2.C Ex2.W /\
    Reconstruct.res_Qeq
      (Reconstruct.reconstruct_parts Reconstruct.pyint0_ref 2 (map fst cq) (results_of Ex2.run Ex2.rparts full))
      (Ok (map (cut_value Ex2.C (L_of (length Ex2.C) (table_of Ex2.d M) og)
                          (E_all 20 21 Ex2.env Ex2.run Ex2.den (table_of Ex2.d M) og Ex2.rparts)) (seq 0 2))).
Proof.
  destruct (generate 20 21 Ex2.env Ex2.cenv (CDict Ex2.d) (ODict Ex2.od) NPosInf Ex2.W) as [[[l|dd] cq]| |] eqn:Eg;
    try (vm_compute in Eg; discriminate).
  destruct (c01_generated_roundtrip_dict_partial _ _ _ _ _ _ _ _ _ _ Ex2.run Ex2.den Eg)
    as (M & og & full & HM & Hog & Hdd & HF & HL & Hmain).
  assert (EM : M = [(7, ([[1]; [3]; [4]], [0; 1; 1])); (9, ([[0]], [0]))]) by (vm_compute in HM; now inversion HM).
  assert (Eog : og = [(7, [mkOG [3; 1] [0; 1]]); (9, [mkOG [0] []; mkOG [2] [0]])]) by (vm_compute in Hog; now inversion Hog).
  subst M og.
  assert (Hk : forall v, In v Ex2.C -> ~ (kappa_of v == 0)%Q).
  { intros v Hv. vm_compute in Hv. destruct Hv as [<-|[<-|[]]]; discriminate. }
  assert (HW : exact_weights Ex2.C Ex2.W).
  { split; [|split].
    - repeat constructor; simpl; intuition discriminate.
    - intros s [<-|[<-|[<-|[<-|[]]]]]; (split; [vm_compute; tauto|reflexivity]).
    - intros ids Hin _. vm_compute in Hin. vm_compute. tauto. }
  assert (G1 : Forall2 (fun lg rp => length (Reconstruct.pgroups rp) = length (snd lg))
                 [(7, [mkOG [3; 1] [0; 1]]); (9, [mkOG [0] []; mkOG [2] [0]])] Ex2.rparts) by (repeat constructor).
  assert (G2 : forall rp, In rp Ex2.rparts -> length (Reconstruct.plookup rp) = 2 /\ locs_wf rp).
  { intros rp [<-|[<-|[]]]; (split; [reflexivity|]);
      (split; [|intros locs HLo; cbn in HLo; repeat (destruct HLo as [<-|HLo]; [discriminate|]); destruct HLo]);
      intros locs m n HLo HMn; cbn in HLo;
      repeat (destruct HLo as [<-|HLo]; [cbn in HMn; repeat (destruct HMn as [HMn|HMn]; [inversion HMn; subst; cbn; lia|]); destruct HMn|]);
      destruct HLo. }
  exists dd, cq. eexists. eexists. exists full. split; [reflexivity|split; [exact HM|split; [exact Hog|split; [exact HF|]]]].
  split; [reflexivity|split; [exact G1|split; [exact G2|split; [exact Hk|split; [exact HW|]]]]].
  match goal with |- Reconstruct.res_Qeq _ (Ok (map (cut_value _ ?Lx ?Ex) _)) =>
    apply (Hmain Ex2.rparts 2 (fun ids k => part_prod Lx Ex ids k) (cut_value Ex2.C Lx Ex) Reconstruct.pyint0_ref G1 G2) end.
  - intros k _. reflexivity.
  - intros ids k _ _. reflexivity.
  - exact Hk.
  - exact HW.
  - intros pd key Hpd Hkey. unfold results_of in Hpd.
    assert (Hrun : forall e key0, In key0 (map fst (Ex2.run e)) -> Reconstruct.outcome_to_int Reconstruct.pyint0_ref key0 = Some (Ex2.den key0)).
    { intros e key0 [<-|[<-|[]]]; reflexivity. }
    destruct pd as [rp dta]. apply in_combine_r in Hpd. apply in_map_iff in Hpd as (le & <- & _).
    cbn [snd Reconstruct.keys_of] in Hkey.
    apply in_map_iff in Hkey as (kp & <- & Hkp). apply in_concat in Hkp as (qd & Hqd & Hkp).
    apply in_map_iff in Hqd as (e & <- & _). apply (Hrun e). now apply in_map.
Qed.

(* NON-VACUITY OF THE CHAIN WITH REAL PHYSICS: the same problem  h 0 ; cx 0 1  cut between A | B, but now the
   subexperiments are the ones the C05 MODEL GENERATES (generate on the two subcircuits with their one-qubit
   placeholders, the cx basis of Model/Bases.v as the basis environment), `run` is the C13 model of ExactSampler over the
   exact simulator Common/QSim.v applied to each generated circuit, E_all is the C06 decode of those results, and
   Ev / term are the PTM values of Common/Ptm.v (Ex.Ev, Ex.term_).  P1 was checked in c01_hyps_satisfiable; here
   P2+P3 OVER THE GENERATED CIRCUITS is checked by computation, and the chain theorem yields <ZZ>, <XX>, <IZ> = 1, 1, 0. *)
Module Ex3.
  Definition bop_of (o : op1) : bop :=
    match o with OH => BGate 1 | OSdg => BGate 2 | OS => BGate 3 | OZ => BGate 4 | OMeas => BMeas | _ => BReset end.
  Definition env : benv := [map (fun m => (map bop_of (Ex.s0_of m), map bop_of (Ex.s1_of m))) (seq 0 6)].
  Definition L0 : qlabel := Some (0, Some 0).
  Definition cA : mcirc := mkMC 1 0 [] [ mkI (Gate 1) [0] []; mkI (Qpd1 0 0 None L0) [0] [] ].     (* h ; control half *)
  Definition cB : mcirc := mkMC 1 0 [] [ mkI (Qpd1 0 1 None L0) [0] [] ].                           (* target half *)
  Definition d : list (nat * mcirc) := [(0, cA); (1, cB)].
  Definition od : list (nat * res (list ogroup)) :=
    [ (0, Ok [mkOG [3] [0]; mkOG [1] [0]]); (1, Ok [mkOG [3] [0]; mkOG [1] [0]]) ].      (* a Z group and an X group each *)
  (* the exact sampler on a generated circuit: interned gate ids -> QSim gates (20 / 21 are the H / SX of the
     measurement rotations), then the C13 model *)
  Definition qgate_of (g : nat) : option qgate :=
    match g with 1 => Some Gh | 2 => Some Gsdg | 3 => Some Gs | 4 => Some Gz | 20 => Some Gh | 21 => Some Gsx | _ => None end.
  Definition pinstr_of (i : instr) : list (pinstr qgate) :=
    match iop i, iqs i, ics i with
    | Gate g, qs, _ => match qgate_of g with Some q => [PGate q qs] | None => [] end
    | Measure, [q], [c] => [PMeasure q c]
    | Reset, [q], _ => [PReset q]
    | _, _, _ => []
    end.
  Definition run (e : mcirc) : list (Reconstruct.key * Q) :=
    match qsimulate (1 # 10000000000000000)%Q (mnq e) (flat_map pinstr_of (mdata e)) with
    | Ok l => map (fun kp => (Reconstruct.KInt (fst kp), snd kp)) l
    | _ => []
    end.
  Definition rparts : list Reconstruct.part := [Ex.pA; Ex.pB].
  Definition M : mapping := [(0, ([[1]], [0])); (1, ([[0]], [0]))].
  Definition og : list (nat * list ogroup) := [(0, [mkOG [3] [0]; mkOG [1] [0]]); (1, [mkOG [3] [0]; mkOG [1] [0]])].
End Ex3.

Example c01_ex_chain :
  exists dd cq M og full,
    generate 20 21 Ex3.env Ex.C (CDict Ex3.d) (ODict Ex3.od) NPosInf Ex.W = Ok (OutDict dd, cq) /\
    mapping_by_partition Ex3.d = Ok M /\ all_groups Ex3.od = Ok og /\
    dd = full /\ L_of 1 (table_of Ex3.d M) og = [[0]; [0]] /\
    (* P2+P3 over the circuits the model generates, by computation *)
    (forall ids k, In ids (all_maps (map (@length Q) Ex.C)) -> k < 3 ->
       (Ex.term_ ids k == part_prod (L_of 1 (table_of Ex3.d M) og)
                                    (E_all 20 21 Ex3.env Ex3.run Ex.den (table_of Ex3.d M) og Ex3.rparts) ids k)%Q) /\
    Reconstruct.res_Qeq
      (Reconstruct.reconstruct_parts Reconstruct.pyint0_ref 3 (map fst cq) (results_of Ex3.run Ex3.rparts full))
      (Ok (map Ex.Ev (seq 0 3))) /\
    Reconstruct.reconstruct_parts Reconstruct.pyint0_ref 3 (map fst cq) (results_of Ex3.run Ex3.rparts full) = Ok [1; 1; 0]%Q.
Proof.
  destruct (generate 20 21 Ex3.env Ex.C (CDict Ex3.d) (ODict Ex3.od) NPosInf Ex.W) as [[[l|dd] cq]| |] eqn:Eg;
    try (vm_compute in Eg; discriminate).
  assert (EC : map (fun b => nth b Ex.C []) (bases_by_partition Ex3.d) = Ex.C) by reflexivity.
  destruct (c01_generated_roundtrip_dict_partial _ _ _ _ _ _ _ _ _ _ Ex3.run Ex.den Eg)
    as (M & og & full & HM & Hog & Hdd & HF & HL & Hmain).
  rewrite EC in Hmain.
  assert (EM : M = Ex3.M) by (vm_compute in HM; now inversion HM).
  assert (Eog : og = Ex3.og) by (vm_compute in Hog; now inversion Hog).
  subst M og.
  destruct c01_hyps_satisfiable as (P1 & _ & _).
  destruct c01_ex_bookkeeping as (Hk & HW & _ & _).
  destruct c01_ex_results as (_ & _ & G2' & _ & _).
  assert (G1 : Forall2 (fun lg rp => length (Reconstruct.pgroups rp) = length (snd lg)) Ex3.og Ex3.rparts) by (repeat constructor).
  assert (G2 : forall rp, In rp Ex3.rparts -> length (Reconstruct.plookup rp) = 3 /\ locs_wf rp).
  { intros rp [<-|[<-|[]]]; [apply (G2' (Ex.pA, Ex.data Ex.exp_A))|apply (G2' (Ex.pB, Ex.data Ex.exp_B))]; cbn; auto. }
  assert (P23 : forall ids k, In ids (all_maps (map (@length Q) Ex.C)) -> k < 3 ->
     (Ex.term_ ids k == part_prod (L_of 1 (table_of Ex3.d Ex3.M) Ex3.og)
                                  (E_all 20 21 Ex3.env Ex3.run Ex.den (table_of Ex3.d Ex3.M) Ex3.og Ex3.rparts) ids k)%Q).
  { intros ids k Hin Hlt. vm_compute in Hin.
    repeat (destruct Hin as [<-|Hin]; [destruct k as [|[|[|k]]]; [vm_compute; reflexivity..|lia]|]). destruct Hin. }
  assert (Hkeys : forall pd key, In pd (results_of Ex3.run Ex3.rparts full) -> In key (Reconstruct.keys_of (snd pd)) ->
            Reconstruct.outcome_to_int Reconstruct.pyint0_ref key = Some (Ex.den key)).
  { intros [rp dta] key Hpd Hkey. unfold results_of in Hpd. apply in_combine_r in Hpd. apply in_map_iff in Hpd as (le & <- & _).
    cbn [snd Reconstruct.keys_of] in Hkey.
    apply in_map_iff in Hkey as (kp & <- & Hkp). apply in_concat in Hkp as (qd & Hqd & Hkp).
    apply in_map_iff in Hqd as (e & <- & _). unfold Ex3.run in Hkp.
    destruct (qsimulate _ _ _) as [r| |]; [|destruct Hkp..]. apply in_map_iff in Hkp as (kq & <- & _). reflexivity. }
  pose proof (Hmain Ex3.rparts 3 Ex.term_ Ex.Ev Reconstruct.pyint0_ref G1 G2 P1 P23 Hk HW Hkeys) as Hres.
  assert (Efull : dd = full).
  { rewrite Hdd. clear -HF. symmetry.
    inversion HF as [|lg1 le1 og1 f1 H1 HF1]; subst. inversion HF1 as [|lg2 le2 og2 f2 H2 HF2]; subst. inversion HF2; subst.
    destruct H1 as (_ & C1 & _), H2 as (_ & C2 & _). cbn [filter].
    rewrite C1, C2. reflexivity. }
  exists dd, cq. eexists. eexists. exists full.
  split; [reflexivity|split; [exact HM|split; [exact Hog|split; [exact Efull|split; [reflexivity|split; [exact P23|split; [exact Hres|]]]]]]].
  (* the value itself, by running the models *)
  assert (Ecq : map fst cq = map fst Ex.cq /\ full = dd) by (split; [vm_compute in Eg; inversion Eg; reflexivity|now symmetry]).
  destruct Ecq as (-> & ->). vm_compute in Eg. inversion Eg; subst dd. vm_compute. reflexivity.
Qed.

(* a dropped-map instance for c01_subcutoff_partial: listing only five of the six maps loses exactly the sixth term *)
Example c01_ex_dropped :
  dropped Ex.C (firstn 5 Ex.W) = [[5]] /\
  (lost Ex.C Ex.term_ (firstn 5 Ex.W) 0 == - (1 # 2) * Ex.term_ [5%nat] 0)%Q.
Proof. split; vm_compute; reflexivity. Qed.

(* c01_subcutoff_partial applied: five of the six maps listed, cut-off 1/6 — total weight 5/6, lost = the sixth term *)
Example c01_ex_subcutoff :
  let W5 := firstn 5 Ex.W in
  ((sumQ (map s_w W5) == 1 - sumQ (map (joint_prob (probs_of Ex.C)) (dropped Ex.C W5)))%Q /\
   (sumQ (map (joint_prob (probs_of Ex.C)) (dropped Ex.C W5)) <= inject_Z (Z.of_nat (length (dropped Ex.C W5))) * (1 # 6))%Q) /\
  (sumQ (map (fun s => (coeff_value (total_weight W5) (kappa_all Ex.C) (s_w s)
                          (map (fun p => nth (snd p) (fst p) 0%Q) (combine Ex.C (s_ids s)))
                        * part_prod Ex.L Ex.E_ (s_ids s) 0)%Q) W5)
   * sumQ (map s_w W5) == Ex.Ev 0 - lost Ex.C Ex.term_ W5 0)%Q.
Proof.
  intros W5. destruct c01_hyps_satisfiable as (P1 & P23 & _). destruct c01_ex_bookkeeping as (Hk & _).
  assert (Hnd : NoDup (map s_ids W5)) by (vm_compute; repeat constructor; simpl; intuition discriminate).
  assert (Hl : forall s, In s W5 -> In (s_ids s) (all_maps (map (@length Q) Ex.C)) /\
                                   (s_w s == joint_prob (probs_of Ex.C) (s_ids s))%Q).
  { intros s Hs. vm_compute in Hs.
    repeat (destruct Hs as [<-|Hs]; [split; [vm_compute; tauto|vm_compute; reflexivity]|]). destruct Hs. }
  assert (Hd : forall ids, In ids (dropped Ex.C W5) -> (joint_prob (probs_of Ex.C) ids <= 1 # 6)%Q).
  { intros ids Hi. vm_compute in Hi. destruct Hi as [<-|[]]. vm_compute. discriminate. }
  destruct (c01_subcutoff_partial Ex.C Ex.L 3 Ex.term_ Ex.Ev Ex.E_ P1 P23 Hk W5 (1 # 6)%Q Hnd Hl Hd) as ((T1 & _ & T3) & Hid & _).
  split; [split; [exact T1|exact T3]|]. apply Hid; [lia|vm_compute; reflexivity].
Qed.

(* c01_weights_from_c04 applied to the cx basis: the C04 model returns all six maps with probability 1/6 *)
Example c01_ex_weights_from_c04 :
  no_subcutoff_map Ex.C /\
  Weights.gen_weights (probs_of Ex.C) [] Weights.PInf [] = Some (Ok (Weights.all_exact (probs_of Ex.C) 1)) /\
  exact_weights Ex.C (of_wdict (Weights.all_exact (probs_of Ex.C) 1)) /\
  length (Weights.all_exact (probs_of Ex.C) 1) = 6.
Proof.
  assert (Hno : no_subcutoff_map Ex.C).
  { intros ids Hin. vm_compute in Hin. right.
    repeat (destruct Hin as [<-|Hin]; [vm_compute; discriminate|]). destruct Hin. }
  destruct (c01_weights_from_c04 Ex.C [] [] Hno) as (H1 & H2).
  - repeat constructor; vm_compute; discriminate.
  - repeat constructor. exists (nth 0 (nth 0 (probs_of Ex.C) []) 0%Q). split; [left; reflexivity|vm_compute; reflexivity].
  - split; [exact Hno|split; [exact H1|split; [exact H2|vm_compute; reflexivity]]].
Qed.

(* the premise of c01_generated_roundtrip_single_partial is satisfiable non-trivially: two cut gates marked in one
   circuit, two commuting groups, the four joint maps: 4 x 2 = 8 subexperiments, coefficients +-1/2 *)
Example c01_ex_single_premise :
  exists l cq,
    generate 20 21 Ex2.env Ex2.cenv
      (CSingle (mkMC 2 0 [] [ mkI (Gate 1) [0] []; mkI (Qpd2 0 None None) [0; 1] []; mkI (Qpd2 1 None None) [1; 0] [] ]))
      (OPaulis (Ok [mkOG [3; 1] [0; 1]; mkOG [2; 2] [0; 1]])) NPosInf Ex2.W = Ok (OutList l, cq) /\
    length l = 8 /\ length cq = 4.
Proof. eexists. eexists. split; [vm_compute; reflexivity|]. split; reflexivity. Qed.

(* the refusal on the whole first stage, F4 witness: h 0; cx 0 1 on three qubits, automatic labels; ZZZ is Refused,
   IZZ is answered (letters by qubit index) *)
Example c01_ex_idle_problem :
  let bo := fun o : op => match o with Gate 1 => Some (0, Some (5, None)) | _ => None end in
  let rl := fun l : qlabel => match l with Some (b, _) => b | None => 9 end in
  let c := [mkI (Gate 0) [0] []; mkI (Gate 1) [0; 1] []] in
  partition_problem bo rl expand_qpd2 3 0 0 c None (Some [mkP 0 [3; 3; 3]]) = Refused /\
  is_ok (partition_problem bo rl expand_qpd2 3 0 0 c None (Some [mkP 0 [3; 3; 0]])) = true /\
  nth 2 (labels_used 3 c None) None = None.
Proof. repeat split; reflexivity. Qed.

(* the idle rule on the F4 witness class: labels A A None; IZZ is accepted, ZZZ refused (letters by qubit index) *)
Example c01_ex_idle :
  pipeline_refuses [Some 0; Some 0; None] [mkP 0 [3; 3; 0]] = false /\
  pipeline_refuses [Some 0; Some 0; None] [mkP 0 [3; 3; 3]] = true.
Proof. split; reflexivity. Qed.

Print Assumptions c01_all_maps.
Print Assumptions c01_support_sum.
Print Assumptions c01_multilinear.
Print Assumptions c01_c05_vocabulary.
Print Assumptions c01_roundtrip_partial.
Print Assumptions c01_roundtrip_generated_partial.
Print Assumptions c01_generated_exact_results.
Print Assumptions c01_generated_roundtrip_partial.
Print Assumptions c01_generated_layout.
Print Assumptions c01_projection_lists.
Print Assumptions c01_generated_roundtrip_dict_partial.
Print Assumptions c01_generated_roundtrip_single_partial.
Print Assumptions c01_generated_roundtrip_c04_partial.
Print Assumptions c01_expansion.
Print Assumptions c01_listed_samples.
Print Assumptions c01_roundtrip_public_partial.
Print Assumptions c01_unseparated_partial.
Print Assumptions c01_identity_projection.
Print Assumptions c01_subcutoff_partial.
Print Assumptions c01_weights_from_c04.
Print Assumptions c01_idle_refusal.
Print Assumptions c01_idle_refused.
Print Assumptions c01_idle_rule.
Print Assumptions c01_checker_sound.
Print Assumptions c01_hyps_satisfiable.
Print Assumptions c01_ex_roundtrip.
Print Assumptions c01_ex_generated.
Print Assumptions c01_ex_chain.

(* ---------------- tie to the source (regenerated facts) ---------------- *)
From CKT Require Import Extracted.Facts.
Open Scope string_scope.
(* the cut-off of the weights generator, the coefficient product and the projection expression of
   generate_cutting_experiments, and the repaired idle-group handling of partition_problem are those composed here *)
Theorem c01_facts :
  (nonzero_atol == 1 # 100000000000000)%Q /\
  nth 3 c05_formulas "" = "np.prod([basis.coeffs[map_id] for basis, map_id in strict_zip(bases, map_ids)])" /\
  nth 5 c05_formulas "" = "map_ids;tuple((map_ids[j] for j in subcirc_map_ids[label]))" /\
  c10_idle_group_removed = true.
Proof. repeat split; reflexivity. Qed.
Print Assumptions c01_facts.

(* Properties/C11.v — Observable grouping and measurement circuits measure what they claim.
   Only theorem statements closed by `exact`, non-vacuity examples, Print Assumptions, facts obligation.

   Partial in one respect only: the step from "instruction suffix" to "outcome statistics" is the
   Born/Heisenberg hypothesis (a Section Hypothesis, instantiated on a concrete two-qubit state in the
   c11_ex_born examples).  It is stated twice: about the abstract rotations `rotation_of` on the subsystem
   (c11_expectation), and about the records read off the appended instruction suffix itself, with the interned
   gate ids interpreted as matrices and qubit_locations taken into account (c11_expectation_circuit).  Everything else (grouping, indices, masks, decoding, rotation
   signs, suffix, refusals) is proved for all sizes. *)
From Coq Require Import Sorted QArith.
From CKT Require Import Common.Base Common.Circ Model.Observables Model.Grouping Model.Measurement
                        Proofs.GroupingP Proofs.MeasurementP
                        Model.GroupingGreedy Proofs.GroupingGreedyP Proofs.BornTwoQubitP Proofs.C11ComposeP.
Close Scope Q_scope.

(* ---------------------------------------------------------------------------------------------
   grouping
   --------------------------------------------------------------------------------------------- *)

(* Every input observable has at least one lookup location; a location (i, j) is listed under p
   exactly when member j of group i is p (so each location holds exactly its key, and every member
   is recorded); lookup keys are distinct; group members are the oracle's groups in order. *)
Theorem c11_cover : forall obs o cogs lk,
  collection obs o = Ok (cogs, lk) ->
  map cg_members cogs = o_groups o /\
  NoDup (map fst lk) /\
  (forall p i j, (exists locs, lookup_find p lk = Some locs /\ In (i, j) locs) <->
                 (exists c, nth_error cogs i = Some c /\ nth_error (cg_members c) j = Some p)) /\
  (grouping_contract obs o = true ->
   forall p, In p obs -> exists locs, lookup_find p lk = Some locs /\ locs <> []).
Proof.
  intros obs o cogs lk H. destruct (collection_spec _ _ _ _ H) as (_ & M & _ & ND & _ & LOC).
  repeat split; try assumption; try apply LOC.
  intros K p Hp. destruct (collection_cover _ _ _ _ H K p Hp) as [locs [H1 [H2 _]]]. eauto.
Qed.

(* every group of a built collection went through most_general_observable and __post_init__ *)
Theorem c11_groups_built : forall obs o cogs lk,
  collection obs o = Ok (cogs, lk) ->
  forall i c, nth_error cogs i = Some c ->
    most_general_observable (cg_members c) None = Ok (cg_general c) /\
    cog_post_init (cg_general c) (cg_members c) = Ok (cg_indices c, cg_masks c).
Proof. intros obs o cogs lk H. exact (proj1 (proj2 (proj2 (collection_spec _ _ _ _ H)))). Qed.

(* phase-free input + the oracle contract: the collection is built (never refused, never crashes) *)
Theorem c11_total : forall obs o,
  obs <> [] -> (forall p, In p obs -> pphase p = 0) -> grouping_contract obs o = true ->
  exists cogs lk, collection obs o = Ok (cogs, lk).
Proof. exact collection_total. Qed.

(* The oracle contract is inhabited for EVERY input of equal width: duplicate removal + first-fit greedy grouping
   (Model/GroupingGreedy.v, a reference implementation, not Qiskit's graph colouring) satisfies it ... *)
Theorem c11_contract_inhabited : forall obs,
  same_width (match obs with [] => 0 | p :: _ => length (plets p) end) obs = true ->
  grouping_contract obs (greedy_oracle obs) = true.
Proof. exact greedy_contract. Qed.

(* ... so with the reference oracle the collection of any non-empty, phase-free, equally wide list is built and covers
   every observable, each listed location holding exactly it: no oracle hypothesis left *)
Theorem c11_collection_reference_oracle : forall obs,
  obs <> [] -> (forall p, In p obs -> pphase p = 0) ->
  same_width (match obs with [] => 0 | p :: _ => length (plets p) end) obs = true ->
  exists cogs lk, collection obs (greedy_oracle obs) = Ok (cogs, lk) /\
    forall p, In p obs -> exists locs, lookup_find p lk = Some locs /\ locs <> [] /\
      forall i j, In (i, j) locs -> exists c, nth_error cogs i = Some c /\ nth_error (cg_members c) j = Some p.
Proof. exact greedy_collection. Qed.

(* every member letter is I or equals the general observable's letter; all widths agree *)
Theorem c11_compatible : forall group nq g,
  most_general_observable group nq = Ok g ->
  pphase g = 0 /\
  (forall m, In m group -> length (plets m) = length (plets g)) /\
  forall m i, In m group -> nth i (plets m) 0 = 0 \/ nth i (plets m) 0 = nth i (plets g) 0.
Proof.
  intros group nq g H. destruct (mgo_sound _ _ _ H) as (_ & P & L & W & C & _).
  split; [assumption|]. split; [|assumption]. intros m Hm. rewrite L. apply W; assumption.
Qed.

(* the general observable is non-identity exactly where some member is *)
Theorem c11_general_minimal : forall group nq g,
  most_general_observable group nq = Ok g ->
  forall i, nth i (plets g) 0 <> 0 <-> exists m, In m group /\ nth i (plets m) 0 <> 0.
Proof. intros group nq g H. exact (proj2 (proj2 (proj2 (proj2 (proj2 (mgo_sound _ _ _ H)))))). Qed.

(* most_general_observable accepts exactly the non-empty, equally wide, pairwise qubit-wise
   compatible sequences; every other input is refused with ValueError (never another exception) *)
Theorem c11_mgo_accepts_iff : forall group nq,
  (exists g, most_general_observable group nq = Ok g) <->
  group <> [] /\ (forall m, In m group -> length (plets m) = mgo_width group nq) /\ pairwise_compatible group.
Proof. exact mgo_ok_iff. Qed.

Theorem c11_mgo_never_crashes : forall group nq, most_general_observable group nq <> Crashed.
Proof. exact mgo_no_crash. Qed.

(* pauli_indices = ascending non-identity positions of the general observable;
   bit i of mask j is set iff member j is non-identity at pauli_indices[i]; members are phase-free *)
Theorem c11_indices_masks : forall g members idx masks,
  cog_post_init g members = Ok (idx, masks) ->
  idx = filter (nonid (plets g)) (seq 0 (length (plets g))) /\
  StronglySorted lt idx /\
  (forall q, In q idx <-> q < length (plets g) /\ nth q (plets g) 0 <> 0) /\
  length masks = length members /\
  forall j m, nth_error members j = Some m ->
    pphase m = 0 /\
    mask_of (plets m) idx = Some (nth j masks 0%N) /\
    forall i, N.testbit (nth j masks 0%N) (N.of_nat i) = true <->
              i < length idx /\ nth (nth i idx 0) (plets m) 0 <> 0.
Proof.
  intros g members idx masks H. destruct (cog_post_init_spec _ _ _ _ H) as (A & B & C & D & E).
  split; [exact A|]. split; [exact B|]. split; [exact C|]. split; [exact D|].
  intros j m Hm. destruct (E j m Hm) as [P [v [Hv [Mv S]]]]. split; [exact P|].
  rewrite (nth_error_nth _ _ _ Hv). split; [exact Mv|exact S].
Qed.

(* together with c11_compatible: for a group built by the collection, the bits of mask j select exactly the support of
   member j (support inside pauli_indices) *)
Theorem c11_mask_is_support : forall g members idx masks,
  cog_post_init g members = Ok (idx, masks) ->
  forall j m, nth_error members j = Some m -> member_of (plets g) (plets m) ->
    map (fun i => nth i idx 0) (filter (fun i => N.testbit (nth j masks 0%N) (N.of_nat i)) (seq 0 (length idx)))
    = support (plets m).
Proof. exact mask_selects_support. Qed.

(* a member with a phase is refused *)
Theorem c11_cog_refuses_phase : forall g members,
  (forall m, In m members -> length (plets m) = length (plets g)) ->
  (exists m, In m members /\ pphase m <> 0) ->
  cog_post_init g members = Refused.
Proof. exact cog_post_init_refuses. Qed.

(* ---------------------------------------------------------------------------------------------
   decoding
   --------------------------------------------------------------------------------------------- *)

(* For every outcome word b of the observable register (bit i = the bit measured from qubit
   pauli_indices[i]):  prod_{q in supp(member)} (-1)^{b_q}  =  1 - 2 (popcount(b & mask_member) & 1). *)
Theorem c11_decode : forall g members idx masks,
  cog_post_init g members = Ok (idx, masks) ->
  forall j m, nth_error members j = Some m ->
    member_of (plets g) (plets m) ->
    forall b : N,
      sign_product (outcome_bit idx b) (support (plets m)) = decode (nth j masks 0%N) b.
Proof.
  intros g members idx masks H j m Hm HM b.
  destruct (cog_post_init_spec _ _ _ _ H) as (_ & _ & _ & _ & E).
  destruct (E j m Hm) as [_ [v [Hv [Mv _]]]]. rewrite (nth_error_nth _ _ _ Hv).
  unfold cog_post_init in H. destruct (masks_loop _ members); simpl in H; try discriminate.
  inversion H; subst idx. apply decode_member; assumption.
Qed.

(* members of a group accepted by most_general_observable satisfy member_of *)
Theorem c11_members_are_members : forall group nq g m,
  most_general_observable group nq = Ok g -> In m group -> member_of (plets g) (plets m).
Proof.
  intros group nq g m H Hm. destruct (c11_compatible _ _ _ H) as (_ & W & C).
  split; [apply W; assumption|]. intros q. apply C; assumption.
Qed.

(* ---------------------------------------------------------------------------------------------
   rotation signs: exact 2x2 computation over Z[i] (U = M / sqrt d)
   --------------------------------------------------------------------------------------------- *)

(* H and SX as specified are unitary, and in the Heisenberg picture
      H† Z H = +X      SX† Z SX = +Y      (no rotation: Z)
   i.e. measuring Z after the appended rotation measures the general observable's letter with sign +.
   Also as Pauli-transfer matrices (rows/columns I, X, Y, Z; entries scaled by 2d). *)
Theorem c11_rotation_signs :
  gram gH = mscale 2 mI /\ gram gSX = mscale 4 mI /\
  heis_num gH mZ = mscale 2 mX /\
  heis_num gSX mZ = mscale 4 mY /\
  heis_num gId mZ = mZ /\
  (forall l, 1 <= l <= 3 -> measured_letter l = (1%Z, l)) /\
  map (fun a => ptm_num gH a 3) [0; 1; 2; 3] = [(0, 0); (4, 0); (0, 0); (0, 0)]%Z /\
  map (fun a => ptm_num gSX a 3) [0; 1; 2; 3] = [(0, 0); (0, 0); (8, 0); (0, 0)]%Z.
Proof.
  repeat split; try reflexivity. intros l Hl. apply measured_letter_valid. lia.
Qed.

(* negative: had the code appended SXdg for Y, the decoded sign would be wrong *)
Example c11_sxdg_flips_sign :
  heis_num gSXdg mZ = mscale (-4) mY /\ signed_pauli_of gSXdg mZ = Some ((-1)%Z, 2).
Proof. split; reflexivity. Qed.

(* ---------------------------------------------------------------------------------------------
   measurement register and suffix
   --------------------------------------------------------------------------------------------- *)

(* the register step appends, as last register, exactly len(pauli_indices or [0]) fresh bits *)
Theorem c11_register : forall qc idx,
  existsb fst (mcregs qc) = false ->
  let k := length (pauli_indices_or_dummy idx) in
  append_measurement_register qc idx
    = Ok (mkMC (mnq qc) (mnc qc + k) (mcregs qc ++ [(true, seq (mnc qc) k)]) (mdata qc)) /\
  1 <= k.
Proof. exact append_register_spec. Qed.

(* the suffix: for clbit i, subqubit s = pauli_indices[i]:  (H if X | SX if Y | nothing) on
   qubit_locations[s], then Measure qubit_locations[s] -> register bit i *)
Theorem c11_suffix : forall gh gsx g idx locs bits,
  measurement_suffix gh gsx g idx locs bits =
  flat_map (fun ci => rotation_instrs gh gsx (nth (snd ci) g 0) (nth (snd ci) locs 0)
                      ++ [mkI Measure [nth (snd ci) locs 0] [nth (fst ci) bits 0]])
           (combine (seq 0 (length (pauli_indices_or_dummy idx))) (pauli_indices_or_dummy idx)).
Proof. exact measurement_suffix_spec. Qed.

(* a well-formed request succeeds and only appends that suffix *)
Theorem c11_measure_ok : forall gh gsx qc g idx locs bits,
  count_ok qc g locs -> find_obs_creg (mcregs qc) = Some bits ->
  length bits = length (pauli_indices_or_dummy idx) ->
  let ls := match locs with None => seq 0 (length g) | Some l => l end in
  (forall s, In s (pauli_indices_or_dummy idx) -> s < length ls /\ nth s ls 0 < mnq qc) ->
  append_measurement_circuit gh gsx qc g idx locs
  = Ok (mkMC (mnq qc) (mnc qc) (mcregs qc) (mdata qc ++ measurement_suffix gh gsx g idx ls bits)).
Proof. exact append_circuit_ok. Qed.

(* the refusal classes in the order of the code: qubit count (identity map), qubit count (qubit_locations),
   missing register, register size *)
Theorem c11_meas_refuses : forall gh gsx qc g idx,
  (mnq qc <> length g -> append_measurement_circuit gh gsx qc g idx None = Refused) /\
  (forall locs, length locs <> length g -> append_measurement_circuit gh gsx qc g idx (Some locs) = Refused) /\
  (forall locs, count_ok qc g locs -> find_obs_creg (mcregs qc) = None ->
     append_measurement_circuit gh gsx qc g idx locs = Refused) /\
  (forall locs bits, count_ok qc g locs -> find_obs_creg (mcregs qc) = Some bits ->
     length bits <> length (pauli_indices_or_dummy idx) ->
     append_measurement_circuit gh gsx qc g idx locs = Refused).
Proof.
  intros. split; [apply append_circuit_refuses_count_none|].
  split; [apply append_circuit_refuses_count_locs|].
  split; [apply append_circuit_refuses_no_register|apply append_circuit_refuses_size].
Qed.

(* The suffix interpreted: if the interned ids gh / gsx denote the matrices of H / SX, then walking the appended
   suffix (composing the gates applied to a qubit since its last measurement) finds, for clbit position i and
   subqubit s = pauli_indices_or_dummy[i], exactly one Z-measurement of circuit qubit qubit_locations[s] into register
   bit i, preceded by U = rotation_of (letter of s), i.e. a measurement of U† Z U (read off the 2x2 matrix). *)
Theorem c11_suffix_semantics : forall sem gh gsx g idx locs bits,
  sem gh = gH -> sem gsx = gSX ->
  readout sem (fun _ => gId) (measurement_suffix gh gsx g idx locs bits)
  = map (fun ci => (nth (snd ci) locs 0, nth (fst ci) bits 0,
                    signed_pauli_of (rotation_of (nth (snd ci) g 0)) mZ))
        (combine (seq 0 (length (pauli_indices_or_dummy idx))) (pauli_indices_or_dummy idx)).
Proof. exact readout_measurement_suffix. Qed.

(* _process_outcome splits the outcome word at the width of the observable register
   (len(pauli_indices) or 1 for the dummy): low part decoded with the masks, parity of the high part as QPD factor *)
Theorem c11_process_outcome : forall idx masks obs qpd,
  let k := N.of_nat (length (pauli_indices_or_dummy idx)) in
  (obs < 2 ^ k)%N ->
  process_outcome idx masks (obs + qpd * 2 ^ k)
  = map (fun m => (sgn (Nat.odd (popcount qpd)) * decode m obs)%Z) masks.
Proof. exact process_outcome_split. Qed.

(* ---------------------------------------------------------------------------------------------
   expectation values
   --------------------------------------------------------------------------------------------- *)
Section Expectation.
  Open Scope Q_scope.
  (* state functional on Pauli strings (one letter per qubit of the subsystem) *)
  Variable ev : list nat -> Q.
  (* letters of the general observable; pauli_indices = nonid_positions g *)
  Variable g : list nat.
  (* outcome law [(word, probability)] of the observable register of the measurement circuit *)
  Variable law : list (N * Q).

  (* Born rule + Heisenberg picture for local rotations U_q = rotation_of g_q followed by Z-measurements:
     for every sub-selection S of the measured qubits
        E_law[ prod_{q in S} (-1)^{b_q} ] = ev( (x)_{q in S} U_q† Z U_q )                                 *)
  Hypothesis Born : forall sel : nat -> bool,
    let idx := nonid_positions g in
    let S := filter sel idx in
    expect law (fun b => sign_product (outcome_bit idx b) S)
    == inject_Z (heis_sign g S) * ev (heis_letters g S).
  Hypothesis Letters : valid_letters g.

  (* the value decoded with the recorded bitmask is the true expectation value of every member *)
  Theorem c11_expectation : forall m mask,
    member_of g m -> mask_of m (nonid_positions g) = Some mask ->
    expect law (decode mask) == ev m.
  Proof. exact (expectation_member ev g law Born Letters). Qed.
End Expectation.

(* The same at circuit level.  The hypothesis now speaks about the instruction suffix actually appended:
   its measurement records under a gate interpretation `sem`, the register's clbits and the circuit's qubits. *)
Section ExpectationCircuit.
  Open Scope Q_scope.
  Variable sem : nat -> gate2.              (* interned gate id -> matrix (M / sqrt d) *)
  Variables gh gsx : nat.
  Variable ev_c : list nat -> Q.            (* state functional on Pauli strings over the circuit's qubits *)
  Variable nqc : nat.                       (* number of circuit qubits *)
  Variable g : list nat.                    (* letters of the general observable (subsystem qubits) *)
  Variable locs : list nat.                 (* qubit_locations *)
  Variable bits : list nat.                 (* clbits of the observable_measurements register *)
  Variable law : list (N * Q).              (* outcome law of that register *)

  Hypothesis SemH : sem gh = gH.
  Hypothesis SemSX : sem gsx = gSX.
  Hypothesis Letters : valid_letters g.
  Hypothesis LocsInjective : NoDup locs.
  Hypothesis LocsLength : length locs = length g.
  Hypothesis BitsDistinct : NoDup bits.
  Hypothesis BitsLength : length bits = length (pauli_indices_or_dummy (nonid_positions g)).
  (* Born rule + Heisenberg picture for the appended suffix: for every sub-selection S of its measurement records
       E_law[ prod_{r in S} (-1)^{bit of r's clbit} ] = sign(S) * ev_c( the records' Paulis on their circuit qubits ) *)
  Hypothesis BornCircuit :
    born_circuit ev_c nqc
      (readout sem (fun _ => gId) (measurement_suffix gh gsx g (nonid_positions g) locs bits)) bits law.

  (* the value decoded with the recorded bitmask is the expectation value of the member placed on the circuit's
     qubits through qubit_locations *)
  Theorem c11_expectation_circuit : forall m mask,
    (forall q, In q locs -> (q < nqc)%nat) ->       (* every location is a circuit qubit: embed_letters loses nothing *)
    member_of g m -> mask_of m (nonid_positions g) = Some mask ->
    expect law (decode mask) == ev_c (embed_letters nqc locs m).
  Proof.
    intros m mask _.
    exact (expectation_circuit sem gh gsx ev_c nqc g locs bits law SemH SemSX Letters LocsInjective LocsLength
             BitsDistinct BitsLength BornCircuit m mask).
  Qed.
End ExpectationCircuit.

(* ABSTRACT ROTATIONS: law_st2 applies `rotation_of (letter)` to each qubit of the full two-qubit state (identity
   qubit_locations, pure state, no other clbits); it is NOT computed from the instruction list.  The link from the
   appended instructions to rotation_of is c11_suffix_semantics; the circuit-level discharge is
   c11_born_circuit_two_qubits below.
   The hypothesis DISCHARGED on two qubits (bound in the statement): for EVERY non-zero two-qubit state vector with
   Gaussian-integer amplitudes (by scaling: Gaussian-rational amplitudes) and EVERY general observable on two qubits
   (all 16 letter combinations, incl. identity letters and the dummy), the outcome law computed from the state vector
   after the appended rotations (H for X, SX for Y) satisfies `born` with ev = <psi|.|psi>/<psi|psi>.
   Symbolic in the 8 integer coordinates of the state (polynomial identities), not an evaluation on samples. *)
Theorem c11_born_two_qubits_abstract_rotations : forall (s : st2) (g : list nat),
  st2_nonzero s -> length g = 2 -> valid_letters g -> born (ev_st2 s) g (law_st2 s g).
Proof. exact born_two_qubits. Qed.

(* hence on two qubits the decoded value IS the expectation value of every member: no physical hypothesis left *)
Theorem c11_expectation_two_qubits_abstract_rotations : forall (s : st2) (g : list nat),
  st2_nonzero s -> length g = 2 -> valid_letters g ->
  forall m mask, member_of g m -> mask_of m (nonid_positions g) = Some mask ->
    Qeq (expect (law_st2 s g) (decode mask)) (ev_st2 s m).
Proof. exact expectation_two_qubits. Qed.

(* the law used there is normalised *)
Theorem c11_law_two_qubits_abstract_rotations_normalised : forall (s : st2) (g : list nat),
  st2_nonzero s -> length g = 2 -> valid_letters g -> Qeq (expect (law_st2 s g) (fun _ => 1%Z)) 1%Q.
Proof. exact law_st2_total. Qed.

(* CIRCUIT LEVEL on two qubits (bound in the statement): the law is obtained by EXECUTING the instruction list returned
   by the measurement model (`exec2`: gate ids interpreted by `sem`, measurements recorded per clbit) on the state vector,
   for qubit_locations [0;1] and [1;0] and the register at clbits 0..k-1.  Swapping H and SX in the suffix would falsify
   it.  Every non-zero Gaussian-integer state, every general observable (16 letter pairs incl. the dummy). *)
Theorem c11_born_circuit_two_qubits : forall sem gh gsx (s : st2) (g locs : list nat),
  sem gh = gH -> sem gsx = gSX -> st2_nonzero s -> length g = 2 -> valid_letters g ->
  locs = [0; 1] \/ locs = [1; 0] ->
  let idx := nonid_positions g in
  let bits := seq 0 (length (pauli_indices_or_dummy idx)) in
  let suffix := measurement_suffix gh gsx g idx locs bits in
  born_circuit (ev_st2 s) 2 (readout sem (fun _ => gId) suffix) bits (law_exec2 sem suffix bits s).
Proof. exact born_circuit_two_qubits. Qed.

(* ... hence executing the appended suffix and decoding with the recorded mask yields the expectation value of the member
   placed on the circuit through qubit_locations: no physical hypothesis left (two qubits, pure states, no QPD bits) *)
Theorem c11_expectation_circuit_two_qubits : forall sem gh gsx (s : st2) (g locs : list nat),
  sem gh = gH -> sem gsx = gSX -> st2_nonzero s -> length g = 2 -> valid_letters g ->
  locs = [0; 1] \/ locs = [1; 0] ->
  let idx := nonid_positions g in
  let bits := seq 0 (length (pauli_indices_or_dummy idx)) in
  let suffix := measurement_suffix gh gsx g idx locs bits in
  forall m mask, member_of g m -> mask_of m idx = Some mask ->
    Qeq (expect (law_exec2 sem suffix bits s) (decode mask)) (ev_st2 s (embed_letters 2 locs m)).
Proof. exact expectation_circuit_two_qubits. Qed.

(* COMPOSITION (collection -> lookup -> group -> masks -> _process_outcome -> expectation of an INPUT observable):
   for every input observable p there is a lookup location (i, j) holding it such that, for every state functional and
   every outcome law of group i's observable register (words without QPD bits) satisfying the Born/Heisenberg
   hypothesis for that group's general observable, the mean of the j-th entry of _process_outcome is ev(p).
   Hypotheses: oracle contract (monitored), real Pauli letters (input precondition), Born (physics). *)
Theorem c11_collection_expectation : forall obs o cogs lk,
  collection obs o = Ok (cogs, lk) -> grouping_contract obs o = true ->
  (forall p, In p obs -> valid_letters (plets p)) ->
  forall p, In p obs ->
  exists i j c locs,
    lookup_find p lk = Some locs /\ In (i, j) locs /\ nth_error cogs i = Some c /\
    nth_error (cg_members c) j = Some p /\
    forall (ev : list nat -> Q) (law : list (N * Q)),
      born ev (plets (cg_general c)) law ->
      (forall wp, In wp law -> (fst wp < 2 ^ N.of_nat (length (pauli_indices_or_dummy (cg_indices c))))%N) ->
      Qeq (expect law (fun w => nth j (process_outcome (cg_indices c) (cg_masks c) w) 0%Z)) (ev (plets p)).
Proof. exact collection_expectation. Qed.

(* REGISTER / WORD LINK: on a circuit without classical bits and registers (circuits with clbits are refused upstream by
   partition_problem / cut_wires) the register step puts the observable bits at clbits 0 .. k-1, the k low bits of the
   outcome word that _process_outcome decodes with the masks (c11_process_outcome splits at the same k) *)
Theorem c11_register_low_bits : forall qc idx,
  mnc qc = 0 -> mcregs qc = [] ->
  let k := length (pauli_indices_or_dummy idx) in
  exists qc', append_measurement_register qc idx = Ok qc' /\
    find_obs_creg (mcregs qc') = Some (seq 0 k) /\ mnc qc' = k /\ mnq qc' = mnq qc /\ mdata qc' = mdata qc.
Proof. exact register_low_bits. Qed.

(* the forced dummy measurement: an all-identity general observable measures qubit 0 into a 1-bit register,
   all masks are 0 and every outcome decodes to +1.  (Stated for whatever members the group holds: with an
   all-identity general observable the masks ignore the members; for a group built by the collection the members
   are all-identity themselves by c11_compatible.) *)
Theorem c11_dummy : forall g members idx masks,
  cog_post_init g members = Ok (idx, masks) ->
  (forall q, nth q (plets g) 0 = 0) ->
  idx = [] /\ pauli_indices_or_dummy idx = [0] /\
  (forall j m, nth_error members j = Some m ->
     nth j masks 0%N = 0%N /\ forall b, decode (nth j masks 0%N) b = 1%Z).
Proof.
  intros g members idx masks H Z0.
  destruct (cog_post_init_spec _ _ _ _ H) as (_ & _ & I & _ & E).
  assert (Ei : idx = []).
  { destruct idx as [|q r]; [reflexivity|]. exfalso.
    destruct (proj1 (I q) (or_introl eq_refl)) as [_ Hq]. apply Hq. apply Z0. }
  subst idx. split; [reflexivity|]. split; [reflexivity|].
  intros j m Hm. destruct (E j m Hm) as [_ [v [Hv [Mv _]]]].
  rewrite (nth_error_nth _ _ _ Hv). unfold mask_of in Mv. simpl in Mv. inversion Mv; subst v.
  split; [reflexivity|]. intros b. apply decode_mask0.
Qed.

(* ---------------------------------------------------------------------------------------------
   non-vacuity
   --------------------------------------------------------------------------------------------- *)
Definition ex_obs : list pauli :=
  [mkP 0 [1; 0; 0]; mkP 0 [0; 3; 0]; mkP 0 [1; 3; 2]; mkP 0 [3; 0; 0]; mkP 0 [0; 0; 0]; mkP 0 [1; 0; 0]].
Definition ex_oracle : grouping_oracle :=
  mkOracle [mkP 0 [1; 0; 0]; mkP 0 [0; 3; 0]; mkP 0 [1; 3; 2]; mkP 0 [3; 0; 0]; mkP 0 [0; 0; 0]]
           [[mkP 0 [1; 0; 0]; mkP 0 [0; 3; 0]; mkP 0 [1; 3; 2]]; [mkP 0 [3; 0; 0]; mkP 0 [0; 0; 0]]].

Example c11_ex_contract : grouping_contract ex_obs ex_oracle = true.
Proof. reflexivity. Qed.

Example c11_ex_collection :
  collection ex_obs ex_oracle =
  Ok ([mkCog (mkP 0 [1; 3; 2]) [mkP 0 [1; 0; 0]; mkP 0 [0; 3; 0]; mkP 0 [1; 3; 2]] [0; 1; 2] [1; 2; 7]%N;
       mkCog (mkP 0 [3; 0; 0]) [mkP 0 [3; 0; 0]; mkP 0 [0; 0; 0]] [0] [1; 0]%N],
      [(mkP 0 [1; 0; 0], [(0, 0)]); (mkP 0 [0; 3; 0], [(0, 1)]); (mkP 0 [1; 3; 2], [(0, 2)]);
       (mkP 0 [3; 0; 0], [(1, 0)]); (mkP 0 [0; 0; 0], [(1, 1)])]).
Proof. reflexivity. Qed.

Example c11_ex_incompatible : most_general_observable [mkP 0 [1; 0]; mkP 0 [3; 2]] None = Refused.
Proof. reflexivity. Qed.

(* the reference oracle on the example list: duplicates removed, first-fit classes; the contract holds and the
   collection is the one above up to the order inside the oracle's answer *)
Example c11_ex_greedy :
  greedy_oracle ex_obs =
  mkOracle [mkP 0 [0; 3; 0]; mkP 0 [1; 3; 2]; mkP 0 [3; 0; 0]; mkP 0 [0; 0; 0]; mkP 0 [1; 0; 0]]
           [[mkP 0 [0; 3; 0]; mkP 0 [1; 3; 2]; mkP 0 [0; 0; 0]; mkP 0 [1; 0; 0]]; [mkP 0 [3; 0; 0]]] /\
  grouping_contract ex_obs (greedy_oracle ex_obs) = true /\
  is_ok (collection ex_obs (greedy_oracle ex_obs)) = true.
Proof. repeat split; reflexivity. Qed.

(* an all-identity list through the collection: empty pauli_indices, mask 0, the dummy measurement of qubit 0 *)
Example c11_ex_dummy_collection :
  collection [mkP 0 [0; 0]; mkP 0 [0; 0]] (greedy_oracle [mkP 0 [0; 0]; mkP 0 [0; 0]])
  = Ok ([mkCog (mkP 0 [0; 0]) [mkP 0 [0; 0]] [] [0%N]], [(mkP 0 [0; 0], [(0, 0)])]) /\
  pauli_indices_or_dummy [] = [0] /\
  measurement_suffix 7 9 [0; 0] [] [0; 1] [0] = [mkI Measure [0] [0]] /\
  process_outcome [] [0%N] 1%N = [1%Z].
Proof. repeat split; reflexivity. Qed.

Example c11_ex_cog_refuses_phase :
  cog_post_init (mkP 0 [1; 0; 2]) [mkP 0 [1; 0; 0]; mkP 1 [0; 0; 2]] = Refused.
Proof. reflexivity. Qed.

(* register + measurement on a 3-qubit circuit without clbits, qubit_locations [2; 0; 1]; the crash and refusal classes *)
Example c11_ex_measure :
  let qc := mkMC 3 0 [] [] in
  append_measurement_register qc [0; 2] = Ok (mkMC 3 2 [(true, [0; 1])] []) /\
  append_measurement_circuit 7 9 (mkMC 3 2 [(true, [0; 1])] []) [1; 0; 2] [0; 2] (Some [2; 0; 1])
    = Ok (mkMC 3 2 [(true, [0; 1])] [mkI (Gate 7) [2] []; mkI Measure [2] [0]; mkI (Gate 9) [1] []; mkI Measure [1] [1]]) /\
  append_measurement_circuit 7 9 (mkMC 3 2 [(true, [0; 1])] []) [1; 0; 2] [0; 2] (Some [2; 0; 5]) = Crashed /\
  append_measurement_circuit 7 9 (mkMC 3 2 [(true, [0; 1])] []) [1; 0; 2] [0; 2] (Some [2; 0]) = Refused /\
  append_measurement_circuit 7 9 (mkMC 2 2 [(true, [0; 1])] []) [1; 0; 2] [0; 2] None = Refused /\
  append_measurement_circuit 7 9 qc [1; 0; 2] [0; 2] None = Refused /\
  append_measurement_circuit 7 9 (mkMC 3 1 [(true, [0])] []) [1; 0; 2] [0; 2] None = Refused.
Proof. repeat split; reflexivity. Qed.

(* outcome 0b1110 for indices [0; 2] (k = 2): observable bits 10, QPD bits 11 (even parity) *)
Example c11_ex_process_outcome : process_outcome [0; 2] [1; 2; 3]%N 14%N = [1; -1; -1]%Z.
Proof. reflexivity. Qed.

(* executing the suffix for XY with qubit_locations [1; 0] on psi_ex gives the law used in c11_ex_born_circuit *)
Example c11_ex_law_exec2 :
  law_exec2 sem_ex (measurement_suffix 7 9 [1; 2] [0; 1] [1; 0] [0; 1]) [0; 1] psi_ex
  = law_st2_circ psi_ex [2; 1] [1; 0].
Proof. vm_compute. reflexivity. Qed.

Example c11_ex_state_nonzero : st2_nonzero psi_ex.
Proof. reflexivity. Qed.

(* suffix for general XZY with qubit_locations [2; 0; 1] into register bits [4; 5; 6] (h = gate 7, sx = gate 9) *)
Example c11_ex_suffix :
  measurement_suffix 7 9 [1; 3; 2] [0; 1; 2] [2; 0; 1] [4; 5; 6] =
  [mkI (Gate 7) [2] []; mkI Measure [2] [4]; mkI Measure [0] [5]; mkI (Gate 9) [1] []; mkI Measure [1] [6]].
Proof. reflexivity. Qed.

Example c11_ex_dummy_suffix : measurement_suffix 7 9 [0; 0] [] [1; 0] [3] = [mkI Measure [1] [3]].
Proof. reflexivity. Qed.

(* decoding: word 0b101 (qubit 0 and qubit 2 read 1) under mask 7 and under mask 2 *)
Example c11_ex_decode : decode 7%N 5%N = 1%Z /\ decode 1%N 5%N = (-1)%Z /\ decode 2%N 5%N = 1%Z.
Proof. repeat split; reflexivity. Qed.

(* The Born/Heisenberg hypothesis is satisfiable: it holds (by exact arithmetic over Z[i]) for the entangled
   two-qubit state 2|00> + i|01> + (1+i)|10> + (1-2i)|11> / sqrt 12, the functional <psi|.|psi>, and the outcome
   law computed from the state vector after the rotations for the general observables XY, ZX and YY
   (letters by qubit index). *)
Example c11_ex_born_XY : born (ev_st2 psi_ex) [1; 2] (law_st2 psi_ex [1; 2]).
Proof. exact born_instance_XY. Qed.
Example c11_ex_born_ZX : born (ev_st2 psi_ex) [3; 1] (law_st2 psi_ex [3; 1]).
Proof. exact born_instance_ZX. Qed.
Example c11_ex_born_YY : born (ev_st2 psi_ex) [2; 2] (law_st2 psi_ex [2; 2]).
Proof. exact born_instance_YY. Qed.

(* instances with an identity letter in the general observable, and the forced dummy measurement (g all identity:
   qubit 0 is measured into a 1-bit register that no mask looks at) *)
Example c11_ex_born_XI : born (ev_st2 psi_ex) [1; 0] (law_st2 psi_ex [1; 0]).
Proof. exact born_instance_XI. Qed.
Example c11_ex_born_IY : born (ev_st2 psi_ex) [0; 2] (law_st2 psi_ex [0; 2]).
Proof. exact born_instance_IY. Qed.
Example c11_ex_born_dummy : born (ev_st2 psi_ex) [0; 0] (law_st2 psi_ex [0; 0]).
Proof. exact born_instance_dummy. Qed.

(* the circuit-level hypothesis is satisfiable too: XY with qubit_locations [1; 0], gate id 7 = H, 9 = SX *)
Example c11_ex_born_circuit :
  born_circuit (ev_st2 psi_ex) 2
    (readout sem_ex (fun _ => gId) (measurement_suffix 7 9 [1; 2] (nonid_positions [1; 2]) [1; 0] [0; 1]))
    [0; 1] (law_st2_circ psi_ex [2; 1] [1; 0]).
Proof. exact born_circuit_instance. Qed.

(* APPLYING c11_expectation_circuit to that instance: member "Y on subsystem qubit 1" (letters [I; Y], mask 2), which
   qubit_locations [1; 0] places on circuit qubit 0: the decoded value is <psi| Y(x)I |psi> = -1/6 *)
Example c11_ex_expectation_circuit :
  Qeq (expect (law_st2_circ psi_ex [2; 1] [1; 0]) (decode 2%N)) (ev_st2 psi_ex (embed_letters 2 [1; 0] [0; 2])) /\
  embed_letters 2 [1; 0] [0; 2] = [2; 0] /\
  Qeq (ev_st2 psi_ex [2; 0]) (Qmake (-1) 6).
Proof.
  split; [|split; [reflexivity|vm_compute; reflexivity]].
  apply (c11_expectation_circuit sem_ex 7 9 (ev_st2 psi_ex) 2 [1; 2] [1; 0] [0; 1] (law_st2_circ psi_ex [2; 1] [1; 0])).
  - reflexivity.
  - reflexivity.
  - intros [|[|[|q]]]; simpl; lia.
  - repeat constructor; simpl; intuition lia.
  - reflexivity.
  - repeat constructor; simpl; intuition lia.
  - reflexivity.
  - exact born_circuit_instance.
  - intros q [<-|[<-|[]]]; lia.
  - split; [reflexivity|]. intros [|[|[|q]]]; simpl; auto.
  - reflexivity.
Qed.

(* ... and then c11_expectation gives the decoded value of the member "X on qubit 0" (mask 1) *)
Example c11_ex_expectation :
  Qeq (expect (law_st2 psi_ex [1; 2]) (decode 1%N)) (ev_st2 psi_ex [1; 0]) /\
  Qeq (ev_st2 psi_ex [1; 0]) (Qmake (-2) 12).
Proof.
  split.
  - apply (c11_expectation (ev_st2 psi_ex) [1; 2] (law_st2 psi_ex [1; 2]) born_instance_XY).
    + intros [|[|[|q]]]; simpl; lia.
    + split; [reflexivity|]. intros [|[|[|q]]]; simpl; auto.
    + reflexivity.
  - vm_compute. reflexivity.
Qed.

Print Assumptions c11_cover.
Print Assumptions c11_groups_built.
Print Assumptions c11_total.
Print Assumptions c11_compatible.
Print Assumptions c11_general_minimal.
Print Assumptions c11_mgo_accepts_iff.
Print Assumptions c11_mgo_never_crashes.
Print Assumptions c11_indices_masks.
Print Assumptions c11_cog_refuses_phase.
Print Assumptions c11_decode.
Print Assumptions c11_members_are_members.
Print Assumptions c11_rotation_signs.
Print Assumptions c11_register.
Print Assumptions c11_suffix.
Print Assumptions c11_measure_ok.
Print Assumptions c11_meas_refuses.
Print Assumptions c11_expectation.
Print Assumptions c11_expectation_circuit.
Print Assumptions c11_born_circuit_two_qubits.
Print Assumptions c11_expectation_circuit_two_qubits.
Print Assumptions c11_collection_expectation.
Print Assumptions c11_register_low_bits.
Print Assumptions c11_mask_is_support.
Print Assumptions c11_contract_inhabited.
Print Assumptions c11_collection_reference_oracle.
Print Assumptions c11_born_two_qubits_abstract_rotations.
Print Assumptions c11_expectation_two_qubits_abstract_rotations.
Print Assumptions c11_law_two_qubits_abstract_rotations_normalised.
Print Assumptions c11_suffix_semantics.
Print Assumptions c11_process_outcome.
Print Assumptions c11_dummy.

(* tie to the source: the ValueError sites of the modelled functions are the ones modelled
   (most_general_observable: empty / non-Pauli element (outside the model) / wrong width / incompatible;
    __post_init__: phase; _append_measurement_circuit: count x2, missing register, register size) *)
From CKT Require Import Extracted.Facts.
From Coq Require Import String.
Definition sites_of (f : string) : nat :=
  match find (fun p => String.eqb (fst p) f) value_error_sites with Some p => snd p | None => 0 end.
Theorem c11_facts :
  sites_of "utils.observable_grouping:most_general_observable" = 4 /\
  sites_of "utils.observable_grouping:CommutingObservableGroup.__post_init__" = 1 /\
  sites_of "cutting_experiments:_append_measurement_circuit" = 4.
Proof. repeat split; reflexivity. Qed.
Print Assumptions c11_facts.

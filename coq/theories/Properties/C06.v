(* Properties/C06.v — Reconstruction computes the defined estimator for both result formats.
   Only theorem statements (closed by `exact`), non-vacuity examples, the facts obligation and
   Print Assumptions.  The model and the declarative estimator `E`/`estimator` are in
   Model/Reconstruct.v (parts 1-7 = model, part 8 = specification). *)
From Coq Require Import QArith Ascii String.
From CKT Require Import Common.Base Model.Observables Model.Grouping Model.Reconstruct Proofs.ReconstructP
                        Model.ReconstructExt Proofs.ReconstructExtP
                        Model.ReconstructGrouping Proofs.ReconstructGroupingP.
Close Scope Q_scope.
Open Scope nat_scope.

(* What E means, unfolded (DOCUMENTATION ONLY, definitional, not registered): for a V1 outcome o of a group
   with nb measured bits and an observable with bit mask `mask`, the value is
     (-1)^(xor of the bits nb, nb+1, ... of o)  *  (-1)^(xor of the bits j < nb of o with mask bit j set) *)
Remark c06_E_def : forall nb mask o,
  outcome_value_v1 nb mask o
  = (sgn (xor_list (map (bit o) (seq nb (nbits_of o - nb))))
     * sgn (xor_list (map (fun j => bit o j && bit mask j) (seq 0 nb))))%Z.
Proof. reflexivity. Qed.

(* ... and THIS is the theorem about the code: _process_outcome (popcount / land / shiftr model) returns,
   entry by entry, that declarative value *)
Theorem c06_process_outcome_spec : forall pyint0 c k o, outcome_to_int pyint0 k = Some o ->
  exists v, process_outcome pyint0 c k = Ok v /\ length v = length (cog_masks c) /\
    forall n, n < length (cog_masks c) ->
      nth n v 0%Z = outcome_value_v1 (num_meas_bits c) (nth n (cog_masks c) 0%N) o.
Proof. exact process_outcome_spec. Qed.

(* MAIN: for any number of partitions, groups, observables, coefficients, outcomes and any bit
   widths, if the shapes match (result count = #coefficients * #groups per partition, every
   partition has nobs sub-observables, every lookup list is NON-EMPTY and its locations exist --
   np.mean([]) is nan, the model's Qmean [] is 0, so empty lists are excluded) and every V1 key denotes the integer
   `den k`, the reconstruction returns, for every observable k,
       sum_i coeff_i * prod_partitions E_{i,partition}[k]      (up to equality of rationals). *)
Theorem c06_estimator : forall pyint0 den nobs coeffs pds,
  (forall pd, In pd pds -> data_len (snd pd) = length coeffs * length (pgroups (fst pd))) ->
  (forall pd, In pd pds -> length (plookup (fst pd)) = nobs /\ locs_ok_ne (fst pd)) ->
  (forall pd k, In pd pds -> In k (keys_of (snd pd)) -> outcome_to_int pyint0 k = Some (den k)) ->
  res_Qeq (reconstruct_parts pyint0 nobs coeffs pds)
          (Ok (map (estimator den coeffs pds) (seq 0 nobs))).
Proof. exact estimator_ne. Qed.

(* V1 = V2, LIST FORM: replacing every V2 partition by the list with ONE ENTRY PER SHOT (key
   qpd * 2^nb + obs, weight 1/shots; repeated shots stay repeated entries, which no dict can hold)
   gives literally the same result.  The dict-shaped statement is c06_v1_v2_dict below. *)
Theorem c06_v1_v2 : forall pyint0 nobs coeffs pds,
  (forall pd, In pd pds -> obs_in_range (fst pd) (snd pd)) ->
  reconstruct_parts pyint0 nobs coeffs (map (fun pd => (fst pd, pack (fst pd) (snd pd))) pds)
  = reconstruct_parts pyint0 nobs coeffs pds.
Proof. exact v1_v2_full. Qed.

(* merging V1 entries whose keys denote the same integer into one entry with the summed weight (what a
   dict / QuasiDistribution holds) does not change the result; the merged data is dict-shaped *)
Theorem c06_v1_merge : forall pyint0 nobs coeffs pds,
  (forall pd, In pd pds -> data_len (snd pd) = length coeffs * length (pgroups (fst pd))) ->
  (forall pd, In pd pds -> length (plookup (fst pd)) = nobs /\ locs_ok_ne (fst pd)) ->
  (forall pd k, In pd pds -> In k (keys_of (snd pd)) -> outcome_to_int pyint0 k <> None) ->
  res_Qeq (reconstruct_parts pyint0 nobs coeffs (map (merge_pd pyint0) pds)) (reconstruct_parts pyint0 nobs coeffs pds) /\
  forall pd, In pd (map (merge_pd pyint0) pds) -> dict_shaped (snd pd).
Proof. exact v1_merge_ne. Qed.

(* V1 = V2, DICT FORM: the V1 twin with pairwise distinct integer keys and weight (number of shots with
   that outcome)/shots -- merge of pack -- gives the same values as the V2 data *)
Theorem c06_v1_v2_dict : forall pyint0 nobs coeffs pds,
  (forall pd, In pd pds -> data_len (snd pd) = length coeffs * length (pgroups (fst pd))) ->
  (forall pd, In pd pds -> length (plookup (fst pd)) = nobs /\ locs_ok_ne (fst pd)) ->
  (forall pd k, In pd pds -> In k (keys_of (snd pd)) -> outcome_to_int pyint0 k <> None) ->
  (forall pd, In pd pds -> obs_in_range (fst pd) (snd pd)) ->
  let twin := map (fun pd => merge_pd pyint0 (fst pd, pack (fst pd) (snd pd))) pds in
  res_Qeq (reconstruct_parts pyint0 nobs coeffs twin) (reconstruct_parts pyint0 nobs coeffs pds) /\
  forall pd, In pd twin -> dict_shaped (snd pd) /\ exists q, snd pd = DV1 q.
Proof. exact v1_v2_dict_ne. Qed.

(* the split used by V1 inverts the packing for ANY register widths *)
Theorem c06_split_pack : forall n obs qpd : N, (obs < 2 ^ n)%N ->
  N.land (qpd * 2 ^ n + obs) (N.ones n) = obs /\ N.shiftr (qpd * 2 ^ n + obs) n = qpd.
Proof. exact split_pack. Qed.

(* the V2 register read is the big-endian value of the byte row, for rows of any length *)
Theorem c06_from_bytes : forall row, from_bytes_big row = bytes_value row.
Proof. exact from_bytes_big_spec. Qed.

(* a result count that is not #coefficients * #groups is refused *)
Theorem c06_count_refused : forall pyint0 nobs coeffs pds,
  (exists pd, In pd pds /\ data_len (snd pd) <> length coeffs * length (pgroups (fst pd))) ->
  reconstruct_parts pyint0 nobs coeffs pds = Refused.
Proof. exact reconstruct_parts_count_refused. Qed.

(* every processed value is +1 or -1 *)
Theorem c06_sign_values : forall masks obs qpd v,
  In v (process_outcome_v2 masks obs qpd) -> v = 1%Z \/ v = (-1)%Z.
Proof. exact sign_values. Qed.

(* keys: an int, a string of binary digits, "0b..." and "0x..." (spaces anywhere) are sent to the
   right radix by the branch rule; Python's int(s, 0) is the oracle `pyint0` with its contract *)
Theorem c06_keys : forall pyint0, pyint0_contract pyint0 ->
  (forall n, outcome_to_int pyint0 (KInt n) = Some n) /\
  (forall s, key_chars s <> [] -> forallb (digit_ok 2) (key_chars s) = true ->
     outcome_to_int pyint0 (KStr s) = Some (radix_value 2 (key_chars s))) /\
  (forall s c ds, c = "b"%char \/ c = "B"%char -> key_chars s = "0"%char :: c :: ds -> ds <> [] ->
     forallb (digit_ok 2) ds = true -> outcome_to_int pyint0 (KStr s) = Some (radix_value 2 ds)) /\
  (forall s c hs, c = "x"%char \/ c = "X"%char -> key_chars s = "0"%char :: c :: hs -> hs <> [] ->
     forallb (digit_ok 16) hs = true -> outcome_to_int pyint0 (KStr s) = Some (radix_value 16 hs)).
Proof. exact keys_full. Qed.

(* ... and data sets whose keys denote the same integers give the same result *)
Theorem c06_keys_same_result : forall pyint0 nobs coeffs pds pds',
  Forall2 (fun pd pd' => fst pd = fst pd' /\ data_equiv pyint0 (snd pd) (snd pd')) pds pds' ->
  reconstruct_parts pyint0 nobs coeffs pds = reconstruct_parts pyint0 nobs coeffs pds'.
Proof. exact reconstruct_parts_keys. Qed.

(* REFUSAL CAUSES: the loops return a value or refuse, and a refusal has one of exactly two causes: a
   result count that does not match, or an outcome key that _outcome_to_int rejects.  (That the MODEL
   never yields Crashed here is by construction -- nth defaults, truncating vmul -- and says nothing
   about Python on ill-shaped lookups, where it raises IndexError; those inputs are excluded by the
   shape premises of c06_estimator.) *)
Theorem c06_refusal_causes : forall pyint0 nobs coeffs pds,
  (exists v, reconstruct_parts pyint0 nobs coeffs pds = Ok v) \/
  (reconstruct_parts pyint0 nobs coeffs pds = Refused /\
     ((exists pd, In pd pds /\ data_len (snd pd) <> length coeffs * length (pgroups (fst pd))) \/
      (exists pd k, In pd pds /\ In k (keys_of (snd pd)) /\ outcome_to_int pyint0 k = None))).
Proof. exact reconstruct_parts_total. Qed.

(* a count mismatch is refused by the PUBLIC function in both call forms, whatever else holds *)
Theorem c06_public_count_refused : forall pyint0 coeffs,
  (forall p d, data_len d <> length coeffs * length (pgroups p) ->
     reconstruct pyint0 (RLeaf d) coeffs (OList p) = Refused) /\
  (forall ps m, (exists p d, In p ps /\ assoc m (plabel p) = Some d /\
                             data_len d <> length coeffs * length (pgroups p)) ->
     reconstruct pyint0 (RMap m) coeffs (OMap ps) = Refused).
Proof. exact public_count_refused. Qed.

(* FROM PAULI LETTERS (the model is not fed the implementation's own masks / lookup):
   the measured qubits are the qubits on which the group's general observable acts, ascending; *)
Theorem c06_measured_qubits : forall general,
  pauli_indices_of general = filter (acts_on general) (seq 0 (length general)).
Proof. exact pauli_indices_of_spec. Qed.

(* bit j of an observable's mask is set iff j indexes a measured qubit on which the observable acts
   -- this is what "the measured bits on which the observable acts" means in E; *)
Theorem c06_mask_bits : forall idx member j,
  bit (bitmask_of idx member) j = (j <? length idx) && acts_on member (nth j idx 0).
Proof. exact bitmask_of_bit. Qed.

(* the lookup of P is exactly the set of (group, member) positions holding P; *)
Theorem c06_lookup : forall groups p a b,
  In (a, b) (lookup_of groups p) <->
  exists g x, nth_error groups a = Some g /\ nth_error (snd g) b = Some x /\ letters_eqb x p = true.
Proof. exact lookup_of_spec. Qed.

(* and a partition built from letters always satisfies the shape hypotheses of c06_estimator *)
Theorem c06_letters_shape : forall label phases groups subobs,
  length (plookup (part_of_letters label phases groups subobs)) = length subobs /\
  locs_ok (part_of_letters label phases groups subobs).
Proof. exact part_of_letters_ok. Qed.

(* ------------------------------------------------------------------------------------------ *)
(* EXTENSION ROUND: fewer assumptions.                                                         *)
(* ------------------------------------------------------------------------------------------ *)

(* (a) the int(s,0) oracle and its contract are replaced by the executable parser pyint0_ref:
       the three documented key syntaxes, no hypothesis left *)
Theorem c06_keys_parser :
  (forall n, outcome_to_int pyint0_ref (KInt n) = Some n) /\
  (forall s, key_chars s <> [] -> forallb (digit_ok 2) (key_chars s) = true ->
     outcome_to_int pyint0_ref (KStr s) = Some (radix_value 2 (key_chars s))) /\
  (forall s c ds, c = "b"%char \/ c = "B"%char -> key_chars s = "0"%char :: c :: ds -> ds <> [] ->
     forallb (digit_ok 2) ds = true -> outcome_to_int pyint0_ref (KStr s) = Some (radix_value 2 ds)) /\
  (forall s c hs, c = "x"%char \/ c = "X"%char -> key_chars s = "0"%char :: c :: hs -> hs <> [] ->
     forallb (digit_ok 16) hs = true -> outcome_to_int pyint0_ref (KStr s) = Some (radix_value 16 hs)).
Proof. exact keys_parser. Qed.

(* ... and the estimator theorem with `den` = what the parser returns; the key hypothesis is the
   decidable "the parser accepts every key" *)
Theorem c06_estimator_parser : forall nobs coeffs pds,
  (forall pd, In pd pds -> data_len (snd pd) = length coeffs * length (pgroups (fst pd))) ->
  (forall pd, In pd pds -> length (plookup (fst pd)) = nobs /\ locs_ok_ne (fst pd)) ->
  (forall pd k, In pd pds -> In k (keys_of (snd pd)) -> outcome_to_int pyint0_ref k <> None) ->
  res_Qeq (reconstruct_parts pyint0_ref nobs coeffs pds)
          (Ok (map (estimator ref_den coeffs pds) (seq 0 nobs))).
Proof. exact estimator_parser_ne. Qed.

(* (b) the V2 path averages with the shot count of THE PUB BEING PROCESSED: the vector accumulated for
       experiment idx is (sum over that pub's shots of the +-1 values) / (number of shots of that pub) *)
Theorem c06_v2_own_shots : forall pyint0 pubs idx c n, n < length (cog_masks c) ->
  exists v, experiment pyint0 (DV2 pubs) idx c = Ok v /\
    (nth n v 0
     == Qsum (map (fun s => inject_Z (outcome_value_v2 (nth n (cog_masks c) 0%N) (bytes_value (fst s)) (bytes_value (snd s))))
                  (nth idx pubs []))
        / Qnat (length (nth idx pubs [])))%Q.
Proof. exact experiment_v2_own_shots. Qed.

(* (c) the public function itself (dict form: key-set check, phase check, per-label association of
       the results, count check, loops) returns the estimator *)
Theorem c06_public_estimator : forall pyint0 den m coeffs p0 ps,
  (forall l, In l (map plabel (p0 :: ps)) <-> In l (map fst m)) ->
  (forall p x, In p (p0 :: ps) -> In x (pphases p) -> x = 0) ->
  (forall p, In p (p0 :: ps) -> length (plookup p) = length (plookup p0) /\ locs_ok_ne p) ->
  (forall p d, In p (p0 :: ps) -> assoc m (plabel p) = Some d ->
     data_len d = length coeffs * length (pgroups p) /\
     forall k, In k (keys_of d) -> outcome_to_int pyint0 k = Some (den k)) ->
  exists pds, map fst pds = p0 :: ps /\
    (forall pd, In pd pds -> assoc m (plabel (fst pd)) = Some (snd pd)) /\
    res_Qeq (reconstruct pyint0 (RMap m) coeffs (OMap (p0 :: ps)))
            (Ok (map (estimator den coeffs pds) (seq 0 (length (plookup p0))))).
Proof. exact public_estimator_ne. Qed.

(* (d) BRIDGE TO C11: the groups / measured-bit counts / bitmasks / lookup that C11's model of
       ObservableCollection (most_general_observable, __post_init__, the lookup loop; any answer of
       the group_commuting oracle) produces are exactly the partition the C06 model builds from the
       Pauli letters *)
Theorem c06_grouping_bridge : forall label subobs o cogs lk,
  collection subobs o = Ok (cogs, lk) ->
  (forall p, In p subobs -> pphase p = 0) ->
  part_of_collection label subobs (cogs, lk)
  = part_of_letters label (map pphase subobs) (map lgroup_of_c11 cogs) (map plets subobs).
Proof. exact collection_bridge. Qed.

(* ... so the location/length hypotheses of c06_estimator are theorems, not monitored contracts, for them *)
Theorem c06_grouping_shape : forall label subobs o cogs lk,
  collection subobs o = Ok (cogs, lk) ->
  (forall p, In p subobs -> pphase p = 0) ->
  length (plookup (part_of_collection label subobs (cogs, lk))) = length subobs /\
  locs_ok (part_of_collection label subobs (cogs, lk)).
Proof. exact collection_shape. Qed.

(* ... and, when the answer of the unique()/group_commuting oracle satisfies C11's grouping_contract (every
   observable is in some group), no lookup list is empty: the mean is never 0/0 *)
Theorem c06_lookup_nonempty : forall label subobs o cogs lk,
  collection subobs o = Ok (cogs, lk) -> grouping_contract subobs o = true ->
  forall locs, In locs (plookup (part_of_collection label subobs (cogs, lk))) -> locs <> [].
Proof. exact collection_lookup_nonempty. Qed.

(* ... and "value = the defined estimator" and "V1 (dict) = V2" hold for the masks the grouping code
   produces (oracle answer within the grouping contract), with the executable key parser: the
   hypotheses left are the count match, "every key is accepted" and (for V1 = V2) that every
   observable-register value fits its register *)
Theorem c06_estimator_grouping : forall nobs coeffs pds,
  (forall pd, In pd pds -> from_collection nobs pd) ->
  (forall pd, In pd pds -> data_len (snd pd) = length coeffs * length (pgroups (fst pd))) ->
  (forall pd k, In pd pds -> In k (keys_of (snd pd)) -> outcome_to_int pyint0_ref k <> None) ->
  res_Qeq (reconstruct_parts pyint0_ref nobs coeffs pds)
          (Ok (map (estimator ref_den coeffs pds) (seq 0 nobs))).
Proof. exact estimator_grouping. Qed.

Theorem c06_v1_v2_estimator_grouping : forall nobs coeffs pds,
  (forall pd, In pd pds -> from_collection nobs pd) ->
  (forall pd, In pd pds -> data_len (snd pd) = length coeffs * length (pgroups (fst pd))) ->
  (forall pd k, In pd pds -> In k (keys_of (snd pd)) -> outcome_to_int pyint0_ref k <> None) ->
  (forall pd, In pd pds -> obs_in_range (fst pd) (snd pd)) ->
  let twin := map (fun pd => merge_pd pyint0_ref (fst pd, pack (fst pd) (snd pd))) pds in
  res_Qeq (reconstruct_parts pyint0_ref nobs coeffs twin) (reconstruct_parts pyint0_ref nobs coeffs pds) /\
  (forall pd, In pd twin -> dict_shaped (snd pd) /\ exists q, snd pd = DV1 q) /\
  res_Qeq (reconstruct_parts pyint0_ref nobs coeffs pds)
          (Ok (map (estimator ref_den coeffs pds) (seq 0 nobs))).
Proof. exact v1_v2_estimator_grouping. Qed.

(* the PUBLIC function (dict form) on partitions built by the grouping code, executable parser: phases,
   lookup shape and non-emptiness are derived; left: equal label sets, counts, accepted keys *)
Theorem c06_public_estimator_grouping : forall m coeffs p0 ps,
  (forall l, In l (map plabel (p0 :: ps)) <-> In l (map fst m)) ->
  (forall p, In p (p0 :: ps) -> part_from_collection (length (plookup p0)) p) ->
  (forall p d, In p (p0 :: ps) -> assoc m (plabel p) = Some d ->
     data_len d = length coeffs * length (pgroups p) /\
     forall k, In k (keys_of d) -> outcome_to_int pyint0_ref k <> None) ->
  exists pds, map fst pds = p0 :: ps /\
    (forall pd, In pd pds -> assoc m (plabel (fst pd)) = Some (snd pd)) /\
    res_Qeq (reconstruct pyint0_ref (RMap m) coeffs (OMap (p0 :: ps)))
            (Ok (map (estimator ref_den coeffs pds) (seq 0 (length (plookup p0))))).
Proof. exact public_estimator_grouping. Qed.

(* the contract assumed of int(s, 0) is satisfiable: the reference instance used by the
   correspondence check satisfies it *)
Theorem c06_oracle_contract_inhabited : pyint0_contract pyint0_ref.
Proof. exact pyint0_ref_contract. Qed.

(* the public function: type / key-set / phase validation refuses ... *)
Theorem c06_types_refused : forall pyint0 coeffs,
  (forall p m, reconstruct pyint0 (RMap m) coeffs (OList p) = Refused) /\
  (forall p, reconstruct pyint0 ROther coeffs (OList p) = Refused) /\
  (forall ps d, reconstruct pyint0 (RLeaf d) coeffs (OMap ps) = Refused) /\
  (forall ps, reconstruct pyint0 ROther coeffs (OMap ps) = Refused) /\
  (forall r, reconstruct pyint0 r coeffs OOther = Refused).
Proof. exact reconstruct_types_refused. Qed.

Theorem c06_keyset_refused : forall pyint0 coeffs ps m,
  (exists l, In l (map plabel ps) /\ ~ In l (map fst m)) \/
  (exists l, In l (map fst m) /\ ~ In l (map plabel ps)) ->
  reconstruct pyint0 (RMap m) coeffs (OMap ps) = Refused.
Proof. exact reconstruct_keyset_refused. Qed.

Theorem c06_phase_refused : forall pyint0 coeffs,
  (forall p d, (exists x, In x (pphases p) /\ x <> 0) ->
     reconstruct pyint0 (RLeaf d) coeffs (OList p) = Refused) /\
  (forall ps m, (exists p x, In p ps /\ In x (pphases p) /\ x <> 0) ->
     reconstruct pyint0 (RMap m) coeffs (OMap ps) = Refused).
Proof. exact reconstruct_phase_refused. Qed.

(* ... and otherwise hands each partition its own result (by label) to the loops above *)
Theorem c06_public_map : forall pyint0 m coeffs p0 ps,
  (forall l, In l (map plabel (p0 :: ps)) <-> In l (map fst m)) ->
  (forall p x, In p (p0 :: ps) -> In x (pphases p) -> x = 0) ->
  exists pds, map fst pds = p0 :: ps /\
    (forall pd, In pd pds -> assoc m (plabel (fst pd)) = Some (snd pd)) /\
    reconstruct pyint0 (RMap m) coeffs (OMap (p0 :: ps))
    = reconstruct_parts pyint0 (length (plookup p0)) coeffs pds.
Proof. exact reconstruct_map_valid. Qed.

Theorem c06_public_list : forall pyint0 coeffs p d, (forall x, In x (pphases p) -> x = 0) ->
  reconstruct pyint0 (RLeaf d) coeffs (OList p)
  = reconstruct_parts pyint0 (length (plookup p)) coeffs [(p, d)].
Proof. exact reconstruct_list_valid. Qed.

(* ------------------------------------------------------------------------------------------ *)
(* Non-vacuity: 2 partitions, 2 groups each, 2 observables, 2 coefficients of either sign;     *)
(* partition 0 is V1 with int / binary / 0b / 0x keys, 2 measured + 9 QPD bits and a negative  *)
(* quasi-probability; partition 1 is V2 with a 10-bit observable register and a 9-bit QPD      *)
(* register (two bytes each).                                                                  *)
(* ------------------------------------------------------------------------------------------ *)
Definition exA : part := mkPart 0 [0; 0] [(2, [1; 2; 3]%N); (0, [0%N])] [[(0, 2)]; [(1, 0)]].
Definition exB : part := mkPart 1 [0; 0] [(10, [1023; 512]%N); (1, [1%N])] [[(0, 0); (0, 1)]; [(1, 0)]].
Definition exAd : pdata :=
  DV1 [ [(KInt 2047, Qmake 3 4); (KStr "0b100 0000 0001", Qmake (-1) 4)] ;
        [(KStr "0x3ff", Qmake 1 2); (KStr "10", Qmake 1 2)] ;
        [(KInt 0, Qmake 1 1)] ;
        [(KStr "1 1111 1111 1", Qmake (-1) 2); (KInt 1, Qmake 3 2)] ]%N.
Definition exBd : pdata :=
  DV2 [ [([2; 255], [1; 255]); ([0; 1], [1; 0])] ;
        [([1], [0; 3]); ([0], [1; 1])] ;
        [([3; 0], [0; 0]); ([3; 0], [1; 0]); ([1; 255], [0; 7]); ([0; 0], [1; 128])] ;
        [([1], [1; 255])] ]%N.
Definition ex_coeffs : list Q := [Qmake 1 2; Qmake (-3) 4].
Definition ex_pds := [(exA, exAd); (exB, exBd)].
Definition ex_den (k : key) : N := match outcome_to_int pyint0_ref k with Some n => n | None => 0%N end.

Example c06_ex_value :
  reconstruct_parts pyint0_ref 2 ex_coeffs ex_pds = Ok [Qmake (-7) 16; Qmake (-3) 2].
Proof. vm_compute. reflexivity. Qed.

(* the declarative estimator has the same value on this instance *)
Example c06_ex_spec_value :
  list_beq Qeq_bool (map (estimator ex_den ex_coeffs ex_pds) (seq 0 2)) [Qmake (-7) 16; Qmake (-3) 2] = true.
Proof. vm_compute. reflexivity. Qed.

(* the instance satisfies every hypothesis of c06_estimator *)
Example c06_ex_hyps :
  (forall pd, In pd ex_pds -> data_len (snd pd) = length ex_coeffs * length (pgroups (fst pd))) /\
  (forall pd, In pd ex_pds -> length (plookup (fst pd)) = 2 /\ locs_ok_ne (fst pd)) /\
  (forall pd k, In pd ex_pds -> In k (keys_of (snd pd)) -> outcome_to_int pyint0_ref k = Some (ex_den k)).
Proof.
  split; [|split].
  - intros pd [<-|[<-|[]]]; reflexivity.
  - intros pd [<-|[<-|[]]]; (split; [reflexivity|]); (split; [|intros locs HL; cbn in HL;
      repeat (destruct HL as [<-|HL]; [discriminate|]); destruct HL]); intros locs m n HL HM; cbn in HL;
      repeat (destruct HL as [<-|HL]; [cbn in HM; repeat (destruct HM as [HM|HM]; [inversion HM; subst; cbn; lia|]); destruct HM|]);
      destruct HL.
  - intros pd k [<-|[<-|[]]] HK; cbn in HK; [|destruct HK].
    repeat (destruct HK as [<-|HK]; [reflexivity|]). destruct HK.
Qed.

(* V1 = V2 on the instance: the hypothesis holds and the packed keys really carry >= 9 QPD bits *)
Example c06_ex_pack_in_range : forall pd, In pd ex_pds -> obs_in_range (fst pd) (snd pd).
Proof.
  intros pd [<-|[<-|[]]]; [exact I|]. intros idx s Hidx Hs. cbn in Hidx.
  do 4 (destruct idx as [|idx]; [cbn in Hs; repeat (destruct Hs as [<-|Hs]; [reflexivity|]); destruct Hs|]).
  lia.
Qed.

Example c06_ex_pack :
  pack exB exBd
  = DV1 [ [(KInt 524031, Qdiv (Qmake 1 1) (Qnat 2)); (KInt 262145, Qdiv (Qmake 1 1) (Qnat 2))] ;
          [(KInt 7, Qdiv (Qmake 1 1) (Qnat 2)); (KInt 514, Qdiv (Qmake 1 1) (Qnat 2))] ;
          [(KInt 768, Qdiv (Qmake 1 1) (Qnat 4)); (KInt 262912, Qdiv (Qmake 1 1) (Qnat 4)); (KInt 7679, Qdiv (Qmake 1 1) (Qnat 4)); (KInt 393216, Qdiv (Qmake 1 1) (Qnat 4))] ;
          [(KInt 1023, Qdiv (Qmake 1 1) (Qnat 1))] ]%N.
Proof. reflexivity. Qed.

Example c06_ex_keys :
  map (outcome_to_int pyint0_ref) [KInt 1025; KStr "100 0000 0001"; KStr "0b100 0000 0001"; KStr "0x401"; KStr "1"; KStr ""; KStr "12"; KStr "0xg"]
  = [Some 1025; Some 1025; Some 1025; Some 1025; Some 1; None; Some 12; None]%N.
Proof. reflexivity. Qed.

(* letters -> (len(pauli_indices), masks), lookup: general Z I X Z on qubits 0..3 has a gap at qubit 1 *)
Example c06_ex_letters :
  part_of_letters 7 [0; 0; 0] [([3; 0; 1; 3], [[3; 0; 0; 3]; [0; 0; 1; 0]; [0; 0; 0; 0]]); ([2; 0; 0; 0], [[2; 0; 0; 0]])]
                  [[0; 0; 1; 0]; [2; 0; 0; 0]; [0; 0; 1; 0]]
  = mkPart 7 [0; 0; 0] [(3, [5; 2; 0]%N); (1, [1%N])] [[(0, 1)]; [(1, 0)]; [(0, 1)]].
Proof. reflexivity. Qed.

Example c06_ex_keys_upper :
  map (outcome_to_int pyint0_ref) [KStr "0B100 0000 0001"; KStr "0X401"; KStr "0Xg"] = [Some 1025; Some 1025; None]%N.
Proof. reflexivity. Qed.

(* ---- extension round: non-vacuity ---- *)
(* a collection built by C11's model: sub-observables Z.Z / X.. / ..Z on 3 qubits (letters by qubit
   index), the oracle groups {ZIZ-like, ..Z} and {X..}; general observable of group 0 has a gap *)
Definition exS : list pauli := [mkP 0 [3; 0; 3]; mkP 0 [1; 0; 0]; mkP 0 [0; 0; 3]; mkP 0 [3; 0; 3]].
Definition exO : grouping_oracle :=
  mkOracle [mkP 0 [3; 0; 3]; mkP 0 [1; 0; 0]; mkP 0 [0; 0; 3]] [[mkP 0 [3; 0; 3]; mkP 0 [0; 0; 3]]; [mkP 0 [1; 0; 0]]].
Definition exC : part := mkPart 5 [0; 0; 0; 0] [(2, [3; 2]%N); (1, [1%N])] [[(0, 0)]; [(1, 0)]; [(0, 1)]; [(0, 0)]].

Example c06_ex_collection : part_of_observables 5 exS exO = Ok exC /\ grouping_contract exS exO = true.
Proof. split; vm_compute; reflexivity. Qed.

(* V2 data with DIFFERENT shot counts per pub (2 coefficients x 2 groups = 4 pubs: 2, 1, 4, 3 shots) *)
Definition exCd : pdata :=
  DV2 [ [([3], [1; 255]); ([1], [0; 0])] ; [([1], [2; 0])] ;
        [([0], [0; 1]); ([2], [0; 1]); ([3], [1; 0]); ([1], [0; 0])] ; [([0], [0; 0]); ([1], [0; 0]); ([1], [0; 1])] ]%N.

Example c06_ex_from_collection : from_collection 4 (exC, exCd).
Proof.
  exists 5, exS, exO. destruct (collection exS exO) as [coll| |] eqn:E; try (vm_compute in E; discriminate).
  exists coll. split; [reflexivity|]. split; [vm_compute; reflexivity|].
  split; [intros p [<-|[<-|[<-|[<-|[]]]]]; reflexivity|]. split; [reflexivity|].
  cbn [fst]. vm_compute in E. inversion E. reflexivity.
Qed.

Example c06_ex_grouping_hyps :
  (forall pd, In pd [(exC, exCd)] -> from_collection 4 pd) /\
  (forall pd, In pd [(exC, exCd)] -> data_len (snd pd) = length ex_coeffs * length (pgroups (fst pd))) /\
  (forall pd k, In pd [(exC, exCd)] -> In k (keys_of (snd pd)) -> outcome_to_int pyint0_ref k <> None) /\
  (forall pd, In pd [(exC, exCd)] -> obs_in_range (fst pd) (snd pd)).
Proof.
  split; [intros pd [<-|[]]; exact c06_ex_from_collection|].
  split; [intros pd [<-|[]]; reflexivity|].
  split; [intros pd k [<-|[]] []|].
  intros pd [<-|[]] idx s Hidx Hs. cbn in Hidx.
  do 4 (destruct idx as [|idx]; [cbn in Hs; repeat (destruct Hs as [<-|Hs]; [reflexivity|]); destruct Hs|]).
  lia.
Qed.

(* per-pub shot counts: pub 2 has 4 shots, pub 3 has 3 shots; the weights are 1/4 resp. 1/3 *)
Example c06_ex_own_shots :
  experiment pyint0_ref exCd 2 (2, [3; 2]%N) = Ok [Qmake (-1) 2; Qmake 1 2] /\
  experiment pyint0_ref exCd 3 (1, [1%N]) = Ok [Qmake 1 3].
Proof. split; vm_compute; reflexivity. Qed.

Example c06_ex_grouping_value :
  list_beq Qeq_bool (map (estimator ref_den ex_coeffs [(exC, exCd)]) (seq 0 4))
    (match reconstruct_parts pyint0_ref 4 ex_coeffs [(exC, exCd)] with Ok v => v | _ => [] end) = true /\
  is_ok (reconstruct_parts pyint0_ref 4 ex_coeffs [(exC, exCd)]) = true.
Proof. repeat split; vm_compute; reflexivity. Qed.

(* REPEATED SHOTS: 4 shots, two of them equal.  pack keeps two entries (KInt 3, 1/4); the dict-shaped twin
   has (KInt 3, 1/2).  One group with one measured bit, one observable, one coefficient. *)
Definition exR : part := mkPart 0 [0] [(1, [1%N])] [[(0, 0)]].
Definition exRd : pdata := DV2 [[([1], [1]); ([1], [1]); ([0], [1]); ([0], [0])]]%N.
Example c06_ex_repeated_shots :
  pack exR exRd = DV1 [[(KInt 3, Qdiv (Qmake 1 1) (Qnat 4)); (KInt 3, Qdiv (Qmake 1 1) (Qnat 4));
                        (KInt 2, Qdiv (Qmake 1 1) (Qnat 4)); (KInt 0, Qdiv (Qmake 1 1) (Qnat 4))]]%N /\
  (match merge_data pyint0_ref (pack exR exRd) with
   | DV1 [[(KInt 3, a); (KInt 2, b); (KInt 0, c)]] => Qeq_bool a (Qmake 1 2) && Qeq_bool b (Qmake 1 4) && Qeq_bool c (Qmake 1 4)
   | _ => false end)%N = true /\
  reconstruct_parts pyint0_ref 1 [Qmake 1 1] [(exR, exRd)] = Ok [Qmake 1 2] /\
  reconstruct_parts pyint0_ref 1 [Qmake 1 1] [(exR, DV1 [[(KInt 3, Qmake 1 2); (KInt 2, Qmake 1 4); (KInt 0, Qmake 1 4)]]%N)] = Ok [Qmake 1 2] /\
  reconstruct_parts pyint0_ref 1 [Qmake 1 1] [merge_pd pyint0_ref (exR, pack exR exRd)] = Ok [Qmake 1 2].
Proof. repeat split; vm_compute; reflexivity. Qed.

Example c06_ex_repeated_hyps :
  (forall pd, In pd [(exR, exRd)] -> data_len (snd pd) = length [Qmake 1 1] * length (pgroups (fst pd))) /\
  (forall pd, In pd [(exR, exRd)] -> length (plookup (fst pd)) = 1 /\ locs_ok_ne (fst pd)) /\
  (forall pd k, In pd [(exR, exRd)] -> In k (keys_of (snd pd)) -> outcome_to_int pyint0_ref k <> None) /\
  (forall pd, In pd [(exR, exRd)] -> obs_in_range (fst pd) (snd pd)).
Proof.
  split; [intros pd [<-|[]]; reflexivity|]. split.
  - intros pd [<-|[]]. split; [reflexivity|]. split.
    + intros locs m n [<-|[]] [HM|[]]. inversion HM; subst. cbn. lia.
    + intros locs [<-|[]]. discriminate.
  - split; [intros pd k [<-|[]] []|].
    intros pd [<-|[]] idx s Hidx Hs. cbn in Hidx. destruct idx as [|idx]; [|lia].
    cbn in Hs. repeat (destruct Hs as [<-|Hs]; [reflexivity|]). destruct Hs.
Qed.

(* the empty lookup list that the strengthened premise excludes: the model says 0 where numpy says nan *)
Example c06_ex_empty_lookup_excluded :
  reconstruct_parts pyint0_ref 1 [Qmake 1 1] [(mkPart 0 [0] [(1, [1%N])] [[]], DV2 [[([1], [1])]]%N)] = Ok [Qmake 0 1] /\
  ~ locs_ok_ne (mkPart 0 [0] [(1, [1%N])] [[]]).
Proof. split; [vm_compute; reflexivity|]. intros [_ H]. apply (H []); [left|]; reflexivity. Qed.

(* the four hypotheses of c06_public_estimator for a results dict in the other order *)
Example c06_ex_public_hyps :
  let m := [(1, exBd); (0, exAd)] in
  (forall l, In l (map plabel [exA; exB]) <-> In l (map fst m)) /\
  (forall p x, In p [exA; exB] -> In x (pphases p) -> x = 0) /\
  (forall p, In p [exA; exB] -> length (plookup p) = length (plookup exA) /\ locs_ok_ne p) /\
  (forall p d, In p [exA; exB] -> assoc m (plabel p) = Some d ->
     data_len d = length ex_coeffs * length (pgroups p) /\
     forall k, In k (keys_of d) -> outcome_to_int pyint0_ref k = Some (ex_den k)).
Proof.
  destruct c06_ex_hyps as [H1 [H2 H3]]. cbn zeta. split; [|split; [|split]].
  - intros l. cbn. intuition.
  - intros p x [<-|[<-|[]]] Hx; cbn in Hx; intuition.
  - intros p [<-|[<-|[]]]; [apply (H2 (exA, exAd)); left; reflexivity|apply (H2 (exB, exBd)); right; left; reflexivity].
  - intros p d [<-|[<-|[]]] Hd; cbn in Hd; inversion Hd; subst d.
    + split; [apply (H1 (exA, exAd)); left; reflexivity|]. intros k Hk. apply (H3 (exA, exAd) k); [left; reflexivity|exact Hk].
    + split; [apply (H1 (exB, exBd)); right; left; reflexivity|]. intros k Hk. apply (H3 (exB, exBd) k); [right; left; reflexivity|exact Hk].
Qed.

Example c06_ex_public_count_refused :
  reconstruct pyint0_ref (RMap [(1, exBd); (0, exAd)]) [Qmake 1 2] (OMap [exA; exB]) = Refused.
Proof. reflexivity. Qed.

(* the public wrapper on a results dict ordered differently from the observables dict *)
Example c06_ex_public :
  reconstruct pyint0_ref (RMap [(1, exBd); (0, exAd)]) ex_coeffs (OMap [exA; exB]) = Ok [Qmake (-7) 16; Qmake (-3) 2].
Proof. vm_compute. reflexivity. Qed.

Example c06_ex_count_refused :
  reconstruct_parts pyint0_ref 2 [Qmake 1 2] ex_pds = Refused.
Proof. reflexivity. Qed.

Print Assumptions c06_process_outcome_spec.
Print Assumptions c06_estimator.
Print Assumptions c06_v1_v2.
Print Assumptions c06_split_pack.
Print Assumptions c06_from_bytes.
Print Assumptions c06_count_refused.
Print Assumptions c06_sign_values.
Print Assumptions c06_keys.
Print Assumptions c06_keys_same_result.
Print Assumptions c06_keys_parser.
Print Assumptions c06_estimator_parser.
Print Assumptions c06_v2_own_shots.
Print Assumptions c06_public_estimator.
Print Assumptions c06_grouping_bridge.
Print Assumptions c06_grouping_shape.
Print Assumptions c06_estimator_grouping.
Print Assumptions c06_v1_v2_estimator_grouping.
Print Assumptions c06_refusal_causes.
Print Assumptions c06_public_count_refused.
Print Assumptions c06_v1_merge.
Print Assumptions c06_v1_v2_dict.
Print Assumptions c06_lookup_nonempty.
Print Assumptions c06_public_estimator_grouping.
Print Assumptions c06_measured_qubits.
Print Assumptions c06_mask_bits.
Print Assumptions c06_lookup.
Print Assumptions c06_letters_shape.
Print Assumptions c06_oracle_contract_inhabited.
Print Assumptions c06_types_refused.
Print Assumptions c06_keyset_refused.
Print Assumptions c06_phase_refused.
Print Assumptions c06_public_map.
Print Assumptions c06_public_list.

(* tie to the source: reconstruct_expectation_values has exactly the seven refusal sites of the
   model (2 type + 1 type + key set + 2 phase + count) *)
From CKT Require Import Extracted.Facts.
Definition sites_of (f : string) : nat :=
  match find (fun p => String.eqb (fst p) f) value_error_sites with Some p => snd p | None => 0 end.
Theorem c06_facts : sites_of "cutting_reconstruction:reconstruct_expectation_values" = 7.
Proof. reflexivity. Qed.
Print Assumptions c06_facts.

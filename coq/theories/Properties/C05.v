(* Properties/C05.v — Generated subexperiments and coefficients follow the documented contract.
   Only theorem statements (closed by `exact` / one-liners), non-vacuity examples, facts obligations, Print Assumptions.

   Vocabulary (Model/Experiments.v, Proofs/ExperimentsP.v):
     generate gh gsx env cenv circuits observables N W   the model of generate_cutting_experiments; W = the weights
                                dictionary that generate_qpd_weights returned on this call (oracle input, C04)
     core .. C table og W       its shared second half: C = coefficient lists of `bases`, table = per partition
                                (circuit, qpd gate ids, cut ids), og = per partition the commuting groups
     sort_samples W             the samples in the order of the coefficient list
     coeff_value total kappa w cs = (w/total) * (kappa * sign (prod cs));  total_weight W == sum of the weights
     built .. joint l g e       circuit e was built from the joint map ids `joint`, partition l, group g
     spec_exp .. qc ids ms g    declarative subexperiment: measures_numbered (flat_map splice (assign ..)) (C14's words)
                                ++ measurement_suffix (C11's words), registers old ++ [observable] ++ [qpd]
     optimise e                 e after the three reset passes (C12's optimise_resets)                                *)
From Coq Require Import QArith Qabs Sorted Permutation.
From CKT Require Import Common.Base Common.Circ Model.Decompose Model.Measurement Model.ResetPasses
  Model.Experiments Proofs.DecomposeP Proofs.MeasurementP Proofs.ResetPassesP Proofs.ExperimentsP Proofs.ExperimentsC.
From CKT Require Model.Weights Model.Observables Model.Grouping Proofs.GroupingP Proofs.RoundtripP.
Close Scope Q_scope.

(* ------------------------------------------------------------------------------------------------
   0. a successful call is one run of `core` on explicitly known bases, partition table and groups;
      only the two documented argument forms succeed *)
Theorem c05_generate_is_core : forall gh gsx env cenv circuits observables N W r,
  generate gh gsx env cenv circuits observables N W = Ok r ->
  ge1 N = true /\
  ((exists qc groups bs ids lA l,
      circuits = CSingle qc /\ observables = OPaulis (Ok groups) /\
      get_bases 0 (mdata qc) = Ok (bs, ids) /\
      core gh gsx env (map (fun b => nth b cenv []) bs) [(label_A, mkPI qc ids None)] [(label_A, groups)] W
        = Ok ([(lA, l)], snd r) /\
      fst r = OutList l)
   \/
   (exists d od M og dd,
      circuits = CDict d /\ observables = ODict od /\
      mapping_by_partition d = Ok M /\ all_groups od = Ok og /\
      core gh gsx env (map (fun b => nth b cenv []) (bases_by_partition d)) (table_of d M) og W = Ok (dd, snd r) /\
      fst r = OutDict dd)).
Proof.
  intros gh gsx env cenv circuits observables N W r H.
  destruct (generate_ok_forms _ _ _ _ _ _ _ _ _ H) as [(qc & gs & -> & ->)|(d & od & -> & ->)].
  - destruct (generate_single_inv _ _ _ _ _ _ _ _ _ H) as (HN & groups & bs & ids & lA & l & -> & Hb & Hc & Hr).
    split; [exact HN|left]. exists qc, groups, bs, ids, lA, l. auto 10.
  - destruct (generate_dict_inv _ _ _ _ _ _ _ _ _ H) as (HN & M & og & dd & HM & Hog & Hc & Hr).
    split; [exact HN|right]. exists d, od, M, og, dd. auto 10.
Qed.

(* in both forms every decomposition request consists of singleton groups over distinct data indices, and in the
   separated form the table entry of a label is that label's circuit with the result of its label scan *)
Theorem c05_tables : forall d M qc bs ids l,
  (mapping_by_partition d = Ok M ->
     table_wf (table_of d M) /\
     forall l p, alookup (table_of d M) l = Some p ->
       exists qc ids sfx, alookup d l = Some qc /\ mapping_scan 0 (mdata qc) = Ok (ids, sfx) /\
                          p = mkPI qc ids (Some sfx)) /\
  (get_bases 0 (mdata qc) = Ok (bs, ids) -> table_wf [(l, mkPI qc ids None)]).
Proof.
  intros. split; [intros HM; split; [now apply table_of_wf|intros l' p; now apply table_lookup]|apply single_table_wf].
Qed.

(* ------------------------------------------------------------------------------------------------
   1. coefficients: one per distinct sampled joint map, coeff_z = w_z / sum w * kappa * sign(prod_j c_{j,m_j}),
      paired with the sample's weight type, in the order of sort_samples *)
Theorem c05_coeffs : forall gh gsx env C table og W out coeffs,
  core gh gsx env C table og W = Ok (out, coeffs) ->
  length coeffs = length W /\
  Forall2 (fun s c => exists cs,
             chosen_coeffs C (s_ids s) = Ok cs /\
             c = (coeff_value (total_weight W) (kappa_all C) (s_w s) cs, s_t s))
          (sort_samples W) coeffs /\
  (total_weight W == sumQ (map s_w W))%Q.
Proof.
  intros gh gsx env C table og W out coeffs H. pose proof (core_coeffs _ _ _ _ _ _ _ _ _ H) as HF.
  split; [rewrite <- (Forall2_length' _ _ _ HF); apply sort_length|split; [exact HF|apply total_weight_eq]].
Qed.

(* c05_coeffs is a read-off of `core` for ANY association list W.  A Python dict has distinct keys and
   generate_qpd_weights returns positive weights; for such W (what "one coefficient per DISTINCT sampled joint map"
   is about) the sorted samples still have distinct keys and the total weight is positive, i.e. the division of the
   coefficient formula is a genuine one.  (For a list with total weight 0 the model divides in Q and answers 0 where
   Python produces nan or ZeroDivisionError: outside this theorem's premises, never generated.) *)
Theorem c05_coeffs_distinct : forall gh gsx env C table og W out coeffs,
  core gh gsx env C table og W = Ok (out, coeffs) ->
  NoDup (map s_ids W) -> W <> [] -> (forall s, In s W -> (0 < s_w s)%Q) ->
  length coeffs = length W /\
  NoDup (map s_ids (sort_samples W)) /\
  (0 < total_weight W)%Q /\
  Forall2 (fun s c => exists cs, chosen_coeffs C (s_ids s) = Ok cs /\
             c = (coeff_value (total_weight W) (kappa_all C) (s_w s) cs, s_t s)) (sort_samples W) coeffs.
Proof. exact coeffs_distinct. Qed.

(* chosen_coeffs picks C_j[m_j] for every cut j (and only succeeds on a joint map of the right length and range) *)
Theorem c05_chosen : forall C ids cs, chosen_coeffs C ids = Ok cs ->
  length ids = length C /\ Forall2 (fun p c => nth_error (fst p) (snd p) = Some c) (combine C ids) cs.
Proof. exact chosen_coeffs_spec. Qed.

(* hence sum |coeff| = kappa whenever no chosen product is 0 (weights non-negative, not all zero) *)
Theorem c05_coeffs_sum : forall gh gsx env C table og W out coeffs,
  core gh gsx env C table og W = Ok (out, coeffs) ->
  (0 < sumQ (map s_w W))%Q ->
  (forall s, In s W -> (0 <= s_w s)%Q) ->
  (forall s cs, In s W -> chosen_coeffs C (s_ids s) = Ok cs -> ~ (prodQ cs == 0)%Q) ->
  (sumQ (map (fun c => Qabs (fst c)) coeffs) == kappa_all C)%Q.
Proof.
  intros gh gsx env C table og W out coeffs H Ht Hw Hp.
  pose proof (core_coeffs _ _ _ _ _ _ _ _ _ H) as HF.
  rewrite <- total_weight_eq in Ht.
  rewrite (sum_abs_coeffs C _ _ _ HF Ht).
  - rewrite <- (qsum_perm _ _ (Permutation_map s_w (sort_perm W))), <- total_weight_eq. field.
    intros E. rewrite E in Ht. exact (Qlt_irrefl _ Ht).
  - intros s Hs. apply Hw. eapply Permutation_in; [apply Permutation_sym, sort_perm|exact Hs].
  - intros s cs Hs. apply Hp. eapply Permutation_in; [apply Permutation_sym, sort_perm|exact Hs].
Qed.

(* the sign law, as a fact about the formula ... *)
Theorem c05_coeff_value_sign : forall total kap w cs,
  (0 < w)%Q -> (0 < total)%Q -> (0 < kap)%Q ->
  qsign (coeff_value total kap w cs) = qsign (prodQ cs).
Proof. exact sign_coeff. Qed.

(* ... and on the coefficients `core` returns, for any budget: every coefficient has the sign of the product of its
   maps' coefficients when the weights are positive (oracle premise for finite budgets, see section 8) *)
Theorem c05_coeffs_sign : forall gh gsx env C table og W out coeffs,
  core gh gsx env C table og W = Ok (out, coeffs) ->
  (forall v, In v C -> ~ (kappa_of v == 0)%Q) ->
  (forall s, In s W -> (0 < s_w s)%Q) ->
  Forall2 (fun s c => exists cs, chosen_coeffs C (s_ids s) = Ok cs /\ qsign (fst c) = qsign (prodQ cs))
          (sort_samples W) coeffs.
Proof. exact sign_core. Qed.

Theorem c05_kappa_nonneg : forall C, (0 <= kappa_all C)%Q.
Proof. exact kappa_all_nonneg. Qed.

(* ------------------------------------------------------------------------------------------------
   2. infinite budget.  exact_weights C W: W lists every joint map of non-zero probability exactly once, each with
      weight prod_j |c_{j,m_j}| / kappa_j (what C04 proves about generate_qpd_weights(bases, inf) when no product
      falls under the 1e-14 cut-off).  Then sum W = 1 and every coefficient EQUALS prod_j c_{j,m_j}. *)
Theorem c05_exact_total : forall C W,
  (forall v, In v C -> ~ (kappa_of v == 0)%Q) -> exact_weights C W -> (sumQ (map s_w W) == 1)%Q.
Proof. exact exact_weights_total. Qed.

Theorem c05_exact_coeff : forall C W s cs,
  (forall v, In v C -> ~ (kappa_of v == 0)%Q) -> exact_weights C W -> In s W ->
  chosen_coeffs C (s_ids s) = Ok cs ->
  (coeff_value (total_weight W) (kappa_all C) (s_w s) cs == prodQ cs)%Q.
Proof. exact exact_coeff. Qed.

(* ------------------------------------------------------------------------------------------------
   3. order of the coefficient list: the dictionary sorted by weight, descending, stable *)
Theorem c05_sorted : forall W,
  Permutation W (sort_samples W) /\
  StronglySorted (fun a b => (s_w b <= s_w a)%Q) (sort_samples W) /\
  forall v, filter (fun s => Qeq_bool (s_w s) v) (sort_samples W) = filter (fun s => Qeq_bool (s_w s) v) W.
Proof. intros W. split; [apply sort_perm|split; [apply sort_sorted|intros v; apply sort_stable]]. Qed.

(* ------------------------------------------------------------------------------------------------
   4. counts and layout: per partition #coefficients x #groups circuits, sample-major: element z*G + j is built
      from sample z and group j (then optimised); partitions appear in the order of the observables; a partition
      with no circuit at all is absent from the output *)
Theorem c05_counts_layout : forall gh gsx env C table og W out coeffs,
  core gh gsx env C table og W = Ok (out, coeffs) ->
  exists full,
    out = filter (fun le => negb (Nat.eqb (length (snd le)) 0)) full /\
    Forall2 (fun lg le =>
               fst le = fst lg /\
               length (snd le) = length coeffs * length (snd lg) /\
               forall z j s g, nth_error (sort_samples W) z = Some s -> nth_error (snd lg) j = Some g ->
                 exists e, built gh gsx env table (s_ids s) (fst lg) g e /\
                           nth_error (snd le) (z * length (snd lg) + j) = Some (optimise e))
            og full.
Proof.
  intros gh gsx env C table og W out coeffs H.
  destruct (core_layout _ _ _ _ _ _ _ _ _ H) as (full & HF & Hout).
  destruct (c05_coeffs _ _ _ _ _ _ _ _ _ H) as (Hlen & _ & _).
  exists full. split; [exact Hout|].
  eapply Forall2_imp; [|exact HF]. intros lg le (H1 & H2 & H3).
  split; [exact H1|split; [|exact H3]]. now rewrite Hlen, <- (sort_length W).
Qed.

(* ------------------------------------------------------------------------------------------------
   5. shape.  BEFORE the passes a built circuit IS the declarative one: the partition's subcircuit with every
      placeholder replaced by the chosen map's operations (C14's splice), QPD measurement k writing clbit
      nc0 + nobs + k, [final resets dropped when the group measures nothing], followed by the rotations and
      measurements of the group (C11's suffix) into clbits nc0 .. nc0 + nobs - 1; registers: the old ones, then
      observable_measurements (nobs bits), then qpd_measurements (max 1 #markers bits).
      AFTER the passes: the same up to deleted Reset instructions (WHICH resets go is property C12's/C19's statement:
      del_resets alone allows any subset); no placeholder, no marker.  Every measured index is a qubit of the circuit,
      so the `nth .. 0` defaults in c05_observable_bits are never met; `splice`'s default for an out-of-range map id is
      never met either because `valid` carries the range condition. *)
Theorem c05_shape : forall gh gsx env table joint l g e,
  table_wf table -> built gh gsx env table joint l g e ->
  exists p ms,
    alookup table l = Some p /\
    match pi_sfx p with None => Ok joint | Some sfx => project joint sfx end = Ok ms /\
    valid env (mdata (pi_qc p)) (pi_ids p) (map Z.of_nat ms) /\
    existsb fst (mcregs (pi_qc p)) = false /\
    length (og_general g) = mnq (pi_qc p) /\
    e = spec_exp gh gsx env (pi_qc p) (pi_ids p) ms g /\
    mnq (optimise e) = mnq e /\ mnc (optimise e) = mnc e /\ mcregs (optimise e) = mcregs e /\
    del_resets (mdata e) (mdata (optimise e)) /\
    (forall s, In s (pauli_indices_or_dummy (og_indices g)) -> s < mnq (pi_qc p)) /\
    (forall y, In y (mdata (optimise e)) -> is_qpd y = false /\ is_marker y = false).
Proof.
  intros gh gsx env table joint l g e Hwf Hb.
  destruct (built_shape _ _ _ _ _ _ _ _ Hwf Hb) as (p & ms & Hp & Hms & Hv & Hr & Hn & He).
  destruct (optimise_shape e) as (O1 & O2 & O3 & O4).
  assert (Hidx : forall s, In s (pauli_indices_or_dummy (og_indices g)) -> s < mnq (pi_qc p)).
  { destruct Hb as (p' & ms' & Hp' & _ & Hb1). rewrite Hp in Hp'. inversion Hp'; subst p'.
    exact (build1_indices _ _ _ _ _ _ _ _ Hb1). }
  exists p, ms. repeat (split; [assumption|]).
  intros y Hy. apply (del_resets_In _ _ _ O4) in Hy. subst e. eapply spec_exp_clean; eauto.
Qed.

(* conversely (totality of the per-circuit step): a valid decomposition request on a circuit without an earlier
   observable_measurements register, with observables of the circuit's width and measured qubits inside the circuit,
   ALWAYS yields the declared circuit — never a refusal or a crash *)
Theorem c05_build_total : forall gh gsx env qc ids ms g,
  valid env (mdata qc) ids (map Z.of_nat ms) ->
  existsb fst (mcregs qc) = false ->
  length (og_general g) = mnq qc ->
  (forall s, In s (pauli_indices_or_dummy (og_indices g)) -> s < mnq qc) ->
  build1 gh gsx env qc ids ms g = Ok (spec_exp gh gsx env qc ids ms g).
Proof. exact build1_total. Qed.

(* spec_exp unfolded once, so that the statement above can be read without the definitions *)
Theorem c05_spec_exp : forall gh gsx env qc ids ms g,
  let nc0 := mnc qc in
  let nobs := length (pauli_indices_or_dummy (og_indices g)) in
  let s := flat_map (splice env) (assign (mdata qc) ids (Some (map Z.of_nat ms))) in
  let nqpd := Nat.max 1 (count_markers s) in
  let b := measures_numbered (nc0 + nobs) s in
  spec_exp gh gsx env qc ids ms g =
  mkMC (mnq qc) (nc0 + nobs + nqpd)
       (mcregs qc ++ [(true, seq nc0 nobs); (false, seq (nc0 + nobs) nqpd)])
       (match og_indices g with [] => remove_final_resets (mnq qc) b | _ :: _ => b end
        ++ measurement_suffix gh gsx (og_general g) (og_indices g) (seq 0 (mnq qc)) (seq nc0 nobs)).
Proof. reflexivity. Qed.

(* the classical bit layout consumed by reconstruction (C06): observable bit k is clbit nc0 + k ... *)
Theorem c05_observable_bits : forall gh gsx g idx locs nc0,
  measurement_suffix gh gsx g idx locs (seq nc0 (length (pauli_indices_or_dummy idx))) =
  flat_map (fun ci => rotation_instrs gh gsx (nth (snd ci) g 0) (nth (snd ci) locs 0)
                      ++ [mkI Measure [nth (snd ci) locs 0] [nc0 + fst ci]])
           (combine (seq 0 (length (pauli_indices_or_dummy idx))) (pauli_indices_or_dummy idx)).
Proof. exact suffix_bits. Qed.

(* ... and QPD bit k is clbit nc0 + nobs + k: the k-th marker of the spliced stream writes exactly that bit *)
Theorem c05_qpd_bits : forall nc s,
  flat_map ics (DecomposeP.select (map is_marker s) (measures_numbered nc s)) = seq nc (count_markers s).
Proof. exact qpd_bits. Qed.

(* ------------------------------------------------------------------------------------------------
   6. projection: the one-qubit placeholder at data index p whose label ends in _k is decomposed with map id
      joint[k] — in every partition, so the two halves of cut k always receive the same map id; after C14's
      assignment its basis_id is that id *)
Theorem c05_projection : forall joint c ids sfx ms p x k,
  mapping_scan 0 c = Ok (ids, sfx) -> project joint sfx = Ok ms ->
  nth_error c p = Some x -> suffix_of x = Some (Some k) ->
  exists m, nth_error joint k = Some m /\ In ([p], m) (combine ids ms) /\
    (forall env, valid env c ids (map Z.of_nat ms) ->
       nth_error (assign c ids (Some (map Z.of_nat ms))) p = Some (set_bid m x)).
Proof.
  intros joint c ids sfx ms p x k Hs Hp Hx Hk.
  destruct (projection_gen joint c 0 ids sfx ms p x k Hs Hp Hx Hk) as (m & Hm & Hin).
  exists m. split; [exact Hm|split; [exact Hin|]]. intros env Hv.
  rewrite <- (Nat2Z.id m).
  apply (assign_member env c ids (map Z.of_nat ms) [p] (Z.of_nat m) p x Hv); [|now left|exact Hx].
  now apply In_combine_map.
Qed.

Theorem c05_scans : forall c i,
  (forall ids sfx, mapping_scan i c = Ok (ids, sfx) ->
     ids = singletons (positions_from is_qpd1 i c) /\ sfx = suffixes c /\
     forall x, In x c -> suffix_of x <> Some None) /\
  (forall bs ids, get_bases i c = Ok (bs, ids) ->
     ids = singletons (positions_from is_qpd2 i c) /\
     bs = flat_map (fun x => match iop x with Qpd2 b _ _ => [b] | _ => [] end) c /\
     forall x, In x c -> is_qpd1 x = false).
Proof. intros c i. split; [apply mapping_scan_spec|apply get_bases_spec]. Qed.

(* the coefficient of cut k is taken from bases[k]: `bases` lists the stored bases by ascending cut id, the circuits
   use joint[k].  When every cut id is below len(bases) (an input precondition: a successful projection enforces it
   only for partitions that occur in `observables`), position k of `bases` holds the basis of SOME placeholder
   labelled _k.  (Stronger, two-directional form: c05_bases_aligned_full.) *)
Theorem c05_bases_aligned : forall d,
  (forall x k, In x (all_instrs d) -> suffix_of x = Some (Some k) -> k < length (bases_by_partition d)) ->
  forall x k, In x (all_instrs d) -> suffix_of x = Some (Some k) ->
    exists b, nth_error (bases_by_partition d) k = Some b /\
              exists x', In x' (all_instrs d) /\ cut_of x' = Some (k, b).
Proof. exact bases_aligned. Qed.

(* both directions.  (1) every position of `bases` belongs to a cut that occurs: the ids are exactly 0..n-1.
   (2) `_get_bases_by_partition` stores, per cut id, the basis of the LAST placeholder it meets; neither it nor `generate`
   compares the bases of the two halves of a cut (OBSERVATION: two halves with different basis objects are accepted by
   the Python code and by the model; that both halves carry one basis is partition_problem's output contract, C10).
   Under that premise bases[k] is THE handle of every placeholder labelled _k, so coefficient and circuit use the
   same map of the same basis. *)
Theorem c05_bases_aligned_full : forall d,
  (forall x k, In x (all_instrs d) -> suffix_of x = Some (Some k) -> k < length (bases_by_partition d)) ->
  (forall j, j < length (bases_by_partition d) -> exists x b, In x (all_instrs d) /\ cut_of x = Some (j, b)) /\
  ((forall x x' k b b', In x (all_instrs d) -> In x' (all_instrs d) ->
      cut_of x = Some (k, b) -> cut_of x' = Some (k, b') -> b = b') ->
   forall x k b, In x (all_instrs d) -> cut_of x = Some (k, b) -> nth_error (bases_by_partition d) k = Some b).
Proof. exact bases_aligned_full. Qed.

Theorem c05_project_bound : forall joint sfx ms k,
  project joint sfx = Ok ms -> In k sfx -> k < length joint.
Proof. exact project_bound. Qed.

(* ------------------------------------------------------------------------------------------------
   6b. totality (separated form): an in-domain request is ANSWERED.  In-domain: num_samples >= 1 or inf; every
   ObservableCollection was built; no subcircuit has a register named observable_measurements, a two-qubit placeholder
   or a one-qubit placeholder without numeric suffix; every observable label is a circuit label, its groups have the
   circuit's width and measure qubits of the circuit; every joint map of the dictionary selects a coefficient in every
   basis and gives every placeholder (through its cut id) a map id that is in range for that placeholder's basis.
   The decomposition requests issued on the way are `valid` C14 requests (scan-to-valid, c05_scan_valid), so
   c05_generate_is_core / c05_coeffs / c05_counts_layout / c05_shape are not vacuous on such requests. *)
Theorem c05_scan_valid : forall env c ids sfx joint ms,
  mapping_scan 0 c = Ok (ids, sfx) -> project joint sfx = Ok ms ->
  (forall x, In x c -> is_qpd2 x = false) ->
  (forall x k b, In x c -> cut_of x = Some (k, b) ->
     exists m, nth_error joint k = Some m /\ m < length (nth b env [])) ->
  valid env c ids (map Z.of_nat ms).
Proof. exact scan_valid. Qed.

Theorem c05_generate_total : forall gh gsx env cenv d od og N W,
  ge1 N = true -> all_groups od = Ok og ->
  (forall l qc, In (l, qc) d -> circuit_ok qc) ->
  (forall l gs, In (l, gs) og -> exists qc, alookup d l = Some qc /\ forall g, In g gs -> group_ok qc g) ->
  (forall s, In s W -> sample_ok env (map (fun b => nth b cenv []) (bases_by_partition d)) d (s_ids s)) ->
  exists dd coeffs, generate gh gsx env cenv (CDict d) (ODict od) N W = Ok (OutDict dd, coeffs).
Proof. exact generate_total. Qed.

(* ------------------------------------------------------------------------------------------------
   7. refusals, in source order *)
Theorem c05_refuse_types : forall gh gsx env cenv qc d gs od N W,
  generate gh gsx env cenv (CSingle qc) (ODict od) N W = Refused /\
  generate gh gsx env cenv (CSingle qc) OOther N W = Refused /\
  generate gh gsx env cenv (CDict d) (OPaulis gs) N W = Refused /\
  generate gh gsx env cenv (CDict d) OOther N W = Refused.
Proof. intros. repeat split; reflexivity. Qed.

Theorem c05_refuse_num_samples : forall gh gsx env cenv circuits observables N W,
  (N = NNaN \/ N = NNegInf \/ exists q, N = NFin q /\ (q < 1)%Q) ->
  generate gh gsx env cenv circuits observables N W = Refused.
Proof.
  intros gh gsx env cenv circuits observables N W H. apply generate_refuses_N.
  destruct H as [->|[->|(q & -> & Hq)]]; try reflexivity. cbn [ge1].
  destruct (Qle_bool 1 q) eqn:E; [|reflexivity]. apply Qle_bool_iff in E.
  exfalso. exact (Qlt_irrefl _ (Qle_lt_trans _ _ _ E Hq)).
Qed.

Theorem c05_refuse_suffix : forall gh gsx env cenv d od N W l qc x,
  ge1 N = true -> In (l, qc) d -> In x (mdata qc) -> suffix_of x = Some None ->
  generate gh gsx env cenv (CDict d) (ODict od) N W = Refused.
Proof. exact generate_refuses_suffix. Qed.

Theorem c05_refuse_1q_unseparated : forall gh gsx env cenv qc groups N W x,
  ge1 N = true -> In x (mdata qc) -> is_qpd1 x = true ->
  generate gh gsx env cenv (CSingle qc) (OPaulis (Ok groups)) N W = Refused.
Proof. exact generate_refuses_1q. Qed.

(* ------------------------------------------------------------------------------------------------
   non-vacuity: two partitions, two cuts; partition 0 holds half 0 of cut 0 and BOTH halves of cut 1; partition 1
   holds half 1 of cut 0; partition 1 has a group whose restriction is the identity (dummy measurement of qubit 0,
   one-bit register) next to a Y group; basis 1 is Move-like (measure+reset / reset+prepare), so the identity group
   meets a trailing reset; three samples with a tie in the weights *)
Definition exB0 : basis := [ ([BGate 10], [BGate 11]); ([BMeas], [BGate 12]) ].
Definition exB1 : basis := [ ([BMeas; BReset], [BReset; BGate 13]); ([BGate 14; BReset], [BReset]) ].
Definition exEnv : benv := [exB0; exB1].
Definition exCenv : list (list Q) := [ [1 # 2; - (1 # 2)]%Q ; [1; -1]%Q ].
Definition L0 : qlabel := Some (0, Some 0).
Definition L1 : qlabel := Some (0, Some 1).
Definition exA : mcirc :=
  mkMC 2 0 [] [ mkI (Gate 1) [0] []; mkI (Qpd1 0 0 None L0) [0] []; mkI (Gate 2) [0; 1] [];
                mkI (Qpd1 1 0 None L1) [1] []; mkI (Qpd1 1 1 None L1) [0] [] ].
Definition exBc : mcirc :=
  mkMC 1 0 [] [ mkI (Qpd1 0 1 None L0) [0] []; mkI (Gate 3) [0] []; mkI (Qpd1 1 0 None None) [0] [] ].
Definition exBc' : mcirc :=
  mkMC 1 0 [] [ mkI (Qpd1 0 1 None L0) [0] []; mkI (Gate 3) [0] []; mkI Reset [0] [] ].
Definition exD : list (nat * mcirc) := [(7, exA); (9, exBc')].
Definition exOD : list (nat * res (list ogroup)) :=
  [ (7, Ok [mkOG [3; 1] [0; 1]]); (9, Ok [mkOG [0] []; mkOG [2] [0]]) ].
Definition exW : sdict :=
  [ ([0; 0], ((1 # 4)%Q, KExact)); ([1; 1], ((1 # 2)%Q, KSampled)); ([0; 1], ((1 # 4)%Q, KExact)) ].
Definition exRun := generate 20 21 exEnv exCenv (CDict exD) (ODict exOD) NPosInf exW.

Example c05_ex_runs :
  exists dd coeffs, exRun = Ok (OutDict dd, coeffs) /\
    (* order: the heaviest sample first, the tie [0;0] / [0;1] in dictionary order; kappa = 1 * 2 *)
    Forall2 (fun c e => (fst c == fst e)%Q /\ snd c = snd e) coeffs [ (1%Q, KSampled); ((1 # 2)%Q, KExact); ((- (1 # 2))%Q, KExact) ] /\
    map fst dd = [7; 9] /\
    map (fun le => length (snd le)) dd = [3 * 1; 3 * 2] /\
    (* partition 7, sample 0 = maps (1, 1): cut 0 half 0 -> BMeas, cut 1 both halves -> (14, reset) on qubit 1 and
       reset on qubit 0; observable bits 0,1; QPD bit 2 *)
    nth_error (snd (nth 0 dd (0, []))) 0 =
      Some (mkMC 2 3 [(true, [0; 1]); (false, [2])]
              [ mkI (Gate 1) [0] []; mkI Measure [0] [2]; mkI (Gate 2) [0; 1] []; mkI (Gate 14) [1] [];
                mkI Reset [1] []; mkI Reset [0] []; mkI Measure [0] [0]; mkI (Gate 20) [1] []; mkI Measure [1] [1] ]) /\
    (* partition 9, sample 0, group 0 (identity restriction): trailing reset gone, dummy measurement of qubit 0 *)
    nth_error (snd (nth 1 dd (0, []))) 0 =
      Some (mkMC 1 2 [(true, [0]); (false, [1])]
              [ mkI (Gate 12) [0] []; mkI (Gate 3) [0] []; mkI Measure [0] [0] ]).
Proof.
  eexists; eexists. split; [vm_compute; reflexivity|].
  split; [repeat constructor|]. vm_compute. repeat split; reflexivity.
Qed.

(* a third partition that holds NO half of any cut: its circuits are the subcircuit + suffix, one-bit QPD register *)
Example c05_ex_no_cut :
  exists dd coeffs,
    generate 20 21 exEnv exCenv (CDict (exD ++ [(11, mkMC 1 0 [] [mkI (Gate 4) [0] []])]))
             (ODict (exOD ++ [(11, Ok [mkOG [3] [0]])])) (NFin 10) exW = Ok (OutDict dd, coeffs) /\
    map fst dd = [7; 9; 11] /\
    snd (nth 2 dd (0, [])) =
      repeat (mkMC 1 2 [(true, [0]); (false, [1])] [mkI (Gate 4) [0] []; mkI Measure [0] [0]]) 3.
Proof. eexists; eexists. split; [vm_compute; reflexivity|]. vm_compute. split; reflexivity. Qed.

(* the hypotheses of c05_exact_coeff are satisfiable: all four joint maps with their exact probabilities *)
Definition exWinf : sdict :=
  [ ([0; 0], ((1 # 4)%Q, KExact)); ([0; 1], ((1 # 4)%Q, KExact)); ([1; 0], ((1 # 4)%Q, KExact)); ([1; 1], ((1 # 4)%Q, KExact)) ].

Example c05_ex_exact_weights :
  (forall v, In v exCenv -> ~ (kappa_of v == 0)%Q) /\ exact_weights exCenv exWinf.
Proof.
  split.
  - intros v [<-|[<-|[]]]; discriminate.
  - split; [|split].
    + repeat constructor; simpl; intuition discriminate.
    + intros s [<-|[<-|[<-|[<-|[]]]]]; (split; [vm_compute; tauto|reflexivity]).
    + intros ids Hin _. vm_compute in Hin. vm_compute. tauto.
Qed.

Example c05_ex_exact_run :
  exists dd coeffs,
    generate 20 21 exEnv exCenv (CDict exD) (ODict exOD) NPosInf exWinf = Ok (OutDict dd, coeffs) /\
    Forall2 (fun c p => (fst c == p)%Q) coeffs [(1 # 2); - (1 # 2); - (1 # 2); (1 # 2)]%Q.
Proof. eexists; eexists. split; [vm_compute; reflexivity|]. repeat constructor. Qed.

(* both halves of a cut in one partition and the scan's view of it *)
Example c05_ex_scan :
  mapping_scan 0 (mdata exA) = Ok ([[1]; [3]; [4]], [0; 1; 1]) /\
  project [5; 6] [0; 1; 1] = Ok [5; 6; 6] /\
  bases_by_partition exD = [0; 1].
Proof. repeat split; reflexivity. Qed.

(* refusal classes are inhabited; a cut id that is not an index crashes (IndexError) *)
Example c05_ex_refusals :
  generate 20 21 exEnv exCenv (CDict exD) (ODict exOD) (NFin (1 # 2)) exW = Refused /\
  generate 20 21 exEnv exCenv (CDict exD) (ODict exOD) NNaN exW = Refused /\
  generate 20 21 exEnv exCenv (CDict [(7, exA); (9, exBc)]) (ODict exOD) NPosInf exW = Refused /\
  generate 20 21 exEnv exCenv (CSingle exA) (OPaulis (Ok [mkOG [3; 1] [0; 1]])) NPosInf exW = Refused /\
  generate 20 21 exEnv exCenv (CDict exD) (OPaulis (Ok [])) NPosInf exW = Refused /\
  (* a joint map of the wrong length: strict_zip's ValueError *)
  generate 20 21 exEnv exCenv (CDict [(7, exA)]) (ODict [(7, Ok [mkOG [3; 1] [0; 1]])]) NPosInf [([0], (1%Q, KExact))] = Refused /\
  (* the only cut is labelled _1: one basis, map_ids[1] is an IndexError *)
  generate 20 21 exEnv exCenv (CDict [(7, mkMC 1 0 [] [mkI (Qpd1 0 0 None L1) [0] []])]) (ODict [(7, Ok [mkOG [3] [0]])]) NPosInf
           [([0], (1%Q, KExact))] = Crashed.
Proof. vm_compute. repeat split; reflexivity. Qed.

Print Assumptions c05_generate_is_core.
Print Assumptions c05_tables.
Print Assumptions c05_coeffs.
Print Assumptions c05_chosen.
Print Assumptions c05_coeffs_sum.
Print Assumptions c05_coeffs_distinct.
Print Assumptions c05_coeff_value_sign.
Print Assumptions c05_coeffs_sign.
Print Assumptions c05_kappa_nonneg.
Print Assumptions c05_exact_total.
Print Assumptions c05_exact_coeff.
Print Assumptions c05_sorted.
Print Assumptions c05_counts_layout.
Print Assumptions c05_shape.
Print Assumptions c05_build_total.
Print Assumptions c05_spec_exp.
Print Assumptions c05_observable_bits.
Print Assumptions c05_qpd_bits.
Print Assumptions c05_projection.
Print Assumptions c05_scans.
Print Assumptions c05_bases_aligned.
Print Assumptions c05_bases_aligned_full.
Print Assumptions c05_scan_valid.
Print Assumptions c05_generate_total.
Print Assumptions c05_project_bound.
Print Assumptions c05_refuse_types.
Print Assumptions c05_refuse_num_samples.
Print Assumptions c05_refuse_suffix.
Print Assumptions c05_refuse_1q_unseparated.

(* ------------------------------------------------------------------------------------------------
   8. composition with the models of the two oracles.
      W := of_wdict (Weights.final_sort r) where r is what the C04 model of _generate_qpd_weights returns on the
      probability vectors probs_of C = |coeffs| / kappa of the bases (generate_qpd_weights = final_sort of it);
      groups_of_collection obs o = the groups the C11 model of ObservableCollection builds. *)

(* ANY budget: every dictionary of the C04 model has distinct keys, each key selects a coefficient in every basis
   (so the coefficient step of `core` neither refuses nor crashes on it) and no chosen product is 0 *)
Theorem c05_c04_dictionary : forall C perms N tape r,
  (forall v, In v C -> ~ (kappa_of v == 0)%Q) ->
  Weights.sorting_perms_b (probs_of C) perms = true ->
  Weights.gen_weights (probs_of C) perms N tape = Some (Ok r) ->
  let W := of_wdict (Weights.final_sort r) in
  NoDup (map s_ids W) /\
  forall s, In s W -> exists cs, chosen_coeffs C (s_ids s) = Ok cs /\ ~ (prodQ cs == 0)%Q.
Proof. exact c04_dictionary_ok. Qed.

(* INFINITE budget, sum and sign for the coefficients `core` returns — no hypothesis about the weights is left:
   one coefficient per entry of the C04 dictionary, sum |coeff| = prod kappa, sign = sign of the product.
   (Hypotheses: every basis has kappa <> 0 and a probability above the 1e-14 cut-off; the dictionary is not empty.) *)
Theorem c05_inf_budget_sum_sign : forall gh gsx env C table og perms tape r out coeffs,
  (forall v, In v C -> ~ (kappa_of v == 0)%Q) ->
  Forall (fun v => exists x, In x v /\ (Extracted.Facts.nonzero_atol < x)%Q) (probs_of C) ->
  Weights.gen_weights (probs_of C) perms Weights.PInf tape = Some (Ok r) -> r <> [] ->
  let W := of_wdict (Weights.final_sort r) in
  core gh gsx env C table og W = Ok (out, coeffs) ->
  length coeffs = length r /\
  (sumQ (map (fun c => Qabs (fst c)) coeffs) == kappa_all C)%Q /\
  Forall2 (fun s c => exists cs, chosen_coeffs C (s_ids s) = Ok cs /\ qsign (fst c) = qsign (prodQ cs))
          (sort_samples W) coeffs.
Proof. exact inf_budget_coefficients. Qed.

(* INFINITE budget, exactness: if no joint map has a probability strictly between 0 and the 1e-14 cut-off
   (RoundtripP.no_subcutoff_map; otherwise the dropped maps make the total < 1 and the clause is false), the dictionary
   generate_qpd_weights returns satisfies exact_weights and every coefficient EQUALS the product of its maps' coefficients *)
Theorem c05_inf_budget_exact : forall gh gsx env C table og perms tape r out coeffs,
  (forall v, In v C -> ~ (kappa_of v == 0)%Q) ->
  Forall (fun v => exists x, In x v /\ (Extracted.Facts.nonzero_atol < x)%Q) (probs_of C) ->
  RoundtripP.no_subcutoff_map C ->
  Weights.gen_weights (probs_of C) perms Weights.PInf tape = Some (Ok r) ->
  let W := of_wdict (Weights.final_sort r) in
  exact_weights C W /\
  (core gh gsx env C table og W = Ok (out, coeffs) ->
   Forall2 (fun s c => exists cs, chosen_coeffs C (s_ids s) = Ok cs /\ (fst c == prodQ cs)%Q) (sort_samples W) coeffs).
Proof. exact inf_budget_exact. Qed.

(* the same, tied together on the public model function: budget inf, C = the coefficient lists of the problem's own
   bases, W = final_sort of the C04 model's result on the probabilities of exactly those bases *)
Theorem c05_generate_inf : forall gh gsx env cenv d od perms tape r dd coeffs,
  let C := map (fun b => nth b cenv []) (bases_by_partition d) in
  let W := of_wdict (Weights.final_sort r) in
  (forall v, In v C -> ~ (kappa_of v == 0)%Q) ->
  Forall (fun v => exists x, In x v /\ (Extracted.Facts.nonzero_atol < x)%Q) (probs_of C) ->
  Weights.gen_weights (probs_of C) perms (Weights.PInf) tape = Some (Ok r) -> r <> [] ->
  generate gh gsx env cenv (CDict d) (ODict od) (of_num Weights.PInf) W = Ok (OutDict dd, coeffs) ->
  length coeffs = length r /\
  (sumQ (map (fun c => Qabs (fst c)) coeffs) == kappa_all C)%Q /\
  Forall2 (fun s c => exists cs, chosen_coeffs C (s_ids s) = Ok cs /\ qsign (fst c) = qsign (prodQ cs))
          (sort_samples W) coeffs /\
  (RoundtripP.no_subcutoff_map C ->
   Forall2 (fun s c => exists cs, chosen_coeffs C (s_ids s) = Ok cs /\ (fst c == prodQ cs)%Q) (sort_samples W) coeffs).
Proof. exact generate_inf_dict. Qed.

(* FINITE budgets: FULL STATEMENT (not proved): the same conclusion sum |coeff| = prod kappa for every dictionary the C04
   model returns.  PROVED (hence _partial): the hypothesis "no chosen product is 0" is discharged from the C04 model
   (c04_no_zero); what is MISSING is positivity of the weights the C04 model returns for a finite budget (count *
   single_sample_weight and N * p entries), which no C04 theorem states yet — it stays a hypothesis, monitored on
   every generated case by the harness contract weights_positive_right_length. *)
Theorem c05_coeffs_sum_c04_partial : forall gh gsx env C table og perms N tape r out coeffs,
  (forall v, In v C -> ~ (kappa_of v == 0)%Q) ->
  Weights.sorting_perms_b (probs_of C) perms = true ->
  Weights.gen_weights (probs_of C) perms N tape = Some (Ok r) ->
  let W := of_wdict (Weights.final_sort r) in
  core gh gsx env C table og W = Ok (out, coeffs) ->
  W <> [] -> (forall s, In s W -> (0 < s_w s)%Q) ->
  (sumQ (map (fun c => Qabs (fst c)) coeffs) == kappa_all C)%Q.
Proof. exact sum_kappa_c04. Qed.

(* the groups: as many as group_commuting returned; group j is built from the oracle's j-th group by
   most_general_observable (phase 0) and its pauli_indices are exactly the ascending non-identity positions of the
   general observable — so G in c05_counts_layout is the number of commuting groups and the measurement suffix of
   c05_spec_exp measures exactly the support of the general observable *)
Theorem c05_groups_from_c11 : forall obs o gs,
  groups_of_collection obs o = Ok gs ->
  length gs = length (Grouping.o_groups o) /\
  forall j g, nth_error gs j = Some g ->
    exists members, nth_error (Grouping.o_groups o) j = Some members /\
      Grouping.most_general_observable members None = Ok (Observables.mkP 0 (og_general g)) /\
      og_indices g = filter (GroupingP.nonid (og_general g)) (seq 0 (length (og_general g))) /\
      StronglySorted lt (og_indices g) /\
      (forall q, In q (og_indices g) <-> q < length (og_general g) /\ nth q (og_general g) 0 <> 0).
Proof. exact groups_of_collection_spec. Qed.

(* the projection for ANY number of partitions: whatever partition l a circuit is built for, it is built from the
   SAMPLE's joint map ids (c05_counts_layout: `built .. (s_ids s) l ..` for every l), and inside it the placeholder
   labelled _k is decomposed with joint[k] — never with an entry of another partition's already projected tuple *)
Theorem c05_projection_all_partitions : forall gh gsx env d M joint l g e,
  mapping_by_partition d = Ok M -> built gh gsx env (table_of d M) joint l g e ->
  exists qc ids sfx ms,
    alookup d l = Some qc /\ mapping_scan 0 (mdata qc) = Ok (ids, sfx) /\ project joint sfx = Ok ms /\
    e = spec_exp gh gsx env qc ids ms g /\
    forall p x k, nth_error (mdata qc) p = Some x -> suffix_of x = Some (Some k) ->
      exists m, nth_error joint k = Some m /\
                nth_error (assign (mdata qc) ids (Some (map Z.of_nat ms))) p = Some (set_bid m x).
Proof. exact projection_all_partitions. Qed.

(* non-vacuity of section 8 *)
Definition exPerms : list (list nat) := [[0; 1]; [0; 1]].

Example c05_ex_c04_inf :
  (forall v, In v exCenv -> ~ (kappa_of v == 0)%Q) /\
  Forall (fun v => exists x, In x v /\ (Extracted.Facts.nonzero_atol < x)%Q) (probs_of exCenv) /\
  Weights.sorting_perms_b (probs_of exCenv) exPerms = true /\
  exists r, Weights.gen_weights (probs_of exCenv) exPerms Weights.PInf [] = Some (Ok r) /\ r <> [] /\
    exists dd coeffs, generate 20 21 exEnv exCenv (CDict exD) (ODict exOD) NPosInf (of_wdict (Weights.final_sort r))
                      = Ok (OutDict dd, coeffs) /\ length coeffs = 4.
Proof.
  split; [intros v [<-|[<-|[]]]; discriminate|].
  split; [repeat constructor; eexists; (split; [left; reflexivity|vm_compute; reflexivity])|].
  split; [vm_compute; reflexivity|].
  eexists. split; [vm_compute; reflexivity|]. split; [discriminate|].
  eexists; eexists. split; vm_compute; reflexivity.
Qed.

(* a finite budget on which the C04 model needs no draw (N = 4 = 1 / p for all four joint maps) *)
Example c05_ex_c04_finite :
  exists r, Weights.gen_weights (probs_of exCenv) exPerms (Weights.Fin 4) [] = Some (Ok r) /\
    of_wdict (Weights.final_sort r) <> [] /\
    (forall s, In s (of_wdict (Weights.final_sort r)) -> (0 < s_w s)%Q).
Proof.
  eexists. split; [vm_compute; reflexivity|]. split; [vm_compute; discriminate|].
  vm_compute. intros s [<-|[<-|[<-|[<-|[]]]]]; reflexivity.
Qed.

Example c05_ex_groups :
  groups_of_collection [Observables.mkP 0 [3; 1]; Observables.mkP 0 [3; 0]]
                       (Grouping.mkOracle [Observables.mkP 0 [3; 1]; Observables.mkP 0 [3; 0]]
                                          [[Observables.mkP 0 [3; 1]; Observables.mkP 0 [3; 0]]])
  = Ok [mkOG [3; 1] [0; 1]].
Proof. vm_compute. reflexivity. Qed.

(* partition 9 (third in no order that matters) gets joint[0] for its half of cut 0 although partition 7 was projected
   before it with the cut ids [0; 1; 1] *)
Example c05_ex_projection_partition :
  exists M e, mapping_by_partition exD = Ok M /\ built 20 21 exEnv (table_of exD M) [1; 0] 9 (mkOG [2] [0]) e /\
    nth_error (mdata e) 0 = Some (mkI (Gate 12) [0] []).
Proof.
  eexists; eexists. split; [vm_compute; reflexivity|]. split.
  - eexists; eexists. split; [vm_compute; reflexivity|]. split; vm_compute; reflexivity.
  - vm_compute. reflexivity.
Qed.

(* ---------------- examples added after the proof audit ---------------- *)
(* the unseparated call form succeeds: two two-qubit placeholders, two groups, three samples -> 6 circuits *)
Definition exS : mcirc :=
  mkMC 2 0 [] [ mkI (Gate 1) [0] []; mkI (Qpd2 0 None None) [0; 1] []; mkI (Gate 2) [1] []; mkI (Qpd2 1 None None) [1; 0] [] ].
Example c05_ex_single :
  get_bases 0 (mdata exS) = Ok ([0; 1], [[1]; [3]]) /\
  exists l coeffs,
    generate 20 21 exEnv exCenv (CSingle exS) (OPaulis (Ok [mkOG [3; 1] [0; 1]; mkOG [0; 0] []])) (NFin 7) exW
      = Ok (OutList l, coeffs) /\ length l = 3 * 2 /\ length coeffs = 3 /\
    (* sample 0 = maps (1, 1): cut 0 -> (BMeas on qubit 0, gate 12 on qubit 1); cut 1 on qubits (1, 0) -> (gate 14, reset) on
       qubit 1 and reset on qubit 0, which is followed by the Z measurement and therefore stays *)
    nth_error l 0 = Some (mkMC 2 3 [(true, [0; 1]); (false, [2])]
                            [ mkI (Gate 1) [0] []; mkI Measure [0] [2]; mkI (Gate 12) [1] []; mkI (Gate 2) [1] [];
                              mkI (Gate 14) [1] []; mkI Reset [1] []; mkI Reset [0] []; mkI Measure [0] [0];
                              mkI (Gate 20) [1] []; mkI Measure [1] [1] ]).
Proof. split; [reflexivity|]. eexists; eexists. split; [vm_compute; reflexivity|]. vm_compute. repeat split; reflexivity. Qed.

(* a finite budget that really draws: N = 3 on four equiprobable joint maps, tape of numpy.random.choice answers;
   three SAMPLED entries of positive weight — the premises of c05_coeffs_sum_c04_partial / c05_coeffs_sign hold *)
Example c05_ex_c04_sampled :
  exists r, Weights.gen_weights (probs_of exCenv) exPerms (Weights.Fin 3) [0; 1; 1; 0; 1; 0; 0; 0; 1; 1] = Some (Ok r) /\
    map (fun s => s_t s) (of_wdict (Weights.final_sort r)) = [KSampled; KSampled; KSampled] /\
    NoDup (map s_ids (of_wdict (Weights.final_sort r))) /\
    (forall s, In s (of_wdict (Weights.final_sort r)) -> (0 < s_w s)%Q) /\
    exists dd coeffs, generate 20 21 exEnv exCenv (CDict exD) (ODict exOD) (NFin 3) (of_wdict (Weights.final_sort r))
                      = Ok (OutDict dd, coeffs) /\ length coeffs = 3.
Proof.
  eexists. split; [vm_compute; reflexivity|]. split; [vm_compute; reflexivity|].
  split; [vm_compute; repeat constructor; simpl; intuition discriminate|].
  split; [vm_compute; intros s [<-|[<-|[<-|[]]]]; reflexivity|].
  eexists; eexists. split; vm_compute; reflexivity.
Qed.

(* the premises of c05_build_total are inhabited: partition exA, its scan's request, map ids (1, 0, 0) *)
Example c05_ex_build_total :
  valid exEnv (mdata exA) [[1]; [3]; [4]] (map Z.of_nat [1; 0; 0]) /\
  existsb fst (mcregs exA) = false /\ length (og_general (mkOG [3; 1] [0; 1])) = mnq exA /\
  (forall s, In s (pauli_indices_or_dummy [0; 1]) -> s < mnq exA) /\
  exists e, build1 20 21 exEnv exA [[1]; [3]; [4]] [1; 0; 0] (mkOG [3; 1] [0; 1]) = Ok e.
Proof.
  split; [apply validb_sound; vm_compute; reflexivity|]. split; [reflexivity|]. split; [reflexivity|].
  split; [intros s [<-|[<-|[]]]; simpl; auto|]. eexists. vm_compute. reflexivity.
Qed.

(* the premises of c05_generate_total hold for the running example (two partitions, two cuts, identity group) *)
Example c05_ex_generate_total :
  ge1 NPosInf = true /\ all_groups exOD = Ok [ (7, [mkOG [3; 1] [0; 1]]); (9, [mkOG [0] []; mkOG [2] [0]]) ] /\
  (forall l qc, In (l, qc) exD -> circuit_ok qc) /\
  (forall l gs, In (l, gs) [ (7, [mkOG [3; 1] [0; 1]]); (9, [mkOG [0] []; mkOG [2] [0]]) ] ->
     exists qc, alookup exD l = Some qc /\ forall g, In g gs -> group_ok qc g) /\
  (forall s, In s exW -> sample_ok exEnv (map (fun b => nth b exCenv []) (bases_by_partition exD)) exD (s_ids s)).
Proof.
  split; [reflexivity|]. split; [reflexivity|]. split; [|split].
  - intros l qc [H|[H|[]]]; inversion H; subst; (split; [reflexivity|]);
      intros x Hx; simpl in Hx; repeat (destruct Hx as [<-|Hx]; [split; [reflexivity|discriminate]|]); destruct Hx.
  - intros l gs [H|[H|[]]]; inversion H; subst; eexists; (split; [reflexivity|]);
      intros g Hg; simpl in Hg; repeat (destruct Hg as [<-|Hg]; [split; [reflexivity|simpl; intros s Hs; intuition lia]|]); destruct Hg.
  - intros s Hs. split.
    + simpl in Hs. repeat (destruct Hs as [<-|Hs]; [eexists; vm_compute; reflexivity|]). destruct Hs.
    + intros x k b Hx Hc. vm_compute in Hx.
      repeat (destruct Hx as [<-|Hx]; [try discriminate Hc; inversion Hc; subst; simpl in Hs;
              repeat (destruct Hs as [<-|Hs]; [eexists; split; [reflexivity|simpl; lia]|]); destruct Hs|]).
      destruct Hx.
Qed.

(* no_subcutoff_map is inhabited (all four joint maps have probability 1/4), so c05_inf_budget_exact applies to the
   dictionary of c05_ex_c04_inf *)
Example c05_ex_no_subcutoff : RoundtripP.no_subcutoff_map exCenv.
Proof.
  intros ids Hin. vm_compute in Hin. destruct Hin as [<-|[<-|[<-|[<-|[]]]]]; right; unfold Qle; vm_compute; discriminate.
Qed.

(* the premises of c05_bases_aligned_full: both cut ids of exD are below len(bases) = 2 and the halves agree on the basis *)
Example c05_ex_aligned :
  (forall x k, In x (all_instrs exD) -> suffix_of x = Some (Some k) -> k < length (bases_by_partition exD)) /\
  (forall x x' k b b', In x (all_instrs exD) -> In x' (all_instrs exD) ->
     cut_of x = Some (k, b) -> cut_of x' = Some (k, b') -> b = b').
Proof.
  split.
  - intros x k Hx Hk. vm_compute in Hx.
    repeat (destruct Hx as [<-|Hx]; [try discriminate Hk; inversion Hk; subst; vm_compute; lia|]). destruct Hx.
  - intros x x' k b b' Hx Hx' Hc Hc'. vm_compute in Hx, Hx'.
    repeat (destruct Hx as [<-|Hx]; [try discriminate Hc; inversion Hc; subst;
            repeat (destruct Hx' as [<-|Hx']; [try discriminate Hc'; try (inversion Hc'; subst; reflexivity)|]); destruct Hx'|]).
    destruct Hx.
Qed.

Print Assumptions c05_c04_dictionary.
Print Assumptions c05_inf_budget_sum_sign.
Print Assumptions c05_inf_budget_exact.
Print Assumptions c05_generate_inf.
Print Assumptions c05_coeffs_sum_c04_partial.
Print Assumptions c05_groups_from_c11.
Print Assumptions c05_projection_all_partitions.

(* ---------------- tie to the source (regenerated facts) ---------------- *)
From CKT Require Import Extracted.Facts.
From Coq Require Import String.
Open Scope string_scope.
Definition sites_of (f : string) : nat :=
  match find (fun p => String.eqb (fst p) f) value_error_sites with Some p => snd p | None => 0 end.

(* the order of the per-circuit steps (build1), of the three passes (optimise), the sort, the coefficient formula,
   the projection, the dummy index, the two register names, and the refusal sites are those of the model.
   The F2 repair (a guarded _remove_final_resets before the measurement suffix) may be present or absent: that is
   property C19's obligation, C05's correspondence accepts both. *)
Theorem c05_facts :
  (* the cut id is int(<text after the last "_">) in both helpers; `bases` is ordered by ascending cut id *)
  c05_label_parse = ["int(inst.operation.label.split('_')[-1])";
                     "int(circuit.data[basis_id[0]].operation.label.split('_')[-1])";
                     "[bases_dict[key] for key in sorted(bases_dict.keys())]"] /\
  (* one loop over the sorted samples computes the coefficient AND builds that sample's circuits, partitions in the
     observables' order, groups innermost; the passes run afterwards over every list *)
  c05_loops = ["0:(z, (map_ids, (redundancy, weight_type))) in enumerate(sorted_samples)";
               "1:(label, so) in subsystem_observables.items()";
               "2:(j, cog) in enumerate(so.groups)";
               "0:subexperiments in subexperiments_dict.values()";
               "1:circ in subexperiments"] /\
  c05_group_loop_calls = ["_append_measurement_register"; "decompose_qpd_instructions"; "_append_measurement_circuit"; "append"] /\
  (c05_f2_guard = [] \/ c05_f2_guard = ["2"; "not cog.pauli_indices"; "_remove_final_resets"]) /\
  c05_pass_order = ["_remove_resets_in_zero_state"; "_remove_final_resets"; "_consolidate_resets"] /\
  c05_formulas = ["np.prod([basis.kappa for basis in bases])";
                  "sum([value[0] for value in random_samples.values()])";
                  "sorted(random_samples.items(), key=lambda x: x[1][0], reverse=True)";
                  "np.prod([basis.coeffs[map_id] for basis, map_id in strict_zip(bases, map_ids)])";
                  "redundancy / num_samples * (kappa * np.sign(actual_coeff))";
                  "map_ids;tuple((map_ids[j] for j in subcirc_map_ids[label]))"] /\
  c05_dummy_index = ["cog.pauli_indices"; "[0]"] /\
  c05_register_names = ["observable_measurements"; "qpd_measurements"] /\
  sites_of "cutting_experiments:generate_cutting_experiments" = 3 /\
  sites_of "cutting_experiments:_get_mapping_ids_by_partition" = 1 /\
  sites_of "cutting_experiments:_get_bases" = 1.
Proof.
  split; [reflexivity|]. split; [reflexivity|]. split; [reflexivity|]. split; [first [left; reflexivity|right; reflexivity]|]. repeat split; reflexivity.
Qed.
Print Assumptions c05_facts.

(* Properties/C14.v — Decomposing cut placeholders puts the selected operations in the right place.
   Only theorem statements (closed by `exact`), non-vacuity examples, facts obligations, Print Assumptions.

   Vocabulary (Model/Decompose.v, Proofs/DecomposeP.v):
     decompose env c nc ids maps : res (circ * nat)    the model of decompose_qpd_instructions (running offsets kept)
     valid_grouping c ids   = validate c ids = Ok tt, i.e. (c14_validate_characterised) groups of 1 or 2 placeholders with one
                              basis, a 2q placeholder alone in its group, no index twice, every placeholder mentioned
     valid env c ids ms     = valid_grouping /\ |ms| = |ids| /\ every map id (a Python int: Z) in range 0 <= m < #maps for
                              every member of its group
     assign c ids (Some ms) = c with basis_id := the map id of the group containing the index (pointwise: c14_assign)
     splice env i           = the chosen map's sequence for that half on that qubit (2q: half 0 on qubit 0 ++ half 1 on
                              qubit 1) for a placeholder i, [i] for anything else
     measures_numbered nc s = s with the k-th qpd_measure marker (list order) replaced by Measure writing clbit nc + k
     spec env nc c1         = (measures_numbered nc (flat_map (splice env) c1), max 1 #markers)                      *)
From CKT Require Import Common.Base Common.Circ Model.Decompose Proofs.DecomposeP.
From CKT Require Import Model.DecomposeEq Proofs.DecomposeEqP Proofs.DecomposeAuditP.

(* the running-offset implementation equals the declarative splice, for ALL circuits, groupings and map choices.
   wf_shape c: every instruction has a shape Python can build (2q placeholder on two qubits, 1q placeholder on one qubit
   with qubit_id < 2); splice_strict takes the qubits by pattern matching on the qubit list and the map by nth_error, so
   "on that qubit" never rests on an index default *)
Theorem c14_splice : forall env c nc ids ms,
  valid env c ids ms -> wf_shape c = true ->
  decompose env c nc ids (Some (map Some ms)) =
  Ok (measures_numbered nc (flat_map (splice_strict env) (assign c ids (Some ms))),
      Nat.max 1 (count_markers (flat_map (splice_strict env) (assign c ids (Some ms))))).
Proof. exact decompose_splice_strict. Qed.

(* the same without the shape premise, for the TOTALISED splice (qubits by `nth k (iqs i) 0`, half by `0 => fst | _ => snd`):
   also true of shapes Python cannot build (a 2q placeholder on one qubit is "placed" on the default qubit 0) — kept because
   the corollaries below and the other properties are stated with it; on well-shaped circuits the two splices agree *)
Theorem c14_splice_totalised : forall env c nc ids ms,
  valid env c ids ms ->
  decompose env c nc ids (Some (map Some ms)) =
  Ok (measures_numbered nc (flat_map (splice env) (assign c ids (Some ms))),
      Nat.max 1 (count_markers (flat_map (splice env) (assign c ids (Some ms))))).
Proof. exact decompose_splice. Qed.

Theorem c14_splice_strict_agrees : forall env i,
  shape_ok i = true -> goodb env i = true -> splice_strict env i = splice env i.
Proof. exact splice_strict_eq. Qed.

(* what `assign` is: a member of group g gets the map id paired with g; every non-placeholder is untouched *)
Theorem c14_assign : forall env c ids ms,
  valid env c ids ms ->
  (forall g m p x, In (g, m) (combine ids ms) -> In p g -> nth_error c p = Some x ->
     nth_error (assign c ids (Some ms)) p = Some (set_bid (Z.to_nat m) x)) /\
  (forall p x, nth_error c p = Some x -> is_qpd x = false -> nth_error (assign c ids (Some ms)) p = Some x) /\
  Forall (fun x => goodb env x = true) (assign c ids (Some ms)).
Proof.
  intros env c ids ms Hv. split; [|split].
  - intros g m p x. exact (assign_member env c ids ms g m p x Hv).
  - intros p x. exact (assign_other c ids (Some ms) p x).
  - exact (assign_good env c ids ms Hv).
Qed.

(* what the (repaired) validation accepts, declaratively.  NOTE: this is all the code and the model mean by a consistent
   grouping; a pair of two half-0 gates of one basis, a lone half of a two-qubit basis and two gates of a one-qubit basis
   grouped as a pair ARE accepted and decomposed (c14_ex_accepted_odd_groupings) *)
Theorem c14_validate_characterised : forall c ids,
  validate c ids = Ok tt <->
  (Forall (good_group c) ids /\                                  (* 1 or 2 indices, all placeholders, one basis *)
   length (filter is_qpd c) = length (concat ids) /\             (* as many indices as placeholders *)
   NoDup (concat ids) /\                                         (* no index mentioned twice *)
   (forall g, In g ids -> lone_2q c g)).                         (* a two-qubit placeholder is alone in its group *)
Proof. intros c ids; split; [apply validate_ok_full|apply validate_complete]. Qed.

Theorem c14_no_placeholder : forall env c nc ids ms out k,
  valid env c ids ms -> decompose env c nc ids (Some (map Some ms)) = Ok (out, k) ->
  forall y, In y out -> is_qpd y = false /\ is_marker y = false.
Proof. exact no_placeholder. Qed.

(* the instructions of the input that are neither placeholders nor markers are kept AT THEIR PLACE: the one at input index p
   is found, itself, at the output index = total length of what the p instructions before it became; and the output
   positions selected by keep_mask (true exactly at those places) are the others of the input, in order *)
Theorem c14_others_in_order : forall env c nc ids ms out k,
  valid env c ids ms -> decompose env c nc ids (Some (map Some ms)) = Ok (out, k) ->
  let c1 := assign c ids (Some ms) in
  (forall p x, nth_error c p = Some x -> is_other x = true ->
     nth_error out (length (flat_map (splice env) (firstn p c1))) = Some x) /\
  length (keep_mask env c1) = length out /\ select (keep_mask env c1) out = filter is_other c.
Proof. exact others_at_position. Qed.

(* weak form (selection by VALUE: an inserted basis operation equal to an original instruction is indistinguishable) *)
Theorem c14_others_in_order_weak : forall env c nc ids ms out k,
  valid env c ids ms -> decompose env c nc ids (Some (map Some ms)) = Ok (out, k) ->
  exists mask, length mask = length out /\ select mask out = filter is_other c.
Proof. exact others_in_order. Qed.

(* markers become measurements writing distinct consecutive bits nc, nc+1, ... of the new final register of size
   max 1 #markers; everything else in the spliced stream is left alone *)
Theorem c14_measure_bits : forall env c nc ids ms out k,
  valid env c ids ms -> decompose env c nc ids (Some (map Some ms)) = Ok (out, k) ->
  let s := flat_map (splice env) (assign c ids (Some ms)) in
  k = Nat.max 1 (count_markers s) /\
  length out = length s /\
  (forall j, nth_error out j =
     option_map (fun x => if is_marker x then mkI Measure (iqs x) [nc + count_markers (firstn j s)] else x)
                (nth_error s j)) /\
  flat_map ics (select (map is_marker s) out) = seq nc (count_markers s).
Proof. exact measure_bits. Qed.

(* refusals, one per documented class (indices inside the circuit; an index outside is an IndexError) *)
Theorem c14_refuse_length : forall env c nc ids maps g,
  ids_in_range c ids -> In g ids -> length g <> 1 -> length g <> 2 ->
  decompose env c nc ids maps = Refused.
Proof. exact refuse_length. Qed.

Theorem c14_refuse_non_placeholder : forall env c nc ids maps g p,
  ids_in_range c ids -> In g ids -> In p g ->
  (forall x, nth_error c p = Some x -> is_qpd x = false) ->
  decompose env c nc ids maps = Refused.
Proof. exact refuse_non_placeholder. Qed.

Theorem c14_refuse_differing_bases : forall env c nc ids maps g p q b b',
  ids_in_range c ids -> In g ids -> In p g -> In q g ->
  placeholder_with c b p -> placeholder_with c b' q -> b <> b' ->
  decompose env c nc ids maps = Refused.
Proof. exact refuse_differing_bases. Qed.

Theorem c14_refuse_count : forall env c nc ids maps,
  ids_in_range c ids -> length (concat ids) <> length (filter is_qpd c) ->
  decompose env c nc ids maps = Refused.
Proof. exact refuse_count. Qed.

Theorem c14_refuse_repeated_index : forall env c nc ids maps,
  ids_in_range c ids -> ~ NoDup (concat ids) -> decompose env c nc ids maps = Refused.
Proof. exact refuse_repeated_index. Qed.

Theorem c14_refuse_2q_in_pair : forall env c nc ids maps g p,
  ids_in_range c ids -> In g ids -> In p g -> qpd2_at c p -> length g <> 1 ->
  decompose env c nc ids maps = Refused.
Proof. exact refuse_2q_in_pair. Qed.

Theorem c14_refuse_maps_length : forall env c nc ids (mos : list (option Z)),
  ids_in_range c ids -> length mos <> length ids ->
  decompose env c nc ids (Some mos) = Refused.
Proof. exact refuse_maps_length. Qed.

Theorem c14_refuse_map_none : forall env c nc ids (mos : list (option Z)),
  ids_in_range c ids -> In None mos -> decompose env c nc ids (Some mos) = Refused.
Proof. exact refuse_map_none. Qed.

Theorem c14_refuse_map_out_of_range : forall env c nc ids (mos : list (option Z)) g m p,
  ids_in_range c ids -> In (g, Some m) (combine ids mos) -> In p g -> in_range_b env c p m = false ->
  decompose env c nc ids (Some mos) = Refused.
Proof. exact refuse_map_out_of_range. Qed.

(* totality: every request whose indices lie inside the circuit, on a well-shaped circuit whose gates satisfy the setter
   invariant wfb, is DECIDED — it is the (default-free) splice of the circuit with the assigned basis_ids when the grouping
   is accepted, the map choice complete and in range and every placeholder has a basis_id, and a refusal otherwise *)
Theorem c14_decided : forall env c nc ids maps,
  ids_in_range c ids -> forallb (wfb env) c = true -> wf_shape c = true ->
  decompose env c nc ids maps =
  if accepts env c ids maps then Ok (spec_strict env nc (assigned c ids maps)) else Refused.
Proof. exact decompose_decided_strict. Qed.

Theorem c14_decided_totalised : forall env c nc ids maps,
  ids_in_range c ids -> forallb (wfb env) c = true ->
  decompose env c nc ids maps =
  if accepts env c ids maps then Ok (spec env nc (assigned c ids maps)) else Refused.
Proof. exact decompose_decided. Qed.

Theorem c14_never_crashes : forall env c nc ids maps,
  ids_in_range c ids -> forallb (wfb env) c = true -> decompose env c nc ids maps <> Crashed.
Proof. exact decompose_never_crashes. Qed.

(* THE CARVE-OUT of the refusal theorems: an index outside the circuit is NOT refused by the model (nor by the code, which
   raises IndexError): the answer is a refusal or a crash, and a crash does occur *)
Theorem c14_index_outside_not_ok : forall env c nc ids maps,
  (exists g p, In g ids /\ In p g /\ length c <= p) ->
  decompose env c nc ids maps = Refused \/ decompose env c nc ids maps = Crashed.
Proof. exact index_outside_not_ok. Qed.

Theorem c14_index_outside_single_crashes : forall env c nc p maps,
  length c <= p -> decompose env c nc [[p]] maps = Crashed.
Proof. exact index_outside_single_crashes. Qed.

(* map_ids omitted (wfb: the class invariant "a set basis_id is in range"): the result is the splice with the
   basis_ids already on the gates when every placeholder has one, a refusal otherwise — never a crash *)
Theorem c14_omitted : forall env c nc ids,
  valid_grouping c ids -> forallb (wfb env) c = true ->
  decompose env c nc ids None =
  if forallb has_bid c then Ok (spec env nc c) else Refused.
Proof. exact decompose_omitted. Qed.

Theorem c14_omitted_never_crashes : forall env c nc ids,
  valid_grouping c ids -> forallb (wfb env) c = true -> decompose env c nc ids None <> Crashed.
Proof. exact omitted_never_crashes. Qed.

(* out-of-range choices made on the gate itself.  `setter` is the MODEL of the basis_id setter (one line: in range ->
   Ok, else Refused); that the Python setter is this function is tied by the fact "one ValueError site" and the stream
   `preset`, not proved.  c14_setter_def unfolds it; c14_setter_invariant: an id accepted by the setter gives a gate
   (one- or two-qubit) satisfying wfb, the premise of c14_decided / c14_omitted / c14_refines.  What remains assumed for wfb:
   nobody shrinks basis.maps afterwards (QPDBasis._set_maps stores the caller's list uncopied, so Python can) *)
Theorem c14_setter_def : forall env b m,
  (setter env b m = Ok tt <-> (0 <= m < Z.of_nat (length (nth b env [])))%Z) /\
  (setter env b m <> Ok tt -> setter env b m = Refused).
Proof. exact setter_spec. Qed.

Theorem c14_setter_invariant : forall env b m l qs cs,
  (forall h, setter env b (Z.of_nat m) = Ok tt <-> wfb env (mkI (Qpd1 b h (Some m) l) qs cs) = true) /\
  (setter env b (Z.of_nat m) = Ok tt <-> wfb env (mkI (Qpd2 b (Some m) l) qs cs) = true).
Proof. intros env b m l qs cs. split; [intros h; apply setter_wfb|apply setter_wfb2]. Qed.

(* ---------------- QPDBasis equality modelled (Model/DecomposeEq.v) ----------------
   decompose_r re c nc ids maps : the same function on circuits whose basis handles are OBJECT identities; `re` gives
   every basis object its qubit count, maps and exact coefficient vector; the comparison made by the validation is the
   model function rbasis_eqb (QPDBasis.__eq__), no longer an equality the harness borrows from the implementation. *)

(* the MODEL of QPDBasis.__eq__ (rbasis_eqb) decides equality of (qubit count, maps, coefficients); that the Python method is
   this function is modelling, tied by the correspondence (modes eq_coeffs_diff_maps / eq_maps_diff_coeffs) *)
Theorem c14_basis_eq_reflects : forall x y, rbasis_eqb x y = true <-> x = y.
Proof. exact rbasis_eqb_spec. Qed.

(* validation accepts => all members of every decomposition (the two halves of a pair) carry equal bases *)
Theorem c14_accepted_pair_same_basis : forall re c ids,
  validate_r re c ids = Ok tt ->
  forall g p q, In g ids -> In p g -> In q g ->
  exists B, basis_obj_at re c p = Some B /\ basis_obj_at re c q = Some B.
Proof. exact accepted_pair_same_basis. Qed.

(* ... and halves whose bases differ in the maps OR in the coefficients OR in the qubit count are refused *)
Theorem c14_refuse_unequal_bases : forall re c nc ids maps g p q Bp Bq,
  ids_in_range c ids -> In g ids -> In p g -> In q g ->
  basis_obj_at re c p = Some Bp -> basis_obj_at re c q = Some Bq ->
  (rmaps Bp <> rmaps Bq \/ rcoeffs Bp <> rcoeffs Bq \/ rnq Bp <> rnq Bq) ->
  decompose_r re c nc ids maps = Refused.
Proof. exact differing_basis_refused. Qed.

(* refinement: with the equality modelled, the function IS the handle-based model on the quotient circuit (one handle
   per class of equal objects, what the harness interning computes), so every theorem above lifts; wfb: setter invariant *)
Theorem c14_refines : forall re c nc ids maps,
  forallb (wfb (map rmaps re)) c = true ->
  decompose_r re c nc ids maps = decompose (map rmaps re) (quotient re c) nc ids maps.
Proof. exact decompose_r_refines. Qed.

Theorem c14_validate_quotient : forall re c ids, validate (quotient re c) ids = validate_r re c ids.
Proof. exact validate_quotient. Qed.

(* the first loop splits EVERY two-qubit placeholder of an accepted request, wherever its group stands in
   instruction_ids (before or after pairs, in any order), in place, and leaves none *)
Theorem c14_all_2q_split : forall c ids,
  valid_grouping c ids ->
  (forall p, qpd2_at c p -> In p (ids_2q c ids)) /\
  expand_2q c ids = Ok (flat_map split2 c) /\
  (forall x, In x (flat_map split2 c) -> is_qpd2 x = false).
Proof. exact all_2q_split. Qed.

Theorem c14_2q_split_order_irrelevant : forall c ids ids',
  valid_grouping c ids -> valid_grouping c ids' -> expand_2q c ids = expand_2q c ids'.
Proof. exact expand_2q_order_irrelevant. Qed.

(* ---------------- non-vacuity ---------------- *)
(* B0: a two-qubit basis with empty sequences on either side and markers; B1: a one-qubit basis whose map 0 is empty *)
Definition exB0 : basis :=
  [ ([], [BGate 7]); ([BGate 1; BMeas], []); ([], []); ([BReset; BGate 2], [BMeas; BGate 3]) ].
Definition exB1 : basis := [ ([], []); ([BGate 2], []); ([BMeas; BGate 1], []) ].
Definition exEnv : benv := [exB0; exB1].
Definition exL : qlabel := Some (0, Some 4).
(* half 1 of a pair BEFORE its half 0, a 2q placeholder between them, a standalone 1q placeholder whose chosen map is
   empty, a pre-existing marker, ordinary instructions interleaved; groups listed out of order, pair ids reversed *)
Definition exC : circ :=
  [ mkI (Gate 0) [0] []; mkI (Qpd1 0 1 None exL) [2] []; mkI (Qpd2 0 None None) [1; 0] [];
    mkI (Gate 5) [0; 1] []; mkI (Qpd1 1 0 (Some 2) None) [2] []; mkI QpdMeasure [1] [];
    mkI (Qpd1 0 0 None exL) [0] []; mkI Measure [2] [0] ].
Definition exIds := [[4]; [6; 1]; [2]].
Definition exMs : list Z := [0; 3; 1]%Z.

Example c14_ex_valid : valid exEnv exC exIds exMs.
Proof. apply validb_sound. vm_compute. reflexivity. Qed.

Example c14_ex_result :
  decompose exEnv exC 1 exIds (Some (map Some exMs)) =
  Ok ([ mkI (Gate 0) [0] [];
        mkI Measure [2] [1]; mkI (Gate 3) [2] [];          (* pair, map 3, half 1 on qubit 2 *)
        mkI (Gate 1) [1] []; mkI Measure [1] [2];          (* 2q, map 1: half 0 on qubit 1, half 1 (empty) on qubit 0 *)
        mkI (Gate 5) [0; 1] [];
                                                            (* standalone, map 0: empty -> deleted *)
        mkI Measure [1] [3];                               (* the pre-existing marker *)
        mkI Reset [0] []; mkI (Gate 2) [0] [];             (* pair, map 3, half 0 on qubit 0 *)
        mkI Measure [2] [0] ], 3).
Proof. vm_compute. reflexivity. Qed.

Example c14_ex_spec_agrees :
  decompose exEnv exC 1 exIds (Some (map Some exMs)) = Ok (spec exEnv 1 (assign exC exIds (Some exMs))).
Proof. vm_compute. reflexivity. Qed.

(* zero markers: the register still has one bit *)
Example c14_ex_min_register :
  valid exEnv [mkI (Qpd2 0 None None) [0; 1] []] [[0]] [2%Z] /\
  decompose exEnv [mkI (Qpd2 0 None None) [0; 1] []] 0 [[0]] (Some [Some 2%Z]) = Ok ([], 1).
Proof. split; [apply validb_sound|]; vm_compute; reflexivity. Qed.

(* omitted map choice: refused while some basis_id is unset, decomposed once all are set *)
Example c14_ex_omitted_refused :
  valid_grouping exC exIds /\ forallb (wfb exEnv) exC = true /\ decompose exEnv exC 1 exIds None = Refused.
Proof. split; [apply groupingb_sound|split]; vm_compute; reflexivity. Qed.

Example c14_ex_omitted_ok :
  let c := assign exC exIds (Some exMs) in
  valid_grouping c exIds /\ forallb (wfb exEnv) c = true /\ forallb has_bid c = true /\
  decompose exEnv c 1 exIds None = decompose exEnv exC 1 exIds (Some (map Some exMs)).
Proof. split; [apply groupingb_sound|split; [|split]]; vm_compute; reflexivity. Qed.

Example c14_ex_setter :
  setter exEnv 1 2%Z = Ok tt /\ setter exEnv 1 3%Z = Refused /\ setter exEnv 1 (-1)%Z = Refused /\ setter exEnv 0 (-4)%Z = Refused.
Proof. vm_compute. repeat split; reflexivity. Qed.

(* object handles: halves 1 and 6 of the pair hold DIFFERENT but equal basis objects (handles 0 and 2); object 3 has the maps
   of object 0 and other coefficients, object 4 the coefficients of object 0 and other maps *)
Definition exK : list coeff := [(1%Z, 2%positive); (1%Z, 4%positive); ((-1)%Z, 4%positive); (1%Z, 2%positive)].
Definition exRe : renv :=
  [ mkRB 2 exB0 exK; mkRB 1 exB1 [(1%Z, 1%positive); (1%Z, 1%positive); ((-1)%Z, 1%positive)]; mkRB 2 exB0 exK;
    mkRB 2 exB0 [(1%Z, 2%positive); (1%Z, 4%positive); (1%Z, 4%positive); ((-1)%Z, 2%positive)];
    mkRB 2 [ ([], [BGate 8]); ([BGate 1; BMeas], []); ([], []); ([BReset; BGate 2], [BMeas; BGate 3]) ] exK ].
Definition exCr (b6 : nat) : circ :=
  [ mkI (Gate 0) [0] []; mkI (Qpd1 0 1 None exL) [2] []; mkI (Qpd2 0 None None) [1; 0] [];
    mkI (Gate 5) [0; 1] []; mkI (Qpd1 1 0 (Some 2) None) [2] []; mkI QpdMeasure [1] [];
    mkI (Qpd1 b6 0 None exL) [0] []; mkI Measure [2] [0] ].

Example c14_ex_objects :
  validate_r exRe (exCr 2) exIds = Ok tt /\ forallb (wfb (map rmaps exRe)) (exCr 2) = true /\
  quotient exRe (exCr 2) = exC /\
  decompose_r exRe (exCr 2) 1 exIds (Some (map Some exMs)) = decompose exEnv exC 1 exIds (Some (map Some exMs)) /\
  decompose_r exRe (exCr 3) 1 exIds (Some (map Some exMs)) = Refused /\      (* same maps, other coefficients *)
  decompose_r exRe (exCr 4) 1 exIds (Some (map Some exMs)) = Refused.        (* same coefficients, other maps *)
Proof. vm_compute. repeat split; reflexivity. Qed.

(* a two-qubit placeholder listed AFTER the pair and one listed before it are both split *)
Example c14_ex_2q_after_pair :
  let c := [ mkI (Qpd2 0 (Some 0) None) [0; 1] []; mkI (Qpd1 0 0 (Some 1) None) [0] []; mkI (Qpd1 0 1 (Some 1) None) [1] [];
             mkI (Qpd2 0 (Some 2) None) [1; 0] [] ] in
  valid_grouping c [[3]; [2; 1]; [0]] /\ valid_grouping c [[1; 2]; [0]; [3]] /\
  expand_2q c [[3]; [2; 1]; [0]] = Ok (flat_map split2 c) /\ length (flat_map split2 c) = 6.
Proof. vm_compute. repeat split; reflexivity. Qed.

(* hypotheses of the decision / refusal theorems are satisfiable, and both branches of c14_decided are inhabited *)
Example c14_ex_decided :
  ids_in_range exC exIds /\ forallb (wfb exEnv) exC = true /\ wf_shape exC = true /\
  accepts exEnv exC exIds (Some (map Some exMs)) = true /\
  accepts exEnv exC exIds None = false /\
  accepts exEnv exC [[4]; [6; 6]; [2]] (Some (map Some exMs)) = false /\
  ids_in_range exC [[4]; [6; 6]; [2]].
Proof.
  assert (R : forall ids, forallb (fun g => forallb (fun p => Nat.ltb p (length exC)) g) ids = true -> ids_in_range exC ids).
  { intros ids H g p Hg Hp. rewrite forallb_forall in H. specialize (H g Hg). rewrite forallb_forall in H.
    apply Nat.ltb_lt. exact (H p Hp). }
  repeat split; try (apply R); vm_compute; reflexivity.
Qed.

(* shapes: exC is well shaped; the auditor's instances are not (so c14_splice / c14_decided say nothing about them) *)
Example c14_ex_shape :
  wf_shape exC = true /\
  wf_shape [mkI (Qpd2 0 None None) [3] []] = false /\          (* a two-qubit placeholder on one qubit *)
  wf_shape [mkI (Qpd1 1 2 None None) [0] []] = false /\         (* qubit_id 2 *)
  flat_map (splice_strict exEnv) (assign exC exIds (Some exMs)) = flat_map (splice exEnv) (assign exC exIds (Some exMs)).
Proof. vm_compute. repeat split; reflexivity. Qed.

(* accepted by validation (code and model), although one may call them odd: two half-0 gates as a pair (both get half 0's
   operations), a lone half 1 of a two-qubit basis, two gates of a one-qubit basis grouped as a pair *)
Example c14_ex_accepted_odd_groupings :
  decompose exEnv [mkI (Qpd1 0 0 None None) [0] []; mkI (Qpd1 0 0 None None) [1] []] 0 [[0; 1]] (Some [Some 3%Z])
    = Ok ([mkI Reset [0] []; mkI (Gate 2) [0] []; mkI Reset [1] []; mkI (Gate 2) [1] []], 1) /\
  decompose exEnv [mkI (Qpd1 0 1 None None) [0] []] 0 [[0]] (Some [Some 3%Z])
    = Ok ([mkI Measure [0] [0]; mkI (Gate 3) [0] []], 1) /\
  decompose exEnv [mkI (Qpd1 1 0 None None) [0] []; mkI (Qpd1 1 0 None None) [1] []] 0 [[0; 1]] (Some [Some 2%Z])
    = Ok ([mkI Measure [0] [0]; mkI (Gate 1) [0] []; mkI Measure [1] [1]; mkI (Gate 1) [1] []], 2).
Proof. vm_compute. repeat split; reflexivity. Qed.

(* an index outside the circuit: refused when an earlier check fires first, a crash otherwise *)
Example c14_ex_index_outside :
  decompose exEnv exC 1 [[4]; [6; 1]; [9]] (Some (map Some exMs)) = Crashed /\
  decompose exEnv exC 1 [[4; 6; 1]; [9]] (Some (map Some exMs)) = Refused /\
  decompose exEnv exC 1 [[9]] None = Crashed.
Proof. vm_compute. repeat split; reflexivity. Qed.

(* the refusal classes are inhabited *)
Example c14_ex_refusals :
  let S := fun l : list Z => Some (map Some l) in
  decompose exEnv exC 1 [[4; 6; 1]; [2]] (S [0; 1]%Z) = Refused /\           (* three elements *)
  decompose exEnv exC 1 [[4]; [6; 1]; [2]; []] (S [0; 3; 1; 0]%Z) = Refused /\ (* empty group *)
  decompose exEnv exC 1 [[4]; [6; 3]; [2]] (S exMs) = Refused /\             (* index 3 is an ordinary gate *)
  decompose exEnv exC 1 [[4; 6]; [1]; [2]] (S exMs) = Refused /\             (* bases 1 and 0 in one group *)
  decompose exEnv exC 1 [[4]; [6; 1]] (S [0; 3]%Z) = Refused /\              (* 3 of 4 placeholders mentioned *)
  decompose exEnv exC 1 [[4]; [6; 6]; [2]] (S exMs) = Refused /\             (* index 6 twice, index 1 never: the count matches *)
  decompose exEnv exC 1 [[4]; [6; 1]; [2]; [2]] (S [0; 3; 1; 1]%Z) = Refused /\ (* index 2 in two groups *)
  decompose exEnv exC 1 [[4]; [6]; [2; 1]] (S exMs) = Refused /\             (* a 2q placeholder paired with a half of the same basis *)
  decompose exEnv exC 1 exIds (S [0; 3]%Z) = Refused /\                      (* two map ids for three groups *)
  decompose exEnv exC 1 exIds (S [3; 3; 1]%Z) = Refused /\                   (* basis 1 has three maps *)
  decompose exEnv exC 1 exIds (S [0; -1; 1]%Z) = Refused /\                  (* a negative map id is out of range *)
  decompose exEnv exC 1 exIds (Some [Some 0; None; Some 1]%Z) = Refused /\   (* a None entry *)
  decompose exEnv exC 1 [[4]; [6; 1]; [9]] (S exMs) = Crashed.                (* index outside the circuit: IndexError *)
Proof. vm_compute. repeat split; reflexivity. Qed.

Print Assumptions c14_splice.
Print Assumptions c14_splice_totalised.
Print Assumptions c14_splice_strict_agrees.
Print Assumptions c14_assign.
Print Assumptions c14_validate_characterised.
Print Assumptions c14_no_placeholder.
Print Assumptions c14_others_in_order.
Print Assumptions c14_others_in_order_weak.
Print Assumptions c14_measure_bits.
Print Assumptions c14_refuse_length.
Print Assumptions c14_refuse_non_placeholder.
Print Assumptions c14_refuse_differing_bases.
Print Assumptions c14_refuse_count.
Print Assumptions c14_refuse_repeated_index.
Print Assumptions c14_refuse_2q_in_pair.
Print Assumptions c14_refuse_maps_length.
Print Assumptions c14_refuse_map_none.
Print Assumptions c14_decided.
Print Assumptions c14_decided_totalised.
Print Assumptions c14_index_outside_not_ok.
Print Assumptions c14_index_outside_single_crashes.
Print Assumptions c14_never_crashes.
Print Assumptions c14_refuse_map_out_of_range.
Print Assumptions c14_omitted.
Print Assumptions c14_omitted_never_crashes.
Print Assumptions c14_basis_eq_reflects.
Print Assumptions c14_accepted_pair_same_basis.
Print Assumptions c14_refuse_unequal_bases.
Print Assumptions c14_refines.
Print Assumptions c14_validate_quotient.
Print Assumptions c14_all_2q_split.
Print Assumptions c14_2q_split_order_irrelevant.
Print Assumptions c14_setter_def.
Print Assumptions c14_setter_invariant.

(* ---------------- tie to the source (regenerated facts) ---------------- *)
From CKT Require Import Extracted.Facts.
From Coq Require Import String.
Open Scope string_scope.
Definition sites_of (f : string) : nat :=
  match find (fun p => String.eqb (fst p) f) value_error_sites with Some p => snd p | None => 0 end.

(* the validation raises in the order modelled by validate_group / validate: length, first index, member index, bases,
   2q gate in a pair, repeated index, count (the last two before the count are the repair the model demands); two
   ValueErrors in the public function (len(map_ids); the pre-validation of every map id — None or out of range — before
   any assignment); one in the basis_id setter (range); the 2q indices are sorted; the offsets move by +1 (2q loop), +1
   and -1 (1q loop); register size max(1, .); _decompose_qpd_instructions has one ValueError (unset basis_id) and it
   precedes every modification of the circuit *)
Theorem c14_facts :
  c14_validate_messages =
    ["Each decomposition m"; "A circuit data index"; "A circuit data index"; "Gates within the sam";
     "A TwoQubitQPDGate mu"; "Each instruction ind"; "The total number of "] /\
  sites_of "qpd.decompose:_validate_qpd_instructions" = 7 /\
  sites_of "qpd.decompose:decompose_qpd_instructions" = 2 /\
  sites_of "qpd.instructions.qpd_gate:BaseQPDGate.basis_id" = 1 /\
  c14_sorted_2q = true /\
  c14_offset_updates = ["=0"; "+=1"; "=0"; "+=1"; "-=1"] /\
  c14_min_register = 1 /\
  c14_decompose_value_errors = 1 /\
  c14_unset_check_first = true.
Proof. repeat split; reflexivity. Qed.
Print Assumptions c14_facts.

(* Properties/C04.v — Joint weights are exact above threshold, normalised, and unbiased in the tail. *)
From Coq Require Import QArith.
From CKT Require Import Common.Base Extracted.Facts Model.Weights Proofs.WeightsP.
Open Scope Q_scope.

Theorem c04_refuses : forall probs perms tape N,
  (N = NaN \/ N = NInf \/ exists q, N = Fin q /\ q < 1) -> gen_weights probs perms N tape = Some Refused.
Proof. exact gen_refuses. Qed.

(* tie to the source: the cut-off of the model is the constant of weights.py, and it is 1e-14 *)
Theorem c04_facts : nonzero_atol == 1 / 100000000000000 /\ isclose0 nonzero_atol = true.
Proof. split; reflexivity. Qed.

Print Assumptions c04_refuses.
Print Assumptions c04_facts.

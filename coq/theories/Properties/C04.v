(* Properties/C04.v — Joint weights are exact above threshold, normalised, and unbiased in the tail.
   Only statements (closed by `exact`), non-vacuity examples, facts obligation, Print Assumptions.

   Vocabulary (Model/Weights.v):
     probs : list (list Q)      one probability vector per basis (QPDBasis.probabilities)
     perms : list (list nat)    what np.argsort(cp)[::-1] returned for each vector; the theorems hold for EVERY
                                family of sorting permutations (sorting_perms_b = true), i.e. for any tie order
     N : num                    Fin q | PInf | NInf | NaN   (the float num_samples)
     tape                       the answers of numpy.random.choice, in call order
     gen_weights probs perms N tape : option (res wdict)     None = tape inadmissible (too short / an index of
                                probability zero: excluded by the oracle contract O-choice)
     jointp probs ids           product of probs[k][ids[k]]
   The model contains the REPAIRED behaviour of finding F9 (samples_needed < 1 returns the exact weights). *)
From Coq Require Import QArith Qabs Qround Permutation Sorted.
From CKT Require Import Common.Base Extracted.Facts Model.Weights.
From CKT Require Import Proofs.WeightsP Proofs.WeightsDfs Proofs.WeightsGen Proofs.WeightsTab.
From CKT Require Import Proofs.WeightsSum Proofs.WeightsCount Proofs.WeightsUnb Proofs.WeightsMachine Proofs.WeightsRef Proofs.WeightsSort Proofs.WeightsTotal Proofs.WeightsBridge Proofs.WeightsNDraw Proofs.WeightsPublic Proofs.WeightsFinal.
Open Scope Q_scope.

(* valid probs: every vector is non-negative and sums to 1 (WeightsGen.valid) *)

(* every joint map with probability >= 1/N gets weight N*p, marked EXACT.
   The hypothesis atol*N <= 1 (N <= 1e14) is needed: beyond it the all-exact branch drops maps with p < atol. *)
Theorem c04_exact_complete : forall probs perms q tape r ids,
  valid probs -> sorting_perms_b probs perms = true -> nonzero_atol * q <= 1 ->
  gen_weights probs perms (Fin q) tape = Some (Ok r) ->
  in_range probs ids -> 1 / q <= jointp probs ids ->
  exists w, dget r ids = Some (w, EXACT) /\ w == q * jointp probs ids.
Proof. exact exact_complete. Qed.

(* no entry of the result (exact, leftover or sampled; finite or infinite budget) has probability zero,
   and every key is a joint map *)
Theorem c04_no_zero : forall probs perms N tape r ids w t,
  Forall nonneg probs -> sorting_perms_b probs perms = true ->
  gen_weights probs perms N tape = Some (Ok r) -> dget r ids = Some (w, t) ->
  0 < jointp probs ids /\ in_range probs ids.
Proof. exact no_zero. Qed.

(* infinite budget: exactly the joint maps with probability >= atol (the code skips `probability < atol`),
   each with its probability (multiplier 1.0), all EXACT; no sampling whatever the tape *)
Theorem c04_infinite : forall probs perms tape,
  Forall nonneg probs -> Forall (fun v => exists x, In x v /\ nonzero_atol < x) probs ->
  exists r, gen_weights probs perms PInf tape = Some (Ok r) /\
    forall ids,
      (idx_ok probs ids /\ length ids = length probs /\ nonzero_atol <= jointp probs ids ->
         dget r ids = Some (1 * jointp probs ids, EXACT)) /\
      (forall w t, dget r ids = Some (w, t) ->
         idx_ok probs ids /\ length ids = length probs /\ nonzero_atol <= jointp probs ids /\
         t = EXACT /\ w = 1 * jointp probs ids).
Proof.
  intros probs perms tape N B. exists (all_exact probs 1). split.
  - now apply infinite_budget.
  - intros ids. apply all_exact_spec.
Qed.

(* Number of entries and sum of the weights (wsum r = sum of the weights of r; nq n = the natural n as a rational).
   ALWAYS: the weights sum to at most N and the deficit is at most N * atol * (number of prefixes of the tree + 1)
   -- this covers the repaired F9 branch (samples_needed < 1: everything that was left carried mass below the cut-off).
   Under no_entry_in_cutoff (inputs clean: every entry is 0 or > atol -- observation O2 -- and no raw conditional-table
   entry of the DFS in (0, atol]) and N <= 1e14: the weights sum to N EXACTLY in Q and there are at most ceil N entries. *)
Theorem c04_count_sum : forall probs perms q tape r,
  valid probs -> sorting_perms_b probs perms = true ->
  gen_weights probs perms (Fin q) tape = Some (Ok r) ->
  wsum r <= q /\ q - wsum r <= q * (nonzero_atol * nq (S (tree_size probs))) /\
  (no_entry_in_cutoff probs perms (1 / q) -> nonzero_atol * q <= 1 ->
     wsum r == q /\ (Z.of_nat (length r) <= Qceiling q)%Z).
Proof. exact count_sum. Qed.

(* At most ceil(N) entries for EVERY valid input, whatever lies below the cut-off: sub-1e-14 entries, zeroed table entries
   and the repaired F9 branch included.  The only excluded inputs are those with an entry bit-equal to 1e-14
   (observation O2, where the clause is false for the code). *)
Theorem c04_count_general : forall probs perms q tape r,
  valid probs -> sorting_perms_b probs perms = true -> no_entry_at_cutoff probs ->
  gen_weights probs perms (Fin q) tape = Some (Ok r) -> (Z.of_nat (length r) <= Qceiling q)%Z.
Proof. exact count_general. Qed.

(* Outside the all-exact branch the deficit N - sum is at most N * atol * (number of ENTRIES OF THE TABLES ACTUALLY POPPED
   by the DFS), instead of the full-tree factor of c04_count_sum. *)
Theorem c04_sum_deficit_visited : forall probs perms q tape r mins,
  valid probs -> sorting_perms_b probs perms = true ->
  gen_weights probs perms (Fin q) tape = Some (Ok r) ->
  all_some (map min_filter_nonzero probs) = Some mins -> ~ 1 / q <= qprod mins ->
  q - wsum r <= q * (nonzero_atol * nq (tabsize (raw_tables (sorted_probs probs perms) (1 / q)))).
Proof. exact sum_deficit_visited. Qed.

(* every reported weight is strictly positive (finite or infinite budget; exact, leftover and sampled entries) *)
Theorem c04_weights_positive : forall probs perms N tape r,
  sorting_perms_b probs perms = true -> gen_weights probs perms N tape = Some (Ok r) ->
  forall e, In e r -> 0 < fst (snd e).
Proof. exact weights_positive. Qed.

(* Unbiasedness.  expected_weight = the weight of an entry that is returned without sampling, or
   single_sample_weight * E[count] where E[count] follows _populate_samples using only O-choice
   (E[count_i of n draws from p] = n p_i, calls independent).
   For EVERY joint map -- exact ones trivially, the single-leftover shortcut by the walk lemma, all others by the
   telescoping product of the renormalised conditional tables -- the expected weight is N * p, under
   no_entry_in_cutoff (precisely: every input entry is 0 or > atol, and no raw conditional-table entry of the DFS run in
   sorted coordinates with threshold 1/N lies in (0, atol]) and N <= 1e14.  The success of the call is NOT assumed: for such
   inputs gen_core answers Ok (Proofs/WeightsFinal.gen_core_ok), so expected_weight's default 0 for Refused/Crashed is never used.
   When a table entry IS zeroed by the cut-off, no bias bound is proved (only the aggregate deficit of c04_count_sum /
   c04_sum_deficit_visited); that regime is covered by the correspondence (judge_law) only. *)
Theorem c04_unbiased : forall probs perms q ids,
  valid probs -> sorting_perms_b probs perms = true -> 1 <= q -> nonzero_atol * q <= 1 ->
  no_entry_in_cutoff probs perms (1 / q) ->
  in_range probs ids ->
  expected_weight probs perms (Fin q) ids == q * jointp probs ids.
Proof. exact unbiased_q. Qed.

(* The step machine (line-by-line `while True` loop of
   _generate_exact_weights_and_conditional_probabilities_assume_sorted, run with fuel) produces the SEQUENCE of yields of
   the recursive specification, for every number of bases and maps and every threshold; sortedness is not needed.
   yields_eqb compares states exactly and numbers with Qeq: the machine's first running product is probs[0][0] while the
   specification computes 1 * probs[0][0] (equal numbers, different fractions); everything else is syntactically equal
   (Proofs/WeightsRef.machine_runs).  fuel_bound probs = 2 * (number of prefixes of the full tree) + 2. *)
Theorem c04_machine_refines_spec : forall probs thr,
  probs <> [] -> Forall (fun b => b <> []) probs ->
  exists ys, run_machine (fuel_bound probs) probs thr = Some ys /\ yields_eqb ys (dfs_spec probs thr) = true.
Proof. exact machine_refines_spec. Qed.

(* Totality.  On valid probability vectors, with ANY sorting permutations and ANY admissible tape, none of the three
   remaining `assert`s (len(x) != 0, running_state not in retval, outcome not in retval) nor any other non-ValueError
   exit is reachable: the model never answers Crashed.  No cut-off hypothesis is needed. *)
Theorem c04_never_crashes : forall probs perms N tape res,
  valid probs -> sorting_perms_b probs perms = true ->
  gen_weights probs perms N tape = Some res -> res <> Crashed.
Proof. exact never_crashes. Qed.

(* ... and a request with N >= 1 on bases that each have a non-negligible entry is served (never refused) *)
Theorem c04_always_served : forall probs perms q tape res,
  valid probs -> Forall (fun v => exists x, In x v /\ nonzero_atol < x) probs ->
  sorting_perms_b probs perms = true -> 1 <= q ->
  gen_weights probs perms (Fin q) tape = Some res -> exists r, res = Ok r.
Proof. exact always_served. Qed.

(* Bridge between the tape sampler `populate` and the expectation functional `ecount`.
   expect M cond rest rs n f = sum over ALL tapes (n * #levels answers, each index < M) of
        [product of the probabilities _populate_samples passed to the oracle at the answered indices, read off the call
         log] * f (samples returned), inadmissible tapes contributing 0.
   O-choice enters only here: a call choice(range(m), k, p) answers xs with probability prod p[x], independently of the
   other calls.  For EVERY number of draws n: the tape law has total mass 1, and the expected count of a joint map is
   n * ecount(.. 1 ..) = ecount(.. n ..).  Hypotheses: the tables in `cond` and the remaining vectors sum to 1 and have
   at most M entries, no table is keyed by a full state -- all three are PROVED for the dictionary built by
   _generate_qpd_weights (Proofs/WeightsNDraw.sampler_tables), see c04_sampler_unbiased. *)
Theorem c04_n_draw_bridge : forall M cond D,
  (forall st v, dget cond st = Some v -> qsum v == 1 /\ (length v <= M)%nat /\ (length st < D)%nat) ->
  forall rest, rest <> [] -> Forall (vec_good M) rest ->
  forall rs nd, (length rs + length rest = D)%nat ->
    expect M cond rest rs nd (fun _ => 1) == 1 /\
    forall ids, length ids = length rest ->
      expect M cond rest rs nd (fun s => nq (cntk key_eqb (rs ++ ids) s)) == nq nd * ecount rest cond rs 1 ids.
Proof. exact n_draw. Qed.

(* The tape law, WITHOUT any cut-off hypothesis: whenever _generate_qpd_weights samples (core = CSample), the weighting of
   the oracle tapes is a probability law (total mass 1); every tape on which the sampler runs yields the dictionary
   final_dict ret ssw s (retval with the samples inserted, never an assert); and an admissible tape EXISTS, so the
   premise `gen_weights ... = Some (Ok r)` of the other theorems is satisfiable for every valid input that samples. *)
Theorem c04_tape_law : forall probs perms q ret cond nd ssw,
  valid probs -> sorting_perms_b probs perms = true ->
  gen_core probs perms (Fin q) = Ok (CSample ret cond nd ssw) ->
  expect (maxlen probs) cond probs [] nd (fun _ => 1) == 1 /\
  (forall tape s t lg, populate probs cond [] nd tape = Some (s, t, lg) ->
      gen_weights probs perms (Fin q) tape = Some (Ok (final_dict ret ssw s)) /\
      insert_samples ret ssw s = Some (final_dict ret ssw s)) /\
  exists tape r, gen_weights probs perms (Fin q) tape = Some (Ok r).
Proof. exact tape_law. Qed.

(* Unbiasedness of the REAL sampling loop on the RETURNED dictionary, from O-choice alone: the expectation over all oracle
   tapes of the weight that the dictionary returned by _generate_qpd_weights (c04_tape_law: final_dict ret ssw s) gives to a
   joint map that was not evaluated exactly is N * p.  (weight_of d k = the weight of k in d, 0 when absent; pathwise it is
   count * single_sample_weight, Proofs/WeightsFinal.final_dict_weight.) *)
Theorem c04_sampler_unbiased : forall probs perms q ret cond nd ssw ids,
  valid probs -> sorting_perms_b probs perms = true -> nonzero_atol * q <= 1 ->
  no_entry_in_cutoff probs perms (1 / q) ->
  gen_core probs perms (Fin q) = Ok (CSample ret cond nd ssw) ->
  in_range probs ids -> dget ret ids = None ->
  expect (maxlen probs) cond probs [] nd (fun s => weight_of (final_dict ret ssw s) ids) == q * jointp probs ids.
Proof. exact sampler_unbiased_final. Qed.

(* one draw, pathwise: the answers ARE the returned key (count 1), one call per level, likelihood = ecount *)
Theorem c04_one_draw_bridge : forall probs cond tape s t lg,
  (forall st v, dget cond st = Some v -> (length st < length probs)%nat) -> probs <> [] ->
  populate probs cond [] 1 tape = Some (s, t, lg) ->
  exists ids, tape = ids ++ t /\ length ids = length probs /\ s = [(ids, 1%nat)] /\
              length lg = length probs /\ Forall (fun e => fst e = 1%nat) lg /\
              logprob lg ids == ecount probs cond [] 1 ids.
Proof.
  intros probs cond tape s t lg Hf Ne H.
  destruct (populate_one_draw probs cond Hf probs [] [] tape s t lg eq_refl eq_refl Ne H) as [c Hc]. exists c. exact Hc.
Qed.

(* The public entry point generate_qpd_weights(bases, N): probabilities = |coeffs| / kappa (kappa = sum |coeffs| <> 0),
   then the core, then the stable sort.  The probabilities are valid, and the returned dictionary is the core's,
   rearranged and sorted: lookups, sum of weights and number of entries are unchanged, so every theorem above
   (exact weights, no zero-probability map, count/sum, unbiasedness, totality) holds for the public function with
   probs := map basis_probs bases. *)
Theorem c04_public_wrapper : forall bases perms N tape r,
  Forall (fun c => ~ qsum (map Qabs c) == 0) bases ->
  generate_qpd_weights bases perms N tape = Some (Ok r) ->
  valid (map basis_probs bases) /\
  exists r0, gen_weights (map basis_probs bases) perms N tape = Some (Ok r0) /\ r = final_sort r0 /\
    Permutation r r0 /\ StronglySorted sle r /\ NoDup (map fst r0) /\
    (forall k, dget r k = dget r0 k) /\ wsum r == wsum r0 /\ length r = length r0.
Proof. exact public_wrapper. Qed.

(* every clause of the property through the PUBLIC function, composed *)
Theorem c04_public_all : forall bases perms q tape r,
  Forall (fun c => ~ qsum (map Qabs c) == 0) bases ->
  let probs := map basis_probs bases in
  sorting_perms_b probs perms = true ->
  generate_qpd_weights bases perms (Fin q) tape = Some (Ok r) ->
  (nonzero_atol * q <= 1 -> forall ids, in_range probs ids -> 1 / q <= jointp probs ids ->
      exists w, dget r ids = Some (w, EXACT) /\ w == q * jointp probs ids) /\
  (forall k w t, dget r k = Some (w, t) -> 0 < jointp probs k /\ in_range probs k /\ 0 < w) /\
  (no_entry_at_cutoff probs -> (Z.of_nat (length r) <= Qceiling q)%Z) /\
  wsum r <= q /\ q - wsum r <= q * (nonzero_atol * nq (S (tree_size probs))) /\
  (no_entry_in_cutoff probs perms (1 / q) -> nonzero_atol * q <= 1 -> wsum r == q) /\
  StronglySorted sle r /\ NoDup (map fst r).
Proof. exact public_all. Qed.

Theorem c04_public_total : forall bases perms N tape res,
  Forall (fun c => ~ qsum (map Qabs c) == 0) bases ->
  sorting_perms_b (map basis_probs bases) perms = true ->
  generate_qpd_weights bases perms N tape = Some res -> res <> Crashed.
Proof. exact public_total. Qed.

Theorem c04_public_refuses : forall bases perms tape N,
  (N = NaN \/ N = NInf \/ exists q, N = Fin q /\ q < 1) -> generate_qpd_weights bases perms N tape = Some Refused.
Proof. exact public_refuses. Qed.

(* generate_qpd_weights = final_sort of _generate_qpd_weights: a rearrangement sorted by (type value, -weight)
   (sle a b: key a <= key b); keys are pairwise distinct, so every lookup -- hence every theorem above -- transfers
   to the public function.  (Stability of the insertion sort is part of the model, compared on every public case.) *)
Theorem c04_final_sort : forall probs perms N tape r,
  gen_weights probs perms N tape = Some (Ok r) ->
  Permutation (final_sort r) r /\ StronglySorted sle (final_sort r) /\
  NoDup (map fst r) /\ forall k, dget (final_sort r) k = dget r k.
Proof.
  intros probs perms N tape r G. pose proof (result_nodup _ _ _ _ _ G) as ND.
  split; [apply final_sort_perm|]. split; [apply final_sort_sorted|]. split; [exact ND|].
  intros k. now apply final_sort_dget.
Qed.

(* NaN, -inf and every finite budget below 1 are refused, whatever else is passed *)
Theorem c04_refuses : forall probs perms tape N,
  (N = NaN \/ N = NInf \/ exists q, N = Fin q /\ q < 1) -> gen_weights probs perms N tape = Some Refused.
Proof. exact gen_refuses. Qed.

(* tie to the source: the cut-off of the model is the constant of weights.py, and it is 1e-14 *)
Theorem c04_facts : nonzero_atol == 1 / 100000000000000 /\ isclose0 nonzero_atol = true.
Proof. split; reflexivity. Qed.

(* ---------- non-vacuity ---------- *)
Definition exP : list (list Q) := [[1#2; 1#4; 1#4]; [1#4; 3#4]].
Definition exPerms : list (list nat) := [[0; 2; 1]; [1; 0]]%nat.          (* a tie broken "the other way" *)

Example c04_ex_hyps : Forall nonneg exP /\ sorting_perms_b exP exPerms = true /\ nonzero_atol * 4 <= 1 /\
                      in_range exP [0; 1]%nat /\ 1 / 4 <= jointp exP [0; 1]%nat.
Proof.
  repeat split; try (repeat constructor; discriminate); try reflexivity; try discriminate.
  intros [|[|k]]; simpl; lia.
Qed.

Example c04_ex_valid : valid exP.
Proof. repeat constructor; try discriminate; reflexivity. Qed.

(* one exact weight (4 * 3/8), three samples of weight (4 * 5/8)/3 drawn through the conditional tables *)
Example c04_ex_run :
  gen_weights exP exPerms (Fin 4) [1; 0; 1; 1; 0; 0]%nat =
  Some (Ok [([0; 1], (12 # 8, EXACT)); ([1; 1], (320 # 384, SAMPLED));
            ([1; 0], (320 # 384, SAMPLED)); ([0; 0], (320 # 384, SAMPLED))]%nat).
Proof. vm_compute. reflexivity. Qed.

(* the oracle contract is used: an answer of probability zero makes the tape inadmissible *)
Example c04_ex_inadmissible : gen_weights exP exPerms (Fin 4) [1; 0; 1; 1; 0; 1]%nat = None.
Proof. vm_compute. reflexivity. Qed.

Example c04_ex_infinite : exists r, gen_weights exP exPerms PInf [] = Some (Ok r) /\ length r = 6%nat.
Proof. eexists. split; [vm_compute; reflexivity|reflexivity]. Qed.

(* the bound atol*N <= 1 of c04_exact_complete cannot be dropped: with N = 10^17 the map (1,1,1,1) of four
   bases [1-1e-4, 1e-4] has p = 1e-16 >= 1/N, all-exact branch, and is skipped because p < atol *)
Definition exTiny : list (list Q) := repeat [9999 # 10000; 1 # 10000] 4.
Example c04_ex_bound_needed :
  exists r, gen_weights exTiny (repeat [0; 1]%nat 4) (Fin (100000000000000000 # 1)) [] = Some (Ok r) /\
            dget r [1; 1; 1; 1]%nat = None /\
            Qle_bool (1 / (100000000000000000 # 1)) (jointp exTiny [1; 1; 1; 1]%nat) = true.
Proof. eexists. split; [vm_compute; reflexivity|split; vm_compute; reflexivity]. Qed.

(* the n-draw bridge on the running example: 3 draws, 2 levels, 3^6 = 729 tapes summed by computation; the tables of the
   real dictionary satisfy the hypotheses of c04_n_draw_bridge, the tape law has mass 1 and the sampled map (1,0) gets N*p *)
Example c04_ex_sampler :
  match gen_core exP exPerms (Fin 4) with
  | Ok (CSample ret cond nd ssw) =>
      Qeq_bool (expect (maxlen exP) cond exP [] nd (fun _ => 1)) 1 &&
      Qeq_bool (expect (maxlen exP) cond exP [] nd (fun s => ssw * nq (cntk key_eqb [1; 0]%nat s))) (4 * jointp exP [1; 0]%nat) &&
      forallb (fun kv => Qeq_bool (qsum (snd kv)) 1 && Nat.leb (length (snd kv)) (maxlen exP) && Nat.ltb (length (fst kv)) 2) cond &&
      match dget ret [1; 0]%nat with None => true | Some _ => false end
  | _ => false
  end = true.
Proof. vm_compute. reflexivity. Qed.

(* the public wrapper on coefficients with signs: kappa = 2 and 4 *)
Example c04_ex_public :
  generate_qpd_weights [[-1; 1 # 2; 1 # 2]; [1; -3]] exPerms (Fin 4) [1; 0; 1; 1; 0; 0]%nat =
  Some (Ok [([0; 1], (48 # 32, EXACT)); ([1; 1], (20480 # 24576, SAMPLED));
            ([1; 0], (20480 # 24576, SAMPLED)); ([0; 0], (20480 # 24576, SAMPLED))]%nat) /\
  Forall (fun c => ~ qsum (map Qabs c) == 0) [[-1; 1 # 2; 1 # 2]; [1; -3]].
Proof. split; [vm_compute; reflexivity|repeat constructor; discriminate]. Qed.

(* one draw with tables at both levels: probs = [[3/4,1/4],[3/4,1/4]], N = 2: the core samples once (nd = 1), the tape [0;1]
   is the returned key with count 1, the tape [0;0] (an exact map) is inadmissible *)
Definition exOne : list (list Q) := [[3 # 4; 1 # 4]; [3 # 4; 1 # 4]].
Example c04_ex_one_draw :
  match gen_core exOne [[0; 1]; [0; 1]]%nat (Fin 2) with
  | Ok (CSample ret cond nd ssw) =>
      Nat.eqb nd 1 && Nat.eqb (length cond) 2 &&
      forallb (fun kv => Nat.ltb (length (fst kv)) 2) cond &&
      match populate exOne cond [] 1 [0; 1]%nat with
      | Some (s, t, lg) => list_beq (pair_beq key_eqb Nat.eqb) s [([0; 1]%nat, 1%nat)] && Nat.eqb (length lg) 2 &&
                           Qeq_bool (logprob lg [0; 1]%nat) (ecount exOne cond [] 1 [0; 1]%nat)
      | None => false
      end &&
      match populate exOne cond [] 1 [0; 0]%nat with None => true | Some _ => false end
  | _ => false
  end = true.
Proof. vm_compute. reflexivity. Qed.

(* a fractional budget N = 7/2: ceil N = 4 entries, weights sum to 7/2 *)
Example c04_ex_fractional :
  exists r, gen_weights exP exPerms (Fin (7 # 2)) [1; 0; 1; 1; 0; 0]%nat = Some (Ok r) /\
            length r = 4%nat /\ Qceiling (7 # 2) = 4%Z /\ wsum r == 7 # 2 /\
            no_entry_in_cutoff_b exP exPerms (1 / (7 # 2)) = true.
Proof. eexists. split; [vm_compute; reflexivity|]. repeat split; vm_compute; reflexivity. Qed.

(* c04_count_general applies where c04_count_sum's hypothesis fails: the F9 input (entry 2^-46, zeroed tables) *)
Example c04_ex_count_general :
  no_entry_at_cutoff [[1 # 2; 1 # 2]; [70368744177663 # 70368744177664; 1 # 70368744177664]] /\
  valid [[1 # 2; 1 # 2]; [70368744177663 # 70368744177664; 1 # 70368744177664]].
Proof.
  split; repeat constructor; try (intro H; vm_compute in H; discriminate); try discriminate; vm_compute; reflexivity.
Qed.

(* the machine on the running example (sorted coordinates): 3 yields, pops and a pruned sibling included *)
Example c04_ex_machine :
  run_machine (fuel_bound (sorted_probs exP exPerms)) (sorted_probs exP exPerms) (1 # 4)
  = Some [YFull [0; 0]%nat (3 # 8); YCond [0]%nat [0; 4 # 4]; YCond [] [1 # 8; 1 # 4; 1 # 4]].
Proof. vm_compute. reflexivity. Qed.

(* the hypotheses of c04_count_sum / c04_unbiased are satisfiable on an input that really samples *)
Example c04_ex_no_cutoff : no_entry_in_cutoff_b exP exPerms (1 / 4) = true /\
                           raw_tables (sorted_probs exP exPerms) (1 / 4) <> [].
Proof. split; [vm_compute; reflexivity|vm_compute; discriminate]. Qed.

Example c04_ex_expected :
  map (fun ids => Qred (expected_weight exP exPerms (Fin 4) ids)) (cart [3; 2]%nat)
  = [1 # 2; 3 # 2; 1 # 4; 3 # 4; 1 # 4; 3 # 4] /\
  map (fun ids => Qred (4 * jointp exP ids)) (cart [3; 2]%nat) = [1 # 2; 3 # 2; 1 # 4; 3 # 4; 1 # 4; 3 # 4].
Proof. split; vm_compute; reflexivity. Qed.

(* an input on which the cut-off DOES bite (finding F9's input): the weights sum to N - N*2^-46 < N *)
Example c04_ex_f9 :
  exists r,
  gen_weights [[1 # 2; 1 # 2]; [70368744177663 # 70368744177664; 1 # 70368744177664]] [[0; 1]; [0; 1]]%nat (Fin 4) []
  = Some (Ok r) /\ map fst r = [[0; 0]; [1; 0]]%nat /\ wsum r == 4 - (1 # 17592186044416) /\
  no_entry_in_cutoff_b [[1 # 2; 1 # 2]; [70368744177663 # 70368744177664; 1 # 70368744177664]] [[0; 1]; [0; 1]]%nat (1 / 4) = false.
Proof. eexists. split; [vm_compute; reflexivity|]. split; [reflexivity|]. split; vm_compute; reflexivity. Qed.

Print Assumptions c04_count_sum.
Print Assumptions c04_unbiased.
Print Assumptions c04_machine_refines_spec.
Print Assumptions c04_final_sort.
Print Assumptions c04_never_crashes.
Print Assumptions c04_always_served.
Print Assumptions c04_one_draw_bridge.
Print Assumptions c04_n_draw_bridge.
Print Assumptions c04_sampler_unbiased.
Print Assumptions c04_public_wrapper.
Print Assumptions c04_public_refuses.
Print Assumptions c04_count_general.
Print Assumptions c04_sum_deficit_visited.
Print Assumptions c04_weights_positive.
Print Assumptions c04_tape_law.
Print Assumptions c04_public_all.
Print Assumptions c04_public_total.
Print Assumptions c04_exact_complete.
Print Assumptions c04_no_zero.
Print Assumptions c04_infinite.
Print Assumptions c04_refuses.
Print Assumptions c04_facts.

(* Properties/C15.v — Sampling overheads match the documented closed forms.
   Only theorem statements (closed by `exact`), non-vacuity examples, facts obligations and
   Print Assumptions.  The coefficient lists are the ones EXTRACTED from decompositions.py
   (Extracted/Facts.v, decoded in Model/Kappa.v); theta ranges over all reals. *)
From Coq Require Import String QArith Qabs Reals.
From CKT Require Import Common.Base Extracted.Facts Model.Kappa Proofs.KappaP Model.KappaGates Proofs.KappaGatesP Proofs.KappaQ.
Close Scope Q_scope.
Local Open Scope string_scope.
Local Open Scope R_scope.

(* ---- explicit families: kappa (QPDBasis.from_instruction(<name>(theta))) ---------------- *)

Theorem c15_rxx_family : forall name theta,
  In name ["rxx"; "ryy"; "rzz"] -> kappaR (coeffsR name theta) = 1 + 2 * Rabs (sin theta).
Proof. exact kappa_rxx_family. Qed.

Theorem c15_controlled : forall name theta,
  In name ["crx"; "cry"; "crz"; "cp"] -> kappaR (coeffsR name theta) = 1 + 2 * Rabs (sin (theta / 2)).
Proof. exact kappa_controlled. Qed.

Theorem c15_cx_family : forall name theta,
  In name ["cx"; "cy"; "cz"; "ch"; "ecr"] -> kappaR (coeffsR name theta) = 3.
Proof. exact kappa_cx_family. Qed.

Theorem c15_cs_family : forall name theta,
  In name ["cs"; "csdg"; "csx"; "csxdg"] -> kappaR (coeffsR name theta) = 1 + sqrt 2.
Proof. exact kappa_cs_family. Qed.

Theorem c15_swap_family : forall name theta,
  In name ["swap"; "iswap"; "dcx"] -> kappaR (coeffsR name theta) = 7.
Proof. exact kappa_swap_family. Qed.

Theorem c15_move : forall theta, kappaR (coeffsR "move" theta) = 4.
Proof. exact kappa_move. Qed.

(* the rotation list at ANY theta_prime, and the 58-term list at ANY complex 4-vector u *)
Theorem c15_rot_list : forall x, kappaR (rot_coeffsR x) = 1 + 2 * Rabs (sin (2 * x)).
Proof. exact kappa_rot. Qed.

Theorem c15_nonlocal_list : forall u : nat -> R * R,
  kappaR (nonlocal_coeffsR u) = norm2P u + 4 * cross u.
Proof. exact kappa_nonlocal. Qed.

(* ---- KAK path: kappa as a function of the Weyl coordinates ------------------------------ *)

(* the eigen-decomposition formula of _u_from_thetavec equals the product form *)
Theorem c15_u_from_thetavec : forall a b c j, (j < 4)%nat ->
  u_from_thetavecR a b c j = u_prod a b c j.
Proof. exact u_product. Qed.

Theorem c15_weyl : forall a b c, kappaR (kak_coeffsR a b c) = weyl_kappa a b c.
Proof. exact kappa_weyl. Qed.

Theorem c15_weyl_t00 : forall t, kappaR (kak_coeffsR t 0 0) = 1 + 2 * Rabs (sin (2 * t)).
Proof. exact kappa_weyl_t00. Qed.

Theorem c15_weyl_tt0 : forall t,
  kappaR (kak_coeffsR t t 0) = 1 + 4 * Rabs (sin (2 * t)) + 2 * (sin (2 * t) * sin (2 * t)).
Proof. exact kappa_weyl_tt0. Qed.

(* the kappa of the KAK path is the same for every representative of a local-equivalence class that the
   Weyl decomposition may return: transposing two coordinates, negating one, shifting one by pi/2
   (these generate all permutations, all sign changes and all shifts by multiples of pi/2) *)
Theorem c15_weyl_symmetry : forall a b c,
  kappaR (kak_coeffsR b a c) = kappaR (kak_coeffsR a b c) /\
  kappaR (kak_coeffsR a c b) = kappaR (kak_coeffsR a b c) /\
  kappaR (kak_coeffsR (- a) b c) = kappaR (kak_coeffsR a b c) /\
  kappaR (kak_coeffsR (a + PI / 2) b c) = kappaR (kak_coeffsR a b c).
Proof. exact kappa_weyl_symmetry. Qed.

(* kappa of the KAK path is constant on weyl_equiv classes of coordinate triples (Model/Kappa.v: closure of the
   Weyl-group moves and the mirror move): the coordinate-level form of "locally equivalent gates have equal kappa" *)
Theorem c15_weyl_equiv_kappa : forall t t', weyl_equiv t t' -> kappaR (kak3 t) = kappaR (kak3 t').
Proof. exact kappa_weyl_equiv. Qed.

Example c15_ex_weyl_equiv : weyl_equiv (PI / 8, 0, 0) (0, PI / 8 + PI / 2, 0).
Proof. eapply we_trans; [apply we_shift_a|apply we_swap_ab]. Qed.

(* NOT registered: the model's KAK coefficient function has no argument for the local factors / the phase, so this
   holds by construction; the tie to the source is the extracted call text in c15_facts_source and the conj/twin streams *)
Remark c15_local_invariance_by_construction : forall (L : Type) (d d' : weyl L),
  w_a d = w_a d' -> w_b d = w_b d' -> w_c d = w_c d' ->
  kak_basis_coeffsR d = kak_basis_coeffsR d'.
Proof. exact @kak_local_invariance. Qed.

(* the documented "KAK decomposition angles" of every family give that family's kappa:
   locally equivalent gates (equal Weyl coordinates) have equal kappa *)
Theorem c15_kak_doc_angles : forall theta,
  kappaR (kak_coeffsR (Rabs (theta / 2)) 0 0) = 1 + 2 * Rabs (sin theta) /\
  kappaR (kak_coeffsR (Rabs (theta / 4)) 0 0) = 1 + 2 * Rabs (sin (theta / 2)) /\
  kappaR (kak_coeffsR (Rabs (theta / 4)) (Rabs (theta / 4)) 0)
    = 1 + 4 * Rabs (sin (theta / 2)) + 2 * (sin (theta / 2) * sin (theta / 2)) /\
  kappaR (kak_coeffsR (PI / 4) 0 0) = 3 /\
  kappaR (kak_coeffsR (PI / 8) 0 0) = 1 + sqrt 2 /\
  kappaR (kak_coeffsR (PI / 4) (PI / 4) 0) = 7 /\
  kappaR (kak_coeffsR (PI / 4) (PI / 4) (PI / 4)) = 7.
Proof.
  intros theta.
  exact (conj (kappa_kak_doc_rot theta) (conj (kappa_kak_doc_ctrl theta) (conj (kappa_kak_doc_xxyy theta)
        (conj kappa_kak_doc_cx (conj kappa_kak_doc_cs (conj kappa_kak_doc_iswap kappa_kak_doc_swap)))))).
Qed.

(* ---- the named gates on the KAK path ------------------------------------------------------------------
   (1) About the gate MATRIX [Model/KappaGates.v tables, compared with Gate.to_matrix() by the harness]: it equals
       K1 * N(a,b,c) * K2 with K1 = A1(x)B1, K2 = A2(x)B2 and all four 2x2 factors UNITARY (local_conjugate_of_kak),
       N = sum_k u_k s_k(x)s_k built from the code's own u = _u_from_thetavec([a,b,c]); and kappa at (a,b,c) is the
       documented closed form.
   (2) About the MODEL'S OUTPUT for the gate: with the oracle premise as an explicit hypothesis — the triple that
       TwoQubitWeylDecomposition returned is weyl_equiv to the proved one (this is where "Qiskit returns an exact
       KAK decomposition" and "KAK coordinates are unique up to the Weyl group" enter) — the kappa of the basis the
       KAK path builds is the documented closed form. *)
Theorem c15_rzx_is_kak : forall theta,
  local_conjugate_of_kak (rzx_mat theta) (- (theta / 2)) 0 0 /\
  kappaR (kak_coeffsR (- (theta / 2)) 0 0) = 1 + 2 * Rabs (sin theta).
Proof. intros theta. split; [apply rzx_local_conjugate|apply kappa_rzx_coords]. Qed.

Theorem c15_xxpyy_is_kak : forall theta beta,
  local_conjugate_of_kak (xxpyy_mat theta beta) (- (theta / 4)) (- (theta / 4)) 0 /\
  kappaR (kak_coeffsR (- (theta / 4)) (- (theta / 4)) 0)
    = 1 + 4 * Rabs (sin (theta / 2)) + 2 * (sin (theta / 2) * sin (theta / 2)).
Proof. intros theta beta. split; [apply xxpyy_local_conjugate|apply kappa_xxpyy_coords]. Qed.

Theorem c15_xxmyy_is_kak : forall theta beta,
  local_conjugate_of_kak (xxmyy_mat theta beta) (- (theta / 4)) (theta / 4) 0 /\
  kappaR (kak_coeffsR (- (theta / 4)) (theta / 4) 0)
    = 1 + 4 * Rabs (sin (theta / 2)) + 2 * (sin (theta / 2) * sin (theta / 2)).
Proof. intros theta beta. split; [apply xxmyy_local_conjugate|apply kappa_xxmyy_coords]. Qed.

Theorem c15_rzx_oracle : forall (L : Type) (d : weyl L) theta,
  weyl_equiv (weyl_coords d) (- (theta / 2), 0, 0) ->
  kappaR (kak_basis_coeffsR d) = 1 + 2 * Rabs (sin theta).
Proof. exact @rzx_oracle. Qed.

Theorem c15_xxpyy_oracle : forall (L : Type) (d : weyl L) theta,
  weyl_equiv (weyl_coords d) (- (theta / 4), - (theta / 4), 0) ->
  kappaR (kak_basis_coeffsR d) = 1 + 4 * Rabs (sin (theta / 2)) + 2 * (sin (theta / 2) * sin (theta / 2)).
Proof. exact @xxpyy_oracle. Qed.

Theorem c15_xxmyy_oracle : forall (L : Type) (d : weyl L) theta,
  weyl_equiv (weyl_coords d) (- (theta / 4), theta / 4, 0) ->
  kappaR (kak_basis_coeffsR d) = 1 + 4 * Rabs (sin (theta / 2)) + 2 * (sin (theta / 2) * sin (theta / 2)).
Proof. exact @xxmyy_oracle. Qed.

(* the oracle premise is satisfiable: what Qiskit returns for RZXGate(1), namely (1/2, 0, 0) *)
Example c15_ex_oracle_premise :
  weyl_equiv (weyl_coords {| w_a := 1 / 2; w_b := 0; w_c := 0; w_K1l := tt; w_K1r := tt; w_K2l := tt; w_K2r := tt; w_phase := 0 |})
             (- (1 / 2), 0, 0).
Proof. apply we_mirror_a. Qed.

(* the three KAK rows of the documented table: the documented coordinates (|p theta|, |q theta|, 0) used by
   c15_doc_table_sound are weyl_equiv to the coordinates proved for the gate matrices above *)
Theorem c15_doc_kak_rows : forall theta,
  weyl_equiv (Rabs (Q2R (1 # 2) * theta), Rabs (Q2R (0 # 1) * theta), 0) (- (theta / 2), 0, 0) /\
  weyl_equiv (Rabs (Q2R (1 # 4) * theta), Rabs (Q2R (1 # 4) * theta), 0) (- (theta / 4), - (theta / 4), 0) /\
  weyl_equiv (Rabs (Q2R (1 # 4) * theta), Rabs (Q2R (1 # 4) * theta), 0) (- (theta / 4), theta / 4, 0).
Proof. intros theta. exact (conj (doc_rzx_coords theta) (conj (doc_xxpyy_coords theta) (doc_xxmyy_coords theta))). Qed.

(* ---- gamma >= 1 over Q, without any axiom (for the cut finder's cost table, C08) ------------------ *)

(* every registered basis EXCEPT the four fixed-angle ones (cs, csdg, csx, csxdg: their point (cos pi/8, sin pi/8) is
   irrational; they are covered over R by c15_cs_family / c15_ge_1), at every rational point (c, s) of the unit circle
   standing for (cos theta', sin theta'), has a coefficient list whose kappa is at least 1 *)
Theorem c15_gamma_table_ge1 : forall name c s,
  In name registry_names -> fixed_angle name = false -> (c * c + s * s == 1)%Q ->
  exists l, coeffsQ name c s = Some l /\ (1 <= kappaQ l)%Q.
Proof. exact gamma_table_ge1. Qed.

Theorem c15_gamma_table_rot : forall c s, (c * c + s * s == 1)%Q ->
  (kappaQ (map (evalQ (env_rotQ c s)) rot_exprs) == 1 + 4 * Qabs (c * s))%Q.
Proof. exact rot_kappaQ. Qed.

Theorem c15_gamma_table_consts :
  (forall name, In name ["cx"; "cy"; "cz"; "ch"; "ecr"] ->
     exists l, coeffsQ name 0 0 = Some l /\ (kappaQ l == 3)%Q) /\
  (forall name, In name ["swap"; "iswap"; "dcx"] ->
     exists l, coeffsQ name 0 0 = Some l /\ (kappaQ l == 7)%Q) /\
  (exists l, coeffsQ "move" 0 0 = Some l /\ (kappaQ l == 4)%Q).
Proof. exact gamma_table_consts. Qed.

Theorem c15_gamma_table_excluded : filter fixed_angle registry_names = ["cs"; "csdg"; "csx"; "csxdg"].
Proof. exact fixed_angle_names. Qed.

(* non-vacuity of the hypotheses *)
Example c15_ex_gamma : ((3#5) * (3#5) + (4#5) * (4#5) == 1)%Q /\ fixed_angle "crz" = false /\ In "crz" registry_names.
Proof. split; [reflexivity|split; [reflexivity|vm_compute; tauto]]. Qed.

(* ---- kappa >= 1 --------------------------------------------------------------------------- *)

Theorem c15_ge_1 :
  (forall name theta, In name registry_names -> 1 <= kappaR (coeffsR name theta)) /\
  (forall a b c, 1 <= kappaR (kak_coeffsR a b c)) /\
  (forall u, norm2P u <= kappaR (nonlocal_coeffsR u)) /\
  (forall u, norm2P u = 1 -> 1 <= kappaR (nonlocal_coeffsR u)).
Proof.
  exact (conj kappa_registered_ge_1 (conj kappa_kak_ge_1 (conj kappa_nonlocal_ge kappa_nonlocal_ge_1))).
Qed.

(* ---- basis invariants (qpd_basis.py): every coefficient vector, also after reassignment --- *)

Theorem c15_basis_invariants : forall (p : bphase) (ops : list (list Q)) (c : list Q),
  length c = nmaps_of p ->
  let p' := run_assignments p (ops ++ [c]) in
  get_coeffs p' = Some c /\
  get_kappa p' = Some (kappaQ c) /\ (kappaQ c == sumQ (map Qabs c))%Q /\
  get_probs p' = Some (probsQ c) /\
  (~ (kappaQ c == 0)%Q -> Forall2 Qeq (probsQ c) (map (fun x => (Qabs x / kappaQ c)%Q) c)) /\
  get_overhead p' = Some (overheadQ c) /\ (overheadQ c == kappaQ c * kappaQ c)%Q /\
  (~ (kappaQ c == 0)%Q -> (sumQ (probsQ c) == 1)%Q) /\
  Forall (fun x => (0 <= x)%Q) (probsQ c).
Proof.
  intros p ops c H. cbv zeta.
  destruct (run_last p ops c H) as (A & B & C & D).
  repeat split; try assumption;
    [apply kappaQ_sum|intros _; apply probsQ_spec|apply qmul_eq|exact (probsQ_sum c)|exact (probsQ_nonneg c)].
Qed.

(* a refused assignment (wrong length, ValueError) leaves the basis as it was *)
Theorem c15_setter_refuses : forall p ops c,
  length c <> nmaps_of p ->
  set_coeffs (run_assignments p ops) c = Refused /\
  run_assignments p (ops ++ [c]) = run_assignments p ops.
Proof.
  intros p ops c H. split; [apply set_coeffs_refused; now rewrite run_nmaps|now apply run_last_refused].
Qed.

(* the constructor: validated maps, then the setter *)
Theorem c15_constructor : forall arities coeffs a r,
  arities = a :: r -> (a <= 2)%nat -> Forall (fun x => x = a) r -> length coeffs = length arities ->
  new_basis arities coeffs =
  Ok (Ready (length arities) {| st_coeffs := coeffs; st_kappa := kappaQ coeffs; st_probs := probsQ coeffs |}).
Proof. exact new_basis_ok. Qed.

(* over the reals, for the coefficient lists of the theorems above *)
Theorem c15_basis_invariants_R : forall l : list R,
  kappaR l <> 0 -> sumR (probsR l) = 1 /\ overheadR l = (kappaR l) ^ 2.
Proof. intros l H. split; [now apply probsR_sum|apply overhead_sq]. Qed.

(* ---- the documented table --------------------------------------------------------------- *)

(* every row of the table in docs/explanation/index.rst: its formula text is one of the seven
   understood formulas, its instruction is a modelled subject, and the model's overhead
   (kappa squared) equals the documented function of theta *)
Theorem c15_doc_table_sound : forall cls f,
  In (cls, f) c15_doc_table ->
  exists g s, doc_formula f = Some g /\ doc_subject cls = Some s /\
              forall theta, overheadR (subject_coeffsR s theta) = g theta.
Proof. exact doc_table_sound. Qed.

Theorem c15_doc_approx : 5.828 <= 3 + 2 * sqrt 2 < 5.829.
Proof. exact doc_approx. Qed.

(* the table, as extracted; a change of the documentation breaks this obligation *)
Theorem c15_doc_table_rows :
  c15_doc_table =
  [("CSGate", "3+2\sqrt{2}\approx5.828"); ("CSdgGate", "3+2\sqrt{2}\approx5.828");
   ("CSXGate", "3+2\sqrt{2}\approx5.828");
   ("CXGate", "3^2=9"); ("CYGate", "3^2=9"); ("CZGate", "3^2=9"); ("CHGate", "3^2=9"); ("ECRGate", "3^2=9");
   ("iSwapGate", "7^2=49"); ("DCXGate", "7^2=49"); ("SwapGate", "7^2=49");
   ("RXXGate", "\left[1+2\left|\sin(\theta)\right|\right]^2");
   ("RYYGate", "\left[1+2\left|\sin(\theta)\right|\right]^2");
   ("RZZGate", "\left[1+2\left|\sin(\theta)\right|\right]^2");
   ("RZXGate", "\left[1+2\left|\sin(\theta)\right|\right]^2");
   ("CRXGate", "\left[1+2\left|\sin(\theta/2)\right|\right]^2");
   ("CRYGate", "\left[1+2\left|\sin(\theta/2)\right|\right]^2");
   ("CRZGate", "\left[1+2\left|\sin(\theta/2)\right|\right]^2");
   ("CPhaseGate", "\left[1+2\left|\sin(\theta/2)\right|\right]^2");
   ("XXPlusYYGate", "\left[1+4\left|\sin(\theta/2)\right|+2\sin^2(\theta/2)\right]^2");
   ("XXMinusYYGate", "\left[1+4\left|\sin(\theta/2)\right|+2\sin^2(\theta/2)\right]^2");
   ("Move", "4^2=16")].
Proof. reflexivity. Qed.

(* ---- tie to the source (regenerated facts) ---------------------------------------------- *)

(* every registered name is dispatched to a coefficient list; the lists have the expected sizes *)
Theorem c15_facts_registry :
  forallb (fun n => match family_of_name n with FNone => false | _ => true end) registry_names = true /\
  length rot_exprs = 6%nat /\ length nonlocal_exprs = 58%nat /\
  length c15_cx_coeffs = 6%nat /\ length c15_move_coeffs = 8%nat /\
  c15_rot_names = ["rxx"; "ryy"; "rzz"; "crx"; "cry"; "crz"] /\
  c15_cx_names = ["cx"; "cy"; "cz"; "ch"].
Proof. repeat split; vm_compute; reflexivity. Qed.

(* shapes that the model relies on, as source text *)
Theorem c15_facts_source :
  c15_ctrl_test = "gate.name[0] == 'c'" /\
  c15_u_formula = "np.transpose(eigvecs) @ (np.exp(1j * eigvals) * eigvecs[:, 0])" /\
  c15_kak_call = ["mat = gate.to_matrix()"; "d = TwoQubitWeylDecomposition(mat, fidelity=None)";
                  "u = _u_from_thetavec([d.a, d.b, d.c])"; "retval = _nonlocal_qpd_basis_from_u(u)"] /\
  c15_setter = ["if len(coeffs) != len(self.maps): ; raise ValueError('Coefficients must be same length as maps.')";
                "weights = np.abs(coeffs)"; "self._kappa = sum(weights)";
                "self._probabilities = weights / self._kappa"; "self._coeffs = coeffs"] /\
  c15_overhead_expr = ["return self._kappa ** 2"] /\
  c15_kappa_writers = [("coeffs/setter", "_coeffs"); ("coeffs/setter", "_kappa"); ("coeffs/setter", "_probabilities")].
Proof. repeat split; reflexivity. Qed.

(* ---- non-vacuity -------------------------------------------------------------------------- *)

(* the rotation list at the rational point (cos, sin) = (3/5, 4/5): kappa = 1 + 2*|2*(3/5)*(4/5)| *)
Example c15_ex_rot :
  coeffsQ "rzz" (3#5) (4#5) = Some [(9#25); (16#25); (-12#25); (12#25); (-12#25); (12#25)]%Q /\
  (kappaQ [(9#25); (16#25); (-12#25); (12#25); (-12#25); (12#25)] == 1 + 2 * Qabs (2 * (3#5) * (4#5)))%Q.
Proof. split; vm_compute; reflexivity. Qed.

(* the 58-term list at the rational unit vector u = (3/5, 4/5 i, 0, 0): kappa = 1 + 4*(12/25) *)
Example c15_ex_nonlocal :
  (kappaQ (nonlocal_coeffsQ [((3#5), 0); (0, (4#5)); (0, 0); (0, 0)]) == 73 # 25)%Q.
Proof. vm_compute. reflexivity. Qed.

(* iswap's literal u, evaluated exactly in Q(sqrt 2), and a reassignment sequence with one refusal *)
Example c15_ex_iswap :
  match option_map kappaQ (coeffsQ "iswap" 0 0) with Some k => (k == 7)%Q | None => False end.
Proof. vm_compute. reflexivity. Qed.

(* the constructor on two 2-qubit maps *)
Example c15_ex_constructor :
  new_basis [2; 2]%nat [(1#2); (-3#2)]%Q =
  Ok (Ready 2 {| st_coeffs := [(1#2); (-3#2)]%Q; st_kappa := 2%Q; st_probs := [(1#4); (3#4)]%Q |}).
Proof. vm_compute. reflexivity. Qed.

(* the KAK path over Q: eigenvalue angles with (cos, sin) = (3/5, -+4/5), i.e. coordinates (t, 0, 0) with
   (cos t, sin t) = (3/5, 4/5): kappa = 1 + 2*|2*(3/5)*(4/5)| = 73/25 *)
Example c15_ex_kak_Q :
  (kappaQ (nonlocal_coeffsQ (u_from_csQ [((3#5), (-4#5)); ((3#5), (-4#5)); ((3#5), (4#5)); ((3#5), (4#5))])) == 73 # 25)%Q.
Proof. vm_compute. reflexivity. Qed.

Example c15_ex_setter :
  match get_kappa (run_assignments (Unset 3) [[1; -1; 2]; [1; 2]; [(1#2); (-1#4); (1#4)]]%Q) with
  | Some k => (k == 1)%Q | None => False end.
Proof. vm_compute. reflexivity. Qed.

Print Assumptions c15_rxx_family.
Print Assumptions c15_controlled.
Print Assumptions c15_cx_family.
Print Assumptions c15_cs_family.
Print Assumptions c15_swap_family.
Print Assumptions c15_move.
Print Assumptions c15_rot_list.
Print Assumptions c15_nonlocal_list.
Print Assumptions c15_u_from_thetavec.
Print Assumptions c15_weyl.
Print Assumptions c15_weyl_t00.
Print Assumptions c15_weyl_tt0.
Print Assumptions c15_weyl_symmetry.
Print Assumptions c15_weyl_equiv_kappa.
Print Assumptions c15_rzx_oracle.
Print Assumptions c15_xxpyy_oracle.
Print Assumptions c15_xxmyy_oracle.
Print Assumptions c15_doc_kak_rows.
Print Assumptions c15_gamma_table_excluded.
Print Assumptions c15_kak_doc_angles.
Print Assumptions c15_rzx_is_kak.
Print Assumptions c15_xxpyy_is_kak.
Print Assumptions c15_xxmyy_is_kak.
Print Assumptions c15_gamma_table_ge1.
Print Assumptions c15_gamma_table_rot.
Print Assumptions c15_gamma_table_consts.
Print Assumptions c15_ge_1.
Print Assumptions c15_basis_invariants.
Print Assumptions c15_setter_refuses.
Print Assumptions c15_constructor.
Print Assumptions c15_basis_invariants_R.
Print Assumptions c15_doc_table_sound.
Print Assumptions c15_doc_approx.
Print Assumptions c15_doc_table_rows.
Print Assumptions c15_facts_registry.
Print Assumptions c15_facts_source.

(* Properties/C17.v — Restricting and expanding observables is faithful to qubit identity.
   Only theorem statements, closed by `exact`, non-vacuity examples and Print Assumptions. *)
From Coq Require Import Sorted.
From Coq Require Import Permutation.
From CKT Require Import Common.Base Model.Observables Proofs.ObservablesP Model.ObservablesExt Proofs.ObservablesExtP.

(* restriction keeps exactly the selected letters in the given order and drops the phase.
   Input precondition (PauliList invariant): every row has the width n of the call -- without it the model's
   totalised `nth` would invent an identity letter where numpy raises IndexError.  The last conjunct says the
   letter is a REAL letter of the input row (nth_error, no default).  NOTE: restrict1 is a one-line definition;
   this theorem is a read-off of it, the weight of the clause is on the correspondence + c17_source_facts. *)
Theorem c17_restrict : forall n qs ps,
  (forall p, In p ps -> length (plets p) = n) -> (forall q, In q qs -> q < n) ->
  exists out, restrict n qs ps = Ok out /\ length out = length ps /\
    forall i, i < length ps ->
      pphase (nth i out pI) = 0 /\
      length (plets (nth i out pI)) = length qs /\
      forall k, k < length qs ->
        nth k (plets (nth i out pI)) 0 = nth (nth k qs 0) (plets (nth i ps pI)) 0 /\
        nth_error (plets (nth i out pI)) k = nth_error (plets (nth i ps pI)) (nth k qs 0).
Proof. exact restrict_full_wf. Qed.

(* decompose_observables: one entry per distinct label; its qubits are exactly the indices
   carrying that label, ascending; its sub-observables are the restrictions *)
Theorem c17_decompose : forall labels ps,
  let D := decompose_observables labels ps in
  NoDup (map (fun t => fst (fst t)) D) /\
  (forall j, j < length labels -> In (nth j labels 0) (map (fun t => fst (fst t)) D)) /\
  (forall l qs subs, In (l, qs, subs) D ->
     qs = members labels l (length labels) /\ qs <> [] /\ subs = map (restrict1 qs) ps).
Proof. exact decompose_spec. Qed.

Theorem c17_members : forall labels l n j,
  (In j (members labels l n) <-> j < n /\ nth j labels 0 = l) /\ StronglySorted lt (members labels l n).
Proof. intros; split; [apply members_in|apply members_sorted]. Qed.

(* the restrictions over the label partition recombine to the original string *)
Theorem c17_recombine : forall labels p,
  length labels = length (plets p) ->
  recombine1 (length labels)
    (map (fun lq => (snd lq, restrict1 (snd lq) p)) (qubits_by_subsystem labels)) = plets p.
Proof. exact recombine_decompose. Qed.

(* the general recombination clause: ANY family of index blocks covering exactly 0..n-1 -- blocks in any
   order, indices in any order inside a block (the property's "all qubit subsets/orders") -- recombines *)
Theorem c17_recombine_any_partition : forall n p gs,
  length (plets p) = n -> (forall q, In q (concat gs) <-> q < n) ->
  recombine1 n (map (fun qs => (qs, restrict1 qs p)) gs) = plets p.
Proof. exact recombine_any_partition. Qed.

(* expansion: each letter lands on the position of the same qubit object, identity elsewhere,
   phase kept.  Input preconditions: both circuits' qubit lists are duplicate-free (Qiskit invariant),
   rows have width nobs (PauliList invariant). *)
Theorem c17_expand : forall nobs oq fq ps,
  NoDup oq -> NoDup fq -> incl oq fq -> nobs = length oq ->
  (forall p, In p ps -> length (plets p) = nobs) ->
  exists out, expand nobs oq fq ps = Ok out /\ length out = length ps /\
    forall i, i < length ps ->
      let p := nth i ps pI in let r := nth i out pI in
      pphase r = pphase p /\ length (plets r) = length fq /\
      (forall k j, k < length oq -> j < length fq -> nth j fq 0 = nth k oq 0 ->
          nth j (plets r) 0 = nth k (plets p) 0) /\
      (forall j, ~ In (nth j fq 0) oq -> j < length fq -> nth j (plets r) 0 = 0).
Proof. exact expand_full_hoisted. Qed.

Theorem c17_refuses_count : forall nobs oq fq ps, nobs <> length oq -> expand nobs oq fq ps = Refused.
Proof. exact expand_refuses_count. Qed.

Theorem c17_refuses_missing : forall nobs oq fq ps,
  (exists q, In q oq /\ ~ In q fq) -> expand nobs oq fq ps = Refused.
Proof. exact expand_refuses_missing. Qed.

(* ---- public-call outcomes (totality): every input gets exactly one of Ok / Refused / Crashed ---- *)

(* both input paths (PauliList / list[Pauli]) of the restriction agree on every in-range request
   (read-off of the definition of restrict_seq; same input precondition as c17_restrict) *)
Theorem c17_restrict_paths_def : forall aslist n qs ps,
  (forall p, In p ps -> length (plets p) = n) -> (forall q, In q qs -> q < n) ->
  restrict_seq aslist n qs ps = Ok (map (restrict1 qs) ps).
Proof. exact restrict_seq_ok_wf. Qed.

(* outside the property's quantifier (recorded, not demanded): an index >= num_qubits is an
   IndexError, except on the list path with no observable at all (that second conjunct does not depend on
   the hypothesis) *)
Theorem c17_restrict_out_of_range : forall aslist n qs ps,
  (forall p, In p ps -> length (plets p) = n) -> (exists q, In q qs /\ n <= q) ->
  (aslist = false \/ ps <> [] -> restrict_seq aslist n qs ps = Crashed) /\
  restrict_seq true n qs [] = Ok [].
Proof. exact restrict_out_of_range_wf. Qed.

(* decompose_observables as a public call never refuses; it answers (with the dict of c17_decompose)
   whenever there are at most num_qubits labels, and an out-of-range index inside it IS reachable:
   exactly when there are more labels than qubits (IndexError). *)
Theorem c17_decompose_call_total : forall aslist n labels ps, length labels <= n ->
  decompose_call aslist n labels ps = Ok (decompose_observables labels ps).
Proof. exact decompose_call_ok. Qed.

Theorem c17_decompose_call_crash : forall aslist n labels ps, n < length labels ->
  (aslist = false \/ ps <> [] -> decompose_call aslist n labels ps = Crashed) /\
  decompose_call true n labels [] = Ok (decompose_observables labels []) /\
  decompose_call aslist n labels ps <> Refused.
Proof.
  intros; split; [now apply decompose_call_crash|].
  split; [apply decompose_call_empty_list|apply decompose_call_never_refused].
Qed.

(* expand_observables on a well-formed PauliList (every row of width nobs): answered iff the counts agree
   and every original qubit is in the final circuit, otherwise refused, never any other exception.
   (Without the width premise the model's scatter would silently truncate/pad ragged rows where numpy
   raises a broadcasting ValueError; such inputs cannot be built as a PauliList.) *)
Theorem c17_expand_outcome : forall nobs oq fq ps,
  (forall p, In p ps -> length (plets p) = nobs) ->
  ((exists out, expand nobs oq fq ps = Ok out) <-> nobs = length oq /\ incl oq fq) /\
  (expand nobs oq fq ps = Refused <-> ~ (nobs = length oq /\ incl oq fq)) /\
  expand nobs oq fq ps <> Crashed.
Proof. exact expand_outcome_wf. Qed.

(* which documented ValueError: the count message (with both numbers) takes precedence; otherwise
   the message names the FIRST original qubit that is missing *)
Theorem c17_refusal_reason : forall nobs oq fq,
  (forall ps, expand nobs oq fq ps = Refused <-> expand_refusal nobs oq fq <> None) /\
  (forall a b, expand_refusal nobs oq fq = Some (RCount a b) ->
     nobs <> length oq /\ a = nobs /\ b = length oq) /\
  (forall i, expand_refusal nobs oq fq = Some (RMissing i) ->
     nobs = length oq /\ i < length oq /\ ~ In (nth i oq 0) fq /\ forall j, j < i -> In (nth j oq 0) fq).
Proof.
  intros. split; [intros; apply expand_refused_iff|].
  split; [apply expand_refusal_count|apply expand_refusal_missing].
Qed.

(* ---- extension round ---- *)

(* The dict RETURNED BY THE PUBLIC CALL (not just the internal grouping) covers every qubit index
   0..n-1 exactly once -- for every label value: the number the harness gives to None is a label like any
   other, no group is skipped --, every index sits in the group of its own label, and scattering row i of
   every group back rebuilds the original letters of observable i.  All sizes, any number of observables,
   both input paths. *)
Theorem c17_call_recombine : forall aslist n labels ps D,
  length labels = n -> decompose_call aslist n labels ps = Ok D ->
  Permutation (covered D) (seq 0 n) /\
  (forall j, j < n -> exists qs subs, In (nth j labels 0, qs, subs) D /\ In j qs) /\
  (forall i, i < length ps -> length (plets (nth i ps pI)) = n ->
     recombine_row n i D = plets (nth i ps pI)).
Proof. exact decompose_call_recombine. Qed.

Theorem c17_call_cover_exactly_once : forall aslist n labels ps D,
  length labels = n -> decompose_call aslist n labels ps = Ok D ->
  NoDup (covered D) /\ forall j, In j (covered D) <-> j < n.
Proof. exact decompose_call_cover. Qed.

(* read-offs of the definition of expand1 (one unfolding): expansion keeps every phase on every answered
   call, and for an original circuit without qubits the answer is exactly: same phases, identity on all
   final qubits *)
Theorem c17_expand_phase_kept_def : forall nobs oq fq ps out,
  expand nobs oq fq ps = Ok out -> map pphase out = map pphase ps.
Proof. exact expand_phase_kept. Qed.

Theorem c17_expand_zero_qubits_def : forall fq ps,
  expand 0 [] fq ps = Ok (map (fun p => mkP (pphase p) (repeat 0 (length fq))) ps).
Proof. exact expand_zero. Qed.

(* THE INTERNING CONTRACT.  Labels are Python objects (any type L) compared by the dict-key equality
   leqb; the dict keeps the first key object of a class.  Any numbering f of the labels of the call whose
   equality IS leqb turns the Python-level grouping into the nat-level grouping all theorems above are
   about.  (The harness monitors exactly this premise for its Interner: contract
   interning_is_dict_key_equality.) *)
Theorem c17_interning_contract : forall (L : Type) (leqb : L -> L -> bool) (f : L -> nat) labels,
  (forall a b, In a labels -> In b labels -> Nat.eqb (f a) (f b) = leqb a b) ->
  relabel L f (qubits_by_subsystem_g leqb labels) = qubits_by_subsystem (map f labels).
Proof. exact interning_commutes. Qed.

(* and the harness's Interner (first-appearance numbering, modelled as intern_list) satisfies that
   premise whenever leqb is an equivalence: the premise is discharged, not assumed *)
Theorem c17_interner_sound : forall (L : Type) (leqb : L -> L -> bool),
  (forall a, leqb a a = true) -> (forall a b, leqb a b = leqb b a) ->
  (forall a b c, leqb a b = true -> leqb b c = true -> leqb a c = true) ->
  forall labels,
  (forall a b, In a labels -> In b labels ->
     Nat.eqb (intern_id leqb labels a) (intern_id leqb labels b) = leqb a b) /\
  intern_list leqb [] labels = map (intern_id leqb labels) labels /\
  relabel L (intern_id leqb labels) (qubits_by_subsystem_g leqb labels) =
    qubits_by_subsystem (intern_list leqb [] labels) /\
  Permutation (concat (map snd (qubits_by_subsystem_g leqb labels))) (seq 0 (length labels)).
Proof.
  intros L leqb R S T labels. split; [intros a b; now apply interner_contract|].
  split; [now apply intern_list_is_intern_id|].
  split; [now apply interner_commutes|now apply qubits_by_subsystem_g_cover].
Qed.

(* non-vacuity: interleaved fresh qubits, phases, a 3-label partition *)
Example c17_ex_expand :
  expand 3 [10; 11; 12] [20; 12; 21; 10; 11] [mkP 3 [1; 2; 3]] = Ok [mkP 3 [0; 3; 0; 1; 2]].
Proof. reflexivity. Qed.

Example c17_ex_decompose :
  decompose_observables [7; 5; 7; 9] [mkP 2 [1; 2; 3; 0]]
  = [(7, [0; 2], [mkP 0 [1; 3]]); (5, [1], [mkP 0 [2]]); (9, [3], [mkP 0 [0]])].
Proof. reflexivity. Qed.

Example c17_ex_zero_qubits :
  expand 0 [] [20; 21; 22] [mkP 1 []; mkP 3 []] = Ok [mkP 1 [0; 0; 0]; mkP 3 [0; 0; 0]] /\
  restrict_seq false 0 [] [mkP 2 []] = Ok [mkP 0 []] /\
  decompose_call false 0 [] [mkP 2 []] = Ok [].
Proof. repeat split. Qed.

Example c17_ex_refusals :
  expand_refusal 1 [10; 11] [10; 11] = Some (RCount 1 2) /\
  expand_refusal 3 [10; 11; 12] [12; 10] = Some (RMissing 1) /\
  expand_refusal 2 [10; 11] [11; 30; 10] = None.
Proof. repeat split. Qed.

Example c17_ex_decompose_crash :
  decompose_call false 2 [7; 5; 7] [mkP 0 [1; 2]] = Crashed /\
  decompose_call true 2 [7; 5; 7] [] = Ok [(7, [0; 2], []); (5, [1], [])] /\
  decompose_call false 3 [7; 5] [mkP 1 [1; 2; 3]] = Ok [(7, [0], [mkP 0 [1]]); (5, [1], [mkP 0 [2]])].
Proof. repeat split. Qed.

(* label 1 plays the role of None: its group is there, rows recombine *)
Example c17_ex_call_recombine :
  let ps := [mkP 2 [1; 2; 3; 0]; mkP 1 [3; 3; 0; 2]] in
  exists D, decompose_call false 4 [7; 1; 7; 9] ps = Ok D /\
    D = [(7, [0; 2], [mkP 0 [1; 3]; mkP 0 [3; 0]]); (1, [1], [mkP 0 [2]; mkP 0 [3]]); (9, [3], [mkP 0 [0]; mkP 0 [2]])] /\
    covered D = [0; 2; 1; 3] /\
    recombine_row 4 0 D = [1; 2; 3; 0] /\ recombine_row 4 1 D = [3; 3; 0; 2].
Proof. eexists. repeat split. Qed.

Example c17_ex_expand_zero_phases :
  expand 0 [] [20; 21] [mkP 0 []; mkP 1 []; mkP 2 []; mkP 3 []]
  = Ok [mkP 0 [0; 0]; mkP 1 [0; 0]; mkP 2 [0; 0]; mkP 3 [0; 0]].
Proof. reflexivity. Qed.

(* a non-trivial dict-key equality (several objects per class): a ~ b iff a/2 = b/2 *)
Definition ex_leqb (a b : nat) : bool := Nat.eqb (a / 2) (b / 2).
Example c17_ex_interner_hyps :
  (forall a, ex_leqb a a = true) /\ (forall a b, ex_leqb a b = ex_leqb b a) /\
  (forall a b c, ex_leqb a b = true -> ex_leqb b c = true -> ex_leqb a c = true).
Proof.
  unfold ex_leqb. split; [intros; apply Nat.eqb_refl|]. split; [intros; apply Nat.eqb_sym|].
  intros a b c H1 H2. apply Nat.eqb_eq in H1, H2. apply Nat.eqb_eq. congruence.
Qed.
Example c17_ex_interner :
  intern_list ex_leqb [] [4; 5; 0; 9; 1] = [0; 0; 1; 2; 1] /\
  qubits_by_subsystem_g ex_leqb [4; 5; 0; 9; 1] = [(4, [0; 1]); (0, [2; 4]); (9, [3])] /\
  qubits_by_subsystem [0; 0; 1; 2; 1] = [(0, [0; 1]); (1, [2; 4]); (2, [3])].
Proof. repeat split. Qed.

(* non-ascending blocks in non-ascending order; and a restriction with a repeated, non-ascending request *)
Example c17_ex_any_partition :
  (forall q, In q (concat [[2; 0]; [3; 1]]) <-> q < 4) /\
  map (fun qs => restrict1 qs (mkP 2 [1; 2; 3; 0])) [[2; 0]; [3; 1]] = [mkP 0 [3; 1]; mkP 0 [0; 2]] /\
  recombine1 4 (map (fun qs => (qs, restrict1 qs (mkP 2 [1; 2; 3; 0]))) [[2; 0]; [3; 1]]) = [1; 2; 3; 0].
Proof. split; [intros q; simpl; lia|split; reflexivity]. Qed.

Example c17_ex_restrict_order :
  restrict 4 [3; 1; 3] [mkP 3 [1; 2; 3; 0]] = Ok [mkP 0 [0; 2; 0]] /\
  restrict_seq true 4 [3; 1; 3] [mkP 3 [1; 2; 3; 0]] = Ok [mkP 0 [0; 2; 0]] /\
  (forall p, In p [mkP 3 [1; 2; 3; 0]] -> length (plets p) = 4).
Proof. split; [reflexivity|split; [reflexivity|]]. intros p [<-|[]]; reflexivity. Qed.

(* the width premise matters: without it the model would answer with an invented identity letter *)
Example c17_ex_width_premise_needed :
  restrict 5 [0; 4] [mkP 3 [1; 2]] = Ok [mkP 0 [1; 0]] /\
  expand 2 [10; 11] [11; 10; 12] [mkP 1 [1; 2; 3; 3]] = Ok [mkP 1 [2; 1; 0]].
Proof. split; reflexivity. Qed.

Print Assumptions c17_restrict.
Print Assumptions c17_decompose.
Print Assumptions c17_members.
Print Assumptions c17_recombine.
Print Assumptions c17_expand.
Print Assumptions c17_refuses_count.
Print Assumptions c17_refuses_missing.
Print Assumptions c17_restrict_paths_def.
Print Assumptions c17_restrict_out_of_range.
Print Assumptions c17_decompose_call_total.
Print Assumptions c17_decompose_call_crash.
Print Assumptions c17_expand_outcome.
Print Assumptions c17_refusal_reason.
Print Assumptions c17_call_recombine.
Print Assumptions c17_call_cover_exactly_once.
Print Assumptions c17_expand_phase_kept_def.
Print Assumptions c17_expand_zero_qubits_def.
Print Assumptions c17_interning_contract.
Print Assumptions c17_interner_sound.
Print Assumptions c17_recombine_any_partition.

(* tie to the source: expand_observables has exactly the two refusal sites modelled above *)
From CKT Require Import Extracted.Facts.
From Coq Require Import String.
Definition sites_of (f : string) : nat :=
  match find (fun p => String.eqb (fst p) f) value_error_sites with Some p => snd p | None => 0 end.
Theorem c17_facts : sites_of "wire_cutting_transforms:expand_observables" = 2.
Proof. reflexivity. Qed.
Print Assumptions c17_facts.

(* tie to the source, statement by statement: the lines the model mirrors have exactly this text
   (tools/facts_c17.py; fail-closed).  In particular: the restriction builds its result from the z/x
   columns only (no phase argument); the count guard is `!=` on num_qubits; the handler catches
   CircuitError; the result width is final_circuit.num_qubits; the phase vector is copied. *)
Theorem c17_source_facts : c17_source_shape =
  [ "isinstance(global_observables, PauliList)";
    "PauliList.from_symplectic(o.z[:, qubits], o.x[:, qubits])";
    "[observable[qubits,] for observable in global_observables]";
    "(i, label) in enumerate(partition_labels)";
    "qubits_by_subsystem[label].append(i)";
    "{label: observables_restricted_to_subsystem(qubits, observables) for label, qubits in qubits_by_subsystem.items()}";
    "observables.num_qubits != original_circuit.num_qubits";
    "(i, qubit) in enumerate(original_circuit.qubits)";
    "idx = final_circuit.find_bit(qubit)[0]";
    "CircuitError";
    "dims = (len(observables), final_circuit.num_qubits)";
    "z[:, mapping] = observables.z; x[:, mapping] = observables.x";
    "PauliList.from_symplectic(z, x, observables.phase.copy())" ]%string.
Proof. reflexivity. Qed.
Print Assumptions c17_source_facts.

(* Properties/C17.v — Restricting and expanding observables is faithful to qubit identity.
   Only theorem statements, closed by `exact`, non-vacuity examples and Print Assumptions. *)
From Coq Require Import Sorted.
From CKT Require Import Common.Base Model.Observables Proofs.ObservablesP.

(* restriction keeps exactly the selected letters in the given order and drops the phase *)
Theorem c17_restrict : forall n qs ps, (forall q, In q qs -> q < n) ->
  exists out, restrict n qs ps = Ok out /\ length out = length ps /\
    forall i, i < length ps ->
      pphase (nth i out pI) = 0 /\
      length (plets (nth i out pI)) = length qs /\
      forall k, k < length qs ->
        nth k (plets (nth i out pI)) 0 = nth (nth k qs 0) (plets (nth i ps pI)) 0.
Proof. exact restrict_full. Qed.

(* decompose_observables: one entry per distinct label; its qubits are exactly the indices
   carrying that label, ascending; its sub-observables are the restrictions *)
Theorem c17_decompose : forall labels ps,
  let D := decompose_observables labels ps in
  NoDup (map (fun t => fst (fst t)) D) /\
  (forall j, j < length labels -> In (nth j labels 0) (map (fun t => fst (fst t)) D)) /\
  (forall l qs subs, In (l, qs, subs) D ->
     qs = members labels l (length labels) /\ qs <> [] /\ subs = map (restrict1 qs) ps).
Proof. exact decompose_spec. Qed.

Theorem c17_members : forall labels l n j,
  (In j (members labels l n) <-> j < n /\ nth j labels 0 = l) /\ StronglySorted lt (members labels l n).
Proof. intros; split; [apply members_in|apply members_sorted]. Qed.

(* the restrictions over the label partition recombine to the original string *)
Theorem c17_recombine : forall labels p,
  length labels = length (plets p) ->
  recombine1 (length labels)
    (map (fun lq => (snd lq, restrict1 (snd lq) p)) (qubits_by_subsystem labels)) = plets p.
Proof. exact recombine_decompose. Qed.

(* expansion: each letter lands on the position of the same qubit object, identity elsewhere,
   phase kept *)
Theorem c17_expand : forall nobs oq fq ps,
  NoDup oq -> incl oq fq -> nobs = length oq ->
  (forall p, In p ps -> length (plets p) = nobs) ->
  exists out, expand nobs oq fq ps = Ok out /\ length out = length ps /\
    forall i, i < length ps ->
      let p := nth i ps pI in let r := nth i out pI in
      pphase r = pphase p /\ length (plets r) = length fq /\
      (forall k j, k < length oq -> j < length fq -> nth j fq 0 = nth k oq 0 -> NoDup fq ->
          nth j (plets r) 0 = nth k (plets p) 0) /\
      (forall j, ~ In (nth j fq 0) oq -> j < length fq -> nth j (plets r) 0 = 0).
Proof. exact expand_full. Qed.

Theorem c17_refuses_count : forall nobs oq fq ps, nobs <> length oq -> expand nobs oq fq ps = Refused.
Proof. exact expand_refuses_count. Qed.

Theorem c17_refuses_missing : forall nobs oq fq ps,
  (exists q, In q oq /\ ~ In q fq) -> expand nobs oq fq ps = Refused.
Proof. exact expand_refuses_missing. Qed.

(* non-vacuity: interleaved fresh qubits, phases, a 3-label partition *)
Example c17_ex_expand :
  expand 3 [10; 11; 12] [20; 12; 21; 10; 11] [mkP 3 [1; 2; 3]] = Ok [mkP 3 [0; 3; 0; 1; 2]].
Proof. reflexivity. Qed.

Example c17_ex_decompose :
  decompose_observables [7; 5; 7; 9] [mkP 2 [1; 2; 3; 0]]
  = [(7, [0; 2], [mkP 0 [1; 3]]); (5, [1], [mkP 0 [2]]); (9, [3], [mkP 0 [0]])].
Proof. reflexivity. Qed.

Print Assumptions c17_restrict.
Print Assumptions c17_decompose.
Print Assumptions c17_members.
Print Assumptions c17_recombine.
Print Assumptions c17_expand.
Print Assumptions c17_refuses_count.
Print Assumptions c17_refuses_missing.

(* tie to the source: expand_observables has exactly the two refusal sites modelled above *)
From CKT Require Import Extracted.Facts.
From Coq Require Import String.
Definition sites_of (f : string) : nat :=
  match find (fun p => String.eqb (fst p) f) value_error_sites with Some p => snd p | None => 0 end.
Theorem c17_facts : sites_of "wire_cutting_transforms:expand_observables" = 2.
Proof. reflexivity. Qed.
Print Assumptions c17_facts.

(* Properties/C18.v — Malformed requests are refused with the documented error, never mis-computed.
   Only theorem statements closed by `exact`, non-vacuity examples, facts obligations, Print Assumptions.

   Reading guide.  api_f i = Refused  means: the validation blocks of f, evaluated in source order on
   the input abstraction i, raise ValueError; `Refused` carries no value ("before any result is
   returned").  Every theorem is an implication  <documented error class present at ANY position k,
   everything else arbitrary (up to the stated in-range / otherwise-valid premises)>  ->  Refused.  Where an undocumented exception can come first in source
   order (IndexError on circuit.data[k]) the theorem assumes the indices are in range.
   The *_frame theorems are the "arguments are not modified" part for the three entry points that
   can mutate their argument (inplace=True); for all others the argument snapshots are compared by
   the correspondence check.  *_valid theorems show the model does not refuse everything. *)
From Coq Require Import QArith String.
From CKT Require Import Common.Base Model.Validation Proofs.ValidationP.
Close Scope Q_scope.
Close Scope string_scope.

(* ---------------- sample budgets: N < 1 and NaN (generate_cutting_experiments AND generate_qpd_weights) -------- *)
Theorem c18_weights_lt1 : forall q, (q < 1)%Q -> api_generate_qpd_weights (BNum q) = Refused.
Proof. exact weights_lt1. Qed.
Theorem c18_weights_nan : api_generate_qpd_weights BNaN = Refused.
Proof. exact weights_nan. Qed.
Theorem c18_weights_valid : forall q, (1 <= q)%Q -> api_generate_qpd_weights (BNum q) = Proceeds.
Proof. exact weights_valid. Qed.
Theorem c18_gen_budget_lt1 : forall i q, ge_budget i = BNum q -> (q < 1)%Q -> api_generate i = Refused.
Proof. exact gen_budget_lt1. Qed.
Theorem c18_gen_budget_nan : forall i, ge_budget i = BNaN -> api_generate i = Refused.
Proof. exact gen_budget_nan. Qed.

(* ---------------- mismatched argument forms, SingleQubitQPDGate labels / unseparated (generate) ---------------- *)
Theorem c18_gen_form_circuit : forall i, ge_cform i = CCircuit -> ge_oform i <> OPauliList -> api_generate i = Refused.
Proof. exact gen_form_circuit. Qed.
Theorem c18_gen_form_dict : forall i, ge_cform i = CDict -> ge_oform i <> ODict -> api_generate i = Refused.
Proof. exact gen_form_dict. Qed.
Theorem c18_gen_q1_unseparated : forall i c r k,
  ge_cform i = CCircuit -> ge_circs i = c :: r -> k < length c -> is_q1 (nth k c GOther) = true ->
  api_generate i = Refused.
Proof. exact gen_q1_unseparated. Qed.
(* label None or non-numeric suffix, in any subcircuit j at any position k *)
Theorem c18_gen_label : forall i j k,
  ge_cform i = CDict -> j < length (ge_circs i) -> k < length (nth j (ge_circs i) []) ->
  bad_label (nth k (nth j (ge_circs i) []) GOther) = true -> api_generate i = Refused.
Proof. exact gen_label. Qed.
(* a phased observable in the dictionary form (subsystem j, position k).  In the QuantumCircuit/PauliList form the
   implementation silently drops the phase (not a documented refusal of this entry point; reconstruct refuses it) *)
Theorem c18_gen_phase_dict : forall i j k,
  ge_cform i = CDict -> j < length (ge_phases i) -> k < length (nth j (ge_phases i) []) ->
  nth k (nth j (ge_phases i) []) 0 <> 0 -> api_generate i = Refused.
Proof. exact gen_phase_dict. Qed.
(* observable size mismatch (the qubit-count check of _append_measurement_circuit), k-th observables label *)
Theorem c18_gen_obs_size : forall i k,
  ge_cform i <> COther -> k < length (ge_tail i) ->
  (forall j, j <= k -> fst (nth j (ge_tail i) (true, true)) = true) ->
  snd (nth k (ge_tail i) (true, true)) = false -> api_generate i = Refused.
Proof. exact gen_obs_size. Qed.
Theorem c18_gen_valid_circuit : forall i,
  ge_cform i = CCircuit -> ge_oform i = OPauliList -> b_ge (ge_budget i) Q1 = true ->
  existsb is_q1 (hd [] (ge_circs i)) = false -> gen_tail (ge_tail i) = Proceeds -> api_generate i = Proceeds.
Proof. exact gen_valid_circuit. Qed.
Theorem c18_gen_valid_dict : forall i,
  ge_cform i = CDict -> ge_oform i = ODict -> b_ge (ge_budget i) Q1 = true ->
  existsb (existsb bad_label) (ge_circs i) = false -> existsb any_phase (ge_phases i) = false ->
  gen_tail (ge_tail i) = Proceeds -> api_generate i = Proceeds.
Proof. exact gen_valid_dict. Qed.

(* ---------------- partition_problem: labels, observable sizes, phases, classical bits, gates ---------------- *)
Theorem c18_pp_label_count : forall i l, pp_labels i = Some l -> length l <> pp_nq i -> api_partition_problem i = Refused.
Proof. exact pp_label_count. Qed.
Theorem c18_pp_obs_size : forall i o k,
  pp_obs i = Some o -> k < length o -> fst (nth k o (0, 0)) <> pp_nq i -> api_partition_problem i = Refused.
Proof. exact pp_obs_size. Qed.
Theorem c18_pp_phase : forall i o k,
  pp_obs i = Some o -> k < length o -> snd (nth k o (0, 0)) <> 0 -> api_partition_problem i = Refused.
Proof. exact pp_phase. Qed.
Theorem c18_pp_clbits : forall i, pp_ncregs i <> 0 \/ pp_nclbits i <> 0 -> api_partition_problem i = Refused.
Proof. exact pp_clbits. Qed.
(* a gate on more than two qubits that would have to be cut (spans more than one label) *)
Theorem c18_pp_wide_gate : forall i l k,
  pp_labels i = Some l -> k < length (pp_insts i) ->
  let g := nth k (pp_insts i) dflt_inst in
  gi_kind g <> KBarrier -> 2 < length (gi_qs g) -> spanned l (gi_qs g) <> 1 ->
  api_partition_problem i = Refused.
Proof. exact pp_wide_gate. Qed.
Theorem c18_pp_unsupported : forall i l k d,
  pp_labels i = Some l -> k < length (pp_insts i) ->
  let g := nth k (pp_insts i) dflt_inst in
  gi_kind g = KOp d -> length (gi_qs g) = 2 -> spanned l (gi_qs g) <> 1 -> api_from_instruction d = Refused ->
  api_partition_problem i = Refused.
Proof. exact pp_unsupported. Qed.
Theorem c18_pp_none_label : forall i l k q,
  pp_labels i = Some l -> k < length (pp_insts i) -> In q (gi_qs (nth k (pp_insts i) dflt_inst)) ->
  nth q l None = None -> api_partition_problem i = Refused.
Proof. exact pp_none_label. Qed.
Theorem c18_pp_valid : forall i,
  match pp_labels i with Some l => length l = pp_nq i | None => True end ->
  match pp_obs i with
  | Some o => existsb (fun p => negb (fst p =? pp_nq i)) o = false /\ existsb (fun p => negb (snd p =? 0)) o = false
  | None => True end ->
  pp_ncregs i = 0 -> pp_nclbits i = 0 ->
  match pp_labels i with
  | Some l => existsb (pcq_refuses l) (pp_insts i) = false /\ none_label_used l (pp_insts i) = false /\
              idle_observable l (pp_support_eff i) = false
  | None => idle_observable (auto_labels (pp_nq i) (pp_insts i)) (pp_support_eff i) = false end ->
  api_partition_problem i = Proceeds.
Proof. exact pp_valid. Qed.
(* fifth guard (idle group): observable j acts non-trivially on a qubit q whose label is None ... *)
Theorem c18_pp_idle_explicit : forall i l o j q,
  pp_labels i = Some l -> pp_obs i = Some o -> o <> [] -> j < length (pp_support i) -> In q (nth j (pp_support i) []) ->
  nth q l None = None -> api_partition_problem i = Refused.
Proof. exact pp_idle_explicit. Qed.
(* ... or, with automatic labels, on a qubit that no instruction touches *)
Theorem c18_pp_idle_auto : forall i o j q,
  pp_labels i = None -> pp_obs i = Some o -> o <> [] -> j < length (pp_support i) -> In q (nth j (pp_support i) []) ->
  q < pp_nq i -> touched (pp_insts i) q = false -> api_partition_problem i = Refused.
Proof. exact pp_idle_auto. Qed.

(* ---------------- partition_circuit_qubits ---------------- *)
Theorem c18_pcq_label_count : forall i, length (pq_labels i) <> pq_nq i -> api_pcq i = Refused.
Proof. exact pcq_label_count. Qed.
Theorem c18_pcq_wide_gate : forall i k,
  k < length (pq_insts i) ->
  let g := nth k (pq_insts i) dflt_inst in
  gi_kind g <> KBarrier -> 2 < length (gi_qs g) -> spanned (pq_labels i) (gi_qs g) <> 1 ->
  api_pcq i = Refused.
Proof. exact pcq_wide_gate. Qed.
Theorem c18_pcq_unsupported : forall i k d,
  k < length (pq_insts i) ->
  let g := nth k (pq_insts i) dflt_inst in
  gi_kind g = KOp d -> length (gi_qs g) = 2 -> spanned (pq_labels i) (gi_qs g) <> 1 ->
  api_from_instruction d = Refused -> api_pcq i = Refused.
Proof. exact pcq_unsupported. Qed.
(* DEFINITIONAL (an unfolding of pcq_final := match api_pcq with Ok => mutated | _ => untouched): "validate, then
   mutate" is how the MODEL is built for this function.  What ties it to the source is (1) the correspondence
   (observed state of the argument after every inplace=True call) and (2) the position fact c18_pcq_stores_dominated
   below: on the regenerated control skeleton no raise site is reachable after a store into circuit.data. *)
Theorem c18_pcq_frame_def : forall i, api_pcq i <> Proceeds -> pcq_final i = map is_qpd2 (pq_insts i).
Proof. exact pcq_frame. Qed.
Theorem c18_pcq_valid : forall i,
  length (pq_labels i) = pq_nq i -> existsb (pcq_refuses (pq_labels i)) (pq_insts i) = false -> api_pcq i = Proceeds.
Proof. exact pcq_valid. Qed.

(* ---------------- cut_gates ---------------- *)
Theorem c18_cg_clbits : forall i, cg_ncregs i <> 0 \/ cg_nclbits i <> 0 -> api_cut_gates i = Refused.
Proof. exact cg_clbits. Qed.
(* unbound parameters / unsupported instruction at any position of gate_ids *)
Theorem c18_cg_unsupported : forall i,
  (forall k, In k (cg_ids i) -> k < length (cg_ops i)) ->
  (exists k, In k (cg_ids i) /\ api_from_instruction (nth k (cg_ops i) qpd_desc) = Refused) ->
  api_cut_gates i = Refused.
Proof. exact cg_unsupported. Qed.
(* the same without the in-range hypothesis: the call never proceeds (ValueError, or IndexError from an earlier id) *)
Theorem c18_cg_unsupported_total : forall i k,
  In k (cg_ids i) -> (forall d, nth_error (cg_ops i) k = Some d -> api_from_instruction d = Refused) ->
  api_cut_gates i <> Proceeds.
Proof. exact cg_unsupported_total. Qed.
(* DEFINITIONAL, like c18_pcq_frame_def; source tie: correspondence + c18_cg_stores_dominated *)
Theorem c18_cg_frame_def : forall i, api_cut_gates i <> Proceeds -> cg_final i = repeat false (length (cg_ops i)).
Proof. exact cg_frame. Qed.
Theorem c18_cg_valid : forall i,
  cg_ncregs i = 0 -> cg_nclbits i = 0 ->
  (forall k, In k (cg_ids i) -> exists d, nth_error (cg_ops i) k = Some d /\ api_from_instruction d = Proceeds) ->
  api_cut_gates i = Proceeds.
Proof. exact cg_valid. Qed.

(* ---------------- QPDBasis.from_instruction: unbound parameters, unsupported instructions ---------------- *)
Theorem c18_fi_unbound : forall g, gd_registered g = true -> gd_param g = true -> gd_bound g = false ->
  api_from_instruction g = Refused.
Proof. exact fi_unbound. Qed.
Theorem c18_fi_matrix : forall g, gd_registered g = false -> gd_gate2 g = true -> gd_matrix g = false ->
  api_from_instruction g = Refused.
Proof. exact fi_matrix. Qed.
Theorem c18_fi_unsupported : forall g, gd_registered g = false -> gd_gate2 g = false -> api_from_instruction g = Refused.
Proof. exact fi_unsupported. Qed.
Theorem c18_fi_valid_registered : forall g, gd_registered g = true -> (gd_param g = false \/ gd_bound g = true) ->
  api_from_instruction g = Proceeds.
Proof. exact fi_valid_registered. Qed.
Theorem c18_fi_valid_kak : forall g, gd_registered g = false -> gd_gate2 g = true -> gd_matrix g = true ->
  api_from_instruction g = Proceeds.
Proof. exact fi_valid_kak. Qed.
Theorem c18_theta_unbound : api_theta false = Refused.
Proof. exact theta_unbound. Qed.

(* ---------------- find_cuts, DeviceConstraints, OptimizationSettings ---------------- *)
Theorem c18_device_width : forall q, (q < 1)%Q -> api_device_constraints (BNum q) = Refused.
Proof. exact device_lt1. Qed.
Theorem c18_device_valid : forall q, (1 <= q)%Q -> api_device_constraints (BNum q) = Proceeds.
Proof. exact device_valid. Qed.
Theorem c18_settings_gamma : forall q bj, (q < 1)%Q -> api_opt_settings (BNum q) bj = Refused.
Proof. exact settings_gamma. Qed.
Theorem c18_settings_backjumps : forall g q, (q < 0)%Q -> api_opt_settings g (Some (BNum q)) = Refused.
Proof. exact settings_backjumps. Qed.
Theorem c18_settings_valid : forall g bj, b_lt g Q1 = false ->
  match bj with Some b => b_lt b Q0 | None => false end = false -> api_opt_settings g bj = Proceeds.
Proof. exact settings_valid. Qed.
Theorem c18_fc_gamma : forall i q, fc_gamma i = BNum q -> (q < 1)%Q -> api_find_cuts i = Refused.
Proof. exact fc_gamma_lt1. Qed.
Theorem c18_fc_backjumps : forall i q, fc_backjumps i = Some (BNum q) -> (q < 0)%Q -> api_find_cuts i = Refused.
Proof. exact fc_backjumps_neg. Qed.
(* a gate on more than two qubits anywhere in the searched circuit *)
Theorem c18_fc_wide_gate : forall i k,
  k < length (fc_insts i) ->
  let g := nth k (fc_insts i) dflt_inst in
  gi_kind g <> KBarrier -> 2 < length (gi_qs g) -> api_find_cuts i = Refused.
Proof. exact fc_wide_gate. Qed.
Theorem c18_fc_unbound : forall i k d,
  k < length (fc_insts i) ->
  let g := nth k (fc_insts i) dflt_inst in
  gi_kind g = KOp d -> gd_gate2 d = true -> length (gi_qs g) = 2 -> api_from_instruction d = Refused ->
  api_find_cuts i = Refused.
Proof. exact fc_unbound. Qed.
Theorem c18_fc_valid : forall i,
  existsb fc_convert_refuses (fc_insts i) = false ->
  api_opt_settings (fc_gamma i) (fc_backjumps i) = Proceeds ->
  existsb fc_wide (fc_insts i) = false -> api_find_cuts i = Proceeds.
Proof. exact fc_valid. Qed.

(* ---------------- reconstruct_expectation_values: forms, keys, phases, result counts ---------------- *)
Theorem c18_rc_form_plist : forall i, rc_oform i = OPauliList -> rc_rform i <> RResult -> api_reconstruct i = Refused.
Proof. exact rc_form_plist. Qed.
Theorem c18_rc_form_dict : forall i, rc_oform i = ODict -> rc_rform i <> RDict -> api_reconstruct i = Refused.
Proof. exact rc_form_dict. Qed.
Theorem c18_rc_form_other : forall i, rc_oform i = OOther -> api_reconstruct i = Refused.
Proof. exact rc_form_other. Qed.
Theorem c18_rc_keys : forall i, rc_oform i = ODict -> rc_keys_match i = false -> api_reconstruct i = Refused.
Proof. exact rc_keys. Qed.
Theorem c18_rc_phase_plist : forall i l r k,
  rc_oform i = OPauliList -> rc_phases i = l :: r -> k < length l -> nth k l 0 <> 0 -> api_reconstruct i = Refused.
Proof. exact rc_phase_plist. Qed.
Theorem c18_rc_phase_dict : forall i j k,
  rc_oform i = ODict -> j < length (rc_phases i) -> k < length (nth j (rc_phases i) []) ->
  nth k (nth j (rc_phases i) []) 0 <> 0 -> api_reconstruct i = Refused.
Proof. exact rc_phase_dict. Qed.
(* the number of results of subsystem j differs from #coefficients * #commuting groups: any form *)
Theorem c18_rc_counts : forall i j,
  j < length (rc_counts i) -> fst (nth j (rc_counts i) (0, 0)) <> rc_ncoef i * snd (nth j (rc_counts i) (0, 0)) ->
  api_reconstruct i = Refused.
Proof. exact rc_counts_mismatch. Qed.
Theorem c18_rc_valid_plist : forall i,
  rc_oform i = OPauliList -> rc_rform i = RResult -> any_phase (hd [] (rc_phases i)) = false ->
  existsb (fun p => negb (fst p =? rc_ncoef i * snd p)) (rc_counts i) = false -> api_reconstruct i = Proceeds.
Proof. exact rc_valid_plist. Qed.
Theorem c18_rc_valid_dict : forall i,
  rc_oform i = ODict -> rc_rform i = RDict -> rc_keys_match i = true -> existsb any_phase (rc_phases i) = false ->
  existsb (fun p => negb (fst p =? rc_ncoef i * snd p)) (rc_counts i) = false -> api_reconstruct i = Proceeds.
Proof. exact rc_valid_dict. Qed.

(* ---------------- decompose_qpd_instructions ---------------- *)
Theorem c18_dq_group_size : forall i g,
  ids_in_range (dq_circ i) (dq_ids i) -> In g (dq_ids i) -> length g <> 1 -> length g <> 2 ->
  api_decompose i = Refused.
Proof.
  intros i g H1 H2 H3 H4. apply decompose_of_validate_refused.
  eapply validate_refused_of_group; eauto using dq_group_size.
Qed.
Theorem c18_dq_non_qpd : forall i g k,
  ids_in_range (dq_circ i) (dq_ids i) -> In g (dq_ids i) -> In k g -> nth_error (dq_circ i) k = Some DOther ->
  api_decompose i = Refused.
Proof.
  intros i g k H1 H2 H3 H4. apply decompose_of_validate_refused.
  eapply validate_refused_of_group; eauto. eapply dq_group_non_qpd; eauto.
Qed.
Theorem c18_dq_bases_differ : forall i k0 r k b0 n0 bid0 b n bid,
  ids_in_range (dq_circ i) (dq_ids i) -> In (k0 :: r) (dq_ids i) -> In k (k0 :: r) ->
  nth_error (dq_circ i) k0 = Some (DQ b0 n0 bid0) -> nth_error (dq_circ i) k = Some (DQ b n bid) -> b <> b0 ->
  api_decompose i = Refused.
Proof.
  intros i k0 r k b0 n0 bid0 b n bid H1 H2 H3 H4 H5 H6. apply decompose_of_validate_refused.
  eapply validate_refused_of_group; eauto. eapply dq_group_mismatch; eauto.
Qed.
(* 50945eb: a TwoQubitQPDGate at any position k of a two-element decomposition g *)
Theorem c18_dq_two_in_pair : forall i g k,
  ids_in_range (dq_circ i) (dq_ids i) -> In g (dq_ids i) -> length g = 2 -> In k g -> In k (dq_two i) ->
  api_decompose i = Refused.
Proof.
  intros i g k H1 H2 H3 H4 H5. apply decompose_of_validate_refused.
  eapply validate_refused_of_group; eauto. eapply dq_group_two; eauto.
  unfold dq_is_two. apply existsb_exists. exists k. split; [exact H5 | apply Nat.eqb_refl].
Qed.
(* 50945eb: an instruction index given twice, at any two positions a < b of the flattened instruction_ids
   (inside one decomposition or in two) *)
Theorem c18_dq_repeated_index : forall i a b,
  ids_in_range (dq_circ i) (dq_ids i) -> a < b -> b < length (concat (dq_ids i)) ->
  nth a (concat (dq_ids i)) 0 = nth b (concat (dq_ids i)) 0 -> api_decompose i = Refused.
Proof.
  intros i a b H1 H2 H3 H4. apply decompose_of_validate_refused. apply dq_repeated_refused; [exact H1|].
  exact (has_dup_nth _ a b H2 H3 H4).
Qed.
Theorem c18_dq_total : forall i,
  ids_in_range (dq_circ i) (dq_ids i) -> dq_total_mismatch (dq_circ i) (dq_ids i) = true -> api_decompose i = Refused.
Proof. intros i H1 H2. apply decompose_of_validate_refused. now apply dq_total. Qed.
Theorem c18_dq_map_count : forall i ms,
  ids_in_range (dq_circ i) (dq_ids i) -> dq_maps i = Some ms ->
  length (dq_ids i) <> length ms -> api_decompose i = Refused.
Proof. exact dq_map_count_r. Qed.
(* map index outside the basis: the j-th map id, for any gate k of the j-th decomposition *)
Theorem c18_dq_map_range : forall i ms j k b n bid z,
  ids_in_range (dq_circ i) (dq_ids i) -> dq_maps i = Some ms ->
  j < length (dq_ids i) -> In k (nth j (dq_ids i) []) -> nth_error (dq_circ i) k = Some (DQ b n bid) ->
  nth j ms None = Some z -> (z < 0 \/ Z.of_nat n <= z)%Z ->
  api_decompose i = Refused.
Proof. exact dq_map_range_r. Qed.
(* a None ENTRY of map_ids is refused by the same pre-validation *)
Theorem c18_dq_map_none : forall i ms j k b n bid,
  ids_in_range (dq_circ i) (dq_ids i) -> dq_maps i = Some ms ->
  j < length (dq_ids i) -> In k (nth j (dq_ids i) []) -> nth_error (dq_circ i) k = Some (DQ b n bid) ->
  nth j ms None = None -> api_decompose i = Refused.
Proof. exact dq_map_none_r. Qed.
(* map_ids omitted and some gate (any position k) has no basis_id: refused before any rewriting *)
Theorem c18_dq_unset_no_maps : forall i k b n,
  ids_in_range (dq_circ i) (dq_ids i) -> dq_maps i = None ->
  nth_error (dq_circ i) k = Some (DQ b n None) ->
  api_decompose i = Refused /\ dq_final i = dq_circ i.
Proof. exact dq_unset_no_maps_r. Qed.
(* the same four classes of _validate_qpd_instructions without the in-range hypothesis: never Proceeds *)
Theorem c18_dq_group_size_total : forall i g,
  In g (dq_ids i) -> length g <> 1 -> length g <> 2 -> api_decompose i <> Proceeds.
Proof.
  intros i g H1 H2 H3. apply (decompose_not_ok_of_group i g H1). rewrite (dq_group_size _ _ g H2 H3). discriminate.
Qed.
Theorem c18_dq_non_qpd_total : forall i g k,
  In g (dq_ids i) -> In k g -> nth_error (dq_circ i) k = Some DOther -> api_decompose i <> Proceeds.
Proof. intros i g k H1 H2 H3. apply (decompose_not_ok_of_group i g H1). eapply dq_group_non_qpd_total; eauto. Qed.
(* F7 (repaired behaviour): a refusal leaves the argument untouched, also with inplace=True.
   With map_ids omitted the argument is untouched at this point in every case. *)
Theorem c18_dq_frame_no_maps : forall i, dq_maps i = None -> dq_final i = dq_circ i.
Proof. exact dq_frame_no_maps. Qed.
(* PARTIAL (kept for reference; superseded by c18_dq_frame_total): with map_ids given, the frame for every refusal
   of the validation and of the map-id pre-check, under the explicit hypothesis that the unset-basis_id check does
   not fire after the assignment loop.  Before 50945eb repeated indices ([[0],[0]] on two gates) violated that
   hypothesis; now they are refused by the validation and c18_dq_validate_covers discharges it. *)
Theorem c18_dq_frame_partial : forall i,
  api_decompose i <> Proceeds ->
  (dq_maps i = None \/
   forall ms, dq_maps i = Some ms -> existsb dq_unset (dq_assign (dq_circ i) (combine (dq_ids i) ms)) = false) ->
  dq_final i = dq_circ i.
Proof. exact dq_frame_partial. Qed.
(* FULL frame statement: whenever every QPD gate of the circuit occurs in instruction_ids (dq_covers; true for
   every instruction_ids without repeated indices, by the count check), any outcome other than Proceeds leaves
   the argument untouched, also with inplace=True *)
Theorem c18_dq_frame : forall i,
  api_decompose i <> Proceeds -> dq_covers (dq_circ i) (dq_ids i) -> dq_final i = dq_circ i.
Proof. exact dq_frame. Qed.
(* since 50945eb (no repeated index) a circuit that passes _validate_qpd_instructions is always covered ... *)
Theorem c18_dq_validate_covers : forall i, dq_validate i = Proceeds -> dq_covers (dq_circ i) (dq_ids i).
Proof. exact validate_covers. Qed.
(* ... so the frame holds UNCONDITIONALLY: any outcome other than Proceeds (ValueError at any of the 10 sites, or
   IndexError) leaves the argument circuit untouched, also with inplace=True *)
Theorem c18_dq_frame_total : forall i, api_decompose i <> Proceeds -> dq_final i = dq_circ i.
Proof. exact dq_frame_total. Qed.
Theorem c18_dq_valid_no_maps : forall i,
  dq_validate i = Proceeds -> dq_maps i = None -> existsb dq_unset (dq_circ i) = false ->
  api_decompose i = Proceeds /\ dq_final i = dq_circ i.
Proof. exact dq_valid_no_maps. Qed.
Theorem c18_dq_valid : forall i ms,
  dq_validate i = Proceeds -> dq_maps i = Some ms ->
  length (dq_ids i) = length ms -> dq_check (dq_circ i) (combine (dq_ids i) ms) = true ->
  existsb dq_unset (dq_assign (dq_circ i) (combine (dq_ids i) ms)) = false ->
  api_decompose i = Proceeds /\ dq_final i = dq_assign (dq_circ i) (combine (dq_ids i) ms).
Proof. exact dq_valid_maps. Qed.

(* ---------------- QPDBasis maps / coeffs ---------------- *)
Theorem c18_basis_empty : forall nco, api_qpdbasis [] nco = Refused.
Proof. exact basis_empty. Qed.
Theorem c18_basis_wide : forall ar nco, 2 < nth 0 ar 0 -> api_qpdbasis ar nco = Refused.
Proof. exact basis_wide. Qed.
Theorem c18_basis_ragged : forall ar nco k, 0 < k < length ar -> nth k ar 0 <> nth 0 ar 0 -> api_qpdbasis ar nco = Refused.
Proof. exact basis_ragged. Qed.
Theorem c18_basis_coeffs : forall ar nco, nco <> length ar -> api_qpdbasis ar nco = Refused.
Proof. exact basis_coeffs. Qed.
Theorem c18_set_coeffs : forall nmaps nco, nco <> nmaps -> api_set_coeffs nmaps nco = Refused.
Proof. exact set_coeffs_mismatch. Qed.
Theorem c18_basis_valid : forall a0 r, a0 <= 2 -> (forall a, In a r -> a = a0) ->
  api_qpdbasis (a0 :: r) (S (length r)) = Proceeds.
Proof. exact basis_valid. Qed.

(* ---------------- QPD gates: map index outside the basis, too-large half index ---------------- *)
Theorem c18_bid_range : forall nmaps b, (b < 0 \/ Z.of_nat nmaps <= b)%Z -> api_set_basis_id nmaps (Some b) = Refused.
Proof. exact bid_range. Qed.
Theorem c18_bid_valid : forall nmaps b, (0 <= b < Z.of_nat nmaps)%Z -> api_set_basis_id nmaps (Some b) = Proceeds.
Proof. exact bid_valid. Qed.
Theorem c18_q1_half : forall nq nmaps qid bid, (Z.of_nat nq <= qid)%Z -> api_q1gate nq nmaps qid bid = Refused.
Proof. exact q1_half. Qed.
Theorem c18_q1_bid : forall nq nmaps qid b, (b < 0 \/ Z.of_nat nmaps <= b)%Z -> api_q1gate nq nmaps qid (Some b) = Refused.
Proof. exact q1_bid. Qed.
Theorem c18_q1_valid : forall nq nmaps qid bid,
  (qid < Z.of_nat nq)%Z -> match bid with Some b => (0 <= b < Z.of_nat nmaps)%Z | None => True end ->
  api_q1gate nq nmaps qid bid = Proceeds.
Proof. exact q1_valid. Qed.
Theorem c18_q2_arity : forall nq nmaps bid, nq <> 2 -> api_q2gate nq nmaps bid = Refused.
Proof. exact q2_arity. Qed.
Theorem c18_q2_bid : forall nq nmaps b, (b < 0 \/ Z.of_nat nmaps <= b)%Z -> api_q2gate nq nmaps (Some b) = Refused.
Proof. exact q2_bid. Qed.
Theorem c18_q2_valid : forall nmaps bid,
  match bid with Some b => (0 <= b < Z.of_nat nmaps)%Z | None => True end -> api_q2gate 2 nmaps bid = Proceeds.
Proof. exact q2_valid. Qed.

(* ---------------- separate_circuit, expand_observables, simulator, observable grouping ---------------- *)
Theorem c18_sep_label_count : forall i l, sp_labels i = Some l -> length l <> sp_nq i -> api_separate i = Refused.
Proof. exact sep_label_count. Qed.
Theorem c18_sep_none_used : forall i l qs q,
  sp_labels i = Some l -> (forall qs', In qs' (sp_split (sp_insts i)) -> qs' <> []) ->
  In qs (sp_split (sp_insts i)) -> In q qs -> nth q l None = None -> api_separate i = Refused.
Proof. exact sep_none_used. Qed.
Theorem c18_sep_spans : forall i l qs,
  sp_labels i = Some l -> (forall qs', In qs' (sp_split (sp_insts i)) -> qs' <> []) ->
  In qs (sp_split (sp_insts i)) -> 1 < spanned l qs -> api_separate i = Refused.
Proof. exact sep_spans. Qed.
Theorem c18_sep_valid : forall i l,
  sp_labels i = Some l -> length l = sp_nq i ->
  (forall qs, In qs (sp_split (sp_insts i)) ->
     existsb (fun q => is_none (nth q l None)) qs = false /\ spanned l qs = 1) ->
  api_separate i = Proceeds.
Proof. exact sep_valid. Qed.
Theorem c18_exp_count : forall n oq fq, n <> length oq -> api_expand n oq fq = Refused.
Proof. exact exp_count. Qed.
Theorem c18_exp_missing : forall n oq fq q, In q oq -> ~ In q fq -> api_expand n oq fq = Refused.
Proof. exact exp_missing. Qed.
Theorem c18_exp_valid : forall oq fq, incl oq fq -> api_expand (length oq) oq fq = Proceeds.
Proof. exact exp_valid. Qed.
Theorem c18_sim_conditioned : forall insts k,
  k < length insts -> si_cond (nth k insts dflt_sim) = true -> api_simulate insts = Refused.
Proof. exact sim_conditioned. Qed.
Theorem c18_sim_clbits : forall insts k, k < length insts ->
  si_nonunitary (nth k insts dflt_sim) = false -> si_nclbits (nth k insts dflt_sim) <> 0 -> api_simulate insts = Refused.
Proof. exact sim_clbits. Qed.
Theorem c18_sim_valid : forall insts, existsb sim_refuses insts = false -> api_simulate insts = Proceeds.
Proof. exact sim_valid. Qed.
Theorem c18_cog_valid : forall l, any_phase l = false -> api_cog l = Proceeds.
Proof. exact cog_valid. Qed.
Theorem c18_mgo_empty : forall n, api_mgo [] n = Refused.
Proof. exact mgo_empty. Qed.
Theorem c18_mgo_not_pauli : forall obs n, In None obs -> api_mgo obs n = Refused.
Proof. exact mgo_not_pauli. Qed.
Theorem c18_mgo_size : forall obs n l, In (Some l) obs -> length l <> n -> api_mgo obs (Some n) = Refused.
Proof. exact mgo_size. Qed.
Theorem c18_cog_phase : forall l k, k < length l -> nth k l 0 <> 0 -> api_cog l = Refused.
Proof. exact cog_phase. Qed.

(* ---------------- non-vacuity: concrete inputs ---------------- *)
Definition cxd : gate_desc := mkGD true false true true true.       (* cx *)
Definition rzz_unbound : gate_desc := mkGD true true false true true.
Definition ccxd : gate_desc := mkGD false false true false true.
(* F7 witness: two CX placeholders, map ids [0; 9] *)
Definition f7_input : dq_in := mkDq [DQ 0 6 None; DQ 0 6 None] [[0]; [1]] (Some [Some 0; Some 9]%Z) [0; 1].
(* the reviewer's inputs: a None entry; no map_ids with an unset id on the later gate *)
Example c18_ex_map_none :
  let i := mkDq [DQ 0 6 None; DQ 0 6 None] [[0]; [1]] (Some [Some 0%Z; None]) [0; 1] in
  api_decompose i = Refused /\ dq_final i = dq_circ i.
Proof. split; reflexivity. Qed.
Example c18_ex_unset_later :
  let i := mkDq [DQ 0 6 (Some 2); DQ 0 6 None] [[0]; [1]] None [0; 1] in
  api_decompose i = Refused /\ dq_final i = dq_circ i.
Proof. split; reflexivity. Qed.
(* repeated indices pass the count check but are refused since 50945eb, before anything is assigned;
   a TwoQubitQPDGate paired with another gate likewise *)
Example c18_ex_duplicate_ids :
  let i := mkDq [DQ 0 6 None; DQ 0 6 None] [[0]; [0]] (Some [Some 1%Z; Some 2%Z]) [0; 1] in
  api_decompose i = Refused /\ dq_final i = dq_circ i.
Proof. split; reflexivity. Qed.
Example c18_ex_two_in_pair :
  let i := mkDq [DQ 0 6 None; DQ 0 6 None; DOther] [[0; 1]] (Some [Some 1%Z]) [0] in
  api_decompose i = Refused /\ dq_final i = dq_circ i /\
  api_decompose (mkDq [DQ 0 6 None; DQ 0 6 None; DOther] [[0; 1]] (Some [Some 1%Z]) []) = Proceeds.
Proof. repeat split; reflexivity. Qed.
Example c18_ex_f7_repaired : api_decompose f7_input = Refused /\ dq_final f7_input = dq_circ f7_input.
Proof. split; reflexivity. Qed.
(* the historic interleaved loop refuses too, but has already set gate 0's basis_id *)
Example c18_f7_interleaved_breaks_frame :
  fst (dq_run_interleaved f7_input) = Refused /\
  snd (dq_run_interleaved f7_input) = [DQ 0 6 (Some 0); DQ 0 6 None].
Proof. split; reflexivity. Qed.
(* F12 witness: cx(0,1); ccx(0,1,2) with labels A B C *)
Definition f12_input : pcq_in :=
  mkPcq 3 [Some 0; Some 1; Some 2] [mkG (KOp cxd) [0; 1]; mkG (KOp ccxd) [0; 1; 2]].
Example c18_ex_f12_repaired : api_pcq f12_input = Refused /\ pcq_final f12_input = [false; false].
Proof. split; reflexivity. Qed.
Example c18_f12_interleaved_breaks_frame : pcq_run_interleaved f12_input = (Refused, [true; false]).
Proof. reflexivity. Qed.
(* the same three-qubit gate inside ONE partition is accepted *)
Example c18_ex_wide_gate_local :
  api_pcq (mkPcq 3 [Some 0; Some 0; Some 0] [mkG (KOp cxd) [0; 1]; mkG (KOp ccxd) [0; 1; 2]]) = Proceeds.
Proof. reflexivity. Qed.
(* F13 witness: cut_gates(cx; rzz(Parameter), [0; 1]) *)
Definition f13_input : cg_in := mkCg 0 0 [cxd; rzz_unbound] [0; 1].
Example c18_ex_f13_repaired : api_cut_gates f13_input = Refused /\ cg_final f13_input = [false; false].
Proof. split; reflexivity. Qed.
Example c18_f13_interleaved_breaks_frame : cg_run_interleaved f13_input = (Refused, [true; false]).
Proof. reflexivity. Qed.
(* the only phased observable is the last of three *)
Example c18_ex_phase_last :
  api_partition_problem (mkPp 2 (Some [Some 0; Some 1]) (Some [(2, 0); (2, 0); (2, 3)]) 0 0 [mkG (KOp cxd) [0; 1]] [[0]; [1]; []]) = Refused
  /\ api_partition_problem (mkPp 2 (Some [Some 0; Some 1]) (Some [(2, 0); (2, 0); (2, 0)]) 0 0 [mkG (KOp cxd) [0; 1]] [[0]; [1]; []]) = Proceeds.
Proof. split; reflexivity. Qed.
(* idle group: x(0) on two qubits, labels [A; None]; "ZI" acts on the idle qubit 1, "IZ" does not;
   the same with automatic labels *)
Definition xd : gate_desc := mkGD false false true false true.
Example c18_ex_idle :
  api_partition_problem (mkPp 2 (Some [Some 0; None]) (Some [(2, 0)]) 0 0 [mkG (KOp xd) [0]] [[1]]) = Refused /\
  api_partition_problem (mkPp 2 (Some [Some 0; None]) (Some [(2, 0)]) 0 0 [mkG (KOp xd) [0]] [[0]]) = Proceeds /\
  api_partition_problem (mkPp 2 None (Some [(2, 0)]) 0 0 [mkG (KOp xd) [0]] [[1]]) = Refused /\
  api_partition_problem (mkPp 2 None (Some [(2, 0)]) 0 0 [mkG (KOp xd) [0]] [[0]]) = Proceeds.
Proof. repeat split; reflexivity. Qed.
Example c18_ex_budget : api_generate_qpd_weights (BNum (1 # 2)) = Refused /\ api_generate_qpd_weights (BNum (3 # 2)) = Proceeds
  /\ api_generate_qpd_weights BInf = Proceeds.
Proof. repeat split; reflexivity. Qed.
Example c18_ex_reconstruct_counts :
  api_reconstruct (mkRec ODict RDict [[0; 0]; [0; 0]] true 3 [(6, 2); (5, 2)]) = Refused /\
  api_reconstruct (mkRec ODict RDict [[0; 0]; [0; 0]] true 3 [(6, 2); (6, 2)]) = Proceeds.
Proof. split; reflexivity. Qed.

Print Assumptions c18_weights_lt1. Print Assumptions c18_gen_budget_lt1. Print Assumptions c18_pp_phase.
Print Assumptions c18_pcq_wide_gate. Print Assumptions c18_cg_unsupported. Print Assumptions c18_fc_wide_gate.
Print Assumptions c18_rc_counts. Print Assumptions c18_dq_map_range. Print Assumptions c18_dq_frame. Print Assumptions c18_dq_frame_total. Print Assumptions c18_dq_frame_partial.
Print Assumptions c18_basis_ragged. Print Assumptions c18_q1_half. Print Assumptions c18_sep_none_used.
Print Assumptions c18_mgo_size.

(* ---------------- tie to the source: the ordered guard lists of every modelled function ---------------- *)
From CKT Require Import Extracted.Facts.
Open Scope string_scope.
Definition guards_of (f : string) : list string :=
  match find (fun p => String.eqb (fst p) f) c18_guards with Some p => snd p | None => ["<NOT-EXTRACTED>"] end.

Example guards_partition_circuit_qubits : guards_of "cutting_decomposition:partition_circuit_qubits" =
  ["len(partition_labels) != len(circuit.qubits)"; "len(qubit_indices) > 2"].
Proof. reflexivity. Qed.
Example guards_cut_gates : guards_of "cutting_decomposition:cut_gates" =
  ["len(circuit.cregs) != 0 or circuit.num_clbits != 0"].
Proof. reflexivity. Qed.
Example guards_partition_problem : guards_of "cutting_decomposition:partition_problem" =
  ["partition_labels is not None and len(partition_labels) != circuit.num_qubits";
   "observables is not None and any((len(obs) != circuit.num_qubits for obs in observables))";
   "observables is not None and any((obs.phase != 0 for obs in observables))";
   "len(circuit.cregs) != 0 or circuit.num_clbits != 0";
   "idle_observables is not None and any((obs.x.any() or obs.z.any() for obs in idle_observables))"].
Proof. reflexivity. Qed.
Example guards_generate : guards_of "cutting_experiments:generate_cutting_experiments" =
  ["isinstance(circuits, QuantumCircuit) and (not isinstance(observables, PauliList))";
   "isinstance(circuits, dict) and (not isinstance(observables, dict))";
   "not num_samples >= 1"].
Proof. reflexivity. Qed.
Example guards_mapping_ids : guards_of "cutting_experiments:_get_mapping_ids_by_partition" =
  ["except (AttributeError, ValueError): decomp_id = int(inst.operation.label.split('_')[-1])"].
Proof. reflexivity. Qed.
(* only the first site is reachable from generate_cutting_experiments (qubit_locations is None there, the
   register is created by _append_measurement_register): gen_tail models it *)
Example guards_append_measurement : guards_of "cutting_experiments:_append_measurement_circuit" =
  ["qc.num_qubits != cog.general_observable.num_qubits";
   "len(qubit_locations) != cog.general_observable.num_qubits";
   "for-else: reg in qc.cregs";
   "obs_creg.size != len(pauli_indices)"].
Proof. reflexivity. Qed.
Example guards_get_bases : guards_of "cutting_experiments:_get_bases" = ["isinstance(inst.operation, SingleQubitQPDGate)"].
Proof. reflexivity. Qed.
Example guards_reconstruct : guards_of "cutting_reconstruction:reconstruct_expectation_values" =
  ["not isinstance(results, (SamplerResult, PrimitiveResult))";
   "any((obs.phase != 0 for obs in observables))";
   "not isinstance(results, Mapping)";
   "observables.keys() != results.keys()";
   "any((obs.phase != 0 for obs in subobservable))";
   "else: isinstance(observables, Mapping)";
   "len(current_result) != len(coefficients) * len(so.groups)"].
Proof. reflexivity. Qed.
Example guards_validate_qpd : guards_of "qpd.decompose:_validate_qpd_instructions" =
  ["len(decomp_ids) not in [1, 2]";
   "not isinstance(circuit.data[decomp_ids[0]].operation, BaseQPDGate)";
   "not isinstance(circuit.data[gate_id].operation, BaseQPDGate)";
   "compare_basis != tmp_basis";
   "len(decomp_ids) == 2 and isinstance(circuit.data[gate_id].operation, TwoQubitQPDGate)";
   "len(set(flat_ids)) != len(flat_ids)";
   "qpd_gate_total != num_qpd_gates"].
Proof. reflexivity. Qed.
Example guards_decompose_internal : guards_of "qpd.decompose:_decompose_qpd_instructions" =
  ["isinstance(inst.operation, BaseQPDGate) and inst.operation.basis_id is None"].
Proof. reflexivity. Qed.
Example guards_from_instruction : guards_of "qpd.decompositions:qpdbasis_from_instruction" =
  ["except Exception: mat = gate.to_matrix()"; "always"].
Proof. reflexivity. Qed.
Example guards_theta : guards_of "qpd.decompositions:_theta_from_instruction" =
  ["except TypeError: theta = float(gate.params[0])"].
Proof. reflexivity. Qed.
Example guards_set_maps : guards_of "qpd.qpd_basis:QPDBasis._set_maps" =
  ["len(maps) == 0"; "num_qubits > 2"; "len(maps[i]) != num_qubits"].
Proof. reflexivity. Qed.
Example guards_coeffs : guards_of "qpd.qpd_basis:QPDBasis.coeffs" = ["len(coeffs) != len(self.maps)"].
Proof. reflexivity. Qed.
Example guards_basis_id : guards_of "qpd.instructions.qpd_gate:BaseQPDGate.basis_id" =
  ["basis_id is not None and basis_id not in range(0, len(self._basis.maps))"].
Proof. reflexivity. Qed.
Example guards_qubit_id : guards_of "qpd.instructions.qpd_gate:SingleQubitQPDGate._set_qubit_id" =
  ["qubit_id >= self.basis.num_qubits"].
Proof. reflexivity. Qed.
Example guards_q2_init : guards_of "qpd.instructions.qpd_gate:TwoQubitQPDGate.__init__" = ["basis.num_qubits != 2"].
Proof. reflexivity. Qed.
Example guards_weights : guards_of "qpd.weights:_generate_qpd_weights" = ["not num_samples >= 1"].
Proof. reflexivity. Qed.
Example guards_device : guards_of "automated_cut_finding:DeviceConstraints.__post_init__" =
  ["self.qubits_per_subcircuit < 1"].
Proof. reflexivity. Qed.
(* find_cuts itself raises nothing: its refusals come from OptimizationSettings, from_instruction and the search *)
Example guards_find_cuts : guards_of "automated_cut_finding:find_cuts" = [].
Proof. reflexivity. Qed.
Example guards_next_state : guards_of "cut_finding.cut_optimization:cut_optimization_next_state_func" =
  ["else: len(gate.qubits) == 2"].
Proof. reflexivity. Qed.
Example guards_settings : guards_of "cut_finding.optimization_settings:OptimizationSettings.__post_init__" =
  ["self.max_gamma < 1"; "self.max_backjumps is not None and self.max_backjumps < 0"].
Proof. reflexivity. Qed.
Example guards_separate : guards_of "utils.transforms:separate_circuit" = ["len(partition_labels) != new_qc.num_qubits"].
Proof. reflexivity. Qed.
Example guards_separate_instructions : guards_of "utils.transforms:_separate_instructions_by_partition" =
  ["partition_id is None"; "len(partitions_spanned) != 1"].
Proof. reflexivity. Qed.
Example guards_expand : guards_of "wire_cutting_transforms:expand_observables" =
  ["observables.num_qubits != original_circuit.num_qubits";
   "except CircuitError: idx = final_circuit.find_bit(qubit)[0]"].
Proof. reflexivity. Qed.
Example guards_simulate : guards_of "utils.simulation:simulate_statevector_outcomes" =
  ["inst.operation.condition_bits"; "len(inst.clbits) != 0"].
Proof. reflexivity. Qed.
(* position fact: the condition guard is the first statement of the per-instruction loop, before any branch on the
   operation kind, as api_simulate models it (sim_refuses tests si_cond for measure/reset and gates alike) *)
Example sim_condition_guard_first : c18_sim_cond_guard_first = true.
Proof. reflexivity. Qed.
Example guards_mgo : guards_of "utils.observable_grouping:most_general_observable" =
  ["len(commuting_observables) == 0"; "not isinstance(obs, Pauli)"; "len(obs) != num_qubits"; "rv_i != _I"].
Proof. reflexivity. Qed.
Example guards_cog : guards_of "utils.observable_grouping:CommutingObservableGroup.__post_init__" = ["pauli.phase != 0"].
Proof. reflexivity. Qed.

(* every ValueError-raising function of the anchored files is either modelled above or listed here
   (internal helpers whose checks are not argument validation of a public entry point) *)
Definition unmodelled : list string :=
  ["qpd.decompositions:_nonlocal_qpd_basis_from_u"; "qpd.decompositions:_u_from_thetavec"].
Example every_raise_site_accounted_for :
  forallb (fun p => existsb (String.eqb (fst p)) (map fst c18_guards ++ unmodelled)%list) value_error_sites = true.
Proof. reflexivity. Qed.

(* the number of raise sites of every modelled function equals the length of its modelled guard list
   (a deleted or added raise inside a modelled function breaks this even when no guard text changes) *)
Definition sites_of (f : string) : nat :=
  match find (fun p => String.eqb (fst p) f) value_error_sites with Some p => snd p | None => 0 end.
Example raise_site_counts :
  forallb (fun p => Nat.eqb (sites_of (fst p)) (length (snd p)) ||
                    String.eqb (fst p) "automated_cut_finding:find_cuts" ||
                    String.eqb (fst p) "cut_finding.cut_optimization:cut_optimization_next_state_func") c18_guards = true.
Proof. reflexivity. Qed.

(* decompose_qpd_instructions: the length guard, then the pre-validation of every map id (None entries included)
   BEFORE the assignment loop (F7 repair 417f876 + 32107ac). *)
Theorem c18_facts_decompose_guards : guards_of "qpd.decompose:decompose_qpd_instructions" =
  ["len(instruction_ids) != len(map_ids)"; "map_ids[i] is None or map_ids[i] not in range(num_maps)"].
Proof. reflexivity. Qed.
Print Assumptions c18_facts_decompose_guards.

(* ---------------- regenerated control skeletons (extension round) ----------------
   tools/facts_c18.py slices the Python bodies of three entry points down to their guard-relevant control skeleton
   (raise ValueError / return / enclosing if-else and for / calls of separately modelled validators; tests split at
   and/or/not/any(...) into atoms named by their source text) and writes it into Extracted/Facts.v (c18_skeletons).
   Model/ValidationSkel.v decodes and EXECUTES that skeleton over the input abstraction; the atoms' meaning is the
   hand-written part.  The theorems say: for EVERY input, executing the skeleton extracted from the current source
   gives exactly the hand-written api_* decision.  A guard that is moved into another branch or loop, reordered,
   dropped, duplicated or wrapped in a new condition changes the skeleton (first obligation of each pair below) even
   when no guard text changes; an edited atomic test no longer resolves in the atom table. *)
Close Scope string_scope.
From CKT Require Import Model.ValidationSkel Proofs.ValidationSkelP.
Open Scope string_scope.
(* THE TIE TO THE SOURCE: the skeleton regenerated from the current Python source decodes to exactly these trees
   (Model/ValidationSkel.v sk_...).  Registered: if extraction fails or any guard moves, these break. *)
Example c18_skeleton_simulate : skeleton_of "utils.simulation:simulate_statevector_outcomes" = Some sk_simulate.
Proof. reflexivity. Qed.
Example c18_skeleton_reconstruct : skeleton_of "cutting_reconstruction:reconstruct_expectation_values" = Some sk_reconstruct.
Proof. reflexivity. Qed.
Example c18_skeleton_partition_problem : skeleton_of "cutting_decomposition:partition_problem" = Some sk_partition_problem.
Proof. reflexivity. Qed.
Example c18_skeleton_pcq : skeleton_of "cutting_decomposition:partition_circuit_qubits" = Some sk_partition_circuit_qubits.
Proof. reflexivity. Qed.
Example c18_skeleton_cut_gates : skeleton_of "cutting_decomposition:cut_gates" = Some sk_cut_gates.
Proof. reflexivity. Qed.
Example c18_skeleton_decompose : skeleton_of "qpd.decompose:decompose_qpd_instructions" = Some sk_decompose.
Proof. reflexivity. Qed.

(* executing those trees over the input abstraction IS the hand-written decision function, for every input *)
Theorem c18_skel_simulate : forall i, run_simulate sk_simulate i = api_simulate i.
Proof. exact skel_simulate. Qed.
Theorem c18_skel_reconstruct : forall i, run_reconstruct sk_reconstruct i = api_reconstruct i.
Proof. exact skel_reconstruct. Qed.
Theorem c18_skel_partition_problem : forall i, run_partition_problem sk_partition_problem i = api_partition_problem i.
Proof. exact skel_partition_problem. Qed.

(* POSITION of the stores relative to the raise sites in the three functions that can modify their argument
   (`dominated`, Model/ValidationSkel.v: syntactic, on the regenerated tree): in partition_circuit_qubits and cut_gates
   no statement that can refuse is reachable after a store into circuit.data (two-pass loops of F12/F13) ... *)
Example c18_pcq_stores_dominated : dominated sk_partition_circuit_qubits = true.
Proof. reflexivity. Qed.
Example c18_cg_stores_dominated : dominated sk_cut_gates = true.
Proof. reflexivity. Qed.
(* ... whereas decompose_qpd_instructions calls _decompose_qpd_instructions (unset-basis_id check) AFTER the
   assignment loop: its frame is not syntactic, it is the semantic argument of c18_dq_frame_total
   (c18_dq_validate_covers: after validation every QPD gate has just been assigned).  The tree c18_skeleton_decompose
   pins that the length guard and the pre-check loop precede the assignment loop. *)
Example c18_dq_stores_not_dominated : dominated sk_decompose = false.
Proof. reflexivity. Qed.
(* the historic interleaved shape (F12: store inside the checking loop) is rejected by the check *)
Example c18_ex_interleaved_not_dominated :
  dominated [SFor "(i, instruction) in enumerate(circuit.data)"
               [SIf (GAtom "len(qubit_indices) > 2") [SRaise] []; SCall "from_instruction"; SMutate "circuit.data[i]"]] = false.
Proof. reflexivity. Qed.
(* non-vacuity: a well-formed input on which the executed skeleton refuses at the LAST guard (idle group) *)
Example c18_ex_skel_pp :
  let i := mkPp 2 (Some [Some 0; None]) (Some [(2, 0)]) 0 0 [mkG (KOp xd) [0]] [[1]] in
  run_partition_problem sk_partition_problem i = Refused.
Proof. reflexivity. Qed.
(* the case the audit found: observables = [] (falsy) with a stray support entry: skeleton and model both proceed *)
Example c18_ex_empty_observables :
  let i := mkPp 2 (Some [Some 0; None]) (Some []) 0 0 [mkG (KOp xd) [0]] [[1]] in
  run_partition_problem sk_partition_problem i = Proceeds /\ api_partition_problem i = Proceeds.
Proof. split; reflexivity. Qed.
(* the C18-r3-2 shape: with the condition guard moved into the gate branch a conditioned reset is executed *)
Example c18_ex_skel_moved_guard :
  let moved := [SFor "inst in qc.data"
                  [SIf (GAtom "opname in ('measure', 'reset')") []
                     [SIf (GAtom "inst.operation.condition_bits") [SRaise] [];
                      SIf (GAtom "len(inst.clbits) != 0") [SRaise] []]]; SReturn] in
  run_simulate moved [mkSim true true 0] = Proceeds /\ api_simulate [mkSim true true 0] = Refused.
Proof. split; reflexivity. Qed.
(* ---------------- instances for the entry points without one above ---------------- *)
Example c18_ex_generate :   (* dict form, the phased observable is the last of the 2nd subsystem; without it: accepted;
                               an observables label missing from circuits: KeyError before the size check *)
  api_generate (mkGen CDict ODict (BNum (4 # 1)) [[GOther; GQpd1 true]; [GQpd1 true]] [[0; 0]; [0; 2]] [(true, true); (true, true)]) = Refused /\
  api_generate (mkGen CDict ODict (BNum (4 # 1)) [[GOther; GQpd1 true]; [GQpd1 true]] [[0; 0]; [0; 0]] [(true, true); (true, true)]) = Proceeds /\
  api_generate (mkGen CDict ODict (BNum (4 # 1)) [[GQpd1 true]] [[0]; [0]] [(false, true); (true, false)]) = Crashed /\
  api_generate (mkGen CCircuit OPauliList BNaN [[GQpd2]] [] [(true, true)]) = Refused.
Proof. repeat split; reflexivity. Qed.
Example c18_ex_find_cuts :   (* ccx anywhere / unbound rzz / a 3-qubit barrier is fine *)
  api_find_cuts (mkFc [mkG (KOp cxd) [0; 1]; mkG (KOp ccxd) [0; 1; 2]] (BNum (1024 # 1)) None) = Refused /\
  api_find_cuts (mkFc [mkG (KOp rzz_unbound) [0; 1]] (BNum (1024 # 1)) None) = Refused /\
  api_find_cuts (mkFc [mkG (KOp cxd) [0; 1]; mkG KBarrier [0; 1; 2]] (BNum (1024 # 1)) (Some (BNum (0 # 1)))) = Proceeds /\
  api_find_cuts (mkFc [mkG (KOp cxd) [0; 1]] (BNum (1 # 2)) None) = Refused.
Proof. repeat split; reflexivity. Qed.
Example c18_ex_separate :    (* a barrier across partitions is split and accepted; a cx across them is not; None label on a used qubit *)
  api_separate (mkSep 3 (Some [Some 0; Some 1; Some 1]) [(true, [0; 1; 2]); (false, [1; 2])]) = Proceeds /\
  api_separate (mkSep 3 (Some [Some 0; Some 1; Some 1]) [(false, [1; 2]); (false, [0; 1])]) = Refused /\
  api_separate (mkSep 3 (Some [Some 0; Some 1; None]) [(true, [0; 1; 2])]) = Refused /\
  api_separate (mkSep 3 (Some [Some 0; Some 1]) []) = Refused.
Proof. repeat split; reflexivity. Qed.
Example c18_ex_expand : api_expand 2 [7; 8] [9; 8; 7] = Proceeds /\ api_expand 3 [7; 8] [9; 8; 7] = Refused /\ api_expand 2 [7; 8] [9; 8] = Refused.
Proof. repeat split; reflexivity. Qed.
Example c18_ex_mgo :         (* X and Z on the same qubit, only in the last observable *)
  api_mgo [Some [1; 0]; Some [0; 3]; Some [1; 3]] None = Proceeds /\
  api_mgo [Some [1; 0]; Some [0; 3]; Some [3; 3]] None = Refused /\
  api_mgo [Some [1; 0]; None] (Some 2) = Refused /\ api_mgo [Some [1; 0]; Some [1]] None = Refused.
Proof. repeat split; reflexivity. Qed.
Example c18_ex_qpdbasis :
  api_qpdbasis [2; 2; 2] 3 = Proceeds /\ api_qpdbasis [2; 2; 1] 3 = Refused /\ api_qpdbasis [3] 1 = Refused /\
  api_qpdbasis [2; 2] 3 = Refused.
Proof. repeat split; reflexivity. Qed.
Example c18_ex_qpd_gates :   (* a negative half index is accepted (observation), a too-large one and a bad map index are not *)
  api_q1gate 2 6 1%Z (Some 5%Z) = Proceeds /\ api_q1gate 2 6 2%Z None = Refused /\ api_q1gate 2 6 (-1)%Z None = Proceeds /\
  api_q1gate 2 6 0%Z (Some (-1)%Z) = Refused /\ api_q2gate 1 6 None = Refused /\ api_q2gate 2 6 (Some 6%Z) = Refused.
Proof. repeat split; reflexivity. Qed.
Print Assumptions c18_skel_simulate. Print Assumptions c18_skel_reconstruct. Print Assumptions c18_skel_partition_problem.

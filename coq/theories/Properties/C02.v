(* Properties/C02.v — Every quasi-probability basis is an exact decomposition of its instruction.

   Reading guide.  `RC θ'` is the real coefficient structure with cvar 0 = cos θ', cvar 1 = sin θ',
   cvar 2 = /sqrt 2.  `channel C uenv terms` = Σ_i coeff_i · PTM(ops on qubit 1) ⊗ PTM(ops on qubit 0)
   as a real 16x16 matrix, every operation being given by its signed Kraus list (Common/Ptm.v:
   QPDMeasure = P0·P0 − P1·P1, Reset = P0·P0 + X P1·P1 X).  `ptm_unitary2 C U` is the PTM of
   ρ ↦ UρU†, `ptm_move` that of reset(qubit 1); swap.  `basis_terms name` is the modelled output of
   qpdbasis_from_instruction (Model/Bases.v).  θ' is `theta_prime` of decompositions.py:
   θ' = -θ/2 for rxx/ryy/rzz (so U_rxx = cos θ' + i sin θ' XX = RXX(θ)), θ' = θ/4 for crx/cry/crz/cp. *)
From Coq Require Import String List QArith Reals.
From CKT Require Import Common.Base Common.PolyRing Common.Ptm Model.Bases Model.BasesDispatch
  Proofs.BasesP Proofs.BasesMat Proofs.BasesKak Proofs.BasesDispatchP.
Import ListNotations.
Close Scope Q_scope.
Open Scope string_scope.
Open Scope list_scope.

(* the reflection principle everything rests on *)
Theorem c02_keq_sound : forall x y, keq x y = true -> forall th : R, evalK th x = evalK th y.
Proof. exact keq_sound. Qed.

(* rxx ryy rzz crx cry crz cp: for ALL real angles *)
Theorem c02_family_exact : forall g U,
  In (g, U) [("rxx", U_rxx); ("ryy", U_ryy); ("rzz", U_rzz); ("crx", U_crx); ("cry", U_cry); ("crz", U_crz); ("cp", U_cp)] ->
  forall th : R, channel (RC th) nou (basis_terms g) = ptm_unitary2 (RC th) U.
Proof. exact family_exact. Qed.

(* the fixed gates; cs/csx are the crz/crx bases at θ' = π/8, csdg/csxdg at θ' = -π/8.  The first eight use
   neither cos θ' nor sin θ' (only 1/sqrt 2), so they are stated at RC 0 *)
Theorem c02_fixed_exact :
  (forall g U, In (g, U) [("cx", U_cx); ("cy", U_cy); ("cz", U_cz); ("ch", U_ch); ("ecr", U_ecr);
                          ("swap", U_swap); ("iswap", U_iswap); ("dcx", U_dcx)] ->
     channel (RC 0) nou (basis_terms g) = ptm_unitary2 (RC 0) U) /\
  (forall g U, In (g, U) [("cs", U_cs); ("csx", U_csx)] ->
     channel (RC (PI / 8)) nou (basis_terms g) = ptm_unitary2 (RC (PI / 8)) U) /\
  (forall g U, In (g, U) [("csdg", U_csdg); ("csxdg", U_csxdg)] ->
     channel (RC (- (PI / 8))) nou (basis_terms g) = ptm_unitary2 (RC (- (PI / 8))) U).
Proof. exact (conj (fun g U H => fixed_exact g U H 0%R) (conj fixed8p_exact fixed8m_exact)). Qed.

Theorem c02_move_exact : channel (RC 0) nou (basis_terms "move") = ptm_move (RC 0).
Proof. exact (move_exact 0%R). Qed.

(* the 58-term basis of _nonlocal_qpd_basis_from_u, for every u ∈ C⁴ (u_k = x_{2k} + i x_{2k+1});
   A(u) = u0 II + u1 XX + u2 YY + u3 ZZ; no unitarity needed *)
Theorem c02_nonlocal_exact : forall x0 x1 x2 x3 x4 x5 x6 x7 : R,
  let C := RCoef (envU x0 x1 x2 x3 x4 x5 x6 x7) in
  channel C nou (resolve (nonlocal_basis uvars)) = ptm_unitary2 C (A_of_u uvars).
Proof. exact nonlocal_exact. Qed.

(* _u_from_thetavec: Σ u_α σ_α⊗σ_α = (cos a + i sin a XX)(cos b + i sin b YY)(cos c + i sin c ZZ)
   (exp(iλ) is modelled as the product of the unit complex numbers cos ± i sin of its three summands) *)
Theorem c02_u_from_thetavec : forall a b c : R,
  cmeval (RCoef (env3 a b c)) (A_of_u u_from_thetavec) = Uweyl (RCoef (env3 a b c)).
Proof. exact thetavec_exact. Qed.

(* KAK dressing: prepending/appending arbitrary one-qubit operations (given by their real 4x4 PTMs
   uenv 0..3 = K2r, K1r, K2l, K1l) to every map dresses the decomposed channel accordingly *)
Theorem c02_kak_dressing : forall (env : nat -> R) (uenv : nat -> list (list R)) (b : list term),
  (forall k, wf4 (uenv k)) -> b <> [] ->
  channel (RCoef env) uenv (dress_terms b)
  = mmul RRing (kron RRing (uenv 3%nat) (uenv 1%nat))
      (mmul RRing (channel (RCoef env) uenv b) (kron RRing (uenv 2%nat) (uenv 0%nat))).
Proof. exact kak_dressing. Qed.

(* the model's KAK path is that dressing of the nonlocal basis, lists shared per side dressed once *)
Theorem c02_kak_model : resolve kak_basis = dress_terms (resolve (nonlocal_basis u_from_thetavec)).
Proof. exact kak_model_is_dressing. Qed.

(* KAK path, PARTIAL.  Proved: for all real Weyl coordinates a,b,c and arbitrary real 4x4 matrices uenv 0..3 standing
   for the PTMs of K2r, K1r, K2l, K1l, the modelled KAK basis sums to  kron(u3,u1) · PTM(Uweyl(a,b,c)) · kron(u2,u0).
   MISSING for "equals the channel of the instruction itself" (not proved, assumed — see lib/props.d/C02.py):
   (a) O-KAK: the instruction's matrix ∝ (K1l⊗K1r)·Uweyl(a,b,c)·(K2l⊗K2r) for the values TwoQubitWeylDecomposition returns;
   (b) uenv k = ptm1 of the unitary K_k;  (c) PTM functoriality: ptm2(U·V) = ptm2 U · ptm2 V, ptm2(A⊗B) = kron(ptm1 A)(ptm1 B),
   invariance under a global phase;  (d) Uweyl, DEFINED as the product of the three factors cos t + i sin t P⊗P, equals
   exp(i(aXX+bYY+cZZ)).  The harness checks the composite numerically on every KAK case (PTM residual <= 1e-9). *)
Theorem c02_kak_exact_partial : forall (a b c : R) (uenv : nat -> list (list R)),
  (forall k, wf4 (uenv k)) ->
  let C := RCoef (env3 a b c) in
  channel C uenv (resolve kak_basis)
  = mmul RRing (kron RRing (uenv 3%nat) (uenv 1%nat))
      (mmul RRing (ptm2 C [(c1 C, Uweyl C)]) (kron RRing (uenv 2%nat) (uenv 0%nat))).
Proof. exact kak_exact. Qed.

(* sanity of the specifications: Move as defined (reset qubit 1; swap) has the Kraus operators used
   above; the only hand-written PTMs (RY(±π/4), whose half angle is not in Q[c,s,r]) agree with the PTM of
   the RY unitary over Q[r][cos π/8]; the closed-form rotation PTMs (rx/ry/rz_direct, and P = RZ as channels) agree
   with the PTMs of the unitaries.  Boolean identities over the rings K / K8 (not lifted to R) *)
Theorem c02_spec_sanity :
  meqb K (mmul K (ptm_unitary2 K U_swap) (kron K (ptm_op K nou OReset) (ident K 4%nat))) (ptm_move K) = true /\
  (meqb (K8 true) (ptm_op (K8 true) nou (ORY QuartPiP)) (ptm_op (K8 true) nou (ORY Th2P)) = true /\
   meqb (K8 false) (ptm_op (K8 false) nou (ORY QuartPiM)) (ptm_op (K8 false) nou (ORY Th2P)) = true) /\
  forallb (fun a => meqb K (mmap (ceval K) (let '(c, s) := full_cs a in rx_direct c s)) (ptm_op K nou (ORX a))
                 && meqb K (mmap (ceval K) (let '(c, s) := full_cs a in ry_direct c s)) (ptm_op K nou (ORY a))
                 && meqb K (mmap (ceval K) (let '(c, s) := full_cs a in rz_direct c s)) (ptm_op K nou (ORZ a))
                 && meqb K (ptm_op K nou (OP a)) (ptm_op K nou (ORZ a)))
          [Th2P; Th2M; HalfPiP; HalfPiM] = true.
Proof. exact (conj move_as_defined (conj ry_quarter_ok direct_rotations_ok)). Qed.

(* refusals: unregistered and not a two-qubit gate; unbound parameter; to_matrix failure —
   and nothing else is refused *)
Theorem c02_refusal :
  (forall g, ~ In (g_name g) registered -> g_is_gate g && Nat.eqb (g_nq g) 2%nat = false -> basis_of g = Refused) /\
  (forall g, In (g_name g) ["rxx"; "ryy"; "rzz"; "crx"; "cry"; "crz"; "cp"] -> g_has_param g = true -> g_param_ok g = false ->
             basis_of g = Refused) /\
  (forall g, ~ In (g_name g) registered -> g_matrix_ok g = false -> basis_of g = Refused) /\
  (forall g, (In (g_name g) ["rxx"; "ryy"; "rzz"; "crx"; "cry"; "crz"; "cp"] -> g_has_param g = true /\ g_param_ok g = true) ->
             (~ In (g_name g) registered -> g_is_gate g = true /\ g_nq g = 2%nat /\ g_matrix_ok g = true) ->
             exists b, basis_of g = Ok b).
Proof. exact (conj refusal_unregistered (conj refusal_unbound (conj refusal_matrix accepted_otherwise))). Qed.

(* observation, outside the property's quantifier: an instruction that carries a parameterised registered name
   but has no parameter (not a Qiskit RXX/.../CPhase gate) is rejected with IndexError, not ValueError *)
Theorem c02_missing_param_crashes : forall g,
  In (g_name g) ["rxx"; "ryy"; "rzz"; "crx"; "cry"; "crz"; "cp"] -> g_has_param g = false -> basis_of g = Crashed.
Proof. exact crash_missing_param. Qed.

(* ---------- through the dispatcher (Model/BasesDispatch.v: registry dict, _theta_from_instruction, the angle
   arithmetic of every registered function, nested registry calls) ---------- *)
(* the name-keyed registry selects exactly the bases of Model/Bases.v, for every instruction descriptor *)
Theorem c02_dispatch_is_basis_of : forall g, res_map fst (qpd_model g) = basis_of g.
Proof. exact dispatch_eq_basis_of. Qed.

(* ONE theorem over the dispatcher: for every registered gate name n and EVERY real gate angle θ, the basis that
   qpdbasis_from_instruction(gate n θ) returns — coefficients at theta_prime = thp_of n θ as the code computes it
   (−θ/2, θ/4, ±π/8), rotation/phase parameters equal to 2·theta_prime (angles_ok) — decomposes the gate's own
   unitary Ugate n θ, written in the gate angle (cos θ/2, sin θ/2; 4π-periodic for crx/cry/crz) *)
Theorem c02_dispatch_exact : forall n, In n gate_names19 -> forall th : R,
  exists b a, qpd_model (std_gate n) = Ok (b, a) /\ angles_ok a /\ symbols_bound (b, a) = true /\
              channel (RC (thp_of n th)) nou (resolve b) = gate_ptm n th.
Proof. exact dispatch_exact. Qed.
(* symbols_bound: the θ-dependent rotation / phase symbols occur among the operations of b exactly when the function
   recorded their meaning in a (a_rot / a_phase), so angles_ok speaks about operations that are really in the basis *)

Theorem c02_dispatch_move_exact :
  exists b, qpd_model (mkG "move" false 2%nat true false false) = Ok (b, no_angles) /\
            channel (RC 0) nou (resolve b) = ptm_move (RC 0).
Proof. exact dispatch_move_exact. Qed.

(* the unregistered branch of the dispatcher, and refusals through the dispatcher *)
Theorem c02_dispatch_kak : forall g, ~ In (g_name g) registered ->
  g_is_gate g = true -> g_nq g = 2%nat -> g_matrix_ok g = true -> qpd_model g = Ok (kak_basis, no_angles).
Proof. exact dispatch_kak. Qed.
Theorem c02_dispatch_refused : forall g, basis_of g = Refused <-> qpd_model g = Refused.
Proof. exact dispatch_refused. Qed.

(* non-vacuity: the 19 names + move are exactly the registered names; the CRX target really is 4π-periodic only *)
Example c02_ex_dispatch_names : incl gate_names19 registered /\ incl registered ("move" :: gate_names19).
Proof. exact names_are_registered. Qed.
Example c02_ex_dispatch_kak : qpd_model (mkG "my_unitary" true 2%nat true true false) = Ok (kak_basis, no_angles).
Proof. reflexivity. Qed.
(* the angles each function computes, read off the model *)
Example c02_ex_angles :
  map (fun n => match qpd_model (std_gate n) with
                | Ok (_, a) => (n, option_map show_aexpr (a_thp a), option_map show_aexpr (a_rot a), option_map show_aexpr (a_phase a))
                | _ => (n, None, None, None) end) ["rxx"; "crx"; "cp"; "csdg"; "csx"; "cx"]
  = [("rxx", Some "div2(neg(theta))", None, None);
     ("crx", Some "div2(neg(div2(neg(theta))))", Some "neg(div2(neg(theta)))", None);
     ("cp", Some "div2(neg(div2(neg(theta))))", Some "neg(div2(neg(theta)))", Some "div2(theta)");
     ("csdg", Some "div2(neg(div2(neg(neg(pihalf)))))", Some "neg(div2(neg(neg(pihalf))))", None);
     ("csx", Some "div2(neg(div2(neg(pihalf))))", Some "neg(div2(neg(pihalf)))", None);
     ("cx", None, None, None)].
Proof. reflexivity. Qed.
(* KAK: a concrete instance over Q[r] (Weyl cos/sin = 3/5,4/5; 5/13,12/13; 8/17,15/17; locals = PTMs of H,S,SX,T):
   the identity of c02_kak_exact_partial holds, is not the identity channel, and has an entry (833/4225)/sqrt 2;
   and the hypothesis wf4 is satisfiable by PTMs of actual gates over R *)
Example c02_ex_kak_nontrivial :
  meqb Cq_kak kak_lhs kak_rhs = true /\ meqb Cq_kak kak_lhs (ident Cq_kak 16%nat) = false /\
  nth 6%nat (nth 9%nat kak_lhs []) (r0 QR) = (0%Q, (833 # 4225)%Q).
Proof. exact kak_instance. Qed.
Example c02_ex_kak_hypothesis : forall k, wf4 (uenv_gates k).
Proof. exact kak_hyp_satisfiable. Qed.
Example c02_ex_crx_not_2pi_periodic :
  fst (nth 1%nat (nth 1%nat (Ugate "crx" 0) []) (0%R, 0%R)) = 1%R /\
  fst (nth 1%nat (nth 1%nat (Ugate "crx" (2 * PI)) []) (0%R, 0%R)) = (-1)%R.
Proof.
  split; cbn -[cos PI Rdiv].
  - replace (0 / 2)%R with 0%R by (unfold Rdiv; apply eq_sym, Rmult_0_l). apply cos_0.
  - replace (2 * PI / 2)%R with PI by (unfold Rdiv; rewrite Rmult_comm, <- Rmult_assoc, Rinv_l, Rmult_1_l;
      [reflexivity|apply not_eq_sym, Rlt_not_eq, Rlt_0_2]). apply cos_PI.
Qed.

(* tie to the source *)
From CKT Require Import Extracted.Facts.
Theorem c02_registry_groups : registry_groups = registry_groups_model.
Proof. reflexivity. Qed.
Theorem c02_angle_flow : angle_flow = angle_flow_model.
Proof. reflexivity. Qed.
Theorem c02_registry : registry_names = registered.
Proof. reflexivity. Qed.
Definition shape_expr (s : string) : cexpr :=
  if s =? "cos2" then CMul eC eC else if s =? "sin2" then CMul eS eS
  else if s =? "cs" then ecs else if s =? "-cs" then COpp ecs else CQ 0.
Theorem c02_source_tables :
  cx_family_coeffs = map (ceval QCoef) cx_coeffs /\
  move_table_coeffs = map (ceval QCoef) move_coeffs /\
  map shape_expr family_coeff_shape = family_coeffs /\      (* with theta_prime = -theta/2, cs = cos*sin *)
  nonlocal_term_count = length (pcoeffs (nonlocal_basis uvars)).
Proof. vm_compute. repeat split; reflexivity. Qed.

(* non-vacuity: θ' with tan(θ'/2) = 1/2, i.e. cos θ' = 3/5, sin θ' = 4/5 *)
Definition Q35 : Coef Q := QevalCoef (3 # 5)%Q (4 # 5)%Q 0%Q.
Example c02_ex_coeffs :
  map (ceval Q35) (pcoeffs (family_basis AxZ false))
  = [(9 # 25)%Q; (16 # 25)%Q; (-12 # 25)%Q; (12 # 25)%Q; (-12 # 25)%Q; (12 # 25)%Q].
Proof. vm_compute. reflexivity. Qed.
Example c02_ex_rzz_nontrivial :
  meqb Q35 (channel Q35 nou (basis_terms "rzz")) (ptm_unitary2 Q35 U_rzz) = true /\
  meqb Q35 (channel Q35 nou (basis_terms "rzz")) (ident Q35 16%nat) = false /\
  nth 14%nat (nth 1%nat (channel Q35 nou (basis_terms "rzz")) []) 0%Q = (24 # 25)%Q.
Proof. vm_compute. repeat split; reflexivity. Qed.
Example c02_ex_crx_maps :
  map (fun t => (snd (fst t), snd t)) (basis_terms "crx")
  = [([], [ORX Th2P]); ([OH; OX; OH], [OX; ORX Th2P]); ([OH; OH; OMeas; OH; OH], [OSX; ORX Th2P]);
     ([OH; OH; OMeas; OH; OH], [OSXdg; ORX Th2P]); ([OH; OSX; OH], [OH; OMeas; OH; ORX Th2P]);
     ([OH; OSXdg; OH], [OH; OMeas; OH; ORX Th2P])].
Proof. reflexivity. Qed.

Print Assumptions c02_keq_sound.
Print Assumptions c02_family_exact.
Print Assumptions c02_fixed_exact.
Print Assumptions c02_move_exact.
Print Assumptions c02_nonlocal_exact.
Print Assumptions c02_u_from_thetavec.
Print Assumptions c02_kak_dressing.
Print Assumptions c02_kak_model.
Print Assumptions c02_kak_exact_partial.
Print Assumptions c02_spec_sanity.
Print Assumptions c02_refusal.
Print Assumptions c02_missing_param_crashes.
Print Assumptions c02_dispatch_is_basis_of.
Print Assumptions c02_dispatch_exact.
Print Assumptions c02_dispatch_move_exact.
Print Assumptions c02_dispatch_kak.
Print Assumptions c02_dispatch_refused.
Print Assumptions c02_registry_groups.
Print Assumptions c02_angle_flow.
Print Assumptions c02_registry.
Print Assumptions c02_source_tables.

(* Properties/C10.v — placeholder while the proofs are being developed *)
From CKT Require Import Common.Base Common.Circ Model.Separate Model.Partition.
Theorem c10_stub : True. Proof. exact I. Qed.

(* Properties/C10.v — Separating and partitioning a circuit preserves its structure and meaning.
   Only theorem statements (closed by `exact`), non-vacuity examples, facts obligations, Print Assumptions.

   Vocabulary (Proofs/SeparateP.v, Proofs/PartitionP.v):
     split_spec u c          one-pass specification of _split_barriers (uuid = ordinal, starting at u)
     keys_of ls              the non-None labels of ls in first-appearance order
     omembers ls l n         the qubits < n carrying label l, ascending
     qm_entry ls q           Some (l, rank of q among the qubits of l) / None
     valid_labelling ls c    every ordinary instruction lies inside one non-None label; no barrier touches a None qubit
     restrict_instr ls l i   [i] if i belongs to label l; a multi-qubit barrier restricted to l's qubits (dropped if empty)
     remap_all qs cl         re-indexing of qubits through qs (and clbits through cl); unmap_instr is its inverse
     wire_view q c           the instructions touching wire q, in order (a barrier seen as a barrier on q)
     hproj / cproj           per-wire / per-clbit projections of a tagged circuit (identities dropped)
     conn es                 equivalence closure of the edge list es *)
From Coq Require Import Sorted Permutation Relations String.
From CKT Require Import Common.Base Common.Circ Common.Herbrand Model.Observables Proofs.ObservablesP
  Model.Separate Model.Partition Proofs.SeparateP Proofs.PartitionP.

(* ------------------------------------------------------------------------------------------------ *)
(* the two list-surgery loops equal their position-free specifications *)
Theorem c10_split_barriers : forall c, has_empty_barrier c = false -> split_barriers c = split_spec 0 c.
Proof. exact split_barriers_spec. Qed.

Theorem c10_combine_barriers : forall c, combine_barriers c = cspec c [] c.
Proof. exact combine_barriers_spec. Qed.

(* ------------------------------------------------------------------------------------------------ *)
(* c10_separate: one subcircuit per non-None label (first-appearance order); its qubits are that label's qubits in
   original order; qubit_map consistent; each subcircuit is the original restricted to its label, order kept,
   multi-partition barriers split and re-joined per partition, re-indexed.  labels = None: automatic labelling. *)
Theorem c10_separate : forall n cregs c labels subs qm,
  no_uuid c ->
  separate_circuit n cregs c labels = Ok (subs, qm) ->
  let ls := sep_labels n c labels in
  length ls = n /\
  valid_labelling ls c /\
  map (fun s : subcirc => fst (fst s)) subs = keys_of ls /\
  length qm = n /\ (forall q, q < n -> nth q qm None = qm_entry ls q) /\
  forall l nq body, In (l, nq, body) subs ->
    In l (keys_of ls) /\
    nq = length (omembers ls l n) /\
    remap_all (omembers ls l n) (clbits_of cregs) (flat_map (restrict_instr ls l) c) = Some body.
Proof. exact separate_spec. Qed.

(* every ordinary instruction lands in exactly one subcircuit *)
Theorem c10_exactly_one : forall ls i l,
  needs_split i = false -> one_label ls i l ->
  restrict_instr ls l i = [i] /\ forall l', l' <> l -> restrict_instr ls l' i = [].
Proof. exact restrict_unique. Qed.

(* the qubits of a label are exactly its qubits, ascending *)
Theorem c10_members : forall ls l n j,
  (In j (omembers ls l n) <-> j < n /\ nth j ls None = Some l) /\ StronglySorted lt (omembers ls l n).
Proof. exact omembers_spec. Qed.

(* ------------------------------------------------------------------------------------------------ *)
(* generic: two tagged circuits with the same per-wire and per-clbit projections have the same Herbrand
   denotation from every state (instructions on disjoint wires commute) *)
Theorem c10_commute : forall R1 R2 s,
  visible R1 -> visible R2 ->
  (forall q, hproj q R1 = hproj q R2) -> (forall k, cproj k R1 = cproj k R2) ->
  hrun s R1 = hrun s R2.
Proof. exact hrun_proj_eq. Qed.

(* c10_recompose: mapping every subcircuit back through the qubit map gives, per original wire, the original
   instruction sequence; hence any interleaving R of the parts THAT CARRIES THE ORIGINAL INSTANCE TAGS has the denotation
   of the original circuit.  The literally recomposed circuit (tags forgotten) is c10_recompose_circuit below. *)
Theorem c10_recompose : forall n cregs c labels subs qm,
  no_uuid c ->
  separate_circuit n cregs c labels = Ok (subs, qm) ->
  let ls := sep_labels n c labels in
  (forall l nq body, In (l, nq, body) subs ->
     map (unmap_instr (omembers ls l n) (clbits_of cregs)) body = flat_map (restrict_instr ls l) c) /\
  (forall q l, nth q ls None = Some l -> wire_view q (flat_map (restrict_instr ls l) c) = wire_view q c) /\
  (forall q, nth q ls None = None -> wire_view q c = []) /\
  (forall l, map snd (restrict_tagged ls l (tagc c)) = flat_map (restrict_instr ls l) c) /\
  forall nc (R : tcirc), visible R ->
    (forall q, hproj q R = match nth q ls None with
                           | Some l => hproj q (restrict_tagged ls l (tagc c))
                           | None => []
                           end) ->
    (forall k, cproj k R = cproj k (tagc c)) ->
    hrun (hinit n nc) R = denote n nc c.
Proof. exact separate_recompose. Qed.

(* instance tags are names: forgetting the tags of the interleaving and letting [denote] re-tag it in program order gives
   the denotation of the original with its instance tags renamed by f, and f is injective on the tags in use *)
Theorem c10_recompose_circuit : forall n cregs c labels subs qm,
  no_uuid c ->
  separate_circuit n cregs c labels = Ok (subs, qm) ->
  let ls := sep_labels n c labels in
  forall nc (R : tcirc), visible R ->
    (forall q, hproj q R = match nth q ls None with
                           | Some l => hproj q (restrict_tagged ls l (tagc c))
                           | None => []
                           end) ->
    (forall k, cproj k R = cproj k (tagc c)) ->
    NoDup (ctags R) ->
    let f := retag_fun (ctags R) (ctags (tagc (map snd R))) in
    denote n nc (map snd R) = rn_state f (denote n nc c) /\
    (forall a b, In a (ctags R) -> In b (ctags R) -> f a = f b -> a = b).
Proof. exact separate_recompose_circuit. Qed.

(* ------------------------------------------------------------------------------------------------ *)
(* c10_auto_idle: under automatic labelling exactly the idle qubits get None (and are dropped by separate_circuit);
   two qubits share a label iff connected; labels are consecutive from 0, ordered by the least qubit *)
Theorem c10_union_find : forall n es,
  (forall e, In e es -> fst e < n /\ snd e < n) ->
  forall a b, find (uptree n es) a = find (uptree n es) b <-> conn es a b.
Proof. exact union_find_spec. Qed.

Theorem c10_auto_idle : forall n ignore c,
  in_range n c ->
  let L := auto_labels n ignore false c in
  length L = n /\
  (forall q, q < n -> (nth q L None = None <-> touched c q = false)) /\
  (forall a b k, a < n -> b < n -> nth a L None = Some k ->
     (nth b L None = Some k <-> conn (edges ignore c) a b)) /\
  (forall q k, q < n -> nth q L None = Some k -> forall j, j <= k -> exists q', q' < n /\ nth q' L None = Some j) /\
  (forall q1 q2 k1 k2, q1 < n -> q2 < n -> nth q1 L None = Some k1 -> nth q2 L None = Some k2 -> k1 < k2 ->
     exists r1, r1 < n /\ nth r1 L None = Some k1 /\ r1 <= q1 /\
                forall x, x < n -> nth x L None = Some k2 -> r1 < x).
Proof. exact auto_labels_spec. Qed.

(* the same on instructions: labels = connected components of "share a non-ignored instruction" (barriers included
   unless ignored), None iff NO instruction at all (ignored ones such as pre-placed placeholders included) touches the qubit *)
Theorem c10_auto_components : forall n ignore c,
  in_range n c ->
  let L := auto_labels n ignore false c in
  length L = n /\
  (forall q, q < n -> (nth q L None = None <-> untouched c q)) /\
  (forall a b, a < n -> b < n -> nth a L None <> None ->
     (nth a L None = nth b L None <-> connected ignore c a b)) /\
  (forall q k, q < n -> nth q L None = Some k -> forall j, j <= k -> exists q', q' < n /\ nth q' L None = Some j) /\
  (forall q1 q2 k1 k2, q1 < n -> q2 < n -> nth q1 L None = Some k1 -> nth q2 L None = Some k2 -> k1 < k2 ->
     exists r1, r1 < n /\ nth r1 L None = Some k1 /\ r1 <= q1 /\ forall x, x < n -> nth x L None = Some k2 -> r1 < x).
Proof. exact auto_components. Qed.

Theorem c10_keep_idle_wires : forall n ignore c q, in_range n c -> q < n -> nth q (auto_labels n ignore true c) None <> None.
Proof. exact keep_idle_spec. Qed.

Theorem c10_separate_drops_idle : forall n cregs c subs qm,
  no_uuid c -> in_range n c ->
  separate_circuit n cregs c None = Ok (subs, qm) ->
  forall q, q < n -> (nth q qm None = None <-> touched c q = false).
Proof. exact separate_auto_idle. Qed.

(* ------------------------------------------------------------------------------------------------ *)
(* partition_problem.  [dx] is the oracle QuantumCircuit.decompose(TwoQubitQPDGate) with contract [dx_contract]:
   a permutation of the in-place expansion with the same per-wire sequences. *)
Theorem c10_dx_contract_inhabited : dx_contract expand_qpd2.
Proof. exact dx_contract_id. Qed.

(* c10_cuts: the k-th placeholder (list order) of the cut circuit yields two halves, qubit_id 0 / 1, in the partitions
   of its two qubits, at the re-indexed positions, carrying suffix k, the same basis handle and basis_id;
   bases is ordered by k *)
Theorem c10_cuts : forall basis_of relabel dx, dx_contract dx ->
  forall n ncl ncr c labels obs subs bases so,
  no_uuid c ->
  partition_problem basis_of relabel dx n ncl ncr c labels obs = Ok (subs, bases, so) ->
  let ls := labels_used n c labels in
  exists qc,
    partition_circuit_qubits basis_of n c ls = Ok qc /\
    Forall2 (pcq_rel basis_of ls) c qc /\
    bases = map qbasis (qpd2s qc) /\
    forall k x b bid lbl a q,
      nth_error (qpd2s qc) k = Some x -> iop x = Qpd2 b bid lbl -> iqs x = [a; q] ->
      let lbl' := Some (relabel lbl, Some k) in
      nth k bases 0 = b /\
      exists la lq na nq suba subq a' q',
        nth a ls None = Some la /\ nth q ls None = Some lq /\
        In (la, na, suba) subs /\ In (lq, nq, subq) subs /\
        index_of a (omembers ls la n) = Some a' /\ index_of q (omembers ls lq n) = Some q' /\
        In (mkI (Qpd1 b 0 bid lbl') [a'] []) suba /\ In (mkI (Qpd1 b 1 bid lbl') [q'] []) subq.
Proof. exact cuts_spec. Qed.

(* which gates are cut: every instruction of the cut circuit is the decision of one loop step on the input instruction at
   the same position; it is unchanged iff barrier / at most one qubit / inside one label / already a placeholder, and is
   otherwise REPLACED by a fresh placeholder on the same two qubits (stronger than [pcq_rel] in c10_cuts) *)
Theorem c10_cut_decision : forall basis_of (relabel : qlabel -> nat) ls,
  (forall c qc, pcq_loop basis_of ls c = Ok qc ->
     forall y, In y qc -> exists i, In i c /\ pcq_step basis_of ls i = Ok y) /\
  (forall i i', pcq_step basis_of ls i = Ok i' ->
     (i' = i /\ (is_barrier i = true \/ length (iqs i) <= 1 \/ length (span_labels ls (iqs i)) = 1 \/ is_qpd2 i = true)) \/
     (exists b lbl, i' = mkI (Qpd2 b None lbl) (iqs i) [] /\ length (iqs i) = 2)).
Proof.
  intros basis_of relabel ls. split; [exact (pcq_loop_steps basis_of ls)|exact (pcq_step_cases basis_of relabel ls)].
Qed.

(* uniqueness (as a set): when the input has no SingleQubitQPDGate whose label already ends in a number, EVERY placeholder
   half with suffix k found in any subcircuit is half 0 or half 1 of the k-th placeholder, at that placeholder's
   re-indexed qubit, in the partition of that qubit.  Together with c10_cuts: the halves carrying cut index k are exactly
   these two instructions.  (Multiplicity - each occurs once - is not stated.) *)
Theorem c10_cuts_only : forall basis_of relabel dx, dx_contract dx ->
  forall n ncl ncr c labels obs subs bases so,
  no_uuid c -> (forall i, In i c -> ~ numeric_half i) ->
  partition_problem basis_of relabel dx n ncl ncr c labels obs = Ok (subs, bases, so) ->
  let ls := labels_used n c labels in
  exists qc, partition_circuit_qubits basis_of n c ls = Ok qc /\
    forall l nq body x b h bid lb k,
      In (l, nq, body) subs -> In x body -> iop x = Qpd1 b h bid (Some (lb, Some k)) ->
      exists y lbl a q w w',
        nth_error (qpd2s qc) k = Some y /\ iop y = Qpd2 b bid lbl /\ lb = relabel lbl /\ iqs y = [a; q] /\
        (h = 0 /\ w = a \/ h = 1 /\ w = q) /\ nth w ls None = Some l /\
        index_of w (omembers ls l n) = Some w' /\ x = mkI (Qpd1 b h bid (Some (lb, Some k))) [w'] [].
Proof. exact cuts_only. Qed.

(* the subcircuits of partition_problem recompose, wire by wire, to the cut circuit *)
Theorem c10_problem_recompose : forall basis_of relabel dx, dx_contract dx ->
  forall n ncl ncr c labels obs subs bases so,
  no_uuid c ->
  partition_problem basis_of relabel dx n ncl ncr c labels obs = Ok (subs, bases, so) ->
  let ls := labels_used n c labels in
  exists qc, partition_circuit_qubits basis_of n c ls = Ok qc /\
    let cut := expand_qpd2 (fst (number_qpd relabel qc 0)) in
    length ls = n /\
    map (fun s : subcirc => fst (fst s)) subs = keys_of ls /\
    (forall l nq body, In (l, nq, body) subs ->
       nq = length (omembers ls l n) /\
       forall q, nth q ls None = Some l ->
         wire_view q (map (unmap_instr (omembers ls l n) []) body) = wire_view q cut) /\
    (forall q, nth q ls None = None -> wire_view q cut = []).
Proof. exact problem_recompose. Qed.

(* c10_subobs_keys: sub-observables exist for exactly the returned subcircuits (same keys, same order).
   UNCONDITIONAL in the repaired model: a non-None label whose qubits are all idle still has an (empty) subcircuit,
   and the None group is removed (F4).  In the unrepaired code the key None is present: refuted by the check. *)
Theorem c10_subobs_keys : forall basis_of relabel dx, dx_contract dx ->
  forall n ncl ncr c labels obs subs bases so,
  no_uuid c ->
  partition_problem basis_of relabel dx n ncl ncr c labels obs = Ok (subs, bases, so) ->
  match so with
  | Some so' => map fst so' = map (fun s : subcirc => fst (fst s)) subs
  | None => obs = None \/ obs = Some []
  end.
Proof. exact problem_subobs_keys. Qed.

(* c10_subobs_tensor: each sub-observable is the restriction to its label's qubits (in the subcircuit's qubit
   order); scattering all of them back gives the original Pauli string *)
Theorem c10_subobs_tensor : forall ls ps so,
  sub_observables ls ps = Ok so ->
  map fst so = keys_of ls /\
  (forall l subs_l, In (l, subs_l) so -> subs_l = map (restrict1 (omembers ls l (length ls))) ps) /\
  forall j, j < length ps -> length (plets (nth j ps pI)) = length ls ->
    recombine1 (length ls)
      (map (fun e : nat * list pauli => (omembers ls (fst e) (length ls), nth j (snd e) pI)) so)
    = plets (nth j ps pI).
Proof. exact subobs_spec. Qed.

(* the sub-observables returned by partition_problem are [sub_observables] of the labels in force, so
   c10_subobs_tensor applies to the public function *)
Theorem c10_problem_subobs : forall basis_of relabel dx n ncl ncr c labels obs subs bases so,
  partition_problem basis_of relabel dx n ncl ncr c labels obs = Ok (subs, bases, Some so) ->
  exists ps, obs = Some ps /\ ps <> [] /\ length (labels_used n c labels) = n /\
             (forall p, In p ps -> length (plets p) = n /\ pphase p = 0) /\
             sub_observables (labels_used n c labels) ps = Ok so.
Proof. exact problem_subobs_full. Qed.

(* ------------------------------------------------------------------------------------------------ *)
(* totality: "for any circuit and any valid labelling, separation returns ..." *)
Theorem c10_separate_total : forall n cregs c ls,
  no_empty_instr c -> length ls = n -> valid_labelling ls c -> clbits_ok cregs c ->
  exists subs, separate_circuit n cregs c (Some ls) = Ok (subs, qmap_of ls).
Proof. exact separate_total. Qed.

Theorem c10_separate_total_auto : forall n cregs c,
  no_empty_instr c -> in_range n c -> clbits_ok cregs c ->
  exists subs qm, separate_circuit n cregs c None = Ok (subs, qm).
Proof. exact separate_total_auto. Qed.

Theorem c10_cutting_total : forall basis_of ls c,
  (forall i, In i c -> ~ uncuttable basis_of ls i) -> exists qc, pcq_loop basis_of ls c = Ok qc.
Proof. exact pcq_loop_total. Qed.

(* full totality of partition_problem: a request that passes the four validations, whose instructions act on >= 1
   qubits all labelled non-None without clbits (pre-placed placeholders on exactly two qubits), with no uncuttable gate
   and observables that are the identity on the None-labelled qubits, is ANSWERED — for every decompose oracle dx
   satisfying its contract.  (Was c10_problem_total_partial: the validity of the labelling of the cut circuit is now
   derived from the condition on the input, and `length ls = n` from labels_ok / the automatic labelling.) *)
Theorem c10_problem_total : forall basis_of relabel dx, dx_contract dx ->
  forall n c labels obs,
  labels_ok n labels -> obs_sizes_ok n obs -> obs_phases_ok obs ->
  let ls := labels_used n c labels in
  input_ok ls c ->
  (forall i, In i c -> ~ uncuttable basis_of ls i) ->
  (forall ps p q, obs = Some ps -> In p ps -> q < n -> nth q ls None = None -> nth q (plets p) 0 = 0) ->
  exists r, partition_problem basis_of relabel dx n 0 0 c labels obs = Ok r.
Proof. exact problem_total. Qed.

(* automatic labels: the conditions on the labelling follow from the shape of the input (qubits in range, >= 1 qubit and
   no clbit per instruction, placeholders on two qubits); nothing is ever uncuttable *)
Theorem c10_problem_total_auto : forall basis_of relabel dx, dx_contract dx ->
  forall n c obs,
  shape_ok n c -> obs_sizes_ok n obs -> obs_phases_ok obs ->
  (forall ps p q, obs = Some ps -> In p ps -> q < n -> untouched c q -> nth q (plets p) 0 = 0) ->
  exists r, partition_problem basis_of relabel dx n 0 0 c None obs = Ok r.
Proof. exact problem_total_auto. Qed.

(* ------------------------------------------------------------------------------------------------ *)
(* c10_refusals *)
Theorem c10_separate_refuses : forall n cregs c ls,
  no_empty_instr c ->
  length ls <> n \/ (exists i, In i c /\ bad_instr ls i) ->
  separate_circuit n cregs c (Some ls) = Refused.
Proof. exact separate_refuses. Qed.

Theorem c10_problem_refuses : forall basis_of relabel dx n ncl ncr c,
  (forall ls obs, length ls <> n -> partition_problem basis_of relabel dx n ncl ncr c (Some ls) obs = Refused) /\
  (forall labels ps p, labels_ok n labels -> In p ps -> length (plets p) <> n ->
     partition_problem basis_of relabel dx n ncl ncr c labels (Some ps) = Refused) /\
  (forall labels ps p, labels_ok n labels -> obs_sizes_ok n (Some ps) -> In p ps -> pphase p <> 0 ->
     partition_problem basis_of relabel dx n ncl ncr c labels (Some ps) = Refused) /\
  (forall labels obs, labels_ok n labels -> obs_sizes_ok n obs -> obs_phases_ok obs -> (ncl <> 0 \/ ncr <> 0) ->
     partition_problem basis_of relabel dx n ncl ncr c labels obs = Refused) /\
  (forall labels obs i, labels_ok n labels -> obs_sizes_ok n obs -> obs_phases_ok obs ->
     In i c -> uncuttable basis_of (labels_used n c labels) i ->
     partition_problem basis_of relabel dx n 0 0 c labels obs = Refused).
Proof. exact problem_refuses_spec. Qed.

(* repaired behaviour F4: an observable acting on a None-labelled (idle, dropped) qubit is refused, never answered *)
Theorem c10_idle_observable : forall ls ps,
  (forall p q, In p ps -> q < length ls -> nth q ls None = None -> nth q (plets p) 0 <> 0 ->
     sub_observables ls ps = Refused) /\
  ((forall p q, In p ps -> q < length ls -> nth q ls None = None -> nth q (plets p) 0 = 0) ->
   (forall p, In p ps -> length (plets p) = length ls) -> exists so, sub_observables ls ps = Ok so).
Proof. exact idle_observable_spec. Qed.

Theorem c10_idle_observable_problem : forall basis_of relabel dx, dx_contract dx ->
  forall n c labels ps p q,
  labels_ok n labels -> obs_sizes_ok n (Some ps) -> obs_phases_ok (Some ps) ->
  let ls := labels_used n c labels in
  input_ok ls c -> (forall i, In i c -> ~ uncuttable basis_of ls i) ->
  In p ps -> q < n -> nth q ls None = None -> nth q (plets p) 0 <> 0 ->
  partition_problem basis_of relabel dx n 0 0 c labels (Some ps) = Refused.
Proof. exact idle_observable_refused. Qed.

(* ------------------------------------------------------------------------------------------------ *)
(* non-vacuity *)
Definition G g qs := mkI (Gate g) qs [].
Definition B qs := mkI (Barrier None) qs [].

(* a barrier spanning two partitions (qubits in scrambled order), a one-qubit barrier, labels A B B *)
Definition ex1 : circ := [G 0 [0]; B [2; 0; 1]; G 1 [1; 2]; B [0]; G 2 [2]].
Example c10_ex_barrier :
  separate_circuit 3 [] ex1 (Some [Some 0; Some 1; Some 1]) =
  Ok ([(0, 1, [G 0 [0]; B [0]; B [0]]); (1, 2, [B [1; 0]; G 1 [0; 1]; G 2 [1]])],
      [Some (0, 0); Some (1, 0); Some (1, 1)]).
Proof. reflexivity. Qed.

Example c10_ex_barrier_hyps : no_uuid ex1 /\ in_range 3 ex1 /\ no_empty_instr ex1.
Proof.
  repeat split.
  - intros i Hi. repeat (destruct Hi as [<-|Hi]; [reflexivity|]). destruct Hi.
  - intros i q Hi Hq. repeat (destruct Hi as [<-|Hi]; [simpl in Hq; lia|]). destruct Hi.
  - intros i Hi. repeat (destruct Hi as [<-|Hi]; [discriminate|]). destruct Hi.
Qed.

Example c10_ex_total_hyps :
  length [Some 0; Some 1; Some 1] = 3 /\ valid_labelling [Some 0; Some 1; Some 1] ex1 /\ clbits_ok [] ex1.
Proof.
  split; [reflexivity|]. split.
  - intros i Hi. simpl in Hi. destruct Hi as [<-|[<-|[<-|[<-|[<-|[]]]]]]; (split; intros NS); try discriminate NS.
    + exists 0. unfold one_label. simpl. split; [discriminate|intros q [<-|[]]; reflexivity].
    + simpl. intros q [<-|[<-|[<-|[]]]]; simpl; eauto.
    + exists 1. unfold one_label. simpl. split; [discriminate|intros q [<-|[<-|[]]]; reflexivity].
    + exists 0. unfold one_label. simpl. split; [discriminate|intros q [<-|[]]; reflexivity].
    + exists 1. unfold one_label. simpl. split; [discriminate|intros q [<-|[]]; reflexivity].
  - intros i k Hi Hk. repeat (destruct Hi as [<-|Hi]; [destruct Hk|]). destruct Hi.
Qed.

(* an interleaving of the two (tagged) parts: partition B first, then partition A — hypotheses of c10_recompose *)
Definition ex1_labels : list label := [Some 0; Some 1; Some 1].
Definition ex1_R : tcirc := restrict_tagged ex1_labels 1 (tagc ex1) ++ restrict_tagged ex1_labels 0 (tagc ex1).
Example c10_ex_recompose_hyps :
  visible ex1_R /\
  (forall q, hproj q ex1_R = match nth q ex1_labels None with
                             | Some l => hproj q (restrict_tagged ex1_labels l (tagc ex1))
                             | None => []
                             end) /\
  (forall k, cproj k ex1_R = cproj k (tagc ex1)) /\
  map snd ex1_R <> ex1.
Proof.
  split; [|split; [|split]].
  - intros ti Hti. vm_compute in Hti. repeat (destruct Hti as [<-|Hti]; [vm_compute; (now left) || (right; discriminate)|]).
    destruct Hti.
  - intros [|[|[|[|q]]]]; reflexivity.
  - intros k. reflexivity.
  - discriminate.
Qed.
Example c10_ex_recompose : hrun (hinit 3 0) ex1_R = denote 3 0 ex1.
Proof. reflexivity. Qed.

(* an idle qubit under automatic labelling: dropped *)
Definition ex2 : circ := [G 0 [0]; G 1 [0; 1]].
Example c10_ex_idle :
  separate_circuit 3 [] ex2 None = Ok ([(0, 2, [G 0 [0]; G 1 [0; 1]])], [Some (0, 0); Some (0, 1); None]).
Proof. reflexivity. Qed.

(* a pre-placed cut gate, a gate that is cut (twice), a barrier across the cut; simple oracles *)
Definition bo (o : op) : option (nat * qlabel) := match o with Gate 1 => Some (0, Some (5, None)) | _ => None end.
Definition rl (l : qlabel) : nat := match l with Some (b, _) => b | None => 9 end.
Definition ex3 : circ := [G 0 [0]; mkI (Qpd2 3 None (Some (7, None))) [0; 1] []; G 1 [1; 2]; B [0; 1; 2]; G 1 [2; 0]].
Example c10_ex_cuts :
  partition_problem bo rl expand_qpd2 3 0 0 ex3 (Some [Some 4; Some 4; Some 6]) (Some [mkP 0 [3; 1; 2]]) =
  Ok ([(4, 2, [G 0 [0];
               mkI (Qpd1 3 0 None (Some (7, Some 0))) [0] []; mkI (Qpd1 3 1 None (Some (7, Some 0))) [1] [];
               mkI (Qpd1 0 0 None (Some (5, Some 1))) [1] []; B [0; 1];
               mkI (Qpd1 0 1 None (Some (5, Some 2))) [0] []]);
       (6, 1, [mkI (Qpd1 0 1 None (Some (5, Some 1))) [0] []; B [0];
               mkI (Qpd1 0 0 None (Some (5, Some 2))) [0] []])],
      [3; 0; 0],
      Some [(4, [mkP 0 [3; 1]]); (6, [mkP 0 [2]])]).
Proof. reflexivity. Qed.

(* automatic labels of partition_problem: qubit 3 is touched only by a pre-placed (ignored) placeholder: it is NOT idle
   and forms its own component; qubit 4 is touched by nothing: None *)
Definition ex4 : circ := [G 0 [0]; G 1 [0; 1]; mkI (Qpd2 3 None None) [1; 3] []; B [2]].
Example c10_ex_auto_ignored : in_range 5 ex4 /\ auto_labels 5 is_qpd2 false ex4 = [Some 0; Some 0; Some 1; Some 2; None].
Proof.
  split; [|reflexivity]. intros i q Hi Hq. simpl in Hi.
  destruct Hi as [<-|[<-|[<-|[<-|[]]]]]; simpl in Hq; lia.
Qed.

(* hypotheses of c10_problem_total on ex3 (labels 4 4 6, observable Z X Y) *)
Example c10_ex_total_problem_hyps :
  let ls := labels_used 3 ex3 (Some [Some 4; Some 4; Some 6]) in
  labels_ok 3 (Some [Some 4; Some 4; Some 6]) /\ input_ok ls ex3 /\ (forall i, In i ex3 -> ~ uncuttable bo ls i).
Proof.
  cbv zeta. split; [reflexivity|]. split.
  - intros i Hi. simpl in Hi. destruct Hi as [<-|[<-|[<-|[<-|[<-|[]]]]]]; simpl;
      (split; [discriminate|]); (split; [reflexivity|]); (split; [|try discriminate; auto]);
      intros q Hq; simpl in Hq; repeat (destruct Hq as [<-|Hq]; [discriminate|]); destruct Hq.
  - intros i Hi [IB [L1 [SP W]]]. simpl in Hi.
    destruct Hi as [<-|[<-|[<-|[<-|[<-|[]]]]]]; simpl in *; try lia; try discriminate;
      destruct W as [W|[W1 W2]]; try lia; try discriminate.
Qed.

(* the hypothesis no_uuid of c10_separate / c10_recompose is NECESSARY: one-qubit barriers that already carry a
   reserved "_uuid=" label are merged although they were separate barriers in the input *)
Example c10_ex_no_uuid_needed :
  let c := [mkI (Barrier (Some 5)) [0] []; mkI (Barrier (Some 5)) [1] []] in
  separate_circuit 2 [] c (Some [Some 0; Some 0]) = Ok ([(0, 2, [B [0; 1]])], [Some (0, 0); Some (0, 1)]) /\
  flat_map (restrict_instr [Some 0; Some 0] 0) c = c.
Proof. split; reflexivity. Qed.

(* two partitions measuring into the SAME clbit: the interleaving must keep the clbit order (cproj premise) *)
Definition M q k := mkI Measure [q] [k].
Definition ex5 : circ := [G 0 [0]; M 0 0; G 1 [1; 2]; M 1 0].
Definition ex5_R : tcirc := [(1, G 1 [1; 2]); (0, G 0 [0]); (1, M 0 0); (2, M 1 0)].
Example c10_ex_shared_clbit :
  separate_circuit 3 [[0]] ex5 (Some ex1_labels) =
    Ok ([(0, 1, [G 0 [0]; M 0 0]); (1, 2, [G 1 [0; 1]; M 0 0])], [Some (0, 0); Some (1, 0); Some (1, 1)]) /\
  visible ex5_R /\
  (forall q, hproj q ex5_R = match nth q ex1_labels None with
                             | Some l => hproj q (restrict_tagged ex1_labels l (tagc ex5))
                             | None => []
                             end) /\
  (forall k, cproj k ex5_R = cproj k (tagc ex5)) /\ NoDup (ctags ex5_R) /\
  map snd ex5_R <> ex5 /\
  hrun (hinit 3 1) ex5_R = denote 3 1 ex5 /\
  denote 3 1 (map snd ex5_R) = rn_state (retag_fun (ctags ex5_R) (ctags (tagc (map snd ex5_R)))) (denote 3 1 ex5) /\
  denote 3 1 (map snd ex5_R) <> denote 3 1 ex5.
Proof.
  split; [reflexivity|]. split.
  { intros ti Hti. simpl in Hti. destruct Hti as [<-|[<-|[<-|[<-|[]]]]]; right; discriminate. }
  split; [intros [|[|[|[|q]]]]; reflexivity|]. split; [intros [|[|k]]; reflexivity|].
  split; [repeat constructor; simpl; intuition discriminate|].
  split; [discriminate|]. split; [reflexivity|]. split; [reflexivity|discriminate].
Qed.

(* refusals, one per disjunct *)
Example c10_ex_refuse_spanning : separate_circuit 3 [] ex1 (Some [Some 0; Some 0; Some 1]) = Refused.
Proof. reflexivity. Qed.
Example c10_ex_refuse_none_gate : separate_circuit 3 [] ex2 (Some [Some 0; None; Some 1]) = Refused.
Proof. reflexivity. Qed.
Example c10_ex_refuse_none_barrier : separate_circuit 3 [] ex1 (Some [Some 0; Some 1; None]) = Refused.
Proof. reflexivity. Qed.
Example c10_ex_refuse_count : separate_circuit 3 [] ex2 (Some [Some 0; Some 0]) = Refused.
Proof. reflexivity. Qed.
Example c10_ex_refuse_problem :
  partition_problem bo rl expand_qpd2 3 0 0 ex3 (Some [Some 4; Some 4]) None = Refused /\
  partition_problem bo rl expand_qpd2 3 0 0 ex3 None (Some [mkP 0 [3; 3]]) = Refused /\
  partition_problem bo rl expand_qpd2 3 0 0 ex3 None (Some [mkP 1 [3; 3; 3]]) = Refused /\
  partition_problem bo rl expand_qpd2 3 1 1 ex3 None None = Refused /\
  partition_problem bo rl expand_qpd2 3 0 0 [G 2 [0; 1]] (Some [Some 0; Some 1; Some 1]) None = Refused /\
  partition_problem bo rl expand_qpd2 3 0 0 [G 7 [0; 1; 2]] (Some [Some 0; Some 1; Some 1]) None = Refused.
Proof. repeat split; reflexivity. Qed.
Example c10_ex_no_uuid_ex3 : no_uuid ex3 /\ (forall i, In i ex3 -> ~ numeric_half i) /\ shape_ok 3 ex3.
Proof.
  split; [|split; [|split]].
  - intros i Hi. simpl in Hi. destruct Hi as [<-|[<-|[<-|[<-|[<-|[]]]]]]; reflexivity.
  - intros i Hi [b [h [bid [lb [k E]]]]]. simpl in Hi. destruct Hi as [<-|[<-|[<-|[<-|[<-|[]]]]]]; discriminate.
  - intros i q Hi Hq. simpl in Hi. destruct Hi as [<-|[<-|[<-|[<-|[<-|[]]]]]]; simpl in Hq; lia.
  - intros i Hi. simpl in Hi. destruct Hi as [<-|[<-|[<-|[<-|[<-|[]]]]]]; simpl;
      (split; [discriminate|split; [reflexivity|intros; try reflexivity; try discriminate]]).
Qed.
(* hypotheses of c10_idle_observable_problem on ex2 with automatic labels (qubit 2 idle, observable ZZZ) *)
Example c10_ex_idle_refused_hyps :
  let ls := labels_used 3 ex2 None in
  input_ok ls ex2 /\ (forall i, In i ex2 -> ~ uncuttable bo ls i) /\ nth 2 ls None = None.
Proof.
  cbv zeta. split; [|split; [|reflexivity]].
  - intros i Hi. simpl in Hi. destruct Hi as [<-|[<-|[]]]; simpl;
      (split; [discriminate|split; [reflexivity|split; [|discriminate]]]);
      intros q Hq; simpl in Hq; repeat (destruct Hq as [<-|Hq]; [discriminate|]); destruct Hq.
  - intros i Hi [IB [L1 [SP W]]]. simpl in Hi. destruct Hi as [<-|[<-|[]]]; simpl in *; try lia.
Qed.

(* F4 witness class on the repaired model: IZZ is answered without a None key, ZZZ is refused *)
Example c10_ex_idle_obs_ok :
  partition_problem bo rl expand_qpd2 3 0 0 ex2 None (Some [mkP 0 [3; 3; 0]]) =
  Ok ([(0, 2, [G 0 [0]; G 1 [0; 1]])], [], Some [(0, [mkP 0 [3; 3]])]).
Proof. reflexivity. Qed.
Example c10_ex_idle_obs_refused :
  partition_problem bo rl expand_qpd2 3 0 0 ex2 None (Some [mkP 0 [3; 3; 3]]) = Refused.
Proof. reflexivity. Qed.

(* ------------------------------------------------------------------------------------------------ *)
(* tie to the source (regenerated facts): stage order, refusal sites, the repaired idle-group handling *)
From CKT Require Import Extracted.Facts.
Open Scope string_scope.
Definition sites_of (f : string) : nat :=
  match List.find (fun p => String.eqb (fst p) f) value_error_sites with Some p => snd p | None => 0 end.
Theorem c10_facts :
  c10_separate_calls = ["_split_barriers"; "_partition_labels_from_circuit"; "_qubit_map_from_partition_labels";
                        "_separate_instructions_by_partition"; "_circuit_from_instructions"; "_combine_barriers"] /\
  c10_problem_calls = ["_partition_labels_from_circuit"; "partition_circuit_qubits"; "decompose"; "separate_circuit";
                       "decompose_observables"] /\
  c10_auto_ignores_qpd2 = true /\ c10_keep_idle_default = false /\ c10_label_suffix = "{}_{}" /\
  sites_of "utils.transforms:separate_circuit" = 1 /\
  sites_of "utils.transforms:_separate_instructions_by_partition" = 2 /\
  sites_of "cutting_decomposition:partition_circuit_qubits" = 2 /\
  sites_of "cutting_decomposition:cut_gates" = 1 /\
  (* repaired behaviour F4: four validations + the idle-observable refusal; the None group is popped *)
  sites_of "cutting_decomposition:partition_problem" = 5 /\
  c10_idle_group_removed = true /\
  (* repaired behaviour F16: the renamed placeholder drops its cached definition, so the halves carry the new label
     whatever was read before the call (the model has no call history) *)
  c10_relabel_resets_definition = true.
Proof. repeat split; reflexivity. Qed.

Print Assumptions c10_split_barriers.
Print Assumptions c10_combine_barriers.
Print Assumptions c10_separate.
Print Assumptions c10_exactly_one.
Print Assumptions c10_members.
Print Assumptions c10_commute.
Print Assumptions c10_recompose.
Print Assumptions c10_union_find.
Print Assumptions c10_auto_idle.
Print Assumptions c10_keep_idle_wires.
Print Assumptions c10_separate_drops_idle.
Print Assumptions c10_dx_contract_inhabited.
Print Assumptions c10_cuts.
Print Assumptions c10_problem_recompose.
Print Assumptions c10_subobs_keys.
Print Assumptions c10_subobs_tensor.
Print Assumptions c10_problem_subobs.
Print Assumptions c10_separate_total.
Print Assumptions c10_cutting_total.
Print Assumptions c10_problem_total.
Print Assumptions c10_problem_total_auto.
Print Assumptions c10_separate_total_auto.
Print Assumptions c10_recompose_circuit.
Print Assumptions c10_cut_decision.
Print Assumptions c10_cuts_only.
Print Assumptions c10_auto_components.
Print Assumptions c10_separate_refuses.
Print Assumptions c10_problem_refuses.
Print Assumptions c10_idle_observable.
Print Assumptions c10_idle_observable_problem.
Print Assumptions c10_facts.

(* Properties/C19.v — Wire cuts without qubit re-use yield reset-free subexperiments.
   Only theorem statements closed by `exact`, non-vacuity examples, facts obligations, Print Assumptions.

   Vocabulary (Model/ResetFree.v; the passes are those of Model/ResetPasses.v, the decomposition that of
   Model/Decompose.v, the measurement register/suffix those of Model/Measurement.v):
     three_passes nq c     = _consolidate_resets (_remove_final_resets (_remove_resets_in_zero_state c)), as applied to
                             every subexperiment (early exits and index deletion modelled)
     proj_q q c            = the instructions of c acting on qubit q, in order ("the wire q")
     resets_wf nq c        = every Reset of c acts on exactly one qubit q < nq  (implied by ResetPasses.wf)
     drop_resets / trim_resets / squash false
                           = strip the leading Resets / strip the trailing Resets / keep the first Reset of every run
     wflags q c            = the wire q as flags (true = Reset);  Wb l = "true only at the beginning and at the end"
     reset_pattern_ok nq c = Wb on every wire;  reset_pattern_pointwise c = every Reset is leading or trailing on its wire
     finish gh gsx env qc ids ms g idx
                           = one returned subexperiment: append "observable_measurements", decompose the placeholders
                             with map ids ms, [F2 repair: if the group measures nothing (idx = []), remove final resets],
                             append the basis rotations/measurements (dummy measurement of qubit 0 if idx = []),
                             three_passes.  REPAIRED behaviour (DESIGN section 6, F2).
     basis_class env b     = 0: no sequence of basis b contains a Reset; 1: Move-like (source sequences have their Resets
                             at the end, destination sequences at the beginning); 2: other
     no_reuse env nq sub   = sub has no Reset of its own; every placeholder has class 0 or 1 and proper arity; every
                             Move-like SOURCE (half 0 / first qubit) is the LAST instruction on its qubit, every Move-like
                             DESTINATION (half 1 / second qubit) the FIRST one on its qubit
     suffix_avoids_sources env sub idx
                           = no measured qubit (cog.pauli_indices) is a source qubit
     input_ok env c        (Proofs/ResetFreeSep.v) c has no Reset and no SingleQubitQPDGate; a TwoQubitQPDGate in c has a
                           basis of class 0 and two different qubits.  Section (4b): cut_wires_gen / expand / new_qubits =
                           C03's model, partition_problem / dx_contract / no_uuid = C10's, collection / grouping_contract
                           = C11's                                                                                    *)
From CKT Require Import Common.Base Common.Circ Common.Herbrand
  Model.ResetPasses Model.Decompose Model.Measurement Model.ResetFree
  Proofs.ResetPassesP Proofs.DecomposeP Proofs.ResetFreeP.

(* ------------------------------------------------------------------------------------------------
   (1) post-conditions of the three passes — EVERY workflow, any circuit (re-used qubits included) *)

(* what the three passes do to one wire *)
Theorem c19_wire_normal_form : forall nq c q, resets_wf nq c = true -> q < nq ->
  proj_q q (three_passes nq c) = squash false (trim_resets (drop_resets (proj_q q c))).
Proof. exact pipeline_wire. Qed.

(* no Reset is the first instruction on its qubit *)
Theorem c19_no_leading : forall nq c, resets_wf nq c = true ->
  forall q x rest, proj_q q (three_passes nq c) = x :: rest -> is_reset x = false.
Proof. exact passes_no_leading. Qed.

(* no Reset is the last instruction on its qubit *)
Theorem c19_no_trailing : forall nq c, resets_wf nq c = true ->
  forall q pre x, proj_q q (three_passes nq c) = pre ++ [x] -> is_reset x = false.
Proof. exact passes_no_trailing. Qed.

(* no two Resets on a qubit without another instruction on that qubit in between *)
Theorem c19_no_double : forall nq c, resets_wf nq c = true ->
  forall q pre a b post, proj_q q (three_passes nq c) = pre ++ a :: b :: post -> is_reset a = true -> is_reset b = false.
Proof. exact passes_no_double. Qed.

Theorem c19_wf_resets_wf : forall nq nc c, wf nq nc c = true -> resets_wf nq c = true.
Proof. exact wf_resets_wf. Qed.

(* ------------------------------------------------------------------------------------------------
   (2) the sufficient pattern: Resets only at the beginning and at the end of every wire => none survives.
   The early exits of the zero-state pass (all qubits active) and of the final pass (all qubits touched) are part of
   the modelled passes; the wire normal form above shows they never leave a leading/trailing Reset behind. *)
Theorem c19_pattern_reset_free : forall nq c, resets_wf nq c = true -> reset_pattern_ok nq c ->
  count_resets (three_passes nq c) = 0.
Proof. exact pattern_reset_free. Qed.

Theorem c19_pattern_pointwise : forall nq c, resets_wf nq c = true -> reset_pattern_pointwise c -> reset_pattern_ok nq c.
Proof. exact pattern_of_pointwise. Qed.

(* ------------------------------------------------------------------------------------------------
   (3) no re-use => no Reset in the subexperiment, for every map choice, every observable group (including the
   identity group with its dummy measurement), every classical register layout *)
Theorem c19_no_reset : forall gh gsx (env : benv) qc ids ms g idx out,
  valid env (mdata qc) ids ms ->
  no_reuse env (mnq qc) (mdata qc) ->
  suffix_avoids_sources env (mdata qc) idx ->
  finish gh gsx env qc ids ms g idx = Ok out -> count_resets out = 0.
Proof. exact finish_no_reset. Qed.

(* the circuit handed to the passes: Move-like sources end their wire, destinations begin it, hence the pattern *)
Theorem c19_pre_pass_pattern : forall (env : benv) nq sub K idx sfx,
  no_reuse env nq sub ->
  (forall y, In y sfx -> is_reset y = false) ->
  (idx <> [] -> forall x q, In x sub -> src_qubit env x = Some q -> forall y, In y sfx -> ~ In q (iqs y)) ->
  let c := maybe_remove_final nq idx (measures_numbered K (flat_map (splice env) sub)) ++ sfx in
  resets_wf nq c = true /\ reset_pattern_ok nq c.
Proof. exact pre_pass_pattern. Qed.

(* the hypotheses are decidable; the boolean forms are sound *)
Theorem c19_no_reuseb_sound : forall env nq sub, no_reuseb env nq sub = true -> no_reuse env nq sub.
Proof. exact no_reuseb_sound. Qed.
Theorem c19_suffix_avoids_sourcesb_sound : forall env sub idx,
  suffix_avoids_sourcesb env sub idx = true -> suffix_avoids_sources env sub idx.
Proof. exact suffix_avoids_sourcesb_sound. Qed.

(* NAMING: the "values" statements below are statements about the Herbrand TERMS of the classical bits (hence
   `_bit_terms`).  "Reconstructed values unaffected" additionally needs M1 (equal terms => equal laws), the masking of
   the placeholder bit (c19_placeholder_bit_masked below, from C11) and the reconstruction formula (C06); these are
   cited, the last two are not composed into one statement. *)
(* ------------------------------------------------------------------------------------------------
   (5) values.  The three passes leave the Herbrand term of EVERY classical bit unchanged (C12, c12_pipeline_semantics);
   the repair step changes no classical bit that the appended suffix does not write.  For the dummy suffix the only
   written bit is the single bit of "observable_measurements", which every observable of the group masks out
   (bitmask 0: Properties/C11.v, c11_dummy) — that last step is argued, not part of this statement. *)
Theorem c19_passes_bit_terms : forall nq nc c, wf nq nc c = true ->
  hc (denote nq nc (three_passes nq c)) = hc (denote nq nc c).
Proof. exact passes_values. Qed.

Theorem c19_repair_bit_terms : forall nq nc d sfx k, wf nq nc d = true ->
  (forall y, In y sfx -> ~ In k (ics y)) ->
  nth k (hc (denote nq nc (remove_final_resets nq d ++ sfx))) None = nth k (hc (denote nq nc (d ++ sfx))) None.
Proof. exact repair_values. Qed.

(* ------------------------------------------------------------------------------------------------
   (1') and (5') on the RETURNED SUBEXPERIMENT itself ([finish]), every workflow: re-used qubits, user resets,
   any observables, any map choice.  sub_wf: every Reset of the subcircuit acts on one qubit of the circuit and every
   placeholder acts inside the circuit (no no_reuse hypothesis). *)
Theorem c19_finish_postconditions : forall gh gsx (env : benv) qc ids ms g idx out,
  valid env (mdata qc) ids ms -> sub_wf (mnq qc) (mdata qc) = true ->
  finish gh gsx env qc ids ms g idx = Ok out ->
  no_leading_reset out /\ no_trailing_reset out /\ no_double_reset out.
Proof. exact finish_postconditions. Qed.

(* [reference] = the same subexperiment with NO reset removed (register, decomposition, measurement suffix).  Every
   classical bit of the returned subexperiment carries the Herbrand term it has in the reference - all of them when the
   group measures something; all but the placeholder bit (bit [mnc qc], the single bit of "observable_measurements")
   for an identity group.  Composite of c19_passes_bit_terms (three passes) and c19_repair_bit_terms (repair step).
   What is NOT proved here: that equal terms give equal laws (M1), that the placeholder bit is masked out of every
   observable (C11, c11_dummy) and that the reconstruction is a function of these bit laws (C06). *)
Theorem c19_finish_bit_terms : forall gh gsx (env : benv) qc ids ms g idx out r ncl,
  valid env (mdata qc) ids ms ->
  finish gh gsx env qc ids ms g idx = Ok out -> reference gh gsx env qc ids ms g idx = Ok r ->
  wf (mnq qc) ncl (mdata r) = true ->
  forall k, (idx = [] -> k <> mnc qc) ->
  nth k (hc (denote (mnq qc) ncl out)) None = nth k (hc (denote (mnq qc) ncl (mdata r))) None.
Proof. exact finish_values. Qed.

(* sub_ok: ResetPasses.wf_instr on every instruction (indices in range, Reset/Measure arities) plus the arities
   QuantumCircuit.append enforces for SingleQubitQPDGate / TwoQubitQPDGate / QPDMeasure.  Under it the reference circuit
   EXISTS whenever the subexperiment does and IS well-formed (on the subexperiment's own classical bits, mnc r): the
   wf hypothesis of c19_finish_bit_terms is discharged. *)
Theorem c19_reference_total : forall gh gsx (env : benv) qc ids ms g idx out,
  valid env (mdata qc) ids ms -> sub_ok (mnq qc) (mnc qc) (mdata qc) = true ->
  finish gh gsx env qc ids ms g idx = Ok out ->
  exists r, reference gh gsx env qc ids ms g idx = Ok r /\ mnq r = mnq qc /\ wf (mnq qc) (mnc r) (mdata r) = true.
Proof. exact reference_total. Qed.

(* THE SECOND CLAUSE on the model, for ARBITRARY subcircuits (any bases - Reset anywhere in their sequences -, re-used
   qubits, user resets, any observable group, any map choice): every returned subexperiment has no Reset first, last or
   doubled on any wire, and every classical bit except the placeholder bit of an identity group carries the Herbrand term
   it has in the un-optimised subexperiment.  No no_reuse, no reset-free-basis hypothesis. *)
Theorem c19_second_clause_bit_terms : forall gh gsx (env : benv) qc ids ms g idx out,
  valid env (mdata qc) ids ms -> sub_ok (mnq qc) (mnc qc) (mdata qc) = true ->
  finish gh gsx env qc ids ms g idx = Ok out ->
  (no_leading_reset out /\ no_trailing_reset out /\ no_double_reset out) /\
  exists r, reference gh gsx env qc ids ms g idx = Ok r /\
    wf (mnq qc) (mnc r) (mdata r) = true /\
    forall k, (idx = [] -> k <> mnc qc) ->
      nth k (hc (denote (mnq qc) (mnc r) out)) None = nth k (hc (denote (mnq qc) (mnc r) (mdata r))) None.
Proof. exact second_clause. Qed.

(* ------------------------------------------------------------------------------------------------
   non-vacuity.  env = [move basis]; gates: 0 = h (also the suffix's H), 1 = sx, 2 = x, 10 = cx, 11 = ry *)
Definition exEnv : benv := [move_basis].
Definition G g qs := mkI (Gate g) qs [].
Definition Mv a b := mkI (Qpd2 0 None None) [a; b] [].

(* a Move chain that RE-USES qubit 0:  h 0; move 0->1; x 1; move 1->0; h 0,  observable Z on qubit 0.
   A Reset survives (qubit 0 is used again after the first Move read from it) — and it is neither first nor last
   nor doubled on its wire. *)
Definition exChain := mkMC 2 0 [] [G 0 [0]; Mv 0 1; G 2 [1]; Mv 1 0; G 0 [0]].
Definition exChainOut : circ :=
  [G 0 [0]; G 0 [0]; mkI Measure [0] [1]; mkI Reset [0] []; G 0 [1]; G 2 [1]; mkI Measure [1] [2];
   G 2 [0]; G 0 [0]; mkI Measure [0] [0]].
Example c19_ex_reuse :
  no_reuseb exEnv 2 (mdata exChain) = false /\
  finish 0 1 exEnv exChain [[1]; [3]] [2; 7]%Z [3; 0] [0] = Ok exChainOut /\
  count_resets exChainOut = 1 /\
  proj_q 0 exChainOut = [G 0 [0]; G 0 [0]; mkI Measure [0] [1]; mkI Reset [0] []; G 2 [0]; G 0 [0]; mkI Measure [0] [0]].
Proof. repeat split; vm_compute; reflexivity. Qed.

Example c19_ex_reuse_hyps :
  valid exEnv (mdata exChain) [[1]; [3]] [2; 7]%Z /\ sub_wf 2 (mdata exChain) = true /\
  sub_ok (mnq exChain) (mnc exChain) (mdata exChain) = true /\
  (exists r, reference 0 1 exEnv exChain [[1]; [3]] [2; 7]%Z [3; 0] [0] = Ok r /\ wf 2 3 (mdata r) = true /\
             count_resets (mdata r) = 4).
Proof.
  split; [apply validb_sound; vm_compute; reflexivity|]. split; [vm_compute; reflexivity|]. split; [vm_compute; reflexivity|].
  eexists. split; [vm_compute; reflexivity|]. split; vm_compute; reflexivity.
Qed.

(* the F2 witness shape: partition {source segment, other qubit} of  h 0; cx 0 1; CutWire 0; rx 0; ry 1  with observable
   IZ: the group is the identity (idx = []), the source half ends qubit 0 with a Reset, the dummy measurement reads
   qubit 0.  The hypotheses of c19_no_reset hold and the model returns no Reset ... *)
Definition exF2 := mkMC 2 0 [] [G 0 [0]; G 10 [0; 1]; mkI (Qpd1 0 0 None (Some (0, Some 0))) [0] []; G 11 [1]].
Example c19_ex_f2 :
  valid exEnv (mdata exF2) [[2]] [2%Z] /\
  no_reuse exEnv 2 (mdata exF2) /\ suffix_avoids_sources exEnv (mdata exF2) [] /\
  finish 0 1 exEnv exF2 [[2]] [2%Z] [0; 0] [] =
    Ok [G 0 [0]; G 10 [0; 1]; G 0 [0]; mkI Measure [0] [1]; G 11 [1]; mkI Measure [0] [0]].
Proof.
  split; [apply validb_sound; vm_compute; reflexivity|].
  split; [apply no_reuseb_sound; vm_compute; reflexivity|].
  split; [apply suffix_avoids_sourcesb_sound; vm_compute; reflexivity|].
  vm_compute; reflexivity.
Qed.
(* ... whereas WITHOUT the repair step (dummy measurement appended right after the decomposition, as the unrepaired
   /repo does) the trailing Reset is no longer final and survives the three passes *)
Example c19_ex_f2_unrepaired :
  let d := [G 0 [0]; G 10 [0; 1]; G 0 [0]; mkI Measure [0] [1]; mkI Reset [0] []; G 11 [1]] in
  decompose exEnv (mdata exF2) 1 [[2]] (Some [Some 2%Z]) = Ok (d, 1) /\
  count_resets (three_passes 2 (d ++ [mkI Measure [0] [0]])) = 1 /\
  count_resets (three_passes 2 (remove_final_resets 2 d ++ [mkI Measure [0] [0]])) = 0.
Proof. repeat split; vm_compute; reflexivity. Qed.

(* an observable on the destination side: rotation + measurement appended after the prepared state, still no Reset *)
Definition exDst := mkMC 1 0 [] [mkI (Qpd1 0 1 None (Some (0, Some 0))) [0] []; G 11 [0]].
Example c19_ex_dst :
  no_reuse exEnv 1 (mdata exDst) /\ suffix_avoids_sources exEnv (mdata exDst) [0] /\
  finish 0 1 exEnv exDst [[0]] [3%Z] [1] [0] =
    Ok [G 2 [0]; G 0 [0]; G 11 [0]; G 0 [0]; mkI Measure [0] [0]].
Proof.
  split; [apply no_reuseb_sound; vm_compute; reflexivity|].
  split; [apply suffix_avoids_sourcesb_sound; vm_compute; reflexivity|].
  vm_compute; reflexivity.
Qed.

(* RIDER to the first clause: c19_no_reset needs suffix_avoids_sources, and the hypothesis is NECESSARY.  Same
   subcircuit as exF2, but the group measures Z on qubit 0, the Move source (possible only with hand-placed Moves:
   after cut_wires/expand_observables a source carries the identity): no_reuse holds, suffix_avoids_sources fails, and
   one Reset stays between the QPD measurement and the observable measurement of the source - it has to (the
   measurement must read |0>; removing it changes the values, cf. seeded change C19-1).  The implementation does the same
   (`h 0; Move(0,1); s 1`, observable `IZ`: every subexperiment of the source's partition keeps one reset).  The first
   clause is therefore proved for observables that are the identity on every Move source; an observable on a source
   counts as a use of that qubit. *)
Example c19_ex_obs_on_source :
  no_reuseb exEnv 2 (mdata exF2) = true /\ suffix_avoids_sourcesb exEnv (mdata exF2) [0] = false /\
  finish 0 1 exEnv exF2 [[2]] [2%Z] [3; 0] [0] =
    Ok [G 0 [0]; G 10 [0; 1]; G 0 [0]; mkI Measure [0] [1]; mkI Reset [0] []; G 11 [1]; mkI Measure [0] [0]] /\
  (forall out, finish 0 1 exEnv exF2 [[2]] [2%Z] [3; 0] [0] = Ok out -> count_resets out = 1).
Proof.
  split; [vm_compute; reflexivity|]. split; [vm_compute; reflexivity|]. split; [vm_compute; reflexivity|].
  intros out H. vm_compute in H. injection H as <-. reflexivity.
Qed.

(* reset_pattern_ok holds non-trivially (resets at both ends of wire 0, a wire carrying only a reset) and none survives *)
Example c19_ex_pattern :
  let c := [mkI Reset [0] []; G 0 [0]; mkI Reset [0] []; mkI Reset [1] []] in
  resets_wf 2 c = true /\ Wb (wflags 0 c) = true /\ Wb (wflags 1 c) = true /\ three_passes 2 c = [G 0 [0]].
Proof. repeat split; vm_compute; reflexivity. Qed.

(* the post-conditions say something: an input on which each pass has work to do *)
Example c19_ex_passes :
  let c := [mkI Reset [0] []; G 0 [0]; mkI Reset [0] []; mkI Reset [0] []; G 0 [0]; mkI Reset [0] []; mkI Reset [1] []] in
  resets_wf 2 c = true /\ three_passes 2 c = [G 0 [0]; mkI Reset [0] []; G 0 [0]].
Proof. split; vm_compute; reflexivity. Qed.

Print Assumptions c19_wire_normal_form.
Print Assumptions c19_no_leading.
Print Assumptions c19_no_trailing.
Print Assumptions c19_no_double.
Print Assumptions c19_wf_resets_wf.
Print Assumptions c19_pattern_reset_free.
Print Assumptions c19_pattern_pointwise.
Print Assumptions c19_no_reset.
Print Assumptions c19_pre_pass_pattern.
Print Assumptions c19_no_reuseb_sound.
Print Assumptions c19_suffix_avoids_sourcesb_sound.
Print Assumptions c19_passes_bit_terms.
Print Assumptions c19_repair_bit_terms.
Print Assumptions c19_finish_postconditions.
Print Assumptions c19_finish_bit_terms.
Print Assumptions c19_reference_total.
Print Assumptions c19_second_clause_bit_terms.

(* ------------------------------------------------------------------------------------------------
   (4) circuits produced by cut_wires (Model/CutWires.v, the C03 model) satisfy no_reuse: the Move placeholder of a
   marker reads from the current position of the cut qubit, which is never used afterwards, and writes to the next
   position, which was never used before.  Stated on the UNSEPARATED circuit (TwoQubitQPDGate placeholders), which is
   what generate_cutting_experiments accepts directly.  This gives only the no_reuse hypothesis of c19_no_reset; the other
   one, suffix_avoids_sources for the expanded observables, is discharged for the unseparated call in section (4c)
   (c19_unseparated_no_reset) and for the separated workflow in section (4b). *)
From CKT Require Import Model.Observables Model.CutWires Proofs.ResetFreeCut.

Theorem c19_cut_wires_no_reuse : forall (env : benv) nq c b bid lbl,
  wf_circ nq c = true -> no_resets c = true -> no_placeholders c = true ->
  basis_class env b = 1 ->
  no_reuse env (nq + CutWires.count_markers c) (cut_wires_gen (Qpd2 b bid lbl) nq c).
Proof. exact cut_wires_no_reuse. Qed.

(* h 0; cx 0 1; CutWire 0; rx 0; ry 1  (gates 0 = h, 10 = cx, 12 = rx, 11 = ry) *)
Example c19_ex_cut_wires :
  let c := [G 0 [0]; G 10 [0; 1]; mkI CutWire [0] []; G 12 [0]; G 11 [1]] in
  wf_circ 2 c = true /\ no_resets c = true /\ no_placeholders c = true /\ basis_class exEnv 0 = 1 /\
  cut_wires_gen (Qpd2 0 None None) 2 c = [G 0 [0]; G 10 [0; 2]; Mv 0 1; G 12 [1]; G 11 [2]] /\
  no_reuseb exEnv 3 (cut_wires_gen (Qpd2 0 None None) 2 c) = true.
Proof. repeat split; vm_compute; reflexivity. Qed.

Print Assumptions c19_cut_wires_no_reuse.

(* ------------------------------------------------------------------------------------------------
   (4b) the SEPARATED workflow:  cut_wires  ->  expand_observables  ->  partition_problem  ->  one subexperiment per
   partition / commuting observable group / map choice.  Models: Model/CutWires.v (C03), Model/Observables.v [expand],
   Model/Partition.v + Model/Separate.v (C10; oracles basis_of / relabel / dx with C10's contract [dx_contract]),
   Model/Grouping.v [collection] (C11; the Qiskit grouping is an oracle with C11's monitored contract
   [grouping_contract]), Model/ResetFree.v [finish].
   Hypotheses on the input circuit c (nq qubits, wire-cut markers anywhere):
     wf_circ nq c                          as in c19_cut_wires_no_reuse
     input_ok env c                        no Reset, no SingleQubitQPDGate; a TwoQubitQPDGate already present (a gate cut) has a
                                           basis without Reset and acts on two different qubits.  Weaker than
                                           no_resets + no_placeholders (c19_input_ok_plain)
     no_uuid c                             no one-qubit barrier carries the label text _split_barriers generates (C10)
     basis_class env b = 1                 the basis cut_wires puts on a marker is Move-like (the `move` table: c19_facts_move_shape)
     forall i in c, basis_of (iop i) = Some (b', _) -> basis_class env b' = 0
                                           whatever gate partition_problem additionally cuts, its basis has no Reset
   The labelling is arbitrary (explicit list or None = automatic); only success of partition_problem is assumed.
   Proof idea (Proofs/ResetFreeSep.v): "source = last / destination = first instruction on its qubit" is a statement
   about single wires; every step of partition_problem (placeholder insertion, numbering, TwoQubitQPDGate halves, the
   oracle dx, restriction to a label, qubit re-indexing) keeps every wire's sequence (C10: problem_recompose), and a
   source position of cut_wires is never the position of an original qubit, where alone expanded observables are
   non-identity (C03: c03_expand_letters); restriction keeps letters (C17), a group's measured qubits are the
   non-identity positions of some member (C11). *)
From CKT Require Import Model.Separate Model.Partition Model.Grouping Proofs.SeparateP Proofs.PartitionP Proofs.ResetFreeSep.

Theorem c19_input_ok_plain : forall env c, no_resets c = true -> no_placeholders c = true -> input_ok env c = true.
Proof. exact input_ok_plain. Qed.

(* c19_cut_wires_no_reuse with gate-cut placeholders allowed in the input *)
Theorem c19_cut_wires_no_reuse_gen : forall (env : benv) nq c b bid lbl,
  wf_circ nq c = true -> input_ok env c = true -> basis_class env b = 1 ->
  no_reuse env (nq + CutWires.count_markers c) (cut_wires_gen (Qpd2 b bid lbl) nq c).
Proof. exact cut_wires_no_reuse_gen. Qed.

(* every subcircuit satisfies no_reuse, for any labelling that partition_problem accepts, any observables *)
Theorem c19_separated_no_reuse : forall basis_of relabel dx, dx_contract dx ->
  forall (env : benv) nq c b bid lbl,
  wf_circ nq c = true -> input_ok env c = true -> no_uuid c ->
  basis_class env b = 1 ->
  (forall i b' l', In i c -> basis_of (iop i) = Some (b', l') -> basis_class env b' = 0) ->
  forall labels obs ncl ncr subs bases so,
  partition_problem basis_of relabel dx (nq + CutWires.count_markers c) ncl ncr
    (cut_wires_gen (Qpd2 b bid lbl) nq c) labels obs = Ok (subs, bases, so) ->
  forall l nql body, In (l, nql, body) subs -> no_reuse env nql body.
Proof. exact separated_no_reuse. Qed.

(* for the observables expanded from the original circuit (ps: one letter per original qubit), the measured qubits of
   every commuting group of every partition avoid the source qubits *)
Theorem c19_separated_suffix : forall basis_of relabel dx, dx_contract dx ->
  forall (env : benv) nq c b bid lbl,
  wf_circ nq c = true -> input_ok env c = true -> no_uuid c ->
  basis_class env b = 1 ->
  (forall i b' l', In i c -> basis_of (iop i) = Some (b', l') -> basis_class env b' = 0) ->
  forall ps eps labels ncl ncr subs bases so,
  (forall p, In p ps -> length (plets p) = nq) ->
  expand nq (seq 0 nq) (new_qubits nq c) ps = Ok eps ->
  partition_problem basis_of relabel dx (nq + CutWires.count_markers c) ncl ncr
    (cut_wires_gen (Qpd2 b bid lbl) nq c) labels (Some eps) = Ok (subs, bases, Some so) ->
  forall l nql body so_l, In (l, nql, body) subs -> In (l, so_l) so ->
  forall o cogs lk cog, grouping_contract so_l o = true -> collection so_l o = Ok (cogs, lk) -> In cog cogs ->
  suffix_avoids_sources env body (cg_indices cog).
Proof. exact separated_suffix. Qed.

(* hence: every partition, every group (the identity group with its dummy measurement included), every valid map
   choice, every classical register layout of the subcircuit -> zero Resets *)
Theorem c19_separated_no_reset : forall basis_of relabel dx, dx_contract dx ->
  forall (env : benv) gh gsx nq c b bid lbl,
  wf_circ nq c = true -> input_ok env c = true -> no_uuid c ->
  basis_class env b = 1 ->
  (forall i b' l', In i c -> basis_of (iop i) = Some (b', l') -> basis_class env b' = 0) ->
  forall ps eps labels ncl ncr subs bases so,
  (forall p, In p ps -> length (plets p) = nq) ->
  expand nq (seq 0 nq) (new_qubits nq c) ps = Ok eps ->
  partition_problem basis_of relabel dx (nq + CutWires.count_markers c) ncl ncr
    (cut_wires_gen (Qpd2 b bid lbl) nq c) labels (Some eps) = Ok (subs, bases, Some so) ->
  forall l nql body so_l, In (l, nql, body) subs -> In (l, so_l) so ->
  forall o cogs lk cog, grouping_contract so_l o = true -> collection so_l o = Ok (cogs, lk) -> In cog cogs ->
  forall qc ids ms out, mnq qc = nql -> mdata qc = body -> valid env body ids ms ->
  finish gh gsx env qc ids ms (plets (cg_general cog)) (cg_indices cog) = Ok out ->
  count_resets out = 0.
Proof. exact separated_no_reset_full. Qed.

(* non-vacuity: the F2 witness through the separated workflow.  h 0; cx 0 1; CutWire 0; rx 0; ry 1, observable Z on
   original qubit 0, automatic labels: partition 0 = {source segment of qubit 0, qubit 1} gets the identity (dummy
   measurement of its qubit 0 = the source), partition 1 = {destination segment} gets Z. *)
Definition exSepC : circ := [G 0 [0]; G 10 [0; 1]; mkI CutWire [0] []; G 12 [0]; G 11 [1]].
Definition exSepBo (o : op) : option (nat * qlabel) := None.
Definition exSepRl (l : qlabel) : nat := match l with Some (b, _) => b | None => 9 end.
Definition exSepA : circ := [G 0 [0]; G 10 [0; 1]; mkI (Qpd1 0 0 None (Some (7, Some 0))) [0] []; G 11 [1]].
Definition exSepB : circ := [mkI (Qpd1 0 1 None (Some (7, Some 0))) [0] []; G 12 [0]].
Example c19_ex_separated :
  wf_circ 2 exSepC = true /\ input_ok exEnv exSepC = true /\ no_uuid exSepC /\
  basis_class exEnv 0 = 1 /\
  expand 2 (seq 0 2) (new_qubits 2 exSepC) [mkP 0 [3; 0]] = Ok [mkP 0 [0; 3; 0]] /\
  partition_problem exSepBo exSepRl expand_qpd2 (2 + CutWires.count_markers exSepC) 0 0
    (cut_wires_gen (Qpd2 0 None (Some (7, None))) 2 exSepC) None (Some [mkP 0 [0; 3; 0]]) =
    Ok ([(0, 2, exSepA); (1, 1, exSepB)], [0], Some [(0, [mkP 0 [0; 0]]); (1, [mkP 0 [3]])]) /\
  (let o := mkOracle [mkP 0 [0; 0]] [[mkP 0 [0; 0]]] in
   grouping_contract [mkP 0 [0; 0]] o = true /\
   collection [mkP 0 [0; 0]] o = Ok ([mkCog (mkP 0 [0; 0]) [mkP 0 [0; 0]] [] [0%N]], [(mkP 0 [0; 0], [(0, 0)])])) /\
  (let o := mkOracle [mkP 0 [3]] [[mkP 0 [3]]] in
   grouping_contract [mkP 0 [3]] o = true /\
   collection [mkP 0 [3]] o = Ok ([mkCog (mkP 0 [3]) [mkP 0 [3]] [0] [1%N]], [(mkP 0 [3], [(0, 0)])])) /\
  valid exEnv exSepA [[2]] [2%Z] /\ valid exEnv exSepB [[0]] [2%Z] /\
  finish 0 1 exEnv (mkMC 2 0 [] exSepA) [[2]] [2%Z] [0; 0] [] =
    Ok [G 0 [0]; G 10 [0; 1]; G 0 [0]; mkI Measure [0] [1]; G 11 [1]; mkI Measure [0] [0]] /\
  finish 0 1 exEnv (mkMC 1 0 [] exSepB) [[0]] [2%Z] [3] [0] = Ok [G 0 [0]; G 12 [0]; mkI Measure [0] [0]].
Proof.
  split; [reflexivity|]. split; [reflexivity|]. split.
  { intros i Hi. repeat (destruct Hi as [<-|Hi]; [reflexivity|]). destruct Hi. }
  split; [reflexivity|]. split; [reflexivity|]. split; [vm_compute; reflexivity|].
  split; [split; vm_compute; reflexivity|]. split; [split; vm_compute; reflexivity|].
  split; [apply validb_sound; vm_compute; reflexivity|]. split; [apply validb_sound; vm_compute; reflexivity|].
  split; vm_compute; reflexivity.
Qed.

(* input_ok accepts a gate-cut placeholder (basis 1 of this environment has no Reset) next to a marker, and refuses a
   Reset, a hand-placed Move-like placeholder and a placeholder on one qubit twice *)
Definition exEnv2 : benv := [move_basis; [([BGate 0], [BGate 2]); ([BMeas], [BGate 0])]].
Example c19_ex_input_ok :
  basis_class exEnv2 0 = 1 /\ basis_class exEnv2 1 = 0 /\
  input_ok exEnv2 [G 0 [0]; mkI (Qpd2 1 None None) [0; 1] []; mkI CutWire [0] []; G 11 [1]] = true /\
  no_reuseb exEnv2 3 (cut_wires_gen (Qpd2 0 None None) 2
                        [G 0 [0]; mkI (Qpd2 1 None None) [0; 1] []; mkI CutWire [0] []; G 11 [1]]) = true /\
  input_ok exEnv2 [mkI Reset [0] []] = false /\ input_ok exEnv2 [mkI (Qpd2 0 None None) [0; 1] []] = false /\
  input_ok exEnv2 [mkI (Qpd2 1 None None) [1; 1] []] = false.
Proof. repeat split; vm_compute; reflexivity. Qed.

Print Assumptions c19_input_ok_plain.
Print Assumptions c19_cut_wires_no_reuse_gen.
Print Assumptions c19_separated_no_reuse.
Print Assumptions c19_separated_suffix.
Print Assumptions c19_separated_no_reset.

(* ------------------------------------------------------------------------------------------------
   (4c) the UNSEPARATED workflow  cut_wires -> expand_observables -> generate_cutting_experiments(circuit, PauliList):
   the measured qubits of every commuting group of the expanded observables avoid every Move source (a source sits
   strictly inside a qubit's block, expanded observables carry the identity there), hence - with c19_cut_wires_no_reuse_gen
   and c19_no_reset - no Reset in any subexperiment.  Hypotheses: input well-formedness (wf_circ, input_ok, letter
   count), the grouping oracle's contract (C11), success of expand/collection/finish. *)
From CKT Require Import Proofs.ResetFreeUnsep.

Theorem c19_unseparated_suffix : forall (env : benv) nq c b bid lbl ps eps o cogs lk cog,
  wf_circ nq c = true -> input_ok env c = true -> basis_class env b = 1 ->
  (forall p, In p ps -> length (plets p) = nq) ->
  expand nq (seq 0 nq) (new_qubits nq c) ps = Ok eps ->
  grouping_contract eps o = true -> collection eps o = Ok (cogs, lk) -> In cog cogs ->
  suffix_avoids_sources env (cut_wires_gen (Qpd2 b bid lbl) nq c) (cg_indices cog).
Proof. exact unseparated_suffix. Qed.

Theorem c19_unseparated_no_reset : forall (env : benv) gh gsx nq c b bid lbl ps eps o cogs lk cog qc ids ms out,
  wf_circ nq c = true -> input_ok env c = true -> basis_class env b = 1 ->
  (forall p, In p ps -> length (plets p) = nq) ->
  expand nq (seq 0 nq) (new_qubits nq c) ps = Ok eps ->
  grouping_contract eps o = true -> collection eps o = Ok (cogs, lk) -> In cog cogs ->
  mnq qc = nq + CutWires.count_markers c -> mdata qc = cut_wires_gen (Qpd2 b bid lbl) nq c ->
  valid env (mdata qc) ids ms ->
  finish gh gsx env qc ids ms (plets (cg_general cog)) (cg_indices cog) = Ok out ->
  count_resets out = 0.
Proof. exact unseparated_no_reset. Qed.

(* partition_problem applied to ANY circuit that already satisfies no_reuse and holds only two-qubit placeholders - the
   cut_wires output, or hand-placed Moves turned into TwoQubitQPDGates by cut_gates: every subcircuit satisfies no_reuse,
   whatever the labelling.  The gates partition_problem cuts ITSELF must have reset-free bases, so a plain `Move`
   instruction that crosses a partition is NOT covered (c19_partitioned_no_reuse_open: the same with class 1 allowed for
   a crossing Move whose source/destination satisfy the wire condition). *)
Theorem c19_partitioned_no_reuse : forall basis_of relabel dx, dx_contract dx ->
  forall (env : benv) n C, no_uuid C -> no_reuse env n C -> no_halves C = true ->
  (forall y b l, In y C -> is_qpd2 y = false -> basis_of (iop y) = Some (b, l) -> basis_class env b = 0) ->
  forall labels obs ncl ncr subs bases so,
  partition_problem basis_of relabel dx n ncl ncr C labels obs = Ok (subs, bases, so) ->
  forall l nql body, In (l, nql, body) subs -> no_reuse env nql body.
Proof. exact partitioned_no_reuse. Qed.

(* the placeholder bit is ignored by the decoding (composition with C11's cog_post_init / decode): when the group
   measures nothing every member's mask is 0 and the decoded factor does not depend on the outcome word *)
Theorem c19_placeholder_bit_masked : forall g members masks,
  cog_post_init g members = Ok ([], masks) ->
  forall j m, nth_error members j = Some m ->
    nth j masks 0%N = 0%N /\ forall b b', decode (nth j masks 0%N) b = decode (nth j masks 0%N) b'.
Proof. exact placeholder_bit_masked. Qed.

(* non-vacuity, unseparated: exSepC, observables Z on original qubit 0 and X on original qubit 1 *)
Definition exUnsEps := [mkP 0 [0; 3; 0]; mkP 0 [0; 0; 1]].
Definition exUnsO := mkOracle exUnsEps [exUnsEps].
Definition exUnsCog := mkCog (mkP 0 [0; 3; 1]) exUnsEps [1; 2] [1%N; 2%N].
Example c19_ex_unseparated :
  expand 2 (seq 0 2) (new_qubits 2 exSepC) [mkP 0 [3; 0]; mkP 0 [0; 1]] = Ok exUnsEps /\
  grouping_contract exUnsEps exUnsO = true /\
  collection exUnsEps exUnsO = Ok ([exUnsCog], [(mkP 0 [0; 3; 0], [(0, 0)]); (mkP 0 [0; 0; 1], [(0, 1)])]) /\
  valid exEnv (cut_wires_gen (Qpd2 0 None None) 2 exSepC) [[2]] [2%Z] /\
  suffix_avoids_sourcesb exEnv (cut_wires_gen (Qpd2 0 None None) 2 exSepC) (cg_indices exUnsCog) = true /\
  (exists out, finish 0 1 exEnv (mkMC 3 0 [] (cut_wires_gen (Qpd2 0 None None) 2 exSepC)) [[2]] [2%Z]
                 (plets (cg_general exUnsCog)) (cg_indices exUnsCog) = Ok out /\ count_resets out = 0 /\ length out = 10).
Proof.
  split; [vm_compute; reflexivity|]. split; [vm_compute; reflexivity|]. split; [vm_compute; reflexivity|].
  split; [apply validb_sound; vm_compute; reflexivity|]. split; [vm_compute; reflexivity|].
  eexists. split; [vm_compute; reflexivity|]. split; reflexivity.
Qed.

(* non-vacuity with the gate-cut hypothesis ACTIVE: partition_problem cuts the cx (basis 1 of exEnv2, no Reset) because
   the labels separate its qubits; dx := expand_qpd2 satisfies dx_contract (Properties/C10.v, c10_dx_contract_inhabited) *)
Definition exBo2 (o : op) : option (nat * qlabel) := match o with Gate 10 => Some (1, Some (5, None)) | _ => None end.
Example c19_ex_separated_gate_cut :
  dx_contract expand_qpd2 /\
  wf_circ 2 exSepC = true /\ input_ok exEnv2 exSepC = true /\ no_uuid exSepC /\ basis_class exEnv2 0 = 1 /\
  (forall i b' l', In i exSepC -> exBo2 (iop i) = Some (b', l') -> basis_class exEnv2 b' = 0) /\
  (exists i l', In i exSepC /\ exBo2 (iop i) = Some (1, l')) /\
  match partition_problem exBo2 exSepRl expand_qpd2 3 0 0 (cut_wires_gen (Qpd2 0 None (Some (7, None))) 2 exSepC)
          (Some [Some 0; Some 1; Some 1]) (Some [mkP 0 [0; 3; 3]]) with
  | Ok (subs, bases, _) =>
      Nat.eqb (length subs) 2 && list_beq Nat.eqb bases [1; 0] &&
      forallb (fun s => no_reuseb exEnv2 (snd (fst s)) (snd s) && existsb is_qpd (snd s)) subs
  | _ => false
  end = true.
Proof.
  split; [exact dx_contract_id|].
  split; [reflexivity|]. split; [reflexivity|]. split.
  { intros i Hi. repeat (destruct Hi as [<-|Hi]; [reflexivity|]). destruct Hi. }
  split; [reflexivity|]. split.
  { intros i b' l' Hi. repeat (destruct Hi as [<-|Hi]; [simpl; intros E; try discriminate; injection E as <- _; reflexivity|]). destruct Hi. }
  split; [exists (G 10 [0; 1]), (Some (5, None)); split; [simpl; tauto|reflexivity]|].
  vm_compute. reflexivity.
Qed.

(* non-vacuity of c19_partitioned_no_reuse on a HAND-PLACED Move: `h 0; Move(0,1); s 1` after cut_gates *)
Definition exHand : circ := [G 0 [0]; mkI (Qpd2 0 None (Some (7, None))) [0; 1] []; G 6 [1]].
Example c19_ex_hand_placed :
  no_uuid exHand /\ no_reuse exEnv 2 exHand /\ no_halves exHand = true /\
  partition_problem exSepBo exSepRl expand_qpd2 2 0 0 exHand None (Some [mkP 0 [0; 3]]) =
    Ok ([(0, 1, [G 0 [0]; mkI (Qpd1 0 0 None (Some (7, Some 0))) [0] []]);
         (1, 1, [mkI (Qpd1 0 1 None (Some (7, Some 0))) [0] []; G 6 [0]])], [0],
        Some [(0, [mkP 0 [0]]); (1, [mkP 0 [3]])]).
Proof.
  split. { intros i Hi. repeat (destruct Hi as [<-|Hi]; [reflexivity|]). destruct Hi. }
  split; [apply no_reuseb_sound; vm_compute; reflexivity|]. split; [reflexivity|]. vm_compute. reflexivity.
Qed.

Print Assumptions c19_unseparated_suffix.
Print Assumptions c19_unseparated_no_reset.
Print Assumptions c19_partitioned_no_reuse.
Print Assumptions c19_placeholder_bit_masked.

(* ------------------------------------------------------------------------------------------------
   facts regenerated from the source on every run *)
From CKT Require Import Extracted.Facts.
From Coq Require Import String.
Open Scope string_scope.

(* the modelled table IS the `move` basis of qpd/decompositions.py ... *)
Theorem c19_facts_move_table : basis_names move_basis = c19_move_table.
Proof. reflexivity. Qed.

(* ... and, computed on that table: every source sequence ends with a Reset and every destination sequence begins with
   one (the property's mechanism); all Resets of a source sequence are at its end, all Resets of a destination sequence
   at its beginning (what c19_no_reset needs: class 1) *)
Theorem c19_facts_move_shape :
  forallb (fun m => ends_with_reset (fst m) && begins_with_reset (snd m)) move_basis = true /\
  move_like move_basis = true /\ basis_reset_free move_basis = false /\
  (forall env : benv, nth 0 (move_basis :: env) [] = move_basis) /\ basis_class [move_basis] 0 = 1.
Proof. repeat split; reflexivity. Qed.

(* what the property needs of the control flow (execution order inside generate_cutting_experiments): register,
   decomposition, the repair (final resets, only when the group measures nothing), the measurement suffix - and only THEN
   the three clean-up passes, all three of them; the dummy measurement reads qubit 0.
   The ORDER of the three passes among themselves and the place of the clean-up loop (inside or after the group loop, as
   long as it follows the suffix) are deliberately NOT pinned: by c19_wire_normal_form each pass acts on a wire as
   drop-leading / trim-trailing / squash-runs on ANY input (early exits included), these commute, and each pass keeps the
   first reset of a surviving run, so every order returns the same instruction list (argued; a different order that did
   change the output would be caught by the correspondence, which compares instruction lists exactly). *)
Theorem c19_facts_order :
  c19_stage_order = ["_append_measurement_register"; "decompose_qpd_instructions";
                     "if-not-pauli_indices:_remove_final_resets"; "_append_measurement_circuit";
                     "pass"; "pass"; "pass"] /\
  c19_pass_names = ["_consolidate_resets"; "_remove_final_resets"; "_remove_resets_in_zero_state"] /\
  c19_dummy_index = 0 /\ pauli_indices_or_dummy [] = [c19_dummy_index].
Proof. repeat split; reflexivity. Qed.

Print Assumptions c19_facts_move_table.
Print Assumptions c19_facts_move_shape.
Print Assumptions c19_facts_order.

(* ------------------------------------------------------------------------------------------------
   (6) which bases contain a Reset.  Model/Bases.v is C02's model of qpd/decompositions.py (qpdbasis_from_instruction: the
   20 registered names and the KAK path; tied to the source by C02's correspondence and facts); [circ_basis] turns its
   terms into the basis form of the splice model.  Among EVERYTHING qpdbasis_from_instruction can return only `move`
   contains a Reset, and `move` is Move-like: the hypothesis "every placeholder's basis has class 0 or 1" of no_reuse
   (part of [allowed]) holds for every environment entry that comes from the registry - in particular for the gates
   partition_problem / cut_gates cut themselves. *)
From CKT Require Import Model.Bases Model.ResetFreeBases Proofs.ResetFreeBases.

Theorem c19_registry_bases_class : forall g b, Bases.basis_of g = Ok b ->
  class_of (circ_basis b) = if String.eqb (g_name g) "move" then 1 else 0.
Proof. exact registry_class. Qed.

Theorem c19_env_entry_class : forall (env : benv) k g b, Bases.basis_of g = Ok b -> nth k env [] = circ_basis b ->
  basis_class env k = if String.eqb (g_name g) "move" then 1 else 0.
Proof. exact env_entry_class. Qed.

(* all 21 tables by name (the 20 registered names, in registration order, and the KAK path) *)
Theorem c19_all_bases_classes :
  map fst all_bases = (registered ++ ["<kak>"])%list /\
  map (fun nb => class_of (circ_basis (snd nb))) all_bases =
    [0; 0; 0; 0; 0; 0; 0; 0; 0; 0; 0; 0; 0; 0; 0; 0; 0; 0; 0; 1; 0].
Proof. split; [reflexivity|vm_compute; reflexivity]. Qed.

(* C02's `move` table and the one pinned above to the source (c19_facts_move_table) are the same table *)
Theorem c19_move_table_agrees_with_c02 : circ_basis Bases.move_basis = ResetFree.move_basis.
Proof. exact move_table_agrees. Qed.

Example c19_ex_registry :
  class_of (circ_basis (match Bases.basis_of (mkG "cx" true 2 true true true) with Ok b => b | _ => mkPB [] [] [] end)) = 0 /\
  class_of (circ_basis (match Bases.basis_of (mkG "move" false 2 true true true) with Ok b => b | _ => mkPB [] [] [] end)) = 1 /\
  class_of (circ_basis (match Bases.basis_of (mkG "my_unitary" true 2 true true false) with Ok b => b | _ => mkPB [] [] [] end)) = 0.
Proof. repeat split; vm_compute; reflexivity. Qed.

Print Assumptions c19_registry_bases_class.
Print Assumptions c19_env_entry_class.
Print Assumptions c19_all_bases_classes.
Print Assumptions c19_move_table_agrees_with_c02.

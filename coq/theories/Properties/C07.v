(* Properties/C07.v — Automatic cut finding returns a feasible, faithfully accounted cut circuit.
   Only theorem statements (closed by `exact`), non-vacuity examples, facts obligations, Print Assumptions.

   Vocabulary (Proofs/CutFinderSpec.v, declarative, independent of the search):
     plan              position in circuit.data -> Leave | KGateCut | KLeftCut | KRightCut | KBothCut
     render t p c      the circuit c with ONLY markers added according to p: every instruction stays in place and order;
                       KGateCut wraps the gate (TwoQubitQPDGate.from_instruction, table t); a wire cut puts CutWire
                       markers IMMEDIATELY BEFORE the gate on its first / second / first-then-second input qubit
     plan_permitted    cut kinds occur only at two-qubit gates, gate cuts only if gate_lo and the gate has a QPD basis,
                       wire cuts only if wire_lo
     plan_overhead     product over the decisions: kappa^2 for a gate cut, 16 per CutWire marker (16*16 for both wires)
     segment_graph c   nodes = wire segments (qubit, number of CutWire markers before), edges = uncut multi-qubit gates
     feasible W c      every set of pairwise connected segments has at most W members
   find_cuts_full fuel i = Val r : the modelled find_cuts returned (circuit fr_circ r, metadata fr_meta r).
   circ_wf c    : every multi-qubit non-barrier instruction acts on exactly two distinct qubits
   circ_plain c : ordinary gates and barriers only (no pre-placed markers)
   gtab_ok t    : the harness-supplied wrapped form of a gate is a TwoQubitQPDGate                                  *)
From Coq Require Import QArith String.
From CKT Require Import Model.CutFinder Extracted.Facts
  Proofs.UFP Proofs.CutFinderSpec Proofs.CutFinderOut Proofs.CutFinderCirc Proofs.CutFinderRender Proofs.CutFinderP
  Proofs.CutFinderFail Proofs.CutFinderFuel Proofs.CutFinderTotal Proofs.CutFinderExt Proofs.CutFinderQueue.
Close Scope Q_scope.

(* the output is the input with only markers added *)
Theorem c07_only_markers : forall fuel i r,
  find_cuts_full fuel i = Val r -> circ_wf (fi_circ i) ->
  exists p : plan, fr_circ r = render (fi_gtab i) p (fi_circ i) /\
                   plan_permitted (fi_gtab i) (fi_gate_lo i) (fi_wire_lo i) (fi_circ i) p.
Proof. exact only_markers. Qed.

(* reading a rendering backwards: erasing the CutWire markers leaves the input, cut gates wrapped, nothing else touched *)
Theorem c07_erase_markers : forall t p c, gtab_ok t -> circ_plain c ->
  erase_cut_wires (render t p c) = wrapmap t p 0 c /\
  length (wrapmap t p 0 c) = length c /\
  forall j, j < length c ->
    nth j (wrapmap t p 0 c) dI = match p j with KGateCut => wrap_op t (nth j c dI) | _ => nth j c dI end.
Proof.
  intros t p c Ht Hc. split; [exact (erase_render t p Ht c 0 Hc)|]. split; [apply wrapmap_length|].
  intros j Hj. exact (wrapmap_nth t p 0 c j Hj).
Qed.

(* the metadata lists exactly the positions and kinds of the markers, in increasing position *)
Theorem c07_metadata : forall fuel i r,
  find_cuts_full fuel i = Val r -> circ_wf (fi_circ i) ->
  incr_from 0 (map snd (md_cuts (fr_meta r))) /\
  forall kd j, In (kd, j) (md_cuts (fr_meta r)) <-> marker_at (fr_circ r) j = Some kd.
Proof. exact metadata_spec. Qed.

(* the reported overhead is the product of the overheads of the cuts actually made *)
Theorem c07_accounting : forall fuel i r,
  find_cuts_full fuel i = Val r -> circ_wf (fi_circ i) ->
  exists p : plan, fr_circ r = render (fi_gtab i) p (fi_circ i) /\
    plan_permitted (fi_gtab i) (fi_gate_lo i) (fi_wire_lo i) (fi_circ i) p /\
    (md_overhead (fr_meta r) == plan_overhead (fi_gtab i) p (fi_circ i))%Q.
Proof. exact accounting. Qed.

(* every subcircuit obtained by cutting at the markers uses at most W qubits *)
Theorem c07_feasible : forall fuel i r,
  find_cuts_full fuel i = Val r -> circ_wf (fi_circ i) -> circ_plain (fi_circ i) -> gtab_ok (fi_gtab i) ->
  feasible (fi_W i) (fr_circ r).
Proof. exact feasible_result. Qed.

(* a ValueError only if no placement of the permitted cut kinds meets the width limit.
   Hypotheses = the property's domain: multi-qubit gates are supported two-qubit gates (kappa known), no classical bits,
   valid settings; ALL four combinations of allowed cut kinds.  (The proof shows more: the greedy pass can only dead-end
   (a) with wire cuts alone and W = 1, where every plan leaves some two-qubit gate joining two segments, or (b) with no cut
   kind allowed, at a gate whose two subcircuits together exceed W - and they are one component of the uncut circuit.) *)
Theorem c07_fails_only_if_infeasible : forall fuel i,
  find_cuts_full fuel i = Ref ->
  let t := fi_gtab i in let c := fi_circ i in
  circ_wf c -> circ_plain c ->
  (forall x, In x c -> is_multi x = true -> kappa_of t x <> None) ->
  fi_ncl i = 0 -> 1 <= fi_W i -> settings_ok i = true ->
  forall p, plan_permitted t (fi_gate_lo i) (fi_wire_lo i) c p -> ~ feasible (fi_W i) (render t p c).
Proof. exact fails_only_if_infeasible. Qed.

(* no exception other than ValueError: none of the assertions of the actions, of check_donot_merge_roots / merge_roots /
   new_wire, of SimpleGateList.insert_wire_cut (`src_wire_id == new_gate_spec.qubits[input_id-1]`), of NameToIDMap.define_id
   — all executed inside LOCutsOptimizer.optimize via best_result.export_cuts(interface) — is reachable, and no list index
   is out of range; for every circuit whose multi-qubit gates act on two distinct qubits, all settings, all tapes *)
Theorem c07_export_never_crashes : forall fuel i,
  circ_wf (fi_circ i) -> find_cuts_full fuel i <> Crash.
Proof. exact find_cuts_never_crashes. Qed.

(* the out-of-fuel value of the model is not an outcome: the best-first loop and the repeat-until-None driver terminate
   within fuel_bound n = (5^(n+1) - 1)/4 + 3 pops per pass, n = number of instructions *)
Theorem c07_terminates : forall fuel i,
  circ_wf (fi_circ i) -> fuel_bound (length (fi_circ i)) <= fuel -> find_cuts_full fuel i <> NoFuel.
Proof. exact find_cuts_enough_fuel. Qed.

(* TOTALITY (error clause, positive direction; the greedy fall-back is never bounded by max_gamma or max_backjumps):
   inside the property's domain find_cuts returns a result whenever SOME permitted plan meets the width limit *)
Theorem c07_succeeds_when_feasible : forall fuel i,
  let t := fi_gtab i in let c := fi_circ i in
  circ_wf c -> circ_plain c ->
  (forall x, In x c -> is_multi x = true -> kappa_of t x <> None) ->
  fi_ncl i = 0 -> 1 <= fi_W i -> settings_ok i = true ->
  fuel_bound (length c) <= fuel ->
  (exists p, plan_permitted t (fi_gate_lo i) (fi_wire_lo i) c p /\ feasible (fi_W i) (render t p c)) ->
  exists r, find_cuts_full fuel i = Val r.
Proof. exact succeeds_when_feasible. Qed.

(* THE RUNNING INSERTION OFFSET, for any mix and order of gate and wire cuts: input instruction k sits in the output at
   k + (number of CutWire markers of instructions 0..k-1) + (its own markers); its markers sit directly before it;
   metadata['cuts'] contains ("Gate Cut", that position) for every cut gate, ("Wire Cut", position) for every marker -
   and nothing else *)
Theorem c07_cut_positions : forall fuel i r,
  find_cuts_full fuel i = Val r ->
  let t := fi_gtab i in let c := fi_circ i in
  circ_wf c -> circ_plain c -> gtab_ok t ->
  exists p : plan,
    fr_circ r = render t p c /\ plan_permitted t (fi_gate_lo i) (fi_wire_lo i) c p /\
    (forall k x, nth_error c k = Some x ->
       let o := k + offset p 0 k in
       nth_error (fr_circ r) (o + nmark (p k)) = Some (placed t (p k) x) /\
       (p k = KGateCut -> In (GateCut, o) (md_cuts (fr_meta r))) /\
       (forall m, m < nmark (p k) ->
          nth_error (fr_circ r) (o + m) = Some (cut_wire_instr (marker_qubit (p k) x m)) /\
          In (WireCut, o + m) (md_cuts (fr_meta r)))) /\
    (forall kd pos, In (kd, pos) (md_cuts (fr_meta r)) ->
       exists k x, nth_error c k = Some x /\
         ((kd = GateCut /\ p k = KGateCut /\ pos = k + offset p 0 k) \/
          (kd = WireCut /\ exists m, m < nmark (p k) /\ pos = k + offset p 0 k + m))).
Proof. exact cut_positions. Qed.

(* THE PRIORITY QUEUE, precisely.  (1) the model's pop returns an entry with no smaller entry in the queue (tuple order on
   (cost, -depth, rand, seq)) and leaves exactly the others; *)
Theorem c07_pop_is_minimum : forall l e rest,
  extract_min l = Some (e, rest) -> Permutation.Permutation l (e :: rest) /\ minimal_in e l.
Proof. exact extract_min_pops_minimum. Qed.

(* (2) with pairwise different seq numbers, ANY pop on ANY representation l' of the same multiset that returns an entry
   with no smaller one and removes exactly it, pops the same entry and leaves the same multiset: this is all that is
   assumed of heapq.heappush/heappop; *)
Theorem c07_pop_contract_determines : forall l l' e rest e' rest',
  seqs_distinct l -> Permutation.Permutation l l' ->
  extract_min l = Some (e, rest) ->
  In e' l' -> minimal_in e' l' -> Permutation.Permutation l' (e' :: rest') ->
  e' = e /\ Permutation.Permutation rest rest'.
Proof. exact pop_contract_determines. Qed.

(* (3) the best-first loop depends on the queue only as a multiset (same result, same counters, same flag, queues equal
   up to order), and keeps the seq numbers pairwise different; they are so initially *)
Theorem c07_queue_is_multiset : forall tape fa mg mb fuel b b' pd,
  SD b -> bsim b b' -> orel (pass_loop tape fa mg mb fuel b pd) (pass_loop tape fa mg mb fuel b' pd).
Proof. exact pass_loop_perm. Qed.

Theorem c07_queue_seqs_distinct : forall tape fa mg mb fuel s b pd b1 r,
  SD (bfs_initialize tape s) /\
  (SD b -> SD (update_upperbound b s)) /\
  (SD b -> pass_loop tape fa mg mb fuel b pd = Val (b1, r) -> SD b1).
Proof.
  intros. split; [apply SD_initialize|]. split; [apply SD_update_upperbound|apply pass_loop_SD].
Qed.

(* union-find: the path-collapsing loop of find_wire_root (left out of the model) is unobservable *)
Theorem c07_compression_invisible : forall u w, uf_wf u ->
  uf_wf (compress u w) /\ forall x, find (compress u w) x = find u x.
Proof. exact find_compress. Qed.

(* ---------------- non-vacuity ---------------- *)
Definition ex_q2 := Qpd2 0 None (Some (0, None)).
Definition ex_q2s := Qpd2 1 None (Some (1, None)).
Definition ex_gtab : gtab := [(0, (3%Q, ex_q2)); (1, (7%Q, ex_q2s))].
(* h(2); cx(0,2); barrier(0,2); swap(2,1); cx(0,2) on 4 qubits: qubit 3 idle, first use in the order 2,0,1 *)
Definition ex_circ : circ :=
  [mkI (Gate 2) [2] []; mkI (Gate 0) [0; 2] []; mkI (Barrier None) [0; 2] []; mkI (Gate 1) [2; 1] []; mkI (Gate 0) [0; 2] []].
Definition ex_in (gl wl : bool) (W : nat) : fc_input :=
  mkIn 4 0 ex_circ ex_gtab W gl wl 1024%Q (Some 10000%Z) (fun k => Qmake (Z.of_nat k) 100).

Example c07_ex_hyps : circ_wf ex_circ /\ circ_plain ex_circ /\ gtab_ok ex_gtab.
Proof.
  split; [|split].
  - intros i Hi Hm. simpl in Hi. destruct Hi as [<-|[<-|[<-|[<-|[<-|[]]]]]]; cbn in Hm; try discriminate;
      (split; [reflexivity|]); repeat constructor; simpl; intuition discriminate.
  - intros i Hi. simpl in Hi. destruct Hi as [<-|[<-|[<-|[<-|[<-|[]]]]]]; reflexivity.
  - intros g kap o H. unfold ex_gtab in H. simpl in H.
    destruct (Nat.eqb g 0); [inversion H; reflexivity|]. destruct (Nat.eqb g 1); [inversion H; reflexivity|discriminate].
Qed.

(* gate cuts only, W = 2: the swap is cut (overhead 49) *)
Example c07_ex_gate : exists r, find_cuts_full 100 (ex_in true false 2) = Val r /\
  fr_circ r = [mkI (Gate 2) [2] []; mkI (Gate 0) [0; 2] []; mkI (Barrier None) [0; 2] []; mkI ex_q2s [2; 1] []; mkI (Gate 0) [0; 2] []] /\
  md_cuts (fr_meta r) = [(GateCut, 3)] /\ (md_overhead (fr_meta r) == 49)%Q.
Proof. eexists; split; [vm_compute; reflexivity|]. repeat split. Qed.

(* wire cuts only, W = 2: one marker before the swap, two before the last cx (overhead 16 * 256) *)
Example c07_ex_wire : exists r, find_cuts_full 100 (ex_in false true 2) = Val r /\
  fr_circ r = [mkI (Gate 2) [2] []; mkI (Gate 0) [0; 2] []; mkI (Barrier None) [0; 2] []; mkI CutWire [2] []; mkI (Gate 1) [2; 1] [];
               mkI CutWire [0] []; mkI CutWire [2] []; mkI (Gate 0) [0; 2] []] /\
  md_cuts (fr_meta r) = [(WireCut, 3); (WireCut, 5); (WireCut, 6)] /\ (md_overhead (fr_meta r) == 4096)%Q.
Proof. eexists; split; [vm_compute; reflexivity|]. repeat split. Qed.

(* wire cuts only, W = 1: refused *)
Example c07_ex_refused : find_cuts 100 (ex_in false true 1) = Some Refused.
Proof. vm_compute. reflexivity. Qed.

Example c07_ex_refused_hyps :
  find_cuts_full 100 (ex_in false true 1) = Ref /\
  (forall x, In x ex_circ -> is_multi x = true -> kappa_of ex_gtab x <> None) /\ settings_ok (ex_in false true 1) = true.
Proof.
  split; [vm_compute; reflexivity|]. split; [|reflexivity].
  intros x Hx Hm. simpl in Hx. destruct Hx as [<-|[<-|[<-|[<-|[<-|[]]]]]]; cbn in Hm; try discriminate; cbn; discriminate.
Qed.

(* no cut kind allowed, W = 2: refused (the three active qubits form one component) *)
Example c07_ex_refused_nocut : find_cuts_full 100 (ex_in false false 2) = Ref /\ settings_ok (ex_in false false 2) = true.
Proof. split; [vm_compute; reflexivity|reflexivity]. Qed.

(* non-vacuity of c07_succeeds_when_feasible: all its hypotheses hold for the example (gate cuts only, W = 2) *)
Example c07_ex_feasible_plan :
  (exists p, plan_permitted ex_gtab true false ex_circ p /\ feasible 2 (render ex_gtab p ex_circ)) /\
  (forall x, In x ex_circ -> is_multi x = true -> kappa_of ex_gtab x <> None) /\
  settings_ok (ex_in true false 2) = true /\ fuel_bound (length ex_circ) <= fuel_bound (length ex_circ).
Proof.
  destruct c07_ex_hyps as (Hwf & Hpl & Htab). destruct c07_ex_gate as (r & Hr & _).
  split; [|split; [exact (proj1 (proj2 c07_ex_refused_hyps))|split; [reflexivity|apply le_n]]].
  destruct (find_cuts_correct 100 (ex_in true false 2) r Hr Hwf) as (p & Hc & Hperm & _ & _ & Hf).
  exists p. split; [exact Hperm|]. change (render ex_gtab p ex_circ) with (render (fi_gtab (ex_in true false 2)) p (fi_circ (ex_in true false 2))).
  rewrite <- Hc. exact (Hf Hpl Htab).
Qed.

(* non-vacuity of the pop contract: two entries of equal cost and depth, different rand *)
Example c07_ex_pop :
  let s0 := init_state 1 0 in
  let e1 := mkQE 1%Q 0 (1 # 2)%Q 0 s0 in let e2 := mkQE 1%Q 0 (1 # 4)%Q 1 s0 in
  seqs_distinct [e1; e2] /\ extract_min [e1; e2] = Some (e2, [e1]) /\ minimal_in e2 [e2; e1].
Proof.
  split; [repeat constructor; simpl; intuition discriminate|]. split; [reflexivity|].
  intros x [<-|[<-|[]]]; reflexivity.
Qed.

(* tie to the source: the constants and tables hard-coded in Model/CutFinder*.v *)
Theorem c07_facts :
  (inject_Z (Z.of_nat cf_left_wire_mult) = left_wire_mult /\
   inject_Z (Z.of_nat cf_right_wire_mult) = right_wire_mult /\
   inject_Z (Z.of_nat cf_both_wires_mult) = both_wires_mult) /\
  cf_gate_cut_uses_gate_gamma = true /\
  cf_action_registry =
    [("None", "None,TwoQubitGates"); ("CutTwoQubitGate", "GateCut,TwoQubitGates");
     ("CutLeftWire", "WireCut,TwoQubitGates"); ("CutRightWire", "WireCut,TwoQubitGates");
     ("CutBothWires", "WireCut,TwoQubitGates")]%string /\
  (forall k v, In (k, v) cf_search_funcs ->
     (k = "cut_optimization:cost_func" \/ k = "cut_optimization:upperbound_cost_func" \/
      k = "lo_cuts_optimizer:cost_func" \/ k = "lo_cuts_optimizer:upperbound_cost_func")%string ->
     v = "cut_optimization_upper_bound_cost_func"%string) /\
  length cf_search_funcs = 10 /\
  cf_upper_bound_cost_is_gamma_ub = true /\
  cf_stop_at_first_min = true /\
  cf_overhead_is_square = true /\
  (cf_default_max_gamma == 1024)%Q /\ cf_default_max_backjumps = 10000.
Proof.
  repeat split; try reflexivity.
  intros k v H Hk. simpl in H.
  repeat (destruct H as [H|H]; [inversion H; subst; clear H;
    (reflexivity || (exfalso; repeat (destruct Hk as [Hk|Hk]; try discriminate Hk); discriminate Hk))|]).
  contradiction.
Qed.

Print Assumptions c07_only_markers.
Print Assumptions c07_erase_markers.
Print Assumptions c07_metadata.
Print Assumptions c07_accounting.
Print Assumptions c07_feasible.
Print Assumptions c07_fails_only_if_infeasible.
Print Assumptions c07_export_never_crashes.
Print Assumptions c07_terminates.
Print Assumptions c07_succeeds_when_feasible.
Print Assumptions c07_cut_positions.
Print Assumptions c07_pop_is_minimum.
Print Assumptions c07_pop_contract_determines.
Print Assumptions c07_queue_is_multiset.
Print Assumptions c07_queue_seqs_distinct.
Print Assumptions c07_compression_invisible.
Print Assumptions c07_facts.

(* Properties/C07.v — Automatic cut finding returns a feasible, faithfully accounted cut circuit.
   Only theorem statements (closed by `exact`), non-vacuity examples, facts obligations, Print Assumptions.

   Vocabulary (Proofs/CutFinderSpec.v, declarative, independent of the search):
     plan              position in circuit.data -> Leave | KGateCut | KLeftCut | KRightCut | KBothCut
     render t p c      the circuit c with ONLY markers added according to p: every instruction stays in place and order;
                       KGateCut wraps the gate (TwoQubitQPDGate.from_instruction, table t); a wire cut puts CutWire
                       markers IMMEDIATELY BEFORE the gate on its first / second / first-then-second input qubit
     plan_permitted    cut kinds occur only at two-qubit gates, gate cuts only if gate_lo and the gate has a QPD basis,
                       wire cuts only if wire_lo
     plan_overhead     product over the decisions: kappa^2 for a gate cut, 16 per CutWire marker (16*16 for both wires)
     segment_graph c   nodes = wire segments (qubit, number of CutWire markers before), edges = uncut multi-qubit gates
     feasible W c      every set of pairwise connected segments has at most W members
   find_cuts_full fuel i = Val r : the modelled find_cuts returned (circuit fr_circ r, metadata fr_meta r).
   circ_wf c    : every multi-qubit non-barrier instruction acts on exactly two distinct qubits
   circ_plain c : ordinary gates and barriers only (no pre-placed markers)
   gtab_ok t    : the harness-supplied wrapped form of a gate is a TwoQubitQPDGate                                  *)
From Coq Require Import QArith String.
From CKT Require Import Model.CutFinder Extracted.Facts
  Proofs.UFP Proofs.CutFinderSpec Proofs.CutFinderOut Proofs.CutFinderCirc Proofs.CutFinderRender Proofs.CutFinderP
  Proofs.CutFinderFail Proofs.CutFinderFuel Proofs.CutFinderTotal Proofs.CutFinderExt Proofs.CutFinderQueue Proofs.CutFinderAudit.
Close Scope Q_scope.

(* the output is the input with only markers added *)
Theorem c07_only_markers : forall fuel i r,
  find_cuts_full fuel i = Val r -> circ_wf (fi_circ i) ->
  exists p : plan, fr_circ r = render (fi_gtab i) p (fi_circ i) /\
                   plan_permitted (fi_gtab i) (fi_gate_lo i) (fi_wire_lo i) (fi_circ i) p.
Proof. exact only_markers. Qed.

(* reading a rendering backwards: erasing the CutWire markers leaves the input, cut gates wrapped, nothing else touched *)
Theorem c07_erase_markers : forall t p c, gtab_ok t -> circ_plain c ->
  erase_cut_wires (render t p c) = wrapmap t p 0 c /\
  length (wrapmap t p 0 c) = length c /\
  forall j, j < length c ->
    nth j (wrapmap t p 0 c) dI = match p j with KGateCut => wrap_op t (nth j c dI) | _ => nth j c dI end.
Proof.
  intros t p c Ht Hc. split; [exact (erase_render t p Ht c 0 Hc)|]. split; [apply wrapmap_length|].
  intros j Hj. exact (wrapmap_nth t p 0 c j Hj).
Qed.

(* the metadata lists exactly the positions and kinds of the markers, in increasing position *)
Theorem c07_metadata : forall fuel i r,
  find_cuts_full fuel i = Val r -> circ_wf (fi_circ i) ->
  incr_from 0 (map snd (md_cuts (fr_meta r))) /\
  forall kd j, In (kd, j) (md_cuts (fr_meta r)) <-> marker_at (fr_circ r) j = Some kd.
Proof. exact metadata_spec. Qed.

(* the reported overhead is the product of the overheads of the cuts actually made *)
Theorem c07_accounting : forall fuel i r,
  find_cuts_full fuel i = Val r -> circ_wf (fi_circ i) ->
  exists p : plan, fr_circ r = render (fi_gtab i) p (fi_circ i) /\
    plan_permitted (fi_gtab i) (fi_gate_lo i) (fi_wire_lo i) (fi_circ i) p /\
    (md_overhead (fr_meta r) == plan_overhead (fi_gtab i) p (fi_circ i))%Q.
Proof. exact accounting. Qed.

(* every subcircuit obtained by cutting at the markers uses at most W qubits *)
Theorem c07_feasible : forall fuel i r,
  find_cuts_full fuel i = Val r -> circ_wf (fi_circ i) -> circ_plain (fi_circ i) -> gtab_ok (fi_gtab i) ->
  feasible (fi_W i) (fr_circ r).
Proof. exact feasible_result. Qed.

(* ALL CLAUSES WITH ONE PLAN: there is one permitted plan p such that the output is its rendering, the overhead is its
   product, the output is feasible, every input instruction / marker sits at the closed-form position and the metadata is
   exactly that list - and p is THE plan: any permitted plan with the same rendering coincides with it (so "the cuts
   actually made" is determined by the returned circuit) *)
Theorem c07_correct : forall fuel i r,
  find_cuts_full fuel i = Val r ->
  let t := fi_gtab i in let c := fi_circ i in
  circ_wf c -> circ_plain c -> gtab_ok t ->
  exists p : plan,
    fr_circ r = render t p c /\ plan_permitted t (fi_gate_lo i) (fi_wire_lo i) c p /\
    (forall p', plan_permitted t (fi_gate_lo i) (fi_wire_lo i) c p' -> fr_circ r = render t p' c -> forall k, p' k = p k) /\
    (md_overhead (fr_meta r) == plan_overhead t p c)%Q /\
    feasible (fi_W i) (fr_circ r) /\
    (forall k x, nth_error c k = Some x ->
       let o := k + offset p 0 k in
       nth_error (fr_circ r) (o + nmark (p k)) = Some (placed t (p k) x) /\
       (p k = KGateCut -> In (GateCut, o) (md_cuts (fr_meta r))) /\
       (forall m, m < nmark (p k) ->
          nth_error (fr_circ r) (o + m) = Some (cut_wire_instr (marker_qubit (p k) x m)) /\
          In (WireCut, o + m) (md_cuts (fr_meta r)))) /\
    (forall kd pos, In (kd, pos) (md_cuts (fr_meta r)) ->
       exists k x, nth_error c k = Some x /\
         ((kd = GateCut /\ p k = KGateCut /\ pos = k + offset p 0 k) \/
          (kd = WireCut /\ exists m, m < nmark (p k) /\ pos = k + offset p 0 k + m))).
Proof. exact correct_bundle. Qed.

(* a rendering determines its plan (plain circuit, two distinct qubits per gate, wrapped forms are QPD gates) *)
Theorem c07_render_injective : forall t gl wl c p p',
  circ_wf c -> circ_plain c -> gtab_ok t ->
  plan_permitted t gl wl c p -> plan_permitted t gl wl c p' ->
  render t p c = render t p' c -> forall k, p k = p' k.
Proof. exact render_injective. Qed.

(* a ValueError only if no placement of the permitted cut kinds meets the width limit.
   Hypotheses = the property's domain: multi-qubit gates are supported two-qubit gates (kappa known), no classical bits,
   valid settings; ALL four combinations of allowed cut kinds.  (The proof shows more: the greedy pass can only dead-end
   (a) with wire cuts alone and W = 1, where every plan leaves some two-qubit gate joining two segments, or (b) with no cut
   kind allowed, at a gate whose two subcircuits together exceed W - and they are one component of the uncut circuit.) *)
Theorem c07_fails_only_if_infeasible : forall fuel i,
  find_cuts_full fuel i = Ref ->
  let t := fi_gtab i in let c := fi_circ i in
  circ_wf c -> circ_plain c ->
  (forall x, In x c -> is_multi x = true -> kappa_of t x <> None) ->
  fi_ncl i = 0 -> settings_ok i = true ->
  forall p, plan_permitted t (fi_gate_lo i) (fi_wire_lo i) c p -> ~ feasible (fi_W i) (render t p c).
Proof. exact fails_only_if_infeasible'. Qed.

(* the domain boundary made explicit: with classical bits find_cuts NEVER returns (cut_gates refuses such circuits),
   feasible or not - which is why fi_ncl = 0 is a premise above; with enough fuel the outcome is exactly ValueError *)
Theorem c07_clbits_always_refused : forall fuel i,
  fi_ncl i <> 0 ->
  (forall r, find_cuts_full fuel i <> Val r) /\
  (circ_wf (fi_circ i) -> fuel_bound (length (fi_circ i)) <= fuel -> find_cuts_full fuel i = Ref).
Proof. intros fuel i H. split; [intros r; exact (clbits_not_val fuel i r H)|exact (clbits_refused fuel i H)]. Qed.

(* no exception other than ValueError: none of the assertions of the actions, of check_donot_merge_roots / merge_roots /
   new_wire, of SimpleGateList.insert_wire_cut (`src_wire_id == new_gate_spec.qubits[input_id-1]`), of NameToIDMap.define_id
   - all executed inside LOCutsOptimizer.optimize via best_result.export_cuts(interface) - is reachable, and none of the
   lookups modelled with nth_error (cut_gates, circuit.data[inst_id].qubits[..], entangling_gates[level], the interface
   lists) is out of range; for every circuit whose multi-qubit gates act on two distinct qubits, all settings, all tapes.
   The array accesses that the model totalises (nth with a default for wiremap/uptree/width, upd as a no-op out of range)
   cannot yield Crash by construction; that they are in range all the same is c07_indices_in_range below. *)
Theorem c07_export_never_crashes : forall fuel i,
  circ_wf (fi_circ i) -> find_cuts_full fuel i <> Crash.
Proof. exact find_cuts_never_crashes. Qed.

(* the totalised array accesses never use their defaults: in EVERY state obtainable from a start state by the search's
   expansion step (these are the only states the greedy pass and the best-first queue ever hold), and in the returned
   state, wiremap has one entry per qubit id, every wire id is below num_wires <= len(uptree) = len(width), parents are not
   above their children, roots of live wires are live wires, the level indexes an existing 2-qubit gate spec with two
   different in-range qubit ids, no-merge clauses mention live wires, and wire-cut arguments are (1|2, wire, new wire)
   triples (so args[k][0]-1 is 0 or 1, never -1) *)
Theorem c07_indices_in_range : forall nq t c W gl wl m s,
  circ_wf c -> 1 <= W ->
  let names := names_of nq t c in let gates := gates_of nq t c in
  Reach {| fa_gates := gates; fa_actions := search_actions gl wl; fa_W := W |} (init_state (length names) m) s ->
  in_range (length names) gates s.
Proof. exact reach_in_range. Qed.

Theorem c07_result_in_range : forall fuel i r,
  find_cuts_full fuel i = Val r -> circ_wf (fi_circ i) ->
  in_range (length (names_of (fi_nq i) (fi_gtab i) (fi_circ i))) (gates_of (fi_nq i) (fi_gtab i) (fi_circ i)) (fr_best r).
Proof. exact result_in_range. Qed.

(* the out-of-fuel value of the model is not an outcome: the best-first loop and the repeat-until-None driver terminate
   within fuel_bound n = (5^(n+1) - 1)/4 + 3 pops per pass, n = number of instructions *)
Theorem c07_terminates : forall fuel i,
  circ_wf (fi_circ i) -> fuel_bound (length (fi_circ i)) <= fuel -> find_cuts_full fuel i <> NoFuel.
Proof. exact find_cuts_enough_fuel. Qed.

(* TOTALITY (error clause, positive direction; the greedy fall-back is never bounded by max_gamma or max_backjumps):
   inside the property's domain find_cuts returns a result whenever SOME permitted plan meets the width limit *)
Theorem c07_succeeds_when_feasible : forall fuel i,
  let t := fi_gtab i in let c := fi_circ i in
  circ_wf c -> circ_plain c ->
  (forall x, In x c -> is_multi x = true -> kappa_of t x <> None) ->
  fi_ncl i = 0 -> settings_ok i = true ->
  fuel_bound (length c) <= fuel ->
  (exists p, plan_permitted t (fi_gate_lo i) (fi_wire_lo i) c p /\ feasible (fi_W i) (render t p c)) ->
  exists r, find_cuts_full fuel i = Val r.
Proof. exact succeeds_when_feasible'. Qed.

(* THE RUNNING INSERTION OFFSET, for any mix and order of gate and wire cuts: input instruction k sits in the output at
   k + (number of CutWire markers of instructions 0..k-1) + (its own markers); its markers sit directly before it;
   metadata['cuts'] contains ("Gate Cut", that position) for every cut gate, ("Wire Cut", position) for every marker -
   and nothing else *)
Theorem c07_cut_positions : forall fuel i r,
  find_cuts_full fuel i = Val r ->
  let t := fi_gtab i in let c := fi_circ i in
  circ_wf c -> circ_plain c -> gtab_ok t ->
  exists p : plan,
    fr_circ r = render t p c /\ plan_permitted t (fi_gate_lo i) (fi_wire_lo i) c p /\
    (forall k x, nth_error c k = Some x ->
       let o := k + offset p 0 k in
       nth_error (fr_circ r) (o + nmark (p k)) = Some (placed t (p k) x) /\
       (p k = KGateCut -> In (GateCut, o) (md_cuts (fr_meta r))) /\
       (forall m, m < nmark (p k) ->
          nth_error (fr_circ r) (o + m) = Some (cut_wire_instr (marker_qubit (p k) x m)) /\
          In (WireCut, o + m) (md_cuts (fr_meta r)))) /\
    (forall kd pos, In (kd, pos) (md_cuts (fr_meta r)) ->
       exists k x, nth_error c k = Some x /\
         ((kd = GateCut /\ p k = KGateCut /\ pos = k + offset p 0 k) \/
          (kd = WireCut /\ exists m, m < nmark (p k) /\ pos = k + offset p 0 k + m))).
Proof. exact cut_positions. Qed.

(* THE PRIORITY QUEUE, precisely.  (1) the model's pop returns an entry with no smaller entry in the queue (tuple order on
   (cost, -depth, rand, seq)) and leaves exactly the others; *)
Theorem c07_pop_is_minimum : forall l e rest,
  extract_min l = Some (e, rest) -> Permutation.Permutation l (e :: rest) /\ minimal_in e l.
Proof. exact extract_min_pops_minimum. Qed.

(* (2) with pairwise different seq numbers, ANY pop on ANY representation l' of the same multiset that returns an entry
   with no smaller one and removes exactly it, pops the same entry and leaves the same multiset: this is all that is
   assumed of heapq.heappush/heappop; *)
Theorem c07_pop_contract_determines : forall l l' e rest e' rest',
  seqs_distinct l -> Permutation.Permutation l l' ->
  extract_min l = Some (e, rest) ->
  In e' l' -> minimal_in e' l' -> Permutation.Permutation l' (e' :: rest') ->
  e' = e /\ Permutation.Permutation rest rest'.
Proof. exact pop_contract_determines. Qed.

(* (3) the best-first loop depends on the queue only as a multiset (same result, same counters, same flag, queues equal
   up to order), and keeps the seq numbers pairwise different; they are so initially *)
Theorem c07_queue_is_multiset : forall tape fa mg mb fuel b b' pd,
  SD b -> bsim b b' -> orel (pass_loop tape fa mg mb fuel b pd) (pass_loop tape fa mg mb fuel b' pd).
Proof. exact pass_loop_perm. Qed.

Theorem c07_queue_seqs_distinct : forall tape fa mg mb fuel s b pd b1 r,
  SD (bfs_initialize tape s) /\
  (SD b -> SD (update_upperbound b s)) /\
  (SD b -> pass_loop tape fa mg mb fuel b pd = Val (b1, r) -> SD b1).
Proof.
  intros. split; [apply SD_initialize|]. split; [apply SD_update_upperbound|apply pass_loop_SD].
Qed.

(* (4) CAPSTONE: run the whole optimisation (greedy start, best-first passes, CutOptimization fall-back, driver loop) with
   ANY pop function that, on a non-empty heap, returns an entry with no smaller entry and removes exactly it: same outcome
   kind, same best state, same list of goals, same counters/flag/greedy state; the queues agree up to order *)
Theorem c07_any_pop_same_search : forall tape fa mg mb (pop : list qentry -> option (qentry * list qentry)),
  (forall l, l <> [] -> exists e rest, pop l = Some (e, rest)) ->
  (forall l e rest, pop l = Some (e, rest) -> In e l /\ minimal_in e l /\ Permutation.Permutation l (e :: rest)) ->
  forall nq fuel,
  match optimize tape fa mg mb nq fuel, optimize_gen tape fa mg mb pop nq fuel with
  | Val r, Val r' => or_best r = or_best r' /\ or_goals r = or_goals r' /\
                     cosim (or_cutopt r) (or_cutopt r')
  | Ref, Ref | Crash, Crash | NoFuel, NoFuel => True
  | _, _ => False
  end.
Proof. exact optimize_gen_sim. Qed.

(* union-find: the path-collapsing loop of find_wire_root is left out of the model state.  Proved: compression yields an
   EQUIVALENT forest (same length, well-formed, same find for every wire, same roots), and union_roots maps equivalent
   forests to equivalent forests - so every union-find operation the model uses (find, is_root, length, union_roots)
   cannot tell a compressed forest from an uncompressed one.  NOT proved as one statement: the induced simulation of whole
   runs of the search with compression at every find (it follows operation by operation from the two theorems). *)
Theorem c07_compression_congruence : forall u w x, uf_wf u ->
  uf_wf (compress u w) /\ length (compress u w) = length u /\
  find (compress u w) x = find u x /\ is_root (compress u w) x = is_root u x.
Proof. exact compression_congruence. Qed.

Theorem c07_union_respects_equiv : forall u u' r1 r2,
  uf_equiv u u' -> r1 <> r2 -> is_root u r1 = true -> is_root u r2 = true -> Nat.max r1 r2 < length u ->
  uf_equiv (union_roots u r1 r2) (union_roots u' r1 r2).
Proof. exact union_roots_equiv. Qed.

(* ---------------- non-vacuity ---------------- *)
Definition ex_q2 := Qpd2 0 None (Some (0, None)).
Definition ex_q2s := Qpd2 1 None (Some (1, None)).
Definition ex_gtab : gtab := [(0, (3%Q, ex_q2)); (1, (7%Q, ex_q2s))].
(* h(2); cx(0,2); barrier(0,2); swap(2,1); cx(0,2) on 4 qubits: qubit 3 idle, first use in the order 2,0,1 *)
Definition ex_circ : circ :=
  [mkI (Gate 2) [2] []; mkI (Gate 0) [0; 2] []; mkI (Barrier None) [0; 2] []; mkI (Gate 1) [2; 1] []; mkI (Gate 0) [0; 2] []].
Definition ex_in (gl wl : bool) (W : nat) : fc_input :=
  mkIn 4 0 ex_circ ex_gtab W gl wl 1024%Q (Some 10000%Z) (fun k => Qmake (Z.of_nat k) 100).

Example c07_ex_hyps : circ_wf ex_circ /\ circ_plain ex_circ /\ gtab_ok ex_gtab.
Proof.
  split; [|split].
  - intros i Hi Hm. simpl in Hi. destruct Hi as [<-|[<-|[<-|[<-|[<-|[]]]]]]; cbn in Hm; try discriminate;
      (split; [reflexivity|]); repeat constructor; simpl; intuition discriminate.
  - intros i Hi. simpl in Hi. destruct Hi as [<-|[<-|[<-|[<-|[<-|[]]]]]]; reflexivity.
  - intros g kap o H. unfold ex_gtab in H. simpl in H.
    destruct (Nat.eqb g 0); [inversion H; reflexivity|]. destruct (Nat.eqb g 1); [inversion H; reflexivity|discriminate].
Qed.

(* gate cuts only, W = 2: the swap is cut (overhead 49) *)
Example c07_ex_gate : exists r, find_cuts_full 100 (ex_in true false 2) = Val r /\
  fr_circ r = [mkI (Gate 2) [2] []; mkI (Gate 0) [0; 2] []; mkI (Barrier None) [0; 2] []; mkI ex_q2s [2; 1] []; mkI (Gate 0) [0; 2] []] /\
  md_cuts (fr_meta r) = [(GateCut, 3)] /\ (md_overhead (fr_meta r) == 49)%Q.
Proof. eexists; split; [vm_compute; reflexivity|]. repeat split. Qed.

(* wire cuts only, W = 2: one marker before the swap, two before the last cx (overhead 16 * 256) *)
Example c07_ex_wire : exists r, find_cuts_full 100 (ex_in false true 2) = Val r /\
  fr_circ r = [mkI (Gate 2) [2] []; mkI (Gate 0) [0; 2] []; mkI (Barrier None) [0; 2] []; mkI CutWire [2] []; mkI (Gate 1) [2; 1] [];
               mkI CutWire [0] []; mkI CutWire [2] []; mkI (Gate 0) [0; 2] []] /\
  md_cuts (fr_meta r) = [(WireCut, 3); (WireCut, 5); (WireCut, 6)] /\ (md_overhead (fr_meta r) == 4096)%Q.
Proof. eexists; split; [vm_compute; reflexivity|]. repeat split. Qed.

(* wire cuts only, W = 1: refused *)
Example c07_ex_refused : find_cuts 100 (ex_in false true 1) = Some Refused.
Proof. vm_compute. reflexivity. Qed.

Example c07_ex_refused_hyps :
  find_cuts_full 100 (ex_in false true 1) = Ref /\
  (forall x, In x ex_circ -> is_multi x = true -> kappa_of ex_gtab x <> None) /\ settings_ok (ex_in false true 1) = true.
Proof.
  split; [vm_compute; reflexivity|]. split; [|reflexivity].
  intros x Hx Hm. simpl in Hx. destruct Hx as [<-|[<-|[<-|[<-|[<-|[]]]]]]; cbn in Hm; try discriminate; cbn; discriminate.
Qed.

(* no cut kind allowed, W = 2: refused (the three active qubits form one component) *)
Example c07_ex_refused_nocut : find_cuts_full 100 (ex_in false false 2) = Ref /\ settings_ok (ex_in false false 2) = true.
Proof. split; [vm_compute; reflexivity|reflexivity]. Qed.

(* non-vacuity of c07_succeeds_when_feasible: all its hypotheses hold for the example (gate cuts only, W = 2) *)
Example c07_ex_feasible_plan :
  (exists p, plan_permitted ex_gtab true false ex_circ p /\ feasible 2 (render ex_gtab p ex_circ)) /\
  (forall x, In x ex_circ -> is_multi x = true -> kappa_of ex_gtab x <> None) /\
  settings_ok (ex_in true false 2) = true /\ fuel_bound (length ex_circ) <= fuel_bound (length ex_circ).
Proof.
  destruct c07_ex_hyps as (Hwf & Hpl & Htab). destruct c07_ex_gate as (r & Hr & _).
  split; [|split; [exact (proj1 (proj2 c07_ex_refused_hyps))|split; [reflexivity|apply le_n]]].
  destruct (find_cuts_correct 100 (ex_in true false 2) r Hr Hwf) as (p & Hc & Hperm & _ & _ & Hf).
  exists p. split; [exact Hperm|]. change (render ex_gtab p ex_circ) with (render (fi_gtab (ex_in true false 2)) p (fi_circ (ex_in true false 2))).
  rewrite <- Hc. exact (Hf Hpl Htab).
Qed.

(* non-vacuity of the pop contract: two entries of equal cost and depth, different rand *)
Example c07_ex_pop :
  let s0 := init_state 1 0 in
  let e1 := mkQE 1%Q 0 (1 # 2)%Q 0 s0 in let e2 := mkQE 1%Q 0 (1 # 4)%Q 1 s0 in
  seqs_distinct [e1; e2] /\ extract_min [e1; e2] = Some (e2, [e1]) /\ minimal_in e2 [e2; e1].
Proof.
  split; [repeat constructor; simpl; intuition discriminate|]. split; [reflexivity|].
  intros x [<-|[<-|[]]]; reflexivity.
Qed.

(* both cut kinds in one result, search cut short (max_gamma = 1, max_backjumps = 0): greedy fall-back, a wire-cut marker
   BEFORE a later gate cut (the gate cut sits at output position 5 = input position 4 + 1 marker), overhead 16 * 9 *)
Definition ex_mixed : fc_input :=
  mkIn 4 0 ex_circ ex_gtab 2 true true 1%Q (Some 0%Z) (fun k => Qmake (Z.of_nat k) 100).
Example c07_ex_mixed_truncated : exists r, find_cuts_full 100 ex_mixed = Val r /\
  fr_circ r = [mkI (Gate 2) [2] []; mkI (Gate 0) [0; 2] []; mkI (Barrier None) [0; 2] []; mkI CutWire [2] [];
               mkI (Gate 1) [2; 1] []; mkI ex_q2 [0; 2] []] /\
  md_cuts (fr_meta r) = [(WireCut, 3); (GateCut, 5)] /\ (md_overhead (fr_meta r) == 144)%Q /\
  md_minimum_reached (fr_meta r) = false /\ fr_greedy r = Some (fr_best r).
Proof. eexists; split; [vm_compute; reflexivity|]. repeat split. Qed.

(* a non-trivial reachable state (one expansion step from the start state of the example) *)
Example c07_ex_reach :
  let fa := {| fa_gates := gates_of 4 ex_gtab ex_circ; fa_actions := search_actions true true; fa_W := 2 |} in
  exists s, Reach fa (init_state (length (names_of 4 ex_gtab ex_circ)) 6) s /\ level s = 1.
Proof.
  intros fa. eexists. split.
  - eapply reach_step; [apply reach_refl|vm_compute; reflexivity|vm_compute; reflexivity|left; reflexivity].
  - reflexivity.
Qed.

(* classical bits: refused although the same circuit without them is fine *)
Example c07_ex_clbits : find_cuts_full 100 (mkIn 4 1 ex_circ ex_gtab 2 true false 1024%Q (Some 10000%Z) (fun k => Qmake (Z.of_nat k) 100)) = Ref.
Proof. vm_compute. reflexivity. Qed.

(* a pop that is NOT the model's (it scans the reversed list) satisfies the heappop contract *)
Example c07_ex_other_pop :
  let pop := fun l => extract_min (rev l) in
  (forall l, l <> [] -> exists e rest, pop l = Some (e, rest)) /\
  (forall l e rest, pop l = Some (e, rest) -> In e l /\ minimal_in e l /\ Permutation.Permutation l (e :: rest)).
Proof.
  split.
  - intros l Hl. cbv beta. destruct (rev l) as [|x r] eqn:E.
    + exfalso. apply Hl. rewrite <- (rev_involutive l), E. reflexivity.
    + unfold extract_min. destruct (extract_min_from x [] r). eauto.
  - intros l e rest H. destruct (extract_min_pops_minimum _ _ _ H) as [P M].
    assert (PR : Permutation.Permutation l (rev l)) by apply Permutation.Permutation_rev.
    split; [|split].
    + apply in_rev. eapply Permutation.Permutation_in; [apply Permutation.Permutation_sym; exact P|now left].
    + intros x Hx. apply M. now apply in_rev in Hx.
    + eapply Permutation.Permutation_trans; [exact PR|exact P].
Qed.

(* tie to the source: the constants and tables hard-coded in Model/CutFinder*.v *)
Theorem c07_facts :
  (inject_Z (Z.of_nat cf_left_wire_mult) = left_wire_mult /\
   inject_Z (Z.of_nat cf_right_wire_mult) = right_wire_mult /\
   inject_Z (Z.of_nat cf_both_wires_mult) = both_wires_mult) /\
  cf_gate_cut_uses_gate_gamma = true /\
  cf_action_registry =
    [("None", "None,TwoQubitGates"); ("CutTwoQubitGate", "GateCut,TwoQubitGates");
     ("CutLeftWire", "WireCut,TwoQubitGates"); ("CutRightWire", "WireCut,TwoQubitGates");
     ("CutBothWires", "WireCut,TwoQubitGates")]%string /\
  (forall k v, In (k, v) cf_search_funcs ->
     (k = "cut_optimization:cost_func" \/ k = "cut_optimization:upperbound_cost_func" \/
      k = "lo_cuts_optimizer:cost_func" \/ k = "lo_cuts_optimizer:upperbound_cost_func")%string ->
     v = "cut_optimization_upper_bound_cost_func"%string) /\
  length cf_search_funcs = 10 /\
  cf_upper_bound_cost_is_gamma_ub = true /\
  cf_stop_at_first_min = true /\
  cf_overhead_is_square = true /\
  (cf_default_max_gamma == 1024)%Q /\ cf_default_max_backjumps = 10000.
Proof.
  repeat split; try reflexivity.
  intros k v H Hk. simpl in H.
  repeat (destruct H as [H|H]; [inversion H; subst; clear H;
    (reflexivity || (exfalso; repeat (destruct Hk as [Hk|Hk]; try discriminate Hk); discriminate Hk))|]).
  contradiction.
Qed.

Print Assumptions c07_only_markers.
Print Assumptions c07_erase_markers.
Print Assumptions c07_metadata.
Print Assumptions c07_accounting.
Print Assumptions c07_feasible.
Print Assumptions c07_fails_only_if_infeasible.
Print Assumptions c07_export_never_crashes.
Print Assumptions c07_terminates.
Print Assumptions c07_succeeds_when_feasible.
Print Assumptions c07_cut_positions.
Print Assumptions c07_pop_is_minimum.
Print Assumptions c07_pop_contract_determines.
Print Assumptions c07_queue_is_multiset.
Print Assumptions c07_queue_seqs_distinct.
Print Assumptions c07_correct.
Print Assumptions c07_render_injective.
Print Assumptions c07_clbits_always_refused.
Print Assumptions c07_indices_in_range.
Print Assumptions c07_result_in_range.
Print Assumptions c07_any_pop_same_search.
Print Assumptions c07_compression_congruence.
Print Assumptions c07_union_respects_equiv.
Print Assumptions c07_facts.

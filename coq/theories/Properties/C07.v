(* Properties/C07.v — Automatic cut finding returns a feasible, faithfully accounted cut circuit.
   Only theorem statements (closed by `exact`), non-vacuity examples, facts obligations, Print Assumptions. *)
From Coq Require Import QArith String.
From CKT Require Import Model.CutFinder Extracted.Facts.
Close Scope Q_scope.

(* tie to the source: the constants and tables hard-coded in Model/CutFinder*.v *)
Theorem c07_facts :
  (inject_Z (Z.of_nat cf_left_wire_mult) = left_wire_mult /\
   inject_Z (Z.of_nat cf_right_wire_mult) = right_wire_mult /\
   inject_Z (Z.of_nat cf_both_wires_mult) = both_wires_mult) /\
  cf_gate_cut_uses_gate_gamma = true /\
  cf_action_registry =
    [("None", "None,TwoQubitGates"); ("CutTwoQubitGate", "GateCut,TwoQubitGates");
     ("CutLeftWire", "WireCut,TwoQubitGates"); ("CutRightWire", "WireCut,TwoQubitGates");
     ("CutBothWires", "WireCut,TwoQubitGates")]%string /\
  (forall k v, In (k, v) cf_search_funcs ->
     (k = "cut_optimization:cost_func" \/ k = "cut_optimization:upperbound_cost_func" \/
      k = "lo_cuts_optimizer:cost_func" \/ k = "lo_cuts_optimizer:upperbound_cost_func")%string ->
     v = "cut_optimization_upper_bound_cost_func"%string) /\
  length cf_search_funcs = 10 /\
  cf_upper_bound_cost_is_gamma_ub = true /\
  cf_stop_at_first_min = true /\
  cf_overhead_is_square = true /\
  (cf_default_max_gamma == 1024)%Q /\ cf_default_max_backjumps = 10000.
Proof.
  repeat split; try reflexivity.
  intros k v H Hk. simpl in H.
  repeat (destruct H as [H|H]; [inversion H; subst; clear H;
    (reflexivity || (exfalso; repeat (destruct Hk as [Hk|Hk]; try discriminate Hk); discriminate Hk))|]).
  contradiction.
Qed.
Print Assumptions c07_facts.

(* Properties/C09.v — Cut finding is reproducible under a seed and independent of call history.

   The theorems are about the PROCESS MODEL of Model/Process.v: a state made of the package's process-global objects
   and the two global random generators, and a transition function `step` that performs the reads and writes of that
   state which the three public calls perform.  The model's write-set is tied to the source by the facts obligations at
   the end of this file (a new global, a new write to one, a new use of randomness in /repo breaks an obligation) and to
   the running implementation by the history correspondence (Corr/C09Corr.v, harness/c09.py).
   What the calls compute from their arguments is abstract (record `oracles`); each field is a function, so the content
   of the theorems is exactly: nothing but the listed inputs reaches those functions, and nothing is left behind. *)
From Coq Require Import String QArith.
From CKT Require Import Common.Base Model.Process Proofs.ProcessP.
Close Scope Q_scope.
Open Scope string_scope.
Open Scope list_scope.

(* `exact_class O c` = c is a find_cuts call (seeded or not), a from_instruction call, or a generation that does not
   reach the sampler.  Which generations those are (smallest_probability is COMPUTED from the coefficient lists of the
   bases as weights.py/qpd_basis.py do, but in exact rationals: prod over bases of the least |coeff|/kappa that is not
   within 1e-14 of 0): *)
Theorem c09_inf_is_exact : forall (O : oracles) a, exact_class O (GenExact O a) = true.
Proof. exact inf_exact_class. Qed.

(* the fact behind it, formerly the run-time-monitored hypothesis probs_nonneg *)
Theorem c09_smallest_probability_nonneg : forall bases p, prod_min_nonzero bases = Some p -> (0 <= p)%Q.
Proof. exact prod_min_nonzero_nonneg. Qed.

(* PARTIAL: the code compares binary64 values (np.prod(...) >= 1/num_samples); the model only classifies a finite
   num_samples as all-exact when the exact smallest probability exceeds the exact threshold by the relative margin 2^-40.
   Missing: the band  1/n <= p < (1/n)(1+2^-40)  and everything below, where the float comparison decides
   (oracle tail_reaches_sampler; e.g. five cx bases with num_samples = 6^5 = 7776 lie exactly on the boundary in Q and
   the real code SAMPLES).  That float rounding stays inside the margin is an assumption (see lib/props.d/C09.py). *)
Theorem c09_finite_exact_margin_partial : forall (O : oracles) a n p,
  smallest_probability O a = Some p -> (1 / n * (1 + float_margin) <= p)%Q -> exact_class O (Gen O a (NFin n)) = true.
Proof. intros O a n p Hp H; simpl. now rewrite (finite_exact_margin O a n p Hp H). Qed.

(* num_samples < 1 is refused (ValueError) before anything is read or written: such a call never samples *)
Theorem c09_invalid_num_samples_refused_no_sampling : forall (O : oracles) a n, (n < 1)%Q ->
  reaches_sampler O a (NFin n) = false.
Proof. exact invalid_never_samples. Qed.

(* the greedy pass assigns to three slots of the shared table the values it has just read *)
Theorem c09_greedy_writes_identity : forall t, greedy_writes t = t.
Proof. exact greedy_writes_id. Qed.

(* no call (of any kind, also sampled generation) changes a registry … *)
Theorem c09_registries_invariant : forall (O : oracles) g c, registries (fst (step O g c)) = registries g.
Proof. exact step_registries. Qed.

(* … hence no history does (histories may interleave arbitrary interference with the global generators) *)
Theorem c09_registries_invariant_history : forall (O : oracles) h g, registries (run O g h) = registries g.
Proof. exact run_registries. Qed.

(* find_cuts (seeded or not), from_instruction and every generation that stays off the sampler leave both global
   generators alone *)
Theorem c09_rng_untouched : forall (O : oracles) g c, exact_class O c = true ->
  np_global (fst (step O g c)) = np_global g /\ py_global (fst (step O g c)) = py_global g.
Proof. intros O g c E; split; [now apply step_np|apply step_py]. Qed.

(* stronger: such a call leaves the whole process state as it found it, and so does any history of such calls *)
Theorem c09_state_untouched : forall (O : oracles) g c, exact_class O c = true -> fst (step O g c) = g.
Proof. exact step_state_id. Qed.

Theorem c09_state_untouched_history : forall (O : oracles) h g,
  forallb (exact_event O) h = true -> run O g h = g.
Proof. exact run_exact_state. Qed.

(* Python's global generator is never written; numpy's only by a generation that reaches the sampler *)
Theorem c09_py_never_written : forall (O : oracles) g c, py_global (fst (step O g c)) = py_global g.
Proof. exact step_py. Qed.

Theorem c09_np_only_writer : forall (O : oracles) g c,
  np_global (fst (step O g c)) <> np_global g ->
  exists a ns, c = Gen O a ns /\ reaches_sampler O a ns = true.
Proof. exact np_writer. Qed.

(* the result of a call does not depend on what happened before in the process: h1, h2 are ARBITRARY histories
   (any calls, also sampled generations, any interference with the generators) *)
Theorem c09_history_independent : forall (O : oracles) g0 h1 h2 c, exact_class O c = true ->
  snd (step O (run O g0 h1) c) = snd (step O (run O g0 h2) c).
Proof. exact history_independent. Qed.

(* … nor on the state of the global generators (or anything else but the registries) *)
Theorem c09_rng_independent : forall (O : oracles) g g' c, exact_class O c = true ->
  registries g = registries g' -> snd (step O g c) = snd (step O g' c).
Proof. exact result_reads_registries. Qed.

(* same arguments + same integer seed => same result: after any history the result is this closed expression in the
   registries the process started with, the arguments and the seed (O-rng: seeded_tape is a function of the integer) *)
Theorem c09_seeded : forall (O : oracles) g0 h a s,
  snd (step O (run O g0 h) (FindCuts O a (Seeded s))) =
  RFind O (find_cuts_pure O
            (an_copy (action_registry g0) (Some (cut_search_groups (fc_gate_lo O a) (fc_wire_lo O a))))
            (funcs_lo g0) (basis_registry g0) a (seeded_tape O s)).
Proof. exact seeded_closed_form. Qed.

(* exact-weight generation is a pure function of its arguments (and the decomposition registry): num_samples = inf … *)
Theorem c09_gen_exact_pure : forall (O : oracles) g0 h a,
  snd (step O (run O g0 h) (GenExact O a)) = RGen O (gen_exact_pure O (basis_registry g0) a NInf).
Proof. exact gen_exact_closed_form. Qed.

(* … and every finite num_samples for which the all-exact branch is taken (or which is refused) *)
Theorem c09_gen_finite_exact_pure : forall (O : oracles) g0 h a ns, reaches_sampler O a ns = false ->
  snd (step O (run O g0 h) (Gen O a ns)) = RGen O (gen_exact_pure O (basis_registry g0) a ns).
Proof. exact gen_nosampler_closed_form. Qed.

Theorem c09_from_instruction_pure : forall (O : oracles) g0 h a,
  snd (step O (run O g0 h) (FromInstruction O a)) = RBasis O (from_instruction_pure O (basis_registry g0) a).
Proof. exact from_instruction_closed_form. Qed.

(* a fresh interpreter (same import-time registries, arbitrary generator states, empty history) gives the same result *)
Theorem c09_fresh_interpreter : forall (O : oracles)
  actions basis np py np' py' h c, exact_class O c = true ->
  snd (step O (run O (fresh_process actions basis np py) h) c) = snd (step O (fresh_process actions basis np' py') c).
Proof. exact fresh_interpreter. Qed.

(* ActionNames.copy never trips its assertion on a well-formed registry and returns the selected actions in registry
   order; the import-time registry is well formed *)
Theorem c09_copy_ok : forall an groups, wf_registry an ->
  exists c, an_copy an groups = Ok c /\
            map snd (action_dict c) = get_action_subset (map snd (action_dict an)) groups /\
            map fst (action_dict c) = map a_name (get_action_subset (map snd (action_dict an)) groups).
Proof. exact an_copy_ok. Qed.

Theorem c09_import_registry_ok : exists an, import_actions = Ok an /\ wf_registry an.
Proof. exact import_actions_ok. Qed.

(* ---------------- non-vacuity: a concrete instance ---------------- *)
Definition O_demo : oracles :=
  mkO nat nat nat nat nat nat nat
      (fun z => Z.to_nat z)
      (fun a => Nat.even a) (fun _ => true)
      (fun fresh tbl basis a t =>
         match fresh with Ok c => length (action_dict c) | _ => 99 end + 10 * a + 100 * t + 1000 * length basis)
      (fun _ => [[(1#2); (1#2); (1#2); (-1#2); (1#2); (-1#2)]]%Q) (fun _ _ => true) (fun s _ _ => S s)
      (fun basis a _ => a + length basis)
      (fun basis a _ s => a + length basis + 7 * s)
      (fun basis a => a + 2 * length basis).

(* the cx basis: six coefficients of magnitude 1/2, probabilities 1/6 each *)
Example demo_smallest : option_map Qred (smallest_probability O_demo 2) = Some (1 # 6)%Q /\ prod_min_nonzero [[0%Q; 0%Q]] = None.
Proof. vm_compute. split; reflexivity. Qed.

Definition g_demo : gstate :=
  match import_actions with
  | Ok an => fresh_process an ["cx"; "cz"; "swap"] 11 12
  | _ => fresh_process an_empty [] 0 0
  end.

Definition h_demo : list (event O_demo) :=
  [ Call (FindCuts O_demo 4 (Seeded 7)) ; Perturb 50 60 ; Call (Gen O_demo 2 (NFin 3)) ;
    Call (FromInstruction O_demo 1) ; Call (FindCuts O_demo 3 (Unseeded 999)) ; Call (GenExact O_demo 5) ].

(* after a history with interference, a sampled generation and an unseeded search: same result as in the fresh process,
   and the value shows that the filtered copy (2 actions for gate_lo = false), the seed and the registry are really read *)
Example demo_history_independent :
  snd (step O_demo (run O_demo g_demo h_demo) (FindCuts O_demo 3 (Seeded 5))) = RFind O_demo 3534 /\
  snd (step O_demo g_demo (FindCuts O_demo 3 (Seeded 5))) = RFind O_demo 3534 /\
  np_global (run O_demo g_demo h_demo) = 51 /\ py_global (run O_demo g_demo h_demo) = 60 /\
  registries (run O_demo g_demo h_demo) = registries g_demo.
Proof. vm_compute. repeat split. Qed.

(* the hypotheses are needed: without an integer seed the entropy matters … *)
Example demo_unseeded_depends_on_entropy :
  snd (step O_demo g_demo (FindCuts O_demo 3 (Unseeded 1))) <> snd (step O_demo g_demo (FindCuts O_demo 3 (Unseeded 2))).
Proof. vm_compute. discriminate. Qed.

(* … and with finite num_samples below the all-exact threshold (1/3 > 1/6) the global numpy state is read and moved *)
Example demo_sampled_moves_np :
  np_global (fst (step O_demo g_demo (Gen O_demo 2 (NFin 3)))) = 12 /\
  snd (step O_demo g_demo (Gen O_demo 2 (NFin 3))) = RGen O_demo 82 /\
  snd (step O_demo (estep O_demo g_demo (Perturb 0 0)) (Gen O_demo 2 (NFin 3))) = RGen O_demo 5.
Proof. vm_compute. repeat split. Qed.

(* finite num_samples at or above 1/smallest probability (1/10 <= 1/6): all-exact branch, nothing touched *)
Example demo_finite_but_exact :
  step O_demo g_demo (Gen O_demo 2 (NFin 10)) = (g_demo, RGen O_demo 5) /\
  exact_class O_demo (Gen O_demo 2 (NFin 10)) = true /\ exact_class O_demo (Gen O_demo 2 (NFin 3)) = false /\
  exact_class O_demo (Gen O_demo 2 (NFin (1 # 2))) = true.
Proof. vm_compute. repeat split. Qed.

(* the boundary the margin is there for: five cx bases, num_samples = 6^5.  In Q the smallest probability EQUALS the
   threshold; the model makes no claim (the oracle decides; here it says "samples"), matching the real code, which samples *)
Definition O_five_cx : oracles :=
  mkO nat unit nat nat nat nat nat (fun z => Z.to_nat z) (fun _ => true) (fun _ => true) (fun _ _ _ a t => a + t)
      (fun _ => repeat [(1#2); (1#2); (1#2); (-1#2); (1#2); (-1#2)]%Q 5) (fun _ _ => true) (fun s _ _ => S s)
      (fun _ _ _ => 0) (fun _ _ _ s => s) (fun _ a => a).
Example demo_float_boundary :
  option_map Qred (smallest_probability O_five_cx tt) = Some (1 # 7776)%Q /\
  exact_class O_five_cx (Gen O_five_cx tt (NFin 7776)) = false /\
  exact_class O_five_cx (Gen O_five_cx tt (NFin 7777)) = true /\
  exact_class O_five_cx (Gen O_five_cx tt NInf) = true.
Proof. vm_compute. repeat split. Qed.

(* a history of calls of the three classes only (seeded and unseeded searches, exact and finite-but-exact generations,
   from_instruction): five different results, the state at the end is the state at the start *)
Definition h_exact : list (event O_demo) :=
  [ Call (FindCuts O_demo 4 (Seeded 7)) ; Call (GenExact O_demo 5) ; Call (FromInstruction O_demo 1) ;
    Call (FindCuts O_demo 3 (Unseeded 9)) ; Call (Gen O_demo 2 (NFin 10)) ].
Example demo_state_untouched_history :
  forallb (exact_event O_demo) h_exact = true /\ run O_demo g_demo h_exact = g_demo /\
  map snd (trace O_demo g_demo h_exact) =
  [Some (RFind O_demo 3745); Some (RGen O_demo 8); Some (RBasis O_demo 7); Some (RFind O_demo 3934); Some (RGen O_demo 5)].
Proof. vm_compute. repeat split. Qed.

Example demo_copy :
  res_map an_view (an_copy (action_registry g_demo) (Some (cut_search_groups true false))) =
  Ok ([(None, (None, [None; Some "TwoQubitGates"]));
       (Some "CutTwoQubitGate", (Some "CutTwoQubitGate", [Some "GateCut"; Some "TwoQubitGates"]))],
      [(None, [None]); (Some "TwoQubitGates", [None; Some "CutTwoQubitGate"]); (Some "GateCut", [Some "CutTwoQubitGate"])]).
Proof. reflexivity. Qed.

Print Assumptions c09_greedy_writes_identity.
Print Assumptions c09_registries_invariant.
Print Assumptions c09_registries_invariant_history.
Print Assumptions c09_rng_untouched.
Print Assumptions c09_state_untouched.
Print Assumptions c09_state_untouched_history.
Print Assumptions c09_py_never_written.
Print Assumptions c09_np_only_writer.
Print Assumptions c09_history_independent.
Print Assumptions c09_rng_independent.
Print Assumptions c09_seeded.
Print Assumptions c09_gen_exact_pure.
Print Assumptions c09_gen_finite_exact_pure.
Print Assumptions c09_inf_is_exact.
Print Assumptions c09_smallest_probability_nonneg.
Print Assumptions c09_finite_exact_margin_partial.
Print Assumptions c09_invalid_num_samples_refused_no_sampling.
Print Assumptions c09_from_instruction_pure.
Print Assumptions c09_fresh_interpreter.
Print Assumptions c09_copy_ok.
Print Assumptions c09_import_registry_ok.

(* ================================================================================================== *)
(* The cut finder made concrete: history independence against the executable search model of C07/C08.   *)
(* ================================================================================================== *)
(* O_cf fuel st O = the oracle record O with find_cuts_pure replaced by Model/ProcessCF.find_cuts_reg: the action list of
   the search is read from the fresh filtered copy of the PROCESS registry (get_group "TwoQubitGates"), the function table
   must hold the five functions the search model interprets, the tape is st seed (O-rng) — and then Model/CutFinder's
   find_cuts runs.  `import_state g`: g's action registry and LO function table are as import leaves them. *)
From CKT Require Model.CutFinder.
From CKT Require Import Model.ProcessCF Proofs.ProcessCFP.

(* the search model's own hard-coded action list is what the process registry yields, for all option settings *)
Theorem c09_registry_yields_search_actions : forall gl wl, exists c,
  an_copy import_registry (Some (cut_search_groups gl wl)) = Ok c /\
  two_qubit_group c = Some (Some (CutFinderState.search_actions gl wl)).
Proof. exact copy_group_std. Qed.

(* same circuit, constraints and integer seed => the result, in EVERY state reachable by any history from a state as import
   leaves it, is the executable cut-finder model run on the tape of that seed *)
Theorem c09_seeded_search_model : forall fuel st (O : oracles) g0 h a s, import_state g0 ->
  snd (step (O_cf fuel st O) (run (O_cf fuel st O) g0 h) (FindCuts (O_cf fuel st O) a (Seeded s))) =
  RFind (O_cf fuel st O) (CutFinder.find_cuts fuel (input_of a (basis_registry g0) (st s))).
Proof. exact seeded_search_model. Qed.

(* seed None: the same with the entropy-determined tape as an explicit input *)
Theorem c09_search_model_any_tape : forall fuel st (O : oracles) g0 h a s, import_state g0 ->
  snd (step (O_cf fuel st O) (run (O_cf fuel st O) g0 h) (FindCuts (O_cf fuel st O) a s)) =
  RFind (O_cf fuel st O) (CutFinder.find_cuts fuel (input_of a (basis_registry g0) (tape_of (O_cf fuel st O) s))).
Proof. exact search_model_any_tape. Qed.

(* two interpreters, arbitrary generator states, arbitrary histories: equal results *)
Theorem c09_seeded_same_everywhere : forall fuel st (O : oracles) basis np py np' py' h h' a s,
  snd (step (O_cf fuel st O) (run (O_cf fuel st O) (fresh_process import_registry basis np py) h)
            (FindCuts (O_cf fuel st O) a (Seeded s))) =
  snd (step (O_cf fuel st O) (run (O_cf fuel st O) (fresh_process import_registry basis np' py') h')
            (FindCuts (O_cf fuel st O) a (Seeded s))).
Proof. exact seeded_same_everywhere. Qed.

Theorem c09_import_state_reachable : forall fuel st (O : oracles) g h,
  import_state g -> import_state (run (O_cf fuel st O) g h).
Proof. exact import_state_run. Qed.

(* with the fuel bound of C07's termination theorem the result is a real outcome (Some r), never the model's
   out-of-fuel value: "the same everywhere" cannot be the degenerate None = None *)
From CKT Require Proofs.CutFinderCirc Proofs.CutFinderFuel.
From CKT Require Import Proofs.ProcessCFTotalP.
Theorem c09_seeded_search_model_total : forall fuel st (O : oracles) g0 h a s, import_state g0 ->
  CutFinderCirc.circ_wf (CutFinder.fi_circ (ca_in a)) ->
  CutFinderFuel.fuel_bound (length (CutFinder.fi_circ (ca_in a))) <= fuel ->
  exists r,
    CutFinder.find_cuts fuel (input_of a (basis_registry g0) (st s)) = Some r /\
    snd (step (O_cf fuel st O) (run (O_cf fuel st O) g0 h) (FindCuts (O_cf fuel st O) a (Seeded s))) =
    RFind (O_cf fuel st O) (Some r).
Proof. exact seeded_search_model_total. Qed.

(* non-vacuity: a triangle of cx on 3 qubits, at most 2 qubits per subcircuit; after a history with interference, a sampled
   generation and an unseeded search the seeded search returns the two gate cuts the search model computes *)
Definition cf_q2 := Circ.Qpd2 0 None (Some (0, None)).
Definition cf_in : CutFinder.fc_input :=
  CutFinder.mkIn 3 0 [Circ.mkI (Circ.Gate 0) [0; 1] []; Circ.mkI (Circ.Gate 0) [1; 2] []; Circ.mkI (Circ.Gate 0) [2; 0] []]
                 [] 2 true true 1024%Q (Some 10000%Z) (fun _ => 0%Q).
Definition cf_a : cf_args := mkCA cf_in (fun basis => if existsb (String.eqb "cx") basis then [(0, (3%Q, cf_q2))] else []).
Definition cf_st (k : Z) : nat -> Q := fun n => (Z.of_nat n * k # 7)%Q.
Definition OC_demo := O_cf 200 cf_st O_demo.
Definition cf_g0 := fresh_process import_registry ["cx"] 11 12.
Definition cf_h : list (event OC_demo) :=
  [ Call (FindCuts OC_demo cf_a (Seeded 3)) ; Perturb 50 60 ; Call (Gen OC_demo 2 (NFin 3)) ;
    Call (FindCuts OC_demo cf_a (Unseeded (fun _ => (1 # 3)%Q))) ; Call (FromInstruction OC_demo 1) ].

Example demo_search_model :
  import_state cf_g0 /\
  snd (step OC_demo (run OC_demo cf_g0 cf_h) (FindCuts OC_demo cf_a (Seeded 5))) =
  RFind OC_demo (Some (Ok ([Circ.mkI (Circ.Gate 0) [0; 1] []; Circ.mkI cf_q2 [1; 2] []; Circ.mkI cf_q2 [2; 0] []],
                           CutFinder.mkMD [(CutFinder.GateCut, 1); (CutFinder.GateCut, 2)] 81%Q true))).
Proof.
  split; [split; reflexivity|].
  (* vm_compute on the whole goal would normalise the oracle record inside the type `result OC_demo` (open terms);
     go through the theorem and evaluate the closed cut-finder run only *)
  etransitivity; [exact (seeded_search_model 200 cf_st O_demo cf_g0 cf_h cf_a 5 (conj eq_refl eq_refl))|].
  apply f_equal. vm_compute. reflexivity.
Qed.

(* the tape IS read by the search: a ring of four cx, at most 3 qubits per subcircuit, gate cuts only.  All cut pairs
   cost 81; which pair is returned is decided by the random tie-break: seeds 1, 2, 6 give three different answers.
   fuel 2000 >= fuel_bound 4 = 784, so the premises of c09_seeded_search_model_total hold as well. *)
Definition ring4 : Circ.circ := map (fun i => Circ.mkI (Circ.Gate 0) [i; Nat.modulo (S i) 4] []) (seq 0 4).
Definition ring4_a : cf_args :=
  mkCA (CutFinder.mkIn 4 0 ring4 [] 3 true false 1024%Q (Some 10000%Z) (fun _ => 0%Q)) (fun _ => [(0, (3%Q, cf_q2))]).
Definition prn (k : Z) : nat -> Q := fun n => let z := Z.of_nat n in (Z.modulo (z * z * k + 3 * z * k + 5 * k + z) 13 # 13)%Q.
Definition cuts_of (o : option (res (Circ.circ * CutFinder.metadata))) :=
  match o with Some (Ok (_, m)) => Some (CutFinder.md_cuts m) | _ => None end.
Example demo_seed_decides :
  map (fun k => cuts_of (CutFinder.find_cuts 2000 (input_of ring4_a [] (prn k)))) [1; 2; 6]%Z =
  [Some [(CutFinder.GateCut, 2); (CutFinder.GateCut, 3)]; Some [(CutFinder.GateCut, 1); (CutFinder.GateCut, 3)];
   Some [(CutFinder.GateCut, 0); (CutFinder.GateCut, 3)]] /\
  CutFinderFuel.fuel_bound (length (CutFinder.fi_circ (ca_in ring4_a))) <= 2000.
Proof. split; [vm_compute; reflexivity|]. vm_compute. repeat constructor. Qed.

(* a registry copy without the TwoQubitGates group (here: the empty container): AssertionError as soon as a gate is
   expanded; a circuit without two-qubit gates is not affected; the refusals come first *)
Example demo_missing_group :
  find_cuts_reg 200 (Ok an_empty) import_funcs ["cx"] cf_a (cf_st 5) = Some Crashed /\
  find_cuts_reg 200 (Ok an_empty) import_funcs ["cx"]
    (mkCA (CutFinder.mkIn 3 0 [] [] 2 true true 1024%Q None (fun _ => 0%Q)) (fun _ => [])) (cf_st 5)
    = Some (Ok ([], CutFinder.mkMD [] 1%Q true)) /\
  find_cuts_reg 200 (Ok an_empty) import_funcs ["cx"]
    (mkCA (CutFinder.mkIn 3 0 [] [] 0 true true 1024%Q None (fun _ => 0%Q)) (fun _ => [])) (cf_st 5) = Some Refused.
Proof. vm_compute. repeat split. Qed.

Print Assumptions c09_seeded_search_model_total.
Print Assumptions c09_registry_yields_search_actions.
Print Assumptions c09_seeded_search_model.
Print Assumptions c09_search_model_any_tape.
Print Assumptions c09_seeded_same_everywhere.
Print Assumptions c09_import_state_reachable.

(* ================================================================================================== *)
(* Tie to the source: regenerated facts (tools/facts_c09.py walks the AST of the whole package).       *)
(* ================================================================================================== *)
From CKT Require Import Extracted.Facts.

(* every module-level / class-level binding to a constructed object, and mutable default arguments.
   Modelled as gstate: disjoint_subcircuit_actions (action_registry), the two cut_optimization_search_funcs (funcs_cutopt, funcs_lo),
   _qpdbasis_from_instruction_funcs (basis_registry).  Not state: __version__ (str), OptimizationParameters.* (immutable field values
   None/1024/10000/True/True read off throw-away OptimizationSettings() objects), logger (only .info is called), _I (a Pauli that is only
   read), CommutingObservableGroup.pauli_* (dataclasses.field(init=False) descriptors). *)
Example module_globals_as_modelled : c09_module_globals = [
  ("__init__", "__version__");
  ("automated_cut_finding", "OptimizationParameters.gate_lo");
  ("automated_cut_finding", "OptimizationParameters.max_backjumps");
  ("automated_cut_finding", "OptimizationParameters.max_gamma");
  ("automated_cut_finding", "OptimizationParameters.seed");
  ("automated_cut_finding", "OptimizationParameters.wire_lo");
  ("cut_finding.cut_optimization", "cut_optimization_search_funcs");
  ("cut_finding.cutting_actions", "disjoint_subcircuit_actions");
  ("cut_finding.lo_cuts_optimizer", "cut_optimization_search_funcs");
  ("qpd.decompositions", "_qpdbasis_from_instruction_funcs");
  ("qpd.weights", "logger");
  ("utils.observable_grouping", "CommutingObservableGroup.pauli_bitmasks");
  ("utils.observable_grouping", "CommutingObservableGroup.pauli_indices");
  ("utils.observable_grouping", "_I")
].
Proof. reflexivity. Qed.

Definition globals_as_modelled := module_globals_as_modelled.

(* bare statements executed at import: the five registrations, in this order (= registered_actions), and two version probes *)
Example import_time_calls_as_modelled : c09_import_time_calls = [
  ("cut_finding.cutting_actions", "disjoint_subcircuit_actions.define_action(ActionApplyGate())");
  ("cut_finding.cutting_actions", "disjoint_subcircuit_actions.define_action(ActionCutTwoQubitGate())");
  ("cut_finding.cutting_actions", "disjoint_subcircuit_actions.define_action(ActionCutLeftWire())");
  ("cut_finding.cutting_actions", "disjoint_subcircuit_actions.define_action(ActionCutRightWire())");
  ("cut_finding.cutting_actions", "disjoint_subcircuit_actions.define_action(ActionCutBothWires())");
  ("utils.bitwise", "if hasattr(0, 'bit_count')");
  ("utils.iteration", "if sys.version_info >= (3, 10, 0)")
].
Proof. reflexivity. Qed.

(* EVERY reference to one of those globals from inside a function body or a default argument.  The only routes by which a
   global can reach code that writes are the four SearchSpaceGenerator(...) constructions and the two default arguments:
   these are the aliases followed by step (funcs_lo via LOCutsOptimizer.__init__; funcs_cutopt only if CutOptimization is built
   without a config, which find_cuts never does). *)
Example global_uses_as_modelled : c09_global_uses = [
  ("cut_finding.cut_optimization:CutOptimization.__init__", "cut_optimization_search_funcs kwarg:functions-of:SearchSpaceGenerator");
  ("cut_finding.cut_optimization:CutOptimization.__init__", "disjoint_subcircuit_actions kwarg:actions-of:SearchSpaceGenerator");
  ("cut_finding.cut_optimization:greedy_cut_optimization", "default search_actions=disjoint_subcircuit_actions");
  ("cut_finding.cut_optimization:greedy_cut_optimization", "default search_space_funcs=cut_optimization_search_funcs");
  ("cut_finding.lo_cuts_optimizer:LOCutsOptimizer.__init__", "cut_optimization_search_funcs kwarg:functions-of:SearchSpaceGenerator");
  ("cut_finding.lo_cuts_optimizer:LOCutsOptimizer.__init__", "disjoint_subcircuit_actions kwarg:actions-of:SearchSpaceGenerator");
  ("qpd.decompositions:_explicitly_supported_instructions", "_qpdbasis_from_instruction_funcs arg-of:set");
  ("qpd.decompositions:_register_qpdbasis_from_instruction.g", "_qpdbasis_from_instruction_funcs item-write");
  ("qpd.decompositions:qpdbasis_from_instruction", "_qpdbasis_from_instruction_funcs subscript-read");
  ("qpd.weights:_generate_qpd_weights", "logger call:info");
  ("utils.observable_grouping:CommutingObservableGroup.__post_init__", "_I read");
  ("utils.observable_grouping:most_general_observable", "_I read")
].
Proof. reflexivity. Qed.

(* every statement outside import time that writes a global, an attribute/item of a global, declares global/nonlocal, calls a
   mutator method on a global, or assigns an attribute/item THROUGH A PARAMETER (possible alias of a global).
   - the three search_space_funcs.* assignments are greedy_writes (Model/Process.v);
   - _register_qpdbasis_from_instruction.g runs only inside the decorators, i.e. at import time;
   - SELF-CHAIN-WRITE/-CALL (cut_finding only): writes two levels below self.  self.func_args.* is the per-CutOptimization
     CutOptimizationFuncArgs; the dict/list item writes are into containers created in the same object's __init__
     (NameToIDMap, SimpleGateList, DisjointSubcircuitsState, OptimizationSettings) or ActionNames.define_action (import time /
     fresh copy); none reaches self.search_funcs.* or a registry;
   - no DEF-WRITE/DEF-CALL: no function attribute, class attribute or imported object is written;
   - all other PARAM-WRITEs / PARAM-CALLs go through parameters whose classes have no module-level instance (fact c09_registry_classes):
     QuantumCircuit.data, local dicts/lists, DisjointSubcircuitsState, CutOptimizationFuncArgs (one per CutOptimization). *)
Example global_writes_as_modelled : c09_global_writes = [
  ("cut_finding.cco_utils:greedy_best_first_search", "PARAM-WRITE-assign search_space_funcs.cost_func := cast(Callable, search_space_funcs.cost_func)");
  ("cut_finding.cco_utils:greedy_best_first_search", "PARAM-WRITE-assign search_space_funcs.goal_state_func := cast(Callable, search_space_funcs.goal_state_func)");
  ("cut_finding.cco_utils:greedy_best_first_search", "PARAM-WRITE-assign search_space_funcs.next_state_func := cast(Callable, search_space_funcs.next_state_func)");
  ("cut_finding.circuit_interface:NameToIDMap.define_id", "SELF-CHAIN-WRITE-assign self.id_dict[item_id] := item_name");
  ("cut_finding.circuit_interface:NameToIDMap.define_id", "SELF-CHAIN-WRITE-assign self.item_dict[item_name] := item_id");
  ("cut_finding.circuit_interface:NameToIDMap.get_id", "SELF-CHAIN-WRITE-assign self.id_dict[self.next_id] := item_name");
  ("cut_finding.circuit_interface:NameToIDMap.get_id", "SELF-CHAIN-WRITE-assign self.item_dict[item_name] := self.next_id");
  ("cut_finding.circuit_interface:SimpleGateList.insert_gate_cut", "SELF-CHAIN-WRITE-assign self.cut_type[gate_pos] := cut_type");
  ("cut_finding.circuit_interface:SimpleGateList.insert_wire_cut", "SELF-CHAIN-WRITE-assign self.output_wires[qubit] := dest_wire_id");
  ("cut_finding.circuit_interface:SimpleGateList.insert_wire_cut", "SELF-CHAIN-WRITE-augassign self.new_gate_id_map[gate_id:] := 1");
  ("cut_finding.circuit_interface:SimpleGateList.make_wire_mapping", "PARAM-WRITE-assign name_mapping[name] := name");
  ("cut_finding.cut_optimization:CutOptimization.__init__", "SELF-CHAIN-WRITE-assign self.func_args.entangling_gates := self.circuit.get_multiqubit_gates()");
  ("cut_finding.cut_optimization:CutOptimization.__init__", "SELF-CHAIN-WRITE-assign self.func_args.max_gamma := self.settings.get_max_gamma");
  ("cut_finding.cut_optimization:CutOptimization.__init__", "SELF-CHAIN-WRITE-assign self.func_args.qpu_width := self.constraints.get_qpu_width()");
  ("cut_finding.cut_optimization:CutOptimization.__init__", "SELF-CHAIN-WRITE-assign self.func_args.search_actions := self.search_actions");
  ("cut_finding.cut_optimization:cut_optimization_goal_state_func", "PARAM-WRITE-assign func_args.entangling_gates := cast(list, func_args.entangling_gates)");
  ("cut_finding.cut_optimization:cut_optimization_next_state_func", "PARAM-WRITE-assign func_args.qpu_width := cast(int, func_args.qpu_width)");
  ("cut_finding.disjoint_subcircuits_state:DisjointSubcircuitsState.find_wire_root", "SELF-CHAIN-WRITE-assign self.uptree[wire] := root");
  ("cut_finding.disjoint_subcircuits_state:DisjointSubcircuitsState.merge_roots", "SELF-CHAIN-WRITE-assign self.uptree[other_root] := merged_root");
  ("cut_finding.disjoint_subcircuits_state:DisjointSubcircuitsState.merge_roots", "SELF-CHAIN-WRITE-augassign self.width[merged_root] := self.width[other_root]");
  ("cut_finding.disjoint_subcircuits_state:DisjointSubcircuitsState.new_wire", "SELF-CHAIN-WRITE-assign self.wiremap[qubit] := self.num_wires");
  ("cut_finding.disjoint_subcircuits_state:DisjointSubcircuitsState.set_next_level", "PARAM-WRITE-assign state.level := cast(int, state.level)");
  ("cut_finding.optimization_settings:OptimizationSettings.set_engine_selection", "SELF-CHAIN-WRITE-assign self.engine_selections[stage_of_optimization] := engine_name");
  ("cut_finding.search_space_generator:ActionNames.define_action", "SELF-CHAIN-CALL self.group_dict[group_name].append");
  ("cut_finding.search_space_generator:ActionNames.define_action", "SELF-CHAIN-CALL self.group_dict[name].append");
  ("cut_finding.search_space_generator:ActionNames.define_action", "SELF-CHAIN-WRITE-assign self.action_dict[action_object.get_name()] := action_object");
  ("cut_finding.search_space_generator:ActionNames.define_action", "SELF-CHAIN-WRITE-assign self.group_dict[group_name] := []");
  ("cut_finding.search_space_generator:ActionNames.define_action", "SELF-CHAIN-WRITE-assign self.group_dict[name] := []");
  ("cutting_decomposition:cut_gates", "PARAM-WRITE-assign circuit.data[gate_id]");
  ("cutting_decomposition:partition_circuit_qubits", "PARAM-WRITE-assign circuit.data[i]");
  ("cutting_experiments:_consolidate_resets", "PARAM-WRITE-del circuit.data[i]");
  ("cutting_experiments:_remove_final_resets", "PARAM-WRITE-del circuit.data[i]");
  ("cutting_experiments:_remove_resets_in_zero_state", "PARAM-WRITE-del circuit.data[i]");
  ("qpd.decompose:_decompose_qpd_instructions", "PARAM-CALL circuit.data.insert");
  ("qpd.decompose:_decompose_qpd_instructions", "PARAM-WRITE-assign circuit.data[i + data_id_offset]");
  ("qpd.decompose:_decompose_qpd_instructions", "PARAM-WRITE-del circuit.data[i + data_id_offset]");
  ("qpd.decompose:_decompose_qpd_measurements", "PARAM-WRITE-assign circuit.data[i]");
  ("qpd.decompose:decompose_qpd_instructions", "PARAM-WRITE-assign circuit.data[gate_id].operation.basis_id");
  ("qpd.decompositions:_register_qpdbasis_from_instruction.g", "WRITE-assign _qpdbasis_from_instruction_funcs[name] := f");
  ("qpd.weights:__update_running_product_after_increment", "PARAM-WRITE-assign running_product[-1]");
  ("qpd.weights:_populate_samples", "PARAM-WRITE-assign random_samples[outcome]");
  ("qpd.weights:_populate_samples", "PARAM-WRITE-assign random_samples[running_state + outcome]");
  ("utils.transforms:_combine_barriers", "PARAM-WRITE-assign circuit.data[barrier_indices[0]]");
  ("utils.transforms:_combine_barriers", "PARAM-WRITE-del circuit.data[inst - shift]");
  ("utils.transforms:_split_barriers", "PARAM-CALL circuit.data.insert");
  ("utils.transforms:_split_barriers", "PARAM-WRITE-assign circuit.data[i]")
].
Proof. reflexivity. Qed.

(* (get_name(), get_group_names()) of the registered action classes, in registration order *)
Example action_table_as_modelled : c09_action_table = [
  ("None", "None,TwoQubitGates");
  ("CutTwoQubitGate", "GateCut,TwoQubitGates");
  ("CutLeftWire", "WireCut,TwoQubitGates");
  ("CutRightWire", "WireCut,TwoQubitGates");
  ("CutBothWires", "WireCut,TwoQubitGates")
].
Proof. reflexivity. Qed.

(* the two SearchFunctions tables, slots in dataclass field order *)
Example func_tables_as_modelled : c09_func_tables = [
  ("cut_finding.cut_optimization:cut_optimization_search_funcs.cost_func", "cut_optimization_upper_bound_cost_func");
  ("cut_finding.cut_optimization:cut_optimization_search_funcs.next_state_func", "cut_optimization_next_state_func");
  ("cut_finding.cut_optimization:cut_optimization_search_funcs.goal_state_func", "cut_optimization_goal_state_func");
  ("cut_finding.cut_optimization:cut_optimization_search_funcs.upperbound_cost_func", "cut_optimization_upper_bound_cost_func");
  ("cut_finding.cut_optimization:cut_optimization_search_funcs.mincost_bound_func", "cut_optimization_min_cost_bound_func");
  ("cut_finding.lo_cuts_optimizer:cut_optimization_search_funcs.cost_func", "cut_optimization_upper_bound_cost_func");
  ("cut_finding.lo_cuts_optimizer:cut_optimization_search_funcs.next_state_func", "cut_optimization_next_state_func");
  ("cut_finding.lo_cuts_optimizer:cut_optimization_search_funcs.goal_state_func", "cut_optimization_goal_state_func");
  ("cut_finding.lo_cuts_optimizer:cut_optimization_search_funcs.upperbound_cost_func", "cut_optimization_upper_bound_cost_func");
  ("cut_finding.lo_cuts_optimizer:cut_optimization_search_funcs.mincost_bound_func", "cut_optimization_min_cost_bound_func")
].
Proof. reflexivity. Qed.

(* classes of the package with instances created at import time (incl. throw-away OptimizationSettings()) *)
Example registry_classes_as_modelled : c09_registry_classes = [
  ("ActionApplyGate", "cut_finding.cutting_actions");
  ("ActionCutBothWires", "cut_finding.cutting_actions");
  ("ActionCutLeftWire", "cut_finding.cutting_actions");
  ("ActionCutRightWire", "cut_finding.cutting_actions");
  ("ActionCutTwoQubitGate", "cut_finding.cutting_actions");
  ("ActionNames", "cut_finding.cutting_actions");
  ("DisjointSearchAction", "base of ActionApplyGate");
  ("OptimizationSettings", "automated_cut_finding");
  ("SearchFunctions", "cut_finding.cut_optimization");
  ("SearchFunctions", "cut_finding.lo_cuts_optimizer")
].
Proof. reflexivity. Qed.

(* self-writes inside those classes: ActionNames mutates only in __init__/define_action; the action classes and SearchFunctions
   have none; OptimizationSettings objects are per call *)
Example registry_method_writes_as_modelled : c09_registry_method_writes = [
  ("ActionNames.__init__", "self.action_dict");
  ("ActionNames.__init__", "self.group_dict");
  ("ActionNames.define_action", "self.action_dict[action_object.get_name()]");
  ("ActionNames.define_action", "self.group_dict[group_name]");
  ("ActionNames.define_action", "self.group_dict[group_name].append");
  ("ActionNames.define_action", "self.group_dict[name]");
  ("ActionNames.define_action", "self.group_dict[name].append");
  ("OptimizationSettings.__post_init__", "self.engine_selections");
  ("OptimizationSettings.__post_init__", "self.gate_cut_lo");
  ("OptimizationSettings.__post_init__", "self.gate_cut_locc_with_ancillas");
  ("OptimizationSettings.__post_init__", "self.wire_cut_lo");
  ("OptimizationSettings.__post_init__", "self.wire_cut_locc_no_ancillas");
  ("OptimizationSettings.__post_init__", "self.wire_cut_locc_with_ancillas");
  ("OptimizationSettings.get_engine_selection", "self.engine_selections");
  ("OptimizationSettings.set_engine_selection", "self.engine_selections");
  ("OptimizationSettings.set_engine_selection", "self.engine_selections[stage_of_optimization]");
  ("OptimizationSettings.set_gate_cut_types", "self.gate_cut_lo");
  ("OptimizationSettings.set_gate_cut_types", "self.gate_cut_locc_with_ancillas");
  ("OptimizationSettings.set_wire_cut_types", "self.wire_cut_lo");
  ("OptimizationSettings.set_wire_cut_types", "self.wire_cut_locc_no_ancillas");
  ("OptimizationSettings.set_wire_cut_types", "self.wire_cut_locc_with_ancillas")
].
Proof. reflexivity. Qed.

(* calls, from function bodies, of the methods just listed: define_action is only ever called on the NEW container in copy *)
Example registry_mutator_calls_as_modelled : c09_registry_mutator_calls = [
  ("cut_finding.cco_utils:select_search_engine", "optimization_settings.get_engine_selection");
  ("cut_finding.search_space_generator:ActionNames.copy", "new_container.define_action")
].
Proof. reflexivity. Qed.

(* every use of randomness in the package.  default_rng(seed): the per-search Generator (tape_of); np.random.choice on the global
   state: only in _populate_samples (reaches_sampler / np_advance); uuid4: barrier labels in _split_barriers, removed again by
   _combine_barriers and interned by the harness *)
Example rng_uses_as_modelled : c09_rng_uses = [
  ("cut_finding.best_first_search:BestFirstPriorityQueue.__init__", "np.random.Generator");
  ("cut_finding.best_first_search:BestFirstPriorityQueue.__init__", "np.random.default_rng");
  ("qpd.weights:_populate_samples", "np.random.choice");
  ("utils.transforms:<import>", "from uuid import uuid4");
  ("utils.transforms:_split_barriers", "uuid4")
].
Proof. reflexivity. Qed.

(* time / datetime / os.environ / id( / hash( : none in cut_finding; the two id( uses deduplicate lists by identity inside one call *)
Example history_sources_as_modelled : c09_history_sources = [
  ("qpd.decompositions:_copy_unique_sublists", "id(");
  ("utils.iteration:unique_by_id", "id(")
].
Proof. reflexivity. Qed.

(* functools caches: none *)
Example memoisation_sites_as_modelled : c09_memoisation_sites = [
].
Proof. reflexivity. Qed.

(* registers created without a name get a name from a Qiskit process-global counter: their NAMES are history dependent
   (harness: interned like uuids).  Reached by separate_circuit / partition_problem, not by the three calls of C09. *)
Example anonymous_registers_as_modelled : c09_anonymous_registers = [
  ("utils.transforms:_circuit_from_instructions", "QuantumRegister(bits=qubits)")
].
Proof. reflexivity. Qed.

(* ---------------- the model's constants are the extracted ones ---------------- *)
Definition show_gname (g : gname) : string := match g with None => "None" | Some s => s end.
Fixpoint join (l : list string) : string :=
  match l with [] => "" | [x] => x | x :: r => (x ++ "," ++ join r)%string end.

Theorem c09_facts_action_table :
  map (fun a => (show_gname (a_name a), join (map show_gname (a_groups a)))) registered_actions = c09_action_table.
Proof. reflexivity. Qed.

Theorem c09_facts_func_tables :
  map (fun o => Some (snd o)) c09_func_tables = (ft_view import_funcs ++ ft_view import_funcs)%list.
Proof. reflexivity. Qed.

Theorem c09_facts_basis_registry : registry_names = import_basis.
Proof. reflexivity. Qed.

(* the writes through a possibly aliased SearchFunctions parameter are exactly the three of greedy_writes, each assigning
   typing.cast(Callable, <the same slot>) (the extractor refuses a `cast` that is not imported from typing) *)
Theorem c09_facts_greedy_writes :
  filter (fun p => String.prefix "cut_finding.cco_utils:" (fst p)) c09_global_writes =
  [ ("cut_finding.cco_utils:greedy_best_first_search",
     "PARAM-WRITE-assign search_space_funcs.cost_func := cast(Callable, search_space_funcs.cost_func)");
    ("cut_finding.cco_utils:greedy_best_first_search",
     "PARAM-WRITE-assign search_space_funcs.goal_state_func := cast(Callable, search_space_funcs.goal_state_func)");
    ("cut_finding.cco_utils:greedy_best_first_search",
     "PARAM-WRITE-assign search_space_funcs.next_state_func := cast(Callable, search_space_funcs.next_state_func)") ].
Proof. reflexivity. Qed.

(* no direct write to a module global outside import time, no global/nonlocal declaration, no mutator call on a global, no
   write or mutator call through a local that (transitively) aliases a global: everything that is not a write or mutator
   call through a parameter is the decorator body that fills the decomposition registry *)
Theorem c09_facts_no_direct_global_write :
  filter (fun p => negb (String.prefix "PARAM-" (snd p)) && negb (String.prefix "SELF-CHAIN-" (snd p))) c09_global_writes =
  [ ("qpd.decompositions:_register_qpdbasis_from_instruction.g", "WRITE-assign _qpdbasis_from_instruction_funcs[name] := f") ].
Proof. reflexivity. Qed.

(* cut finding has no source of history dependence other than its seeded Generator *)
Theorem c09_facts_cut_finding_sources :
  filter (fun p => String.prefix "cut_finding" (fst p)) c09_history_sources = [] /\
  filter (fun p => String.prefix "cut_finding" (fst p)) c09_rng_uses =
  [ ("cut_finding.best_first_search:BestFirstPriorityQueue.__init__", "np.random.Generator");
    ("cut_finding.best_first_search:BestFirstPriorityQueue.__init__", "np.random.default_rng") ] /\
  c09_memoisation_sites = [].
Proof. repeat split. Qed.

Print Assumptions c09_facts_action_table.
Print Assumptions c09_facts_func_tables.
Print Assumptions c09_facts_basis_registry.
Print Assumptions c09_facts_greedy_writes.
Print Assumptions c09_facts_no_direct_global_write.
Print Assumptions c09_facts_cut_finding_sources.

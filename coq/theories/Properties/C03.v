(* Properties/C03.v — Replacing wire-cut markers by Move operations preserves circuit semantics.
   Only theorem statements closed by `exact`, non-vacuity examples, Print Assumptions, facts.

   Vocabulary (Model/CutWires.v):
     wf_circ nq c           qubit indices < nq, a marker acts on exactly one qubit
     cut_freq c q           number of markers on qubit q           count_markers c = total
     new_qubits nq c        circuit.qubits of the result, as identity tags: original qubit q = q,
                            the k-th freshly allocated Qubit() = nq + k
     cut_wires_gen fac nq c instruction list of the result; marker -> [fac] on (pos, pos+1)
                            (fac = Move for _transform_cuts_to_moves, a Qpd2 placeholder for cut_wires)
     final_position c q     = q + #markers on qubits <= q  : index of the ORIGINAL Qubit object q
     position_after c c1 q  position of qubit q's wire once the prefix c1 of c has been processed
   Semantics (Common/Herbrand.v): Move a b = "b receives a's wire term, a becomes |0>"
   (reset-and-swap); markers are identities; gate instance tags ignore markers and moves. *)
From Coq Require Import QArith.
From CKT Require Import Common.Base Common.Circ Common.Herbrand Model.Observables Model.CutWires Model.CutWiresObs
  Model.Experiments Model.Roundtrip Proofs.ExperimentsP Proofs.CutWiresP Proofs.CutWiresObsP Proofs.CutWiresRoundtripP.
From CKT Require Model.Reconstruct.
Close Scope Q_scope.

(* ---- qubits ---- *)

(* the result has the original qubit objects in their original order, each immediately preceded
   by as many fresh qubits as there are markers on it; hence nq + #markers qubits *)
Theorem c03_qubits : forall nq c, wf_circ nq c = true ->
  new_qubits nq c =
    flat_map (fun q => seq (nq + sum_below (cut_freq c) q) (cut_freq c q) ++ [q]) (seq 0 nq)
  /\ length (new_qubits nq c) = nq + count_markers c
  /\ filter (fun t => t <? nq) (new_qubits nq c) = seq 0 nq
  /\ forall q, q < nq -> index_of q (new_qubits nq c) = Some (final_position c q).
Proof. exact new_qubits_full. Qed.

(* registers, classical bits: NO PROOF CONTENT.  transform_cut_wires returns its own arguments qregs/nc/cregs; this
   statement only names the fields of the model's result.  The "registers kept" clause of the property is tied to the
   implementation by the correspondence check (chk_cut) and judged by harness/c03.py only. *)
Theorem c03_registers_model_identity : forall fac nq nc qregs cregs c,
  let r := transform_cut_wires fac nq nc qregs cregs c in
  cr_qubits r = new_qubits nq c /\ cr_qregs r = qregs /\ cr_nclbits r = nc /\ cr_cregs r = cregs /\
  cr_data r = cut_wires_gen fac nq c.
Proof. exact transform_fields. Qed.

(* ---- instructions ---- *)

(* instruction k of the result is instruction k of the input, relocated through the positions the
   qubits have after the first k instructions: a marker on q becomes [fac] on (pos q, pos q + 1),
   anything else keeps its operation and classical bits and moves to the current positions *)
Theorem c03_instructions : forall fac nq c d, wf_circ nq c = true ->
  length (cut_wires_gen fac nq c) = length c /\
  forall k, k < length c ->
    nth k (cut_wires_gen fac nq c) d = relocate fac (position_after c (firstn k c)) (nth k c d).
Proof. exact cut_wires_nth. Qed.

(* filter form: the non-marker instructions of the input are, in order, exactly the instructions
   at the non-marker positions of the result (same operation, same clbits) ... *)
Theorem c03_instructions_kept : forall fac nq c,
  map (fun i => (iop i, ics i))
      (select (map (fun i => negb (is_marker i)) c) (cut_wires_gen fac nq c)) =
  map (fun i => (iop i, ics i)) (erase_markers c).
Proof. intros; apply tcw_select_kept. Qed.

(* ... and the marker positions hold factory operations on two adjacent positions *)
Theorem c03_instructions_inserted : forall fac nq c,
  Forall (fun i => iop i = fac /\ ics i = [] /\ exists p, iqs i = [p; p + 1])
         (select (map is_marker c) (cut_wires_gen fac nq c)).
Proof. intros; apply tcw_select_inserted. Qed.

(* ---- semantics ---- *)

(* With each inserted Move executed as reset-and-swap: the wire term of every original qubit is
   found at the position of the original Qubit object, every other position ends in |0>, and all
   classical bits carry the same measurement terms as in the input with markers ignored. *)
Theorem c03_semantics : forall nq nc c, wf_circ nq c = true ->
  let t  := denote nq nc (erase_markers c) in
  let t' := denote (nq + count_markers c) nc (cut_wires_moves nq c) in
  (forall q, q < nq -> final_position c q < nq + count_markers c /\ wire t' (final_position c q) = wire t q) /\
  (forall j, (forall q, q < nq -> j <> final_position c q) -> wire t' j = Zero) /\
  hc t' = hc t.
Proof. exact semantics_full_bounded. Qed.

(* the cut_wires form.  NEAR-DEFINITIONAL (hence _def): exec_inserted_as_moves overwrites the operation at the marker
   positions of the INPUT with Move whatever the factory put there, so this holds for any fac; it says that
   cut_wires_gen differs from the Move form only in the operation at those positions.  That the placeholder of
   cut_wires IS a cut Move is not a statement of C03 (only its coefficient table is tied, c03_facts). *)
Theorem c03_cut_wires_as_moves_def : forall fac nq c,
  exec_inserted_as_moves c (cut_wires_gen fac nq c) = cut_wires_moves nq c.
Proof. exact exec_inserted_cut_wires. Qed.

(* ... also when the placeholder is recognised by its operation rather than by position, provided the input does
   not already contain that operation (false e.g. for cut_wires (cut_wires c)) *)
Theorem c03_unwrap : forall fac nq c, (forall i, In i c -> op_beq (iop i) fac = false) ->
  map (unwrap fac) (cut_wires_gen fac nq c) = cut_wires_moves nq c.
Proof. exact unwrap_cut_wires. Qed.

(* corollary (no new content): c03_semantics rewritten along c03_cut_wires_as_moves_def *)
Theorem c03_semantics_cut_wires_cor : forall fac nq nc c, wf_circ nq c = true ->
  let t  := denote nq nc (erase_markers c) in
  let t' := denote (nq + count_markers c) nc (exec_inserted_as_moves c (cut_wires_gen fac nq c)) in
  (forall q, q < nq -> wire t' (final_position c q) = wire t q) /\
  (forall j, (forall q, q < nq -> j <> final_position c q) -> wire t' j = Zero) /\
  hc t' = hc t.
Proof. exact semantics_full_gen. Qed.

(* ignoring markers = executing them as identities *)
Theorem c03_markers_transparent : forall nq nc c, denote nq nc c = denote nq nc (erase_markers c).
Proof. exact denote_erase. Qed.

(* Move's side condition (instructions/move.py: the destination must be unentangled): at the moment
   an inserted Move executes, its destination wire is still |0> - and the destination is a real position of the
   result (inside the marker qubit's block, below the number of qubits), so the |0> is not the out-of-range default
   of [wire] *)
Theorem c03_move_targets_fresh : forall nq nc c c1 i c2,
  wf_circ nq c = true -> c = c1 ++ i :: c2 -> is_marker i = true ->
  let p := position_after c c1 (marker_qubit i) in
  let s := denote (nq + count_markers c) nc (tcw Move (fst (structure_mapping nq c)) c1) in
  wire s (p + 1) = Zero /\
  p + 1 <= final_position c (marker_qubit i) /\
  final_position c (marker_qubit i) < nq + count_markers c /\
  length (hw s) = nq + count_markers c.
Proof. exact move_target_full. Qed.

(* ---- observables ---- *)

(* expand_observables (Model/Observables.v) finds original qubit q exactly at final_position c q *)
Theorem c03_expand : forall nq c ps, wf_circ nq c = true -> (forall p, In p ps -> length (plets p) = nq) ->
  expand nq (seq 0 nq) (new_qubits nq c) ps =
  Ok (map (expand1 (map (final_position c) (seq 0 nq)) (nq + count_markers c)) ps).
Proof. exact expand_new_qubits_wf. Qed.

(* so every expanded observable reads qubit q's letter on the wire that c03_semantics equates
   with qubit q's original wire, and the identity everywhere else *)
Theorem c03_expand_letters : forall nq c p, wf_circ nq c = true -> length (plets p) = nq ->
  let r := expand1 (map (final_position c) (seq 0 nq)) (nq + count_markers c) p in
  pphase r = pphase p /\ length (plets r) = nq + count_markers c /\
  (forall q, q < nq -> nth (final_position c q) (plets r) 0 = nth q (plets p) 0) /\
  (forall j, (forall q, q < nq -> j <> final_position c q) -> nth j (plets r) 0 = 0).
Proof. exact expand1_letters. Qed.

(* ---- "the same expectation value for every observable expanded onto it", made precise ---- *)

(* what an expanded observable reads on the result (its non-identity letters with the wire terms under them, in
   order) is exactly what the original observable reads on the input with markers ignored *)
Theorem c03_observable_reading : forall nq nc c p, wf_circ nq c = true -> length (plets p) = nq ->
  let r := expand1 (map (final_position c) (seq 0 nq)) (nq + count_markers c) p in
  reading (denote (nq + count_markers c) nc (cut_wires_moves nq c)) (plets r)
  = reading (denote nq nc (erase_markers c)) (plets p).
Proof. exact reading_expand. Qed.

(* hence EVERY functional of (reading, classical bits, phase) - modelling assumption M1 says the expectation value
   is one - takes the same value, for the whole list that expand_observables returns (c03_expand) *)
Theorem c03_expectation_values :
  forall (A : Type) (ev : list (letter * wt) -> list ct -> nat -> A) nq nc c ps,
  wf_circ nq c = true -> (forall p, In p ps -> length (plets p) = nq) ->
  map (expect ev (denote (nq + count_markers c) nc (cut_wires_moves nq c))) (expanded nq c ps)
  = map (expect ev (denote nq nc (erase_markers c))) ps.
Proof. exact (@expect_expanded). Qed.

(* ---- clause f: cutting the inserted Moves and reconstructing with exact weights ---- *)

(* FULL STATEMENT (property text, NOT proved as such):
     reconstruct (run_exactly (generate (partition_problem (cut_wires c) (expand obs)) inf)) = <obs> on c without markers.
   PROVED (hence _partial): the composition.  C01's round trip (c01_roundtrip_partial = Proofs/RoundtripP.roundtrip)
   is instantiated with
     Ev k := the value of the k-th EXPANDED observable on cut_wires' output with every Move executed as a Move
             (for ANY value functional ev of reading/classical bits/phase: M1),
     C    := one copy of the Move coefficient list (c03_facts: the table in decompositions.py; c02_source_tables /
             c02_move_exact: an exact decomposition of Move) per marker; kappa <> 0 is discharged here,
   and its conclusion is transported along c03_expectation_values.  The conclusion speaks of the ORIGINAL
   observables on the ORIGINAL circuit.  STILL ASSUMED: exactly the remaining hypotheses of c01_roundtrip_partial -
   P1 (multilinearity over the Move decompositions) and P2+P3 (factorisation over partitions, instrument rule) for
   the circuit cut_wires produced, the exact weights (C04), the coefficient list shape (C05), the shape/keys of the
   results and the exact-results equation (C06/C13).  The same transport (c03_reconstructed_transport) applies to
   every other c01_*roundtrip*_partial, whose conclusions all have the form  res_Qeq _ (Ok (map Ev (seq 0 nobs))). *)
Theorem c03_reconstructed_transport :
  forall (ev : list (letter * wt) -> list ct -> nat -> Q) nq nc c ps (R : res (list Q)),
  wf_circ nq c = true -> (forall p, In p ps -> length (plets p) = nq) ->
  Reconstruct.res_Qeq R
    (Ok (map (fun k => expect ev (denote (nq + count_markers c) nc (cut_wires_moves nq c)) (nth k (expanded nq c ps) pI0))
             (seq 0 (length ps)))) ->
  Reconstruct.res_Qeq R (Ok (map (expect ev (denote nq nc (erase_markers c))) ps)).
Proof. exact reconstructed_transport. Qed.

Theorem c03_cut_and_reconstruct_partial :
  forall (ev : list (letter * wt) -> list ct -> nat -> Q) nq nc c ps,
  wf_circ nq c = true -> (forall p, In p ps -> length (plets p) = nq) ->
  let nobs := length ps in
  let C := move_cuts c in
  let Ev := fun k => expect ev (denote (nq + count_markers c) nc (cut_wires_moves nq c)) (nth k (expanded nq c ps) pI0) in
  forall (L : list (list nat)) (term : jkey -> nat -> Q) (E : nat -> jkey -> nat -> Q),
  (forall k, k < nobs ->
     (Ev k == sumQ (map (fun ids => (coeff_prod C ids * term ids k)%Q) (all_maps (map (@length Q) C))))%Q) ->
  (forall ids k, In ids (all_maps (map (@length Q) C)) -> k < nobs -> (term ids k == part_prod L E ids k)%Q) ->
  forall (W : sdict) (cq : list (Q * wkind)),
  exact_weights C W ->
  Forall2 (fun s c0 => exists cs, chosen_coeffs C (s_ids s) = Ok cs /\
                                  c0 = (coeff_value (total_weight W) (kappa_all C) (s_w s) cs, s_t s))
          (sort_samples W) cq ->
  forall pyint0 den (pds : list (Reconstruct.part * Reconstruct.pdata)),
  length pds = length L ->
  (forall pd, In pd pds ->
     Reconstruct.data_len (snd pd) = length (map fst cq) * length (Reconstruct.pgroups (fst pd))) ->
  (forall pd, In pd pds -> length (Reconstruct.plookup (fst pd)) = nobs /\ locs_wf (fst pd)) ->
  (forall pd key, In pd pds -> In key (Reconstruct.keys_of (snd pd)) ->
     Reconstruct.outcome_to_int pyint0 key = Some (den key)) ->
  (forall li pd sfx z s k,
     nth_error pds li = Some pd -> nth_error L li = Some sfx ->
     nth_error (sort_samples W) z = Some s -> k < nobs ->
     (Reconstruct.E den pd z k == E li (project_ids sfx (s_ids s)) k)%Q) ->
  Reconstruct.res_Qeq (Reconstruct.reconstruct_parts pyint0 nobs (map fst cq) pds)
                      (Ok (map (expect ev (denote nq nc (erase_markers c))) ps)).
Proof. exact cut_and_reconstruct. Qed.

(* the same composed with C01's WHOLE-CHAIN theorem c01_generated_roundtrip_partial: the coefficient list cq, the
   projection lists L_of, the result layout results_of and the exact-results equation are those the C05 model `core`
   of generate_cutting_experiments and an exact sampler `run` produce.  REMAINING hypotheses: physics P1, P2+P3
   (kind: physics), exact_weights (C04, success case), agreement of generation's and reconstruction's view of the
   observable groups and well-formed lookups (C11), integer keys.  STILL NOT PROVED: that `table`/`og` are what the
   partition_problem model returns on cut_wires_gen fac nq c, i.e. that C = move_cuts c is the `bases` of that request
   (a comment, tested by the e2e stream). *)
Theorem c03_cut_and_reconstruct_generated_partial :
  forall (ev : list (letter * wt) -> list ct -> nat -> Q) nq nc c ps,
  wf_circ nq c = true -> (forall p, In p ps -> length (plets p) = nq) ->
  let nobs := length ps in
  let C := move_cuts c in
  let Ev := fun k => expect ev (denote (nq + count_markers c) nc (cut_wires_moves nq c)) (nth k (expanded nq c ps) pI0) in
  forall gh gsx env run den table og (W : sdict) out (cq : list (Q * wkind)),
  Experiments.core gh gsx env C table og W = Ok (out, cq) ->
  forall (rparts : list Reconstruct.part),
  Forall2 (fun lg rp => length (Reconstruct.pgroups rp) = length (snd lg)) og rparts ->
  (forall rp, In rp rparts -> length (Reconstruct.plookup rp) = nobs /\ locs_wf rp) ->
  forall full, Forall2 (entry_ok gh gsx env table (sort_samples W)) og full ->
  forall (term : jkey -> nat -> Q) pyint0,
  (forall k, k < nobs ->
     (Ev k == sumQ (map (fun ids => (coeff_prod C ids * term ids k)%Q) (all_maps (map (@length Q) C))))%Q) ->
  (forall ids k, In ids (all_maps (map (@length Q) C)) -> k < nobs ->
     (term ids k == part_prod (L_of (length C) table og) (E_all gh gsx env run den table og rparts) ids k)%Q) ->
  exact_weights C W ->
  (forall pd key, In pd (results_of run rparts full) -> In key (Reconstruct.keys_of (snd pd)) ->
     Reconstruct.outcome_to_int pyint0 key = Some (den key)) ->
  Reconstruct.res_Qeq (Reconstruct.reconstruct_parts pyint0 nobs (map fst cq) (results_of run rparts full))
                      (Ok (map (expect ev (denote nq nc (erase_markers c))) ps)).
Proof. exact cut_and_reconstruct_generated. Qed.

(* ---- non-vacuity ---- *)

(* F1 witness: h 0; cut 0; cx 0 1; cut 1; h 1; cut 0; x 0   (gate ids: 0 = h, 1 = cx, 2 = x) *)
Definition f1_witness : circ :=
  [mkI (Gate 0) [0] []; mkI CutWire [0] []; mkI (Gate 1) [0; 1] []; mkI CutWire [1] [];
   mkI (Gate 0) [1] []; mkI CutWire [0] []; mkI (Gate 2) [0] []].

Example c03_ex_wf : wf_circ 2 f1_witness = true.
Proof. reflexivity. Qed.

Example c03_ex_qubits : new_qubits 2 f1_witness = [2; 3; 0; 4; 1] /\ count_markers f1_witness = 3.
Proof. split; reflexivity. Qed.

Example c03_ex_instructions : cut_wires_moves 2 f1_witness =
  [mkI (Gate 0) [0] []; mkI Move [0; 1] []; mkI (Gate 1) [1; 3] []; mkI Move [3; 4] [];
   mkI (Gate 0) [4] []; mkI Move [1; 2] []; mkI (Gate 2) [2] []].
Proof. reflexivity. Qed.

Example c03_ex_semantics :
  let t := denote 2 0 (erase_markers f1_witness) in
  let t' := denote 5 0 (cut_wires_moves 2 f1_witness) in
  wire t' 2 = wire t 0 /\ wire t' 4 = wire t 1 /\ wire t 0 <> Zero /\ wire t 1 <> Zero /\
  wire t' 0 = Zero /\ wire t' 1 = Zero /\ wire t' 3 = Zero.
Proof. vm_compute. repeat split; discriminate. Qed.

(* the three inserted Moves of the F1 witness: destinations 1, 4, 2 of 5 positions, each still |0> when the Move
   executes while the source wire carries a gate term *)
Example c03_ex_move_targets :
  let m0 := fst (structure_mapping 2 f1_witness) in
  let st k := denote 5 0 (tcw Move m0 (firstn k f1_witness)) in
  map (fun k => position_after f1_witness (firstn k f1_witness) (marker_qubit (nth k f1_witness (mkI CutWire [] []))) + 1) [1; 3; 5]
    = [1; 4; 2] /\
  map (fun kp => wire (st (fst kp)) (snd kp)) [(1, 1); (3, 4); (5, 2)] = [Zero; Zero; Zero] /\
  wire (st 1) 0 <> Zero /\ wire (st 3) 3 <> Zero /\ wire (st 5) 1 <> Zero /\
  map (fun k => length (hw (st k))) [1; 3; 5] = [5; 5; 5].
Proof. vm_compute. repeat split; discriminate. Qed.

Example c03_ex_cut_wires_form :
  let fac := Qpd2 0 None (Some (0, None)) in
  cut_wires_gen fac 2 f1_witness =
    [mkI (Gate 0) [0] []; mkI fac [0; 1] []; mkI (Gate 1) [1; 3] []; mkI fac [3; 4] [];
     mkI (Gate 0) [4] []; mkI fac [1; 2] []; mkI (Gate 2) [2] []] /\
  map (unwrap fac) (cut_wires_gen fac 2 f1_witness) = cut_wires_moves 2 f1_witness /\
  (* nested call: a pre-placed placeholder is left alone by the positional form, not by unwrap *)
  exec_inserted_as_moves (cut_wires_gen fac 2 f1_witness) (cut_wires_gen fac 5 (cut_wires_gen fac 2 f1_witness))
    = cut_wires_gen fac 2 f1_witness.
Proof. vm_compute. repeat split. Qed.

Example c03_ex_expand :
  expand 2 [0; 1] (new_qubits 2 f1_witness) [mkP 1 [3; 1]] = Ok [mkP 1 [0; 0; 3; 0; 1]].
Proof. reflexivity. Qed.

(* measurements keep their classical bits; two registers' worth of qubits, a user-placed Move *)
Definition ex2 : circ :=
  [mkI CutWire [1] []; mkI (Gate 0) [1; 2] []; mkI Measure [1] [2]; mkI CutWire [1] [];
   mkI Move [2; 0] []; mkI Measure [0] [0]; mkI Reset [1] []; mkI CutWire [2] []].

Example c03_ex2 :
  wf_circ 3 ex2 = true /\
  cut_wires_moves 3 ex2 =
    [mkI Move [1; 2] []; mkI (Gate 0) [2; 4] []; mkI Measure [2] [2]; mkI Move [2; 3] [];
     mkI Move [4; 0] []; mkI Measure [0] [0]; mkI Reset [3] []; mkI Move [4; 5] []] /\
  hc (denote 6 3 (cut_wires_moves 3 ex2)) = hc (denote 3 3 (erase_markers ex2)) /\
  nth 2 (hc (denote 3 3 ex2)) None <> None.
Proof. vm_compute. repeat split; discriminate. Qed.

(* computed instance for clause f: one qubit prepared by a gate in the state with Bloch vector (2/7, 3/7, 6/7),
   one marker, observables Z, X, Y.  The value functional reads the letter under the gate's wire term.  The two
   partitions are the two ends of the cut Move; map i of the Move basis measures on the source side
   (1, 1, X, X, Y, Y, Z, Z  with the QPD sign) and prepares on the destination side (|0>,|1>,|+>,|->,|+i>,|-i>,|0>,|1>).
   With the Move coefficient list the physics hypotheses P1 and P2+P3 of c03_cut_and_reconstruct_partial hold
   (P2+P3 by taking term := the product), and the values on the cut circuit are those on the original one. *)
Module ExF.
  Definition c : circ := [mkI (Gate 7) [0] []; mkI CutWire [0] []].
  Definition ps : list pauli := [mkP 0 [3]; mkP 0 [1]; mkP 0 [2]].
  Definition bloch (l : letter) : Q := match l with 1 => 2 # 7 | 2 => 3 # 7 | 3 => 6 # 7 | _ => 1 end.
  Definition ev (r : list (letter * wt)) (_ : list ct) (_ : nat) : Q :=
    match r with [(l, App 0 7 0 [Zero])] => bloch l | _ => 0 end.
  Definition L : list (list nat) := [[0]; [0]].
  Definition src (i : nat) : Q := bloch (nth i [0; 0; 1; 1; 2; 2; 3; 3] 0).
  Definition prep (i : nat) (l : letter) : Q :=      (* <letter> of the state prepared by map i *)
    match nth i [(3, 1%Z); (3, (-1)%Z); (1, 1%Z); (1, (-1)%Z); (2, 1%Z); (2, (-1)%Z); (3, 1%Z); (3, (-1)%Z)] (0, 0%Z) with
    | (a, sg) => if Nat.eqb a l then inject_Z sg else 0
    end.
  Definition E (li : nat) (pids : jkey) (k : nat) : Q :=
    match li, pids with
    | 0, [i] => src i
    | 1, [i] => prep i (nth 0 (plets (nth k ps pI0)) 0)
    | _, _ => 0
    end.
  Definition Ev (k : nat) : Q := expect ev (denote 2 0 (cut_wires_moves 1 c)) (nth k (expanded 1 c ps) pI0).
End ExF.

Example c03_ex_clause_f :
  wf_circ 1 ExF.c = true /\ move_cuts ExF.c = [move_cq] /\
  expanded 1 ExF.c ExF.ps = [mkP 0 [0; 3]; mkP 0 [0; 1]; mkP 0 [0; 2]] /\
  map ExF.Ev [0; 1; 2] = [6 # 7; 2 # 7; 3 # 7]%Q /\
  map (expect ExF.ev (denote 1 0 (erase_markers ExF.c))) ExF.ps = [6 # 7; 2 # 7; 3 # 7]%Q /\
  (forall k, k < 3 ->
     (ExF.Ev k == sumQ (map (fun ids => (coeff_prod (move_cuts ExF.c) ids * part_prod ExF.L ExF.E ids k)%Q)
                            (all_maps (map (@length Q) (move_cuts ExF.c)))))%Q).
Proof.
  repeat split; try reflexivity.
  intros k Hk. destruct k as [|[|[|k]]]; try lia; vm_compute; reflexivity.
Qed.

(* FULL instance of c03_cut_and_reconstruct_partial for ExF: ALL hypotheses instantiated.
     W     the eight maps of the Move basis with their exact probability (1/2)/4 = 1/8
     cq    the coefficient list the C05 model computes from W
     pds   partition A (source end of the Move): one identity group; outcome bit 1 is the QPD bit; for map i the
           hand-written quasi-distribution of a QPD measurement with expectation src i (none for maps 0, 1);
           partition B (destination end): groups Z, X, Y; for map i and group g the distribution of measuring the
           prepared eigenstate
   (P2+P3 holds by DEFINITION of term := the product; E and the distributions are written by hand from one-qubit
   physics, not computed from a circuit semantics as C01's Ex does.)  The theorem applies and the C06 model returns the
   values of the ORIGINAL observables Z, X, Y on the ORIGINAL one-qubit circuit: 6/7, 2/7, 3/7. *)
Module ExFull.
  Import Reconstruct.
  Definition C : list (list Q) := move_cuts ExF.c.
  Definition W : sdict := map (fun m => ([m], ((1 # 8)%Q, KExact))) (seq 0 8).
  Definition cq : list (Q * wkind) :=
    map (fun s => (coeff_value (total_weight W) (kappa_all C) (s_w s) [nth (nth 0 (s_ids s) 0) move_cq 0%Q], s_t s))
        (sort_samples W).
  Definition distA (i : nat) : list (key * Q) :=
    if Nat.ltb i 2 then [(KInt 0, 1%Q)]
    else [(KInt 0, Qred ((1 + ExF.src i) / 2)%Q); (KInt 2, Qred ((1 - ExF.src i) / 2)%Q)].
  Definition distB (i g : nat) : list (key * Q) :=
    let e := ExF.prep i (nth g [3; 1; 2] 0) in
    [(KInt 0, Qred ((1 + e) / 2)%Q); (KInt 1, Qred ((1 - e) / 2)%Q)].
  Definition pA : part := mkPart 0 [0; 0; 0] [(1, [0%N])] [[(0, 0)]; [(0, 0)]; [(0, 0)]].
  Definition pB : part := mkPart 1 [0; 0; 0] [(1, [1%N]); (1, [1%N]); (1, [1%N])] [[(0, 0)]; [(1, 0)]; [(2, 0)]].
  Definition pds : list (part * pdata) := Eval vm_compute in
    [(pA, DV1 (map distA (seq 0 8)));
     (pB, DV1 (flat_map (fun i => [distB i 0; distB i 1; distB i 2]) (seq 0 8)))].
  Definition den (k : key) : N := match outcome_to_int pyint0_ref k with Some n => n | None => 0%N end.
End ExFull.

Example c03_ex_clause_f_bookkeeping :
  exact_weights ExFull.C ExFull.W /\
  Forall2 (fun s c0 => exists cs, chosen_coeffs ExFull.C (s_ids s) = Ok cs /\
                                  c0 = (coeff_value (total_weight ExFull.W) (kappa_all ExFull.C) (s_w s) cs, s_t s))
          (sort_samples ExFull.W) ExFull.cq /\
  list_beq Qeq_bool (map fst ExFull.cq) move_cq = true.
Proof.
  split; [|split].
  - split; [|split].
    + vm_compute. repeat constructor; simpl; intuition discriminate.
    + intros s Hs. vm_compute in Hs.
      repeat (destruct Hs as [<-|Hs]; [split; [vm_compute; tauto|vm_compute; reflexivity]|]). destruct Hs.
    + intros ids Hin _. vm_compute in Hin. vm_compute. tauto.
  - unfold ExFull.cq. change (sort_samples ExFull.W) with (map (fun m => ([m], ((1 # 8)%Q, KExact))) (seq 0 8)).
    cbn [seq map]. repeat constructor; (eexists; split; [reflexivity|reflexivity]).
  - vm_compute. reflexivity.
Qed.

Example c03_ex_clause_f_results :
  length ExFull.pds = length ExF.L /\
  (forall pd, In pd ExFull.pds ->
     Reconstruct.data_len (snd pd) = length (map fst ExFull.cq) * length (Reconstruct.pgroups (fst pd))) /\
  (forall pd, In pd ExFull.pds -> length (Reconstruct.plookup (fst pd)) = 3 /\ locs_wf (fst pd)) /\
  (forall pd key, In pd ExFull.pds -> In key (Reconstruct.keys_of (snd pd)) ->
     Reconstruct.outcome_to_int Reconstruct.pyint0_ref key = Some (ExFull.den key)) /\
  (forall li pd sfx z s k,
     nth_error ExFull.pds li = Some pd -> nth_error ExF.L li = Some sfx ->
     nth_error (sort_samples ExFull.W) z = Some s -> k < 3 ->
     (Reconstruct.E ExFull.den pd z k == ExF.E li (project_ids sfx (s_ids s)) k)%Q).
Proof.
  split; [reflexivity|split; [|split; [|split]]].
  - intros pd [<-|[<-|[]]]; vm_compute; reflexivity.
  - intros pd [<-|[<-|[]]]; (split; [reflexivity|]); (split;
      [intros locs m n HL HM; cbn in HL;
       repeat (destruct HL as [<-|HL]; [cbn in HM; repeat (destruct HM as [HM|HM]; [inversion HM; subst; cbn; lia|]); destruct HM|]);
       destruct HL
      |intros locs HL; cbn in HL; repeat (destruct HL as [<-|HL]; [discriminate|]); destruct HL]).
  - intros pd key [<-|[<-|[]]] HK; vm_compute in HK;
      repeat (destruct HK as [<-|HK]; [reflexivity|]); destruct HK.
  - intros li pd sfx z s k Hpd Hsfx Hs Hk.
    destruct li as [|[|li]]; [| |destruct li; discriminate]; inversion Hpd; inversion Hsfx; subst; clear Hpd Hsfx;
      (destruct z as [|[|[|[|[|[|[|[|z]]]]]]]]; [| | | | | | | |destruct z; discriminate]; inversion Hs; subst; clear Hs;
       (destruct k as [|[|[|k]]]; [vm_compute; reflexivity..|lia])).
Qed.

Example c03_ex_clause_f_full :
  Reconstruct.res_Qeq
    (Reconstruct.reconstruct_parts Reconstruct.pyint0_ref 3 (map fst ExFull.cq) ExFull.pds)
    (Ok (map (expect ExF.ev (denote 1 0 (erase_markers ExF.c))) ExF.ps)) /\
  Reconstruct.reconstruct_parts Reconstruct.pyint0_ref 3 (map fst ExFull.cq) ExFull.pds = Ok [6 # 7; 2 # 7; 3 # 7]%Q.
Proof.
  split; [|vm_compute; reflexivity].
  destruct c03_ex_clause_f as (Wf & _ & _ & _ & _ & P1).
  destruct c03_ex_clause_f_bookkeeping as (HW & Hcq & _).
  destruct c03_ex_clause_f_results as (H1 & H2 & H3 & H4 & H5).
  refine (c03_cut_and_reconstruct_partial ExF.ev 1 0 ExF.c ExF.ps Wf _ ExF.L
            (fun ids k => part_prod ExF.L ExF.E ids k) ExF.E P1 _ ExFull.W ExFull.cq HW Hcq
            Reconstruct.pyint0_ref ExFull.den ExFull.pds H1 H2 H3 H4 H5).
  - intros p [<-|[<-|[<-|[]]]]; reflexivity.
  - intros ids k _ _. reflexivity.
Qed.

Example c03_ex_reading :
  reading (denote 5 0 (cut_wires_moves 2 f1_witness)) [0; 0; 3; 0; 1]
  = reading (denote 2 0 (erase_markers f1_witness)) [3; 1] /\
  length (reading (denote 2 0 (erase_markers f1_witness)) [3; 1]) = 2.
Proof. vm_compute. split; reflexivity. Qed.

Print Assumptions c03_qubits.
Print Assumptions c03_observable_reading.
Print Assumptions c03_expectation_values.
Print Assumptions c03_reconstructed_transport.
Print Assumptions c03_cut_and_reconstruct_partial.
Print Assumptions c03_cut_and_reconstruct_generated_partial.
Print Assumptions c03_ex_clause_f_full.
Print Assumptions c03_ex_clause_f.
Print Assumptions c03_registers_model_identity.
Print Assumptions c03_instructions.
Print Assumptions c03_instructions_kept.
Print Assumptions c03_instructions_inserted.
Print Assumptions c03_semantics.
Print Assumptions c03_cut_wires_as_moves_def.
Print Assumptions c03_unwrap.
Print Assumptions c03_semantics_cut_wires_cor.
Print Assumptions c03_markers_transparent.
Print Assumptions c03_move_targets_fresh.
Print Assumptions c03_expand.
Print Assumptions c03_expand_letters.

(* tie to the source: none of the modelled functions has a refusal site (the model never refuses),
   and expand_observables has the two modelled in Model/Observables.v *)
From CKT Require Import Extracted.Facts.
From Coq Require Import String.
(* absence-aware: c03_function_sites (tools/facts_c03.py) lists EVERY function of wire_cutting_transforms.py with its
   number of `raise ValueError` sites, zero included; a renamed, deleted or misspelt function is a missing key = None *)
Definition sites_of (f : string) : option nat :=
  option_map snd (find (fun p => String.eqb (fst p) f) c03_function_sites).
Theorem c03_facts :
  sites_of "cut_wires" = Some 0 /\
  sites_of "_transform_cuts_to_moves" = Some 0 /\
  sites_of "_transform_cut_wires" = Some 0 /\
  sites_of "_circuit_structure_mapping" = Some 0 /\
  sites_of "expand_observables" = Some 2 /\
  sites_of "no_such_function" = None /\
  (* and the shared fact agrees on the one function it lists for this module *)
  In ("wire_cutting_transforms:expand_observables", 2) value_error_sites /\
  (* the coefficient list used for clause f is the Move table of qpd/decompositions.py (C02: c02_source_tables) *)
  move_table_coeffs = move_cq.
Proof. repeat split; try reflexivity. vm_compute. tauto. Qed.
Print Assumptions c03_facts.

(* Properties/C03.v — Replacing wire-cut markers by Move operations preserves circuit semantics.
   Only theorem statements closed by `exact`, non-vacuity examples, Print Assumptions, facts.

   Vocabulary (Model/CutWires.v):
     wf_circ nq c           qubit indices < nq, a marker acts on exactly one qubit
     cut_freq c q           number of markers on qubit q           count_markers c = total
     new_qubits nq c        circuit.qubits of the result, as identity tags: original qubit q = q,
                            the k-th freshly allocated Qubit() = nq + k
     cut_wires_gen fac nq c instruction list of the result; marker -> [fac] on (pos, pos+1)
                            (fac = Move for _transform_cuts_to_moves, a Qpd2 placeholder for cut_wires)
     final_position c q     = q + #markers on qubits <= q  : index of the ORIGINAL Qubit object q
     position_after c c1 q  position of qubit q's wire once the prefix c1 of c has been processed
   Semantics (Common/Herbrand.v): Move a b = "b receives a's wire term, a becomes |0>"
   (reset-and-swap); markers are identities; gate instance tags ignore markers and moves. *)
From CKT Require Import Common.Base Common.Circ Common.Herbrand Model.Observables Model.CutWires
  Proofs.CutWiresP.

(* ---- qubits ---- *)

(* the result has the original qubit objects in their original order, each immediately preceded
   by as many fresh qubits as there are markers on it; hence nq + #markers qubits *)
Theorem c03_qubits : forall nq c, wf_circ nq c = true ->
  new_qubits nq c =
    flat_map (fun q => seq (nq + sum_below (cut_freq c) q) (cut_freq c q) ++ [q]) (seq 0 nq)
  /\ length (new_qubits nq c) = nq + count_markers c
  /\ filter (fun t => t <? nq) (new_qubits nq c) = seq 0 nq
  /\ forall q, q < nq -> index_of q (new_qubits nq c) = Some (final_position c q).
Proof. exact new_qubits_full. Qed.

(* registers, classical bits: carried over unchanged (identity in the model; compared with the
   implementation by the correspondence check) *)
Theorem c03_registers : forall fac nq nc qregs cregs c,
  let r := transform_cut_wires fac nq nc qregs cregs c in
  cr_qubits r = new_qubits nq c /\ cr_qregs r = qregs /\ cr_nclbits r = nc /\ cr_cregs r = cregs /\
  cr_data r = cut_wires_gen fac nq c.
Proof. exact transform_fields. Qed.

(* ---- instructions ---- *)

(* instruction k of the result is instruction k of the input, relocated through the positions the
   qubits have after the first k instructions: a marker on q becomes [fac] on (pos q, pos q + 1),
   anything else keeps its operation and classical bits and moves to the current positions *)
Theorem c03_instructions : forall fac nq c d, wf_circ nq c = true ->
  length (cut_wires_gen fac nq c) = length c /\
  forall k, k < length c ->
    nth k (cut_wires_gen fac nq c) d = relocate fac (position_after c (firstn k c)) (nth k c d).
Proof. exact cut_wires_nth. Qed.

(* filter form: the non-marker instructions of the input are, in order, exactly the instructions
   at the non-marker positions of the result (same operation, same clbits) ... *)
Theorem c03_instructions_kept : forall fac nq c,
  map (fun i => (iop i, ics i))
      (select (map (fun i => negb (is_marker i)) c) (cut_wires_gen fac nq c)) =
  map (fun i => (iop i, ics i)) (erase_markers c).
Proof. intros; apply tcw_select_kept. Qed.

(* ... and the marker positions hold factory operations on two adjacent positions *)
Theorem c03_instructions_inserted : forall fac nq c,
  Forall (fun i => iop i = fac /\ ics i = [] /\ exists p, iqs i = [p; p + 1])
         (select (map is_marker c) (cut_wires_gen fac nq c)).
Proof. intros; apply tcw_select_inserted. Qed.

(* ---- semantics ---- *)

(* With each inserted Move executed as reset-and-swap: the wire term of every original qubit is
   found at the position of the original Qubit object, every other position ends in |0>, and all
   classical bits carry the same measurement terms as in the input with markers ignored. *)
Theorem c03_semantics : forall nq nc c, wf_circ nq c = true ->
  let t  := denote nq nc (erase_markers c) in
  let t' := denote (nq + count_markers c) nc (cut_wires_moves nq c) in
  (forall q, q < nq -> wire t' (final_position c q) = wire t q) /\
  (forall j, (forall q, q < nq -> j <> final_position c q) -> wire t' j = Zero) /\
  hc t' = hc t.
Proof. exact semantics_full. Qed.

(* the cut_wires form: whatever operation the factory inserted (the Qpd2 "cut_move" placeholder), executing the
   inserted operations as Moves gives literally the _transform_cuts_to_moves circuit ... *)
Theorem c03_cut_wires_as_moves : forall fac nq c,
  exec_inserted_as_moves c (cut_wires_gen fac nq c) = cut_wires_moves nq c.
Proof. exact exec_inserted_cut_wires. Qed.

(* ... also when the placeholder is recognised by its operation rather than by position, provided the input does
   not already contain that operation (false e.g. for cut_wires (cut_wires c)) *)
Theorem c03_unwrap : forall fac nq c, (forall i, In i c -> op_beq (iop i) fac = false) ->
  map (unwrap fac) (cut_wires_gen fac nq c) = cut_wires_moves nq c.
Proof. exact unwrap_cut_wires. Qed.

(* ... hence c03_semantics holds for cut_wires' own output, for every factory *)
Theorem c03_semantics_cut_wires : forall fac nq nc c, wf_circ nq c = true ->
  let t  := denote nq nc (erase_markers c) in
  let t' := denote (nq + count_markers c) nc (exec_inserted_as_moves c (cut_wires_gen fac nq c)) in
  (forall q, q < nq -> wire t' (final_position c q) = wire t q) /\
  (forall j, (forall q, q < nq -> j <> final_position c q) -> wire t' j = Zero) /\
  hc t' = hc t.
Proof. exact semantics_full_gen. Qed.

(* ignoring markers = executing them as identities *)
Theorem c03_markers_transparent : forall nq nc c, denote nq nc c = denote nq nc (erase_markers c).
Proof. exact denote_erase. Qed.

(* Move's side condition (instructions/move.py: the destination must be unentangled): at the moment
   an inserted Move executes, its destination wire is still |0> *)
Theorem c03_move_targets_fresh : forall nq nc c c1 i c2,
  wf_circ nq c = true -> c = c1 ++ i :: c2 -> is_marker i = true ->
  let p := position_after c c1 (marker_qubit i) in
  wire (denote (nq + count_markers c) nc (tcw Move (fst (structure_mapping nq c)) c1)) (p + 1) = Zero.
Proof. exact move_target_zero. Qed.

(* ---- observables ---- *)

(* expand_observables (Model/Observables.v) finds original qubit q exactly at final_position c q *)
Theorem c03_expand : forall nq c ps, wf_circ nq c = true ->
  expand nq (seq 0 nq) (new_qubits nq c) ps =
  Ok (map (expand1 (map (final_position c) (seq 0 nq)) (nq + count_markers c)) ps).
Proof. exact expand_new_qubits. Qed.

(* so every expanded observable reads qubit q's letter on the wire that c03_semantics equates
   with qubit q's original wire, and the identity everywhere else *)
Theorem c03_expand_letters : forall nq c p, wf_circ nq c = true -> length (plets p) = nq ->
  let r := expand1 (map (final_position c) (seq 0 nq)) (nq + count_markers c) p in
  pphase r = pphase p /\ length (plets r) = nq + count_markers c /\
  (forall q, q < nq -> nth (final_position c q) (plets r) 0 = nth q (plets p) 0) /\
  (forall j, (forall q, q < nq -> j <> final_position c q) -> nth j (plets r) 0 = 0).
Proof. exact expand1_letters. Qed.

(* ---- non-vacuity ---- *)

(* F1 witness: h 0; cut 0; cx 0 1; cut 1; h 1; cut 0; x 0   (gate ids: 0 = h, 1 = cx, 2 = x) *)
Definition f1_witness : circ :=
  [mkI (Gate 0) [0] []; mkI CutWire [0] []; mkI (Gate 1) [0; 1] []; mkI CutWire [1] [];
   mkI (Gate 0) [1] []; mkI CutWire [0] []; mkI (Gate 2) [0] []].

Example c03_ex_wf : wf_circ 2 f1_witness = true.
Proof. reflexivity. Qed.

Example c03_ex_qubits : new_qubits 2 f1_witness = [2; 3; 0; 4; 1] /\ count_markers f1_witness = 3.
Proof. split; reflexivity. Qed.

Example c03_ex_instructions : cut_wires_moves 2 f1_witness =
  [mkI (Gate 0) [0] []; mkI Move [0; 1] []; mkI (Gate 1) [1; 3] []; mkI Move [3; 4] [];
   mkI (Gate 0) [4] []; mkI Move [1; 2] []; mkI (Gate 2) [2] []].
Proof. reflexivity. Qed.

Example c03_ex_semantics :
  let t := denote 2 0 (erase_markers f1_witness) in
  let t' := denote 5 0 (cut_wires_moves 2 f1_witness) in
  wire t' 2 = wire t 0 /\ wire t' 4 = wire t 1 /\ wire t 0 <> Zero /\ wire t 1 <> Zero /\
  wire t' 0 = Zero /\ wire t' 1 = Zero /\ wire t' 3 = Zero.
Proof. vm_compute. repeat split; discriminate. Qed.

Example c03_ex_cut_wires_form :
  let fac := Qpd2 0 None (Some (0, None)) in
  cut_wires_gen fac 2 f1_witness =
    [mkI (Gate 0) [0] []; mkI fac [0; 1] []; mkI (Gate 1) [1; 3] []; mkI fac [3; 4] [];
     mkI (Gate 0) [4] []; mkI fac [1; 2] []; mkI (Gate 2) [2] []] /\
  map (unwrap fac) (cut_wires_gen fac 2 f1_witness) = cut_wires_moves 2 f1_witness /\
  (* nested call: a pre-placed placeholder is left alone by the positional form, not by unwrap *)
  exec_inserted_as_moves (cut_wires_gen fac 2 f1_witness) (cut_wires_gen fac 5 (cut_wires_gen fac 2 f1_witness))
    = cut_wires_gen fac 2 f1_witness.
Proof. vm_compute. repeat split. Qed.

Example c03_ex_expand :
  expand 2 [0; 1] (new_qubits 2 f1_witness) [mkP 1 [3; 1]] = Ok [mkP 1 [0; 0; 3; 0; 1]].
Proof. reflexivity. Qed.

(* measurements keep their classical bits; two registers' worth of qubits, a user-placed Move *)
Definition ex2 : circ :=
  [mkI CutWire [1] []; mkI (Gate 0) [1; 2] []; mkI Measure [1] [2]; mkI CutWire [1] [];
   mkI Move [2; 0] []; mkI Measure [0] [0]; mkI Reset [1] []; mkI CutWire [2] []].

Example c03_ex2 :
  wf_circ 3 ex2 = true /\
  cut_wires_moves 3 ex2 =
    [mkI Move [1; 2] []; mkI (Gate 0) [2; 4] []; mkI Measure [2] [2]; mkI Move [2; 3] [];
     mkI Move [4; 0] []; mkI Measure [0] [0]; mkI Reset [3] []; mkI Move [4; 5] []] /\
  hc (denote 6 3 (cut_wires_moves 3 ex2)) = hc (denote 3 3 (erase_markers ex2)) /\
  nth 2 (hc (denote 3 3 ex2)) None <> None.
Proof. vm_compute. repeat split; discriminate. Qed.

Print Assumptions c03_qubits.
Print Assumptions c03_registers.
Print Assumptions c03_instructions.
Print Assumptions c03_instructions_kept.
Print Assumptions c03_instructions_inserted.
Print Assumptions c03_semantics.
Print Assumptions c03_cut_wires_as_moves.
Print Assumptions c03_unwrap.
Print Assumptions c03_semantics_cut_wires.
Print Assumptions c03_markers_transparent.
Print Assumptions c03_move_targets_fresh.
Print Assumptions c03_expand.
Print Assumptions c03_expand_letters.

(* tie to the source: none of the modelled functions has a refusal site (the model never refuses),
   and expand_observables has the two modelled in Model/Observables.v *)
From CKT Require Import Extracted.Facts.
From Coq Require Import String.
Definition sites_of (f : string) : nat :=
  match find (fun p => String.eqb (fst p) f) value_error_sites with Some p => snd p | None => 0 end.
Theorem c03_facts :
  sites_of "wire_cutting_transforms:cut_wires" = 0 /\
  sites_of "wire_cutting_transforms:_transform_cuts_to_moves" = 0 /\
  sites_of "wire_cutting_transforms:_transform_cut_wires" = 0 /\
  sites_of "wire_cutting_transforms:_circuit_structure_mapping" = 0 /\
  sites_of "wire_cutting_transforms:expand_observables" = 2.
Proof. repeat split; reflexivity. Qed.
Print Assumptions c03_facts.

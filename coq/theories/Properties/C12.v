(* Properties/C12.v — Reset-removal optimisations never change measurement statistics.
   Only theorem statements closed by `exact`, non-vacuity examples, facts obligations, Print Assumptions.

   Passes (Model/ResetPasses.v):
     consolidate_resets, remove_resets_in_zero_state, remove_final_resets   list scans of cutting_experiments.py
     optimise_resets                                                        the three, in the order of generate_cutting_experiments
     dag_remove_final_reset (one run), dag_remove_final_reset_fix (DoWhile to the fixed point),
     dag_consolidate_resets                                                 wire-level models of utils/transpiler_passes.py
   Semantics: Common/Herbrand.v, [denote nq nc c]; equal terms on the classical bits and on a set of wires
   = same joint law of the classical bits together with the conditional state of those wires under every
   compositional interpretation (modelling assumption M1).
   [wf nq nc c]: indices in range; Reset has one qubit and no clbit; Measure one qubit, one clbit. *)
From CKT Require Import Common.Base Common.Circ Common.Herbrand Model.ResetPasses
  Proofs.ResetPassesP Proofs.ResetPassesSem Proofs.ResetPassesDag Proofs.ResetPassesDropped Proofs.ResetPassesSite.
From CKT Require Import Common.QSim Model.ResetSim Proofs.ResetSimP Proofs.ResetSimQ Proofs.ResetSimLaws Proofs.ResetPassesMore Proofs.ResetSimFinal.
From Coq Require Import Permutation.

(* ------------------------------------------------------------------------------------------------
   (1) every pass deletes only Reset instructions; all other instructions stay, in order *)

Theorem c12_consolidate_only_resets : forall nq c, del_resets c (consolidate_resets nq c).
Proof. exact consolidate_only_resets. Qed.

Theorem c12_zero_only_resets : forall nq c, del_resets c (remove_resets_in_zero_state nq c).
Proof. exact zero_only_resets. Qed.

Theorem c12_final_only_resets : forall nq c, del_resets c (remove_final_resets nq c).
Proof. exact final_only_resets. Qed.

Theorem c12_pipeline_only_resets : forall nq c, del_resets c (optimise_resets nq c).
Proof. exact pipeline_only_resets. Qed.

Theorem c12_dag_rfr_only_resets : forall nq c, del_resets c (dag_remove_final_reset nq c).
Proof. exact dag_rfr_only_resets. Qed.

Theorem c12_dag_rfr_fix_only_resets : forall nq c, del_resets c (dag_remove_final_reset_fix nq c).
Proof. exact dag_rfr_fix_only_resets. Qed.

Theorem c12_dag_consolidate_only_resets : forall c, del_resets c (dag_consolidate_resets c).
Proof. exact dag_consolidate_only_resets. Qed.

(* what the relation says in filter form: the non-reset instructions are the same list; every qubit
   wire sees its old sequence with some resets deleted; every clbit wire sees the same sequence *)
Theorem c12_del_resets_meaning : forall c c', del_resets c c' ->
  non_resets c' = non_resets c /\ length c' <= length c /\
  (forall x, In x c' -> In x c) /\ (forall q, del_resets (proj_q q c) (proj_q q c')).
Proof. exact del_resets_meaning. Qed.

Theorem c12_del_resets_clbit_wire : forall nq nc k c c',
  wf nq nc c = true -> del_resets c c' -> proj_c k c' = proj_c k c.
Proof. exact del_resets_proj_c. Qed.

(* ------------------------------------------------------------------------------------------------
   (2) semantics.  For consolidation and zero-state removal the WHOLE denotation is unchanged:
   every classical bit and every wire (hence [hc] equal and [wire _ q] equal for all q). *)

Theorem c12_consolidate_semantics : forall nq nc c, wf nq nc c = true ->
  denote nq nc (consolidate_resets nq c) = denote nq nc c.
Proof. exact consolidate_semantics. Qed.

Theorem c12_zero_semantics : forall nq nc c, wf nq nc c = true ->
  denote nq nc (remove_resets_in_zero_state nq c) = denote nq nc c.
Proof. exact zero_semantics. Qed.

Theorem c12_dag_consolidate_semantics : forall nq nc c, wf nq nc c = true ->
  denote nq nc (dag_consolidate_resets c) = denote nq nc c.
Proof. exact dag_consolidate_semantics. Qed.

(* final-reset removal: all classical bits, and every wire except those whose trailing reset was dropped *)
Theorem c12_final_semantics : forall nq nc c, wf nq nc c = true ->
  hc (denote nq nc (remove_final_resets nq c)) = hc (denote nq nc c) /\
  forall q, ~ In q (final_dropped nq c) ->
    wire (denote nq nc (remove_final_resets nq c)) q = wire (denote nq nc c) q.
Proof. exact final_semantics. Qed.

(* ... and those wires are precisely the qubits whose last instruction is a reset; the original
   circuit leaves each of them in |0>, unentangled (term [Zero]) *)
Theorem c12_final_dropped_iff : forall nq nc c q, wf nq nc c = true ->
  (In q (final_dropped nq c) <-> q < nq /\ ends_in_reset q c = true).
Proof. exact final_dropped_iff. Qed.

Theorem c12_final_dropped_zero : forall nq nc c q, wf nq nc c = true -> In q (final_dropped nq c) ->
  q < nq /\ wire (denote nq nc c) q = Zero.
Proof. exact final_dropped_zero. Qed.

(* the pass is complete: afterwards no qubit ends in a reset *)
Theorem c12_final_complete : forall nq nc c q, wf nq nc c = true -> q < nq ->
  ends_in_reset q (remove_final_resets nq c) = false.
Proof. exact final_complete. Qed.

(* the pipeline applied to every generated subexperiment *)
Theorem c12_pipeline_semantics : forall nq nc c, wf nq nc c = true ->
  hc (denote nq nc (optimise_resets nq c)) = hc (denote nq nc c) /\
  forall q, ~ In q (final_dropped nq (remove_resets_in_zero_state nq c)) ->
    wire (denote nq nc (optimise_resets nq c)) q = wire (denote nq nc c) q.
Proof. exact pipeline_semantics. Qed.

(* the pipeline's exception set, stated on the INPUT circuit: only wires q < nq whose last instruction in c is a
   reset, which c itself leaves in |0> *)
Theorem c12_pipeline_dropped : forall nq nc c q, wf nq nc c = true ->
  In q (final_dropped nq (remove_resets_in_zero_state nq c)) ->
  q < nq /\ ends_in_reset q c = true /\ wire (denote nq nc c) q = Zero.
Proof. exact pipeline_dropped. Qed.

(* final-reset removal as a statement WITHOUT an exception set: putting the dropped resets back at the very end
   gives the whole denotation of c (every classical bit, every wire).  "The pass only moves resets of wires that
   are never used again to the end, and then omits them." *)
Theorem c12_final_reappend : forall nq nc c, wf nq nc c = true ->
  denote nq nc (remove_final_resets nq c ++ map (fun q => mkI Reset [q] []) (final_dropped nq c)) = denote nq nc c.
Proof. exact final_reappend. Qed.

(* one run of RemoveFinalReset (at most one reset per wire) *)
Theorem c12_dag_rfr_semantics : forall nq nc c, wf nq nc c = true ->
  hc (denote nq nc (dag_remove_final_reset nq c)) = hc (denote nq nc c) /\
  forall q, ~ In q (dag_rfr_dropped nq c) ->
    wire (denote nq nc (dag_remove_final_reset nq c)) q = wire (denote nq nc c) q.
Proof. exact dag_rfr_semantics. Qed.

Theorem c12_dag_rfr_dropped_iff : forall nq nc c q, wf nq nc c = true ->
  (In q (dag_rfr_dropped nq c) <-> q < nq /\ ends_in_reset q c = true).
Proof. exact dag_rfr_dropped_iff. Qed.

(* RemoveFinalReset iterated by DoWhileController/DAGFixedPoint *)
Theorem c12_dag_rfr_fix_semantics : forall nq nc c, wf nq nc c = true ->
  hc (denote nq nc (dag_remove_final_reset_fix nq c)) = hc (denote nq nc c) /\
  forall q, ~ In q (final_dropped nq c) ->
    wire (denote nq nc (dag_remove_final_reset_fix nq c)) q = wire (denote nq nc c) q.
Proof. exact dag_rfr_fix_semantics. Qed.

(* ------------------------------------------------------------------------------------------------
   (3) the DAG passes agree with the list passes *)

(* the modelled loop really stops at a fixed point of the pass (the fuel is never exhausted) *)
Theorem c12_dag_rfr_fix_is_fixed_point : forall nq c,
  dag_remove_final_reset nq (dag_remove_final_reset_fix nq c) = dag_remove_final_reset_fix nq c.
Proof. exact dag_rfr_fix_is_fixed_point. Qed.

(* same instruction list (hence the same sequence on every wire) *)
Theorem c12_dag_equiv_final : forall nq nc c, wf nq nc c = true ->
  dag_remove_final_reset_fix nq c = remove_final_resets nq c.
Proof. exact dag_equiv_final. Qed.

(* ConsolidateResets keeps the LAST reset of a run, _consolidate_resets the FIRST: the lists differ,
   every wire's sequence is the same *)
Theorem c12_dag_equiv_consolidate : forall nq nc c q, wf nq nc c = true -> q < nq ->
  proj_q q (dag_consolidate_resets c) = proj_q q (consolidate_resets nq c).
Proof. exact dag_equiv_consolidate. Qed.

Theorem c12_dag_equiv_consolidate_rest : forall nq nc c, wf nq nc c = true ->
  non_resets (dag_consolidate_resets c) = non_resets (consolidate_resets nq c) /\
  forall k, proj_c k (dag_consolidate_resets c) = proj_c k (consolidate_resets nq c).
Proof. exact dag_equiv_consolidate_rest. Qed.

(* ------------------------------------------------------------------------------------------------
   (4) the call sites inside generate_cutting_experiments, on one subexperiment c = pre ++ [m]
   (m = the last appended measurement).  [subexperiment_resets nq placeholder c]: the pipeline in the
   final loop and, when the sub-observable is the identity ([placeholder]), _remove_final_resets
   already before the placeholder measurement m is appended. *)
Theorem c12_site_only_resets : forall nq ph pre m,
  del_resets (pre ++ [m]) (subexperiment_resets nq ph (pre ++ [m])).
Proof. exact subexperiment_resets_only_resets. Qed.

(* definitional: [subexperiment_resets nq false c] unfolds to [optimise_resets nq c]; this is
   c12_pipeline_semantics restated for the non-placeholder call site, no new content *)
Theorem c12_site_observed_def : forall nq nc c, wf nq nc c = true ->
  hc (denote nq nc (subexperiment_resets nq false c)) = hc (denote nq nc c) /\
  forall q, ~ In q (final_dropped nq (remove_resets_in_zero_state nq c)) ->
    wire (denote nq nc (subexperiment_resets nq false c)) q = wire (denote nq nc c) q.
Proof. exact site_semantics_observed. Qed.

(* placeholder site: every classical bit EXCEPT the placeholder's own bit k is unchanged.  The bit k
   itself does change (the measured qubit lost its trailing reset); reconstruction ignores it
   (that masking is C01/C19's business, not proved here). *)
Theorem c12_site_semantics_placeholder : forall nq nc pre m k, wf nq nc (pre ++ [m]) = true ->
  iop m = Measure -> ics m = [k] ->
  forall j, j <> k ->
    nth j (hc (denote nq nc (subexperiment_resets nq true (pre ++ [m])))) None
    = nth j (hc (denote nq nc (pre ++ [m]))) None.
Proof. exact site_semantics_placeholder. Qed.

(* ------------------------------------------------------------------------------------------------
   (5) NOT through the Herbrand denotation (no appeal to assumption M1): the two state-by-state passes in a
   concrete semantics, the exact state-vector branch simulation of Model/ResetSim.v over Common/QSim.v.
   [qbrun gi nq nc c] = the list of (classical register, unnormalised state vector) branches of weight > 0
   in program order: equal lists = the same joint law of all classical bits together with the same
   conditional state of ALL qubits.
   Domain = the property's quantifier, and only that:
     [simple c]          every instruction is a gate, a measurement, a reset or a barrier
                         ([bstep] treats Move / QPD placeholders / CutWire as the identity, which is NOT their
                         meaning: [H0; Move 0 1; M 1 0] would get weight 1 on outcome 0 instead of 1/2, 1/2 -
                         see c12_ex_sim_domain; without [simple] the equalities hold for the wrong reason)
     [interpreted gi c]  every gate id is mapped by [gi] to a QSim gate (x y z h s sdg sx sxdg cx cz swap ccx)
                         of the right arity (otherwise it would silently act as the identity). *)
Theorem c12_sim_consolidate : forall gi nq nc c,
  wf nq nc c = true -> simple c = true -> interpreted gi c = true ->
  qbrun gi nq nc (consolidate_resets nq c) = qbrun gi nq nc c.
Proof. exact q_consolidate_dom. Qed.

(* ... from any starting list of branches (any registers, any vectors of any length) *)
Theorem c12_sim_consolidate_any : forall gi nq nc c l,
  wf nq nc c = true -> simple c = true -> interpreted gi c = true ->
  clean vec_is_zero (brun (qgapply gi) qproj qflipx (consolidate_resets nq c) l)
  = clean vec_is_zero (brun (qgapply gi) qproj qflipx c l).
Proof. exact q_consolidate_any_dom. Qed.

Theorem c12_sim_zero : forall gi nq nc c,
  wf nq nc c = true -> simple c = true -> interpreted gi c = true ->
  qbrun gi nq nc (remove_resets_in_zero_state nq c) = qbrun gi nq nc c.
Proof. exact q_zero_dom. Qed.

(* corollary only (a rewrite of the two theorems above under [qlaw] = map): the per-branch Born weights *)
Theorem c12_sim_born_law_cor : forall gi nq nc c,
  wf nq nc c = true -> simple c = true -> interpreted gi c = true ->
  qlaw (qbrun gi nq nc (consolidate_resets nq c)) = qlaw (qbrun gi nq nc c) /\
  qlaw (qbrun gi nq nc (remove_resets_in_zero_state nq c)) = qlaw (qbrun gi nq nc c).
Proof. exact q_born_law_cor. Qed.

(* the same two passes in ANY branch semantics (any state space, any gate set - in particular rotation gates,
   which QSim does not have) whose operations satisfy the ten laws [reset_laws] (Model/ResetSim.v): resetting a
   |0> qubit is the identity up to a weight-0 branch, a reset leaves its qubit |0>, operations on other qubits
   keep a qubit |0>, weight-0 branches stay weight-0.  The laws are hypotheses here (kind: physics of the
   interpretation); c12_sim_qsim_laws discharges them for the exact simulator. *)
Theorem c12_sim_laws_consolidate :
  forall (state : Type) apply proj flipx szero (Zq : nat -> state -> Prop),
  reset_laws apply proj flipx szero Zq ->
  forall nq nc c l, wf nq nc c = true -> simple c = true ->
  clean szero (brun apply proj flipx (consolidate_resets nq c) l) = clean szero (brun apply proj flipx c l).
Proof. exact laws_consolidate. Qed.

Theorem c12_sim_laws_zero :
  forall (state : Type) apply proj flipx szero (Zq : nat -> state -> Prop),
  reset_laws apply proj flipx szero Zq ->
  forall nq nc c k s0, wf nq nc c = true -> simple c = true -> (forall q, Zq q s0) ->
  clean szero (brun apply proj flipx (remove_resets_in_zero_state nq c) [(k, s0)])
  = clean szero (brun apply proj flipx c [(k, s0)]).
Proof. exact laws_zero. Qed.

(* _remove_final_resets, the one pass that changes a quantum state, in ANY branch semantics whose operations on
   different qubits commute ([commute_laws], Model/ResetSim.v: the two halves of a reset - project, flip back -
   commute with gates, projections and flips on other qubits).  Up to the ORDER of the branches, c has the
   branches of  (remove_final_resets nq c)  followed by the removed resets ([final_removed], all on wires in
   [final_dropped]): the pass only omits local reset channels at the very end of wires that are never used
   again.  No Herbrand terms.  The five laws are hypotheses (kind: physics of the interpretation); they are
   NOT discharged for QSim here: QSim's [qflipx] re-normalises rationals (Qred), so on arbitrary (non-canonical,
   non-power-of-two-length) vectors the laws hold only up to Qeq / under a validity invariant, not as the
   syntactic equalities stated.  For the exact simulator the final-reset, pipeline, call-site and DAG-pass
   theorems therefore still reach statistics through M1 only. *)
Theorem c12_sim_laws_final :
  forall (state : Type) apply proj flipx, @commute_laws state apply proj flipx ->
  forall nq nc c (l : list (branch state)), wf nq nc c = true -> simple c = true ->
  Permutation (brun apply proj flipx c l)
              (brun apply proj flipx (remove_final_resets nq c ++ final_removed nq c) l).
Proof. exact laws_final. Qed.

Theorem c12_sim_qsim_laws : forall gi,
  reset_laws (qgapply gi) qproj qflipx vec_is_zero qZ /\ forall nq q, qZ q (init_vec nq).
Proof. intros gi. split; [apply qsim_laws|exact init_vec_qZ]. Qed.

(* ------------------------------------------------------------------------------------------------
   non-vacuity: 2 qubits / 1 clbit; h = Gate 0, cx = Gate 1.
   resets leading, trailing, repeated, around a two-qubit gate on either argument,
   separated by barrier / measurement *)
Definition R q := mkI Reset [q] [].
Definition M q k := mkI Measure [q] [k].
Definition B qs := mkI (Barrier None) qs [].
Definition H0 := mkI (Gate 0) [0] [].
Definition CX a b := mkI (Gate 1) [a; b] [].

Definition ex1 : circ :=
  [R 0; R 1; H0; R 1; CX 0 1; R 0; R 0; M 1 0; B [0]; R 0; R 1; R 1].

Example c12_ex_wf : wf 2 1 ex1 = true.
Proof. reflexivity. Qed.

Example c12_ex_zero :      (* R 1 after H0 is still "in the zero state"; the scan stops at CX *)
  remove_resets_in_zero_state 2 ex1 = [H0; CX 0 1; R 0; R 0; M 1 0; B [0]; R 0; R 1; R 1].
Proof. reflexivity. Qed.

Example c12_ex_final :     (* the barrier ends qubit 0, the measurement ends qubit 1 *)
  remove_final_resets 2 ex1 = [R 0; R 1; H0; R 1; CX 0 1; R 0; R 0; M 1 0; B [0]] /\
  final_dropped 2 ex1 = [1; 1; 0].
Proof. split; reflexivity. Qed.

Example c12_ex_consolidate :
  consolidate_resets 2 ex1 = [R 0; R 1; H0; CX 0 1; R 0; M 1 0; B [0]; R 0; R 1].
Proof. reflexivity. Qed.

Example c12_ex_pipeline : optimise_resets 2 ex1 = [H0; CX 0 1; R 0; M 1 0; B [0]].
Proof. reflexivity. Qed.

Example c12_ex_dag :
  dag_remove_final_reset 2 ex1 = [R 0; R 1; H0; R 1; CX 0 1; R 0; R 0; M 1 0; B [0]; R 1] /\
  dag_rfr_dropped 2 ex1 = [0; 1] /\
  dag_remove_final_reset_fix 2 ex1 = remove_final_resets 2 ex1 /\
  dag_consolidate_resets ex1 = [R 0; H0; R 1; CX 0 1; R 0; M 1 0; B [0]; R 0; R 1] /\
  dag_consolidate_resets ex1 <> consolidate_resets 2 ex1.
Proof. repeat split; try reflexivity. vm_compute. discriminate. Qed.

(* separators matter: nothing may be removed here, and nothing is *)
Example c12_ex_separated :
  consolidate_resets 1 [R 0; B [0]; R 0] = [R 0; B [0]; R 0] /\
  dag_consolidate_resets [R 0; M 0 0; R 0] = [R 0; M 0 0; R 0] /\
  remove_final_resets 1 [H0; R 0; B [0]] = [H0; R 0; B [0]] /\
  dag_remove_final_reset 1 [H0; R 0; M 0 0] = [H0; R 0; M 0 0] /\
  remove_resets_in_zero_state 1 [B [0]; R 0] = [B [0]; R 0].
Proof. repeat split; reflexivity. Qed.

(* the exception clause of the final-reset theorems is needed: on a dropped wire the terms differ
   (the entangled partner's wire and the classical bit do not) *)
Definition ex2 : circ := [H0; CX 0 1; M 1 0; R 0].
Example c12_ex_exception :
  wf 2 1 ex2 = true /\ final_dropped 2 ex2 = [0] /\
  wire (denote 2 1 (remove_final_resets 2 ex2)) 0 <> wire (denote 2 1 ex2) 0 /\
  wire (denote 2 1 (remove_final_resets 2 ex2)) 1 = wire (denote 2 1 ex2) 1 /\
  hc (denote 2 1 (remove_final_resets 2 ex2)) = hc (denote 2 1 ex2).
Proof. repeat split; try reflexivity. vm_compute. discriminate. Qed.

(* the placeholder call site (the reviewer's probe, partition of qubit 0): h q0; cx; reset q0, then the
   placeholder measure q0 -> c1 (c0 = a qpd measurement of q1).  The placeholder bit's term changes,
   the other bit's does not. *)
Definition ex3 : circ := [H0; CX 0 1; M 1 0; R 0; M 0 1].
Example c12_ex_site :
  wf 2 2 ex3 = true /\
  subexperiment_resets 2 true ex3 = [H0; CX 0 1; M 1 0; M 0 1] /\
  subexperiment_resets 2 false ex3 = ex3 /\
  nth 0 (hc (denote 2 2 (subexperiment_resets 2 true ex3))) None = nth 0 (hc (denote 2 2 ex3)) None /\
  nth 1 (hc (denote 2 2 (subexperiment_resets 2 true ex3))) None <> nth 1 (hc (denote 2 2 ex3)) None.
Proof. repeat split; try reflexivity. vm_compute. discriminate. Qed.

(* the concrete semantics on ex1 (h = Gate 0, cx = Gate 1): 2 branches of positive weight (the reset of q0 after
   the Bell pair splits on q1's value, which the measurement of q1 then records), and both passes really delete something from ex1 *)
Definition gi_ex (g : nat) : option qgate := match g with 0 => Some Gh | 1 => Some Gcx | _ => None end.
Example c12_ex_sim :
  length (qbrun gi_ex 2 1 ex1) = 2 /\
  map fst (qlaw (qbrun gi_ex 2 1 ex1)) = [[false]; [true]] /\
  length (qbrun gi_ex 2 1 [H0; CX 0 1; M 1 0]) = 2 /\
  map fst (qlaw (qbrun gi_ex 2 1 [H0; CX 0 1; M 1 0])) = [[false]; [true]] /\
  consolidate_resets 2 ex1 <> ex1 /\ remove_resets_in_zero_state 2 ex1 <> ex1.
Proof. repeat split; try (vm_compute; reflexivity); vm_compute; discriminate. Qed.

(* the hypotheses of the concrete theorems hold on ex1; and why [simple] is required: on a Move the
   branch semantics is not the meaning of the circuit (weight 1 on outcome 0; physically 1/2, 1/2) *)
Example c12_ex_sim_domain :
  simple ex1 = true /\ interpreted gi_ex ex1 = true /\
  wf 2 1 [H0; mkI Move [0; 1] []; M 1 0] = true /\ simple [H0; mkI Move [0; 1] []; M 1 0] = false /\
  map fst (qlaw (qbrun gi_ex 2 1 [H0; mkI Move [0; 1] []; M 1 0])) = [[false]] /\
  interpreted gi_ex [mkI (Gate 7) [0] []] = false /\ interpreted gi_ex [mkI (Gate 1) [0] []] = false.
Proof. repeat split; vm_compute; reflexivity. Qed.

(* the removed instructions of ex1 in program order; the commutation laws are consistent (one-point state
   space - only a consistency witness, no physical instance is proved) *)
Example c12_ex_final_removed :
  final_removed 2 ex1 = [R 0; R 1; R 1] /\
  commute_laws (fun (_ : nat) (_ : list nat) (s : unit) => s) (fun s _ _ => s) (fun s _ => s).
Proof. split; [reflexivity|exact commute_laws_unit]. Qed.

(* the pipeline's exception set and the re-appended form on ex1 *)
Example c12_ex_pipeline_dropped :
  final_dropped 2 (remove_resets_in_zero_state 2 ex1) = [1; 1; 0] /\
  ends_in_reset 0 ex1 = true /\ ends_in_reset 1 ex1 = true /\
  remove_final_resets 2 ex1 ++ map (fun q => mkI Reset [q] []) (final_dropped 2 ex1)
    = [R 0; R 1; H0; R 1; CX 0 1; R 0; R 0; M 1 0; B [0]; R 1; R 1; R 0] /\
  remove_final_resets 2 ex1 ++ map (fun q => mkI Reset [q] []) (final_dropped 2 ex1) <> ex1.
Proof. repeat split; try reflexivity. vm_compute. discriminate. Qed.

(* ------------------------------------------------------------------------------------------------
   FACT OBLIGATIONS (not theorems about the code's behaviour): constants regenerated from the source on every
   run must equal what the model assumes; they pin the call sites/order, the scan direction and the DAG
   methods used, NOT the flags or the early exits *)
From CKT Require Import Extracted.Facts.
From Coq Require Import String.
Open Scope string_scope.

(* the order modelled by [optimise_resets] *)
Theorem c12_facts_pipeline_obligation :
  reset_pipeline_order = ["_remove_resets_in_zero_state"; "_remove_final_resets"; "_consolidate_resets"].
Proof. reflexivity. Qed.

(* [reversed scan?; #del; #loops] of the three list passes, as modelled (the early-exit breaks are
   modelled too but not pinned: they are pure optimisations) *)
Theorem c12_facts_scans_obligation :
  reset_scan_shapes = [("_consolidate_resets", [0; 1; 3]); ("_remove_resets_in_zero_state", [0; 1; 3]);
                       ("_remove_final_resets", [1; 1; 3])].
Proof. reflexivity. Qed.

(* every call of a reset pass in generate_cutting_experiments, as modelled by [subexperiment_resets] *)
Theorem c12_facts_sites_obligation :
  reset_call_sites = [("_remove_final_resets", "guarded"); ("_remove_resets_in_zero_state", "loop");
                      ("_remove_final_resets", "loop"); ("_consolidate_resets", "loop")].
Proof. reflexivity. Qed.

(* the DAG operations the wire-level models stand for *)
Theorem c12_facts_dag_obligation :
  reset_dag_calls = [("RemoveFinalReset", "output_map,predecessors,remove_op_node");
                     ("ConsolidateResets", "op_nodes,remove_op_node,successors")].
Proof. reflexivity. Qed.

Print Assumptions c12_consolidate_only_resets.
Print Assumptions c12_zero_only_resets.
Print Assumptions c12_final_only_resets.
Print Assumptions c12_pipeline_only_resets.
Print Assumptions c12_dag_rfr_only_resets.
Print Assumptions c12_dag_rfr_fix_only_resets.
Print Assumptions c12_dag_consolidate_only_resets.
Print Assumptions c12_del_resets_meaning.
Print Assumptions c12_del_resets_clbit_wire.
Print Assumptions c12_consolidate_semantics.
Print Assumptions c12_zero_semantics.
Print Assumptions c12_dag_consolidate_semantics.
Print Assumptions c12_final_semantics.
Print Assumptions c12_final_dropped_iff.
Print Assumptions c12_final_dropped_zero.
Print Assumptions c12_final_complete.
Print Assumptions c12_pipeline_semantics.
Print Assumptions c12_dag_rfr_semantics.
Print Assumptions c12_dag_rfr_dropped_iff.
Print Assumptions c12_dag_rfr_fix_semantics.
Print Assumptions c12_dag_rfr_fix_is_fixed_point.
Print Assumptions c12_dag_equiv_final.
Print Assumptions c12_dag_equiv_consolidate.
Print Assumptions c12_dag_equiv_consolidate_rest.
Print Assumptions c12_sim_consolidate.
Print Assumptions c12_sim_consolidate_any.
Print Assumptions c12_sim_zero.
Print Assumptions c12_sim_born_law_cor.
Print Assumptions c12_sim_laws_consolidate.
Print Assumptions c12_sim_laws_zero.
Print Assumptions c12_sim_qsim_laws.
Print Assumptions c12_sim_laws_final.
Print Assumptions c12_pipeline_dropped.
Print Assumptions c12_final_reappend.
Print Assumptions c12_site_only_resets.
Print Assumptions c12_site_observed_def.
Print Assumptions c12_site_semantics_placeholder.
Print Assumptions c12_facts_pipeline_obligation.
Print Assumptions c12_facts_sites_obligation.
Print Assumptions c12_facts_scans_obligation.
Print Assumptions c12_facts_dag_obligation.

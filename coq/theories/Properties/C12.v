(* Properties/C12.v — Reset-removal optimisations never change measurement statistics.
   Only theorem statements closed by `exact`, non-vacuity examples, facts obligations, Print Assumptions.

   Passes (Model/ResetPasses.v):
     consolidate_resets, remove_resets_in_zero_state, remove_final_resets   list scans of cutting_experiments.py
     optimise_resets                                                        the three, in the order of generate_cutting_experiments
     dag_remove_final_reset (one run), dag_remove_final_reset_fix (DoWhile to the fixed point),
     dag_consolidate_resets                                                 wire-level models of utils/transpiler_passes.py
   Semantics: Common/Herbrand.v, [denote nq nc c]; equal terms on the classical bits and on a set of wires
   = same joint law of the classical bits together with the conditional state of those wires under every
   compositional interpretation (modelling assumption M1).
   [wf nq nc c]: indices in range; Reset has one qubit and no clbit; Measure one qubit, one clbit. *)
From CKT Require Import Common.Base Common.Circ Common.Herbrand Model.ResetPasses
  Proofs.ResetPassesP Proofs.ResetPassesSem Proofs.ResetPassesDag Proofs.ResetPassesDropped Proofs.ResetPassesSite.
From CKT Require Import Common.QSim Model.ResetSim Proofs.ResetSimP Proofs.ResetSimQ.

(* ------------------------------------------------------------------------------------------------
   (1) every pass deletes only Reset instructions; all other instructions stay, in order *)

Theorem c12_consolidate_only_resets : forall nq c, del_resets c (consolidate_resets nq c).
Proof. exact consolidate_only_resets. Qed.

Theorem c12_zero_only_resets : forall nq c, del_resets c (remove_resets_in_zero_state nq c).
Proof. exact zero_only_resets. Qed.

Theorem c12_final_only_resets : forall nq c, del_resets c (remove_final_resets nq c).
Proof. exact final_only_resets. Qed.

Theorem c12_pipeline_only_resets : forall nq c, del_resets c (optimise_resets nq c).
Proof. exact pipeline_only_resets. Qed.

Theorem c12_dag_rfr_only_resets : forall nq c, del_resets c (dag_remove_final_reset nq c).
Proof. exact dag_rfr_only_resets. Qed.

Theorem c12_dag_rfr_fix_only_resets : forall nq c, del_resets c (dag_remove_final_reset_fix nq c).
Proof. exact dag_rfr_fix_only_resets. Qed.

Theorem c12_dag_consolidate_only_resets : forall c, del_resets c (dag_consolidate_resets c).
Proof. exact dag_consolidate_only_resets. Qed.

(* what the relation says in filter form: the non-reset instructions are the same list; every qubit
   wire sees its old sequence with some resets deleted; every clbit wire sees the same sequence *)
Theorem c12_del_resets_meaning : forall c c', del_resets c c' ->
  non_resets c' = non_resets c /\ length c' <= length c /\
  (forall x, In x c' -> In x c) /\ (forall q, del_resets (proj_q q c) (proj_q q c')).
Proof. exact del_resets_meaning. Qed.

Theorem c12_del_resets_clbit_wire : forall nq nc k c c',
  wf nq nc c = true -> del_resets c c' -> proj_c k c' = proj_c k c.
Proof. exact del_resets_proj_c. Qed.

(* ------------------------------------------------------------------------------------------------
   (2) semantics.  For consolidation and zero-state removal the WHOLE denotation is unchanged:
   every classical bit and every wire (hence [hc] equal and [wire _ q] equal for all q). *)

Theorem c12_consolidate_semantics : forall nq nc c, wf nq nc c = true ->
  denote nq nc (consolidate_resets nq c) = denote nq nc c.
Proof. exact consolidate_semantics. Qed.

Theorem c12_zero_semantics : forall nq nc c, wf nq nc c = true ->
  denote nq nc (remove_resets_in_zero_state nq c) = denote nq nc c.
Proof. exact zero_semantics. Qed.

Theorem c12_dag_consolidate_semantics : forall nq nc c, wf nq nc c = true ->
  denote nq nc (dag_consolidate_resets c) = denote nq nc c.
Proof. exact dag_consolidate_semantics. Qed.

(* final-reset removal: all classical bits, and every wire except those whose trailing reset was dropped *)
Theorem c12_final_semantics : forall nq nc c, wf nq nc c = true ->
  hc (denote nq nc (remove_final_resets nq c)) = hc (denote nq nc c) /\
  forall q, ~ In q (final_dropped nq c) ->
    wire (denote nq nc (remove_final_resets nq c)) q = wire (denote nq nc c) q.
Proof. exact final_semantics. Qed.

(* ... and those wires are precisely the qubits whose last instruction is a reset; the original
   circuit leaves each of them in |0>, unentangled (term [Zero]) *)
Theorem c12_final_dropped_iff : forall nq nc c q, wf nq nc c = true ->
  (In q (final_dropped nq c) <-> q < nq /\ ends_in_reset q c = true).
Proof. exact final_dropped_iff. Qed.

Theorem c12_final_dropped_zero : forall nq nc c q, wf nq nc c = true -> In q (final_dropped nq c) ->
  q < nq /\ wire (denote nq nc c) q = Zero.
Proof. exact final_dropped_zero. Qed.

(* the pass is complete: afterwards no qubit ends in a reset *)
Theorem c12_final_complete : forall nq nc c q, wf nq nc c = true -> q < nq ->
  ends_in_reset q (remove_final_resets nq c) = false.
Proof. exact final_complete. Qed.

(* the pipeline applied to every generated subexperiment *)
Theorem c12_pipeline_semantics : forall nq nc c, wf nq nc c = true ->
  hc (denote nq nc (optimise_resets nq c)) = hc (denote nq nc c) /\
  forall q, ~ In q (final_dropped nq (remove_resets_in_zero_state nq c)) ->
    wire (denote nq nc (optimise_resets nq c)) q = wire (denote nq nc c) q.
Proof. exact pipeline_semantics. Qed.

(* one run of RemoveFinalReset (at most one reset per wire) *)
Theorem c12_dag_rfr_semantics : forall nq nc c, wf nq nc c = true ->
  hc (denote nq nc (dag_remove_final_reset nq c)) = hc (denote nq nc c) /\
  forall q, ~ In q (dag_rfr_dropped nq c) ->
    wire (denote nq nc (dag_remove_final_reset nq c)) q = wire (denote nq nc c) q.
Proof. exact dag_rfr_semantics. Qed.

Theorem c12_dag_rfr_dropped_iff : forall nq nc c q, wf nq nc c = true ->
  (In q (dag_rfr_dropped nq c) <-> q < nq /\ ends_in_reset q c = true).
Proof. exact dag_rfr_dropped_iff. Qed.

(* RemoveFinalReset iterated by DoWhileController/DAGFixedPoint *)
Theorem c12_dag_rfr_fix_semantics : forall nq nc c, wf nq nc c = true ->
  hc (denote nq nc (dag_remove_final_reset_fix nq c)) = hc (denote nq nc c) /\
  forall q, ~ In q (final_dropped nq c) ->
    wire (denote nq nc (dag_remove_final_reset_fix nq c)) q = wire (denote nq nc c) q.
Proof. exact dag_rfr_fix_semantics. Qed.

(* ------------------------------------------------------------------------------------------------
   (3) the DAG passes agree with the list passes *)

(* the modelled loop really stops at a fixed point of the pass (the fuel is never exhausted) *)
Theorem c12_dag_rfr_fix_is_fixed_point : forall nq c,
  dag_remove_final_reset nq (dag_remove_final_reset_fix nq c) = dag_remove_final_reset_fix nq c.
Proof. exact dag_rfr_fix_is_fixed_point. Qed.

(* same instruction list (hence the same sequence on every wire) *)
Theorem c12_dag_equiv_final : forall nq nc c, wf nq nc c = true ->
  dag_remove_final_reset_fix nq c = remove_final_resets nq c.
Proof. exact dag_equiv_final. Qed.

(* ConsolidateResets keeps the LAST reset of a run, _consolidate_resets the FIRST: the lists differ,
   every wire's sequence is the same *)
Theorem c12_dag_equiv_consolidate : forall nq nc c q, wf nq nc c = true -> q < nq ->
  proj_q q (dag_consolidate_resets c) = proj_q q (consolidate_resets nq c).
Proof. exact dag_equiv_consolidate. Qed.

Theorem c12_dag_equiv_consolidate_rest : forall nq nc c, wf nq nc c = true ->
  non_resets (dag_consolidate_resets c) = non_resets (consolidate_resets nq c) /\
  forall k, proj_c k (dag_consolidate_resets c) = proj_c k (consolidate_resets nq c).
Proof. exact dag_equiv_consolidate_rest. Qed.

(* ------------------------------------------------------------------------------------------------
   (4) the call sites inside generate_cutting_experiments, on one subexperiment c = pre ++ [m]
   (m = the last appended measurement).  [subexperiment_resets nq placeholder c]: the pipeline in the
   final loop and, when the sub-observable is the identity ([placeholder]), _remove_final_resets
   already before the placeholder measurement m is appended. *)
Theorem c12_site_only_resets : forall nq ph pre m,
  del_resets (pre ++ [m]) (subexperiment_resets nq ph (pre ++ [m])).
Proof. exact subexperiment_resets_only_resets. Qed.

Theorem c12_site_semantics_observed : forall nq nc c, wf nq nc c = true ->
  hc (denote nq nc (subexperiment_resets nq false c)) = hc (denote nq nc c) /\
  forall q, ~ In q (final_dropped nq (remove_resets_in_zero_state nq c)) ->
    wire (denote nq nc (subexperiment_resets nq false c)) q = wire (denote nq nc c) q.
Proof. exact site_semantics_observed. Qed.

(* placeholder site: every classical bit EXCEPT the placeholder's own bit k is unchanged.  The bit k
   itself does change (the measured qubit lost its trailing reset); reconstruction ignores it
   (that masking is C01/C19's business, not proved here). *)
Theorem c12_site_semantics_placeholder : forall nq nc pre m k, wf nq nc (pre ++ [m]) = true ->
  iop m = Measure -> ics m = [k] ->
  forall j, j <> k ->
    nth j (hc (denote nq nc (subexperiment_resets nq true (pre ++ [m])))) None
    = nth j (hc (denote nq nc (pre ++ [m]))) None.
Proof. exact site_semantics_placeholder. Qed.

(* ------------------------------------------------------------------------------------------------
   (5) NOT through the Herbrand denotation (no appeal to assumption M1): the two state-by-state passes in a
   concrete semantics, the exact state-vector branch simulation of Model/ResetSim.v over Common/QSim.v
   (gates x y z h s sdg sx sxdg cx cz swap ccx under any assignment [gi] of gate ids, measurements, resets,
   barriers; any number of qubits).  [qbrun gi nq nc c] = the list of (classical register, unnormalised
   state vector) branches of weight > 0 in program order: equal lists = the same joint law of all classical
   bits together with the same conditional state of ALL qubits. *)
Theorem c12_sim_consolidate : forall gi nq nc c, wf nq nc c = true ->
  qbrun gi nq nc (consolidate_resets nq c) = qbrun gi nq nc c.
Proof. exact q_consolidate. Qed.

(* ... from any starting list of branches (any registers, any vectors of any length) *)
Theorem c12_sim_consolidate_any : forall gi nq nc c l, wf nq nc c = true ->
  clean vec_is_zero (brun (qgapply gi) qproj qflipx (consolidate_resets nq c) l)
  = clean vec_is_zero (brun (qgapply gi) qproj qflipx c l).
Proof. exact q_consolidate_any. Qed.

Theorem c12_sim_zero : forall gi nq nc c, wf nq nc c = true ->
  qbrun gi nq nc (remove_resets_in_zero_state nq c) = qbrun gi nq nc c.
Proof. exact q_zero. Qed.

(* hence the Born law (register, squared norm) branch by branch *)
Theorem c12_sim_born_law : forall gi nq nc c, wf nq nc c = true ->
  qlaw (qbrun gi nq nc (consolidate_resets nq c)) = qlaw (qbrun gi nq nc c) /\
  qlaw (qbrun gi nq nc (remove_resets_in_zero_state nq c)) = qlaw (qbrun gi nq nc c).
Proof. intros gi nq nc c W. now rewrite (q_consolidate gi nq nc c W), (q_zero gi nq nc c W). Qed.

(* ------------------------------------------------------------------------------------------------
   non-vacuity: 2 qubits / 1 clbit; h = Gate 0, cx = Gate 1.
   resets leading, trailing, repeated, around a two-qubit gate on either argument,
   separated by barrier / measurement *)
Definition R q := mkI Reset [q] [].
Definition M q k := mkI Measure [q] [k].
Definition B qs := mkI (Barrier None) qs [].
Definition H0 := mkI (Gate 0) [0] [].
Definition CX a b := mkI (Gate 1) [a; b] [].

Definition ex1 : circ :=
  [R 0; R 1; H0; R 1; CX 0 1; R 0; R 0; M 1 0; B [0]; R 0; R 1; R 1].

Example c12_ex_wf : wf 2 1 ex1 = true.
Proof. reflexivity. Qed.

Example c12_ex_zero :      (* R 1 after H0 is still "in the zero state"; the scan stops at CX *)
  remove_resets_in_zero_state 2 ex1 = [H0; CX 0 1; R 0; R 0; M 1 0; B [0]; R 0; R 1; R 1].
Proof. reflexivity. Qed.

Example c12_ex_final :     (* the barrier ends qubit 0, the measurement ends qubit 1 *)
  remove_final_resets 2 ex1 = [R 0; R 1; H0; R 1; CX 0 1; R 0; R 0; M 1 0; B [0]] /\
  final_dropped 2 ex1 = [1; 1; 0].
Proof. split; reflexivity. Qed.

Example c12_ex_consolidate :
  consolidate_resets 2 ex1 = [R 0; R 1; H0; CX 0 1; R 0; M 1 0; B [0]; R 0; R 1].
Proof. reflexivity. Qed.

Example c12_ex_pipeline : optimise_resets 2 ex1 = [H0; CX 0 1; R 0; M 1 0; B [0]].
Proof. reflexivity. Qed.

Example c12_ex_dag :
  dag_remove_final_reset 2 ex1 = [R 0; R 1; H0; R 1; CX 0 1; R 0; R 0; M 1 0; B [0]; R 1] /\
  dag_rfr_dropped 2 ex1 = [0; 1] /\
  dag_remove_final_reset_fix 2 ex1 = remove_final_resets 2 ex1 /\
  dag_consolidate_resets ex1 = [R 0; H0; R 1; CX 0 1; R 0; M 1 0; B [0]; R 0; R 1] /\
  dag_consolidate_resets ex1 <> consolidate_resets 2 ex1.
Proof. repeat split; try reflexivity. vm_compute. discriminate. Qed.

(* separators matter: nothing may be removed here, and nothing is *)
Example c12_ex_separated :
  consolidate_resets 1 [R 0; B [0]; R 0] = [R 0; B [0]; R 0] /\
  dag_consolidate_resets [R 0; M 0 0; R 0] = [R 0; M 0 0; R 0] /\
  remove_final_resets 1 [H0; R 0; B [0]] = [H0; R 0; B [0]] /\
  dag_remove_final_reset 1 [H0; R 0; M 0 0] = [H0; R 0; M 0 0] /\
  remove_resets_in_zero_state 1 [B [0]; R 0] = [B [0]; R 0].
Proof. repeat split; reflexivity. Qed.

(* the exception clause of the final-reset theorems is needed: on a dropped wire the terms differ
   (the entangled partner's wire and the classical bit do not) *)
Definition ex2 : circ := [H0; CX 0 1; M 1 0; R 0].
Example c12_ex_exception :
  wf 2 1 ex2 = true /\ final_dropped 2 ex2 = [0] /\
  wire (denote 2 1 (remove_final_resets 2 ex2)) 0 <> wire (denote 2 1 ex2) 0 /\
  wire (denote 2 1 (remove_final_resets 2 ex2)) 1 = wire (denote 2 1 ex2) 1 /\
  hc (denote 2 1 (remove_final_resets 2 ex2)) = hc (denote 2 1 ex2).
Proof. repeat split; try reflexivity. vm_compute. discriminate. Qed.

(* the placeholder call site (the reviewer's probe, partition of qubit 0): h q0; cx; reset q0, then the
   placeholder measure q0 -> c1 (c0 = a qpd measurement of q1).  The placeholder bit's term changes,
   the other bit's does not. *)
Definition ex3 : circ := [H0; CX 0 1; M 1 0; R 0; M 0 1].
Example c12_ex_site :
  wf 2 2 ex3 = true /\
  subexperiment_resets 2 true ex3 = [H0; CX 0 1; M 1 0; M 0 1] /\
  subexperiment_resets 2 false ex3 = ex3 /\
  nth 0 (hc (denote 2 2 (subexperiment_resets 2 true ex3))) None = nth 0 (hc (denote 2 2 ex3)) None /\
  nth 1 (hc (denote 2 2 (subexperiment_resets 2 true ex3))) None <> nth 1 (hc (denote 2 2 ex3)) None.
Proof. repeat split; try reflexivity. vm_compute. discriminate. Qed.

(* the concrete semantics on ex1 (h = Gate 0, cx = Gate 1): 2 branches of positive weight (the reset of q0 after
   the Bell pair splits on q1's value, which the measurement of q1 then records), and both passes really delete something from ex1 *)
Definition gi_ex (g : nat) : option qgate := match g with 0 => Some Gh | 1 => Some Gcx | _ => None end.
Example c12_ex_sim :
  length (qbrun gi_ex 2 1 ex1) = 2 /\
  map fst (qlaw (qbrun gi_ex 2 1 ex1)) = [[false]; [true]] /\
  length (qbrun gi_ex 2 1 [H0; CX 0 1; M 1 0]) = 2 /\
  map fst (qlaw (qbrun gi_ex 2 1 [H0; CX 0 1; M 1 0])) = [[false]; [true]] /\
  consolidate_resets 2 ex1 <> ex1 /\ remove_resets_in_zero_state 2 ex1 <> ex1.
Proof. repeat split; try (vm_compute; reflexivity); vm_compute; discriminate. Qed.

(* ------------------------------------------------------------------------------------------------
   facts regenerated from the source on every run *)
From CKT Require Import Extracted.Facts.
From Coq Require Import String.
Open Scope string_scope.

(* the order modelled by [optimise_resets] *)
Theorem c12_facts_pipeline :
  reset_pipeline_order = ["_remove_resets_in_zero_state"; "_remove_final_resets"; "_consolidate_resets"].
Proof. reflexivity. Qed.

(* [reversed scan?; #del; #loops] of the three list passes, as modelled (the early-exit breaks are
   modelled too but not pinned: they are pure optimisations) *)
Theorem c12_facts_scans :
  reset_scan_shapes = [("_consolidate_resets", [0; 1; 3]); ("_remove_resets_in_zero_state", [0; 1; 3]);
                       ("_remove_final_resets", [1; 1; 3])].
Proof. reflexivity. Qed.

(* every call of a reset pass in generate_cutting_experiments, as modelled by [subexperiment_resets] *)
Theorem c12_facts_sites :
  reset_call_sites = [("_remove_final_resets", "guarded"); ("_remove_resets_in_zero_state", "loop");
                      ("_remove_final_resets", "loop"); ("_consolidate_resets", "loop")].
Proof. reflexivity. Qed.

(* the DAG operations the wire-level models stand for *)
Theorem c12_facts_dag :
  reset_dag_calls = [("RemoveFinalReset", "output_map,predecessors,remove_op_node");
                     ("ConsolidateResets", "op_nodes,remove_op_node,successors")].
Proof. reflexivity. Qed.

Print Assumptions c12_consolidate_only_resets.
Print Assumptions c12_zero_only_resets.
Print Assumptions c12_final_only_resets.
Print Assumptions c12_pipeline_only_resets.
Print Assumptions c12_dag_rfr_only_resets.
Print Assumptions c12_dag_rfr_fix_only_resets.
Print Assumptions c12_dag_consolidate_only_resets.
Print Assumptions c12_del_resets_meaning.
Print Assumptions c12_del_resets_clbit_wire.
Print Assumptions c12_consolidate_semantics.
Print Assumptions c12_zero_semantics.
Print Assumptions c12_dag_consolidate_semantics.
Print Assumptions c12_final_semantics.
Print Assumptions c12_final_dropped_iff.
Print Assumptions c12_final_dropped_zero.
Print Assumptions c12_final_complete.
Print Assumptions c12_pipeline_semantics.
Print Assumptions c12_dag_rfr_semantics.
Print Assumptions c12_dag_rfr_dropped_iff.
Print Assumptions c12_dag_rfr_fix_semantics.
Print Assumptions c12_dag_rfr_fix_is_fixed_point.
Print Assumptions c12_dag_equiv_final.
Print Assumptions c12_dag_equiv_consolidate.
Print Assumptions c12_dag_equiv_consolidate_rest.
Print Assumptions c12_sim_consolidate.
Print Assumptions c12_sim_consolidate_any.
Print Assumptions c12_sim_zero.
Print Assumptions c12_sim_born_law.
Print Assumptions c12_site_only_resets.
Print Assumptions c12_site_semantics_observed.
Print Assumptions c12_site_semantics_placeholder.
Print Assumptions c12_facts_pipeline.
Print Assumptions c12_facts_sites.
Print Assumptions c12_facts_scans.
Print Assumptions c12_facts_dag.

(* Properties/C08.v — placeholder while the proofs are being developed *)
From CKT Require Import Model.CutFinder.
Theorem c08_stub : True. Proof. exact I. Qed.

(* Properties/C08.v — A reported minimum really is the minimum sampling overhead.
   Only theorem statements (closed by `exact`), non-vacuity examples, facts obligation, Print Assumptions.

   Vocabulary (defined in Proofs/BestFirstP.v and Proofs/BestFirstSpec.v):
     fa_of i, nq_of i      the constant search arguments / number of qubits find_cuts derives from the request i
     succ fa s s'          s' is one of the states  next_states fa s  returns (guarded actions, in registry order)
     reach fa s g          reflexive-transitive closure of succ      goal fa g : all gates decided
     start_of i            the start state of the best-first search: init_state with the wire-cut budget
                           min(#gate inputs, ceil(log2(gamma_greedy + 1) - 1)) computed by CutOptimization.__init__
     greedy_of fa nq       the greedy incumbent
     assignment_cost nq W gate_lo wire_lo gates A = Some c
                           SPECIFICATION: the assignment A (leave / gate / left / right / both per gate) uses permitted
                           kinds only, every component of the wire-segment graph has at most W segments, and the product
                           of the per-cut factors (gamma, 4, 4, 16) is c.  Independent of all search data structures.
     pruning_sound_for ... every such assignment is matched in cost by a goal reachable from start_of i: neither the guards /
                           no-merge clauses nor the wire-cut budget exclude an optimum.  PROVED for all well-formed gate lists
                           (c08_pruning_sound, exchange argument of Proofs/BestFirstExchange*.v); the theorems that take it as a
                           hypothesis are kept, their hypothesis-free versions are the ..._unbounded theorems
     circ_wf c             every multi-qubit gate of the circuit acts on exactly two distinct qubits (Proofs/CutFinderCirc.v)
     spec_within i         some assignment that meets the width limit costs at most max_gamma ("max_gamma >= optimum")
     circ_nodup c          no multi-qubit instruction uses a qubit twice (weaker than circ_wf; Qiskit's own CircuitError
                           "duplicate qubit arguments").  That every multi-qubit gate acts on exactly TWO qubits is no longer a
                           hypothesis: it follows from find_cuts_full = Val r (c08_result_two_qubit)
     gammas_ok_in i        every gate gamma of the request is >= 1; follows from the executable check gtab_ge1 of the gate table
                           (c08_gammas_from_table), which the Coq case checker evaluates on every generated case
     gtab_ge1 t            every kappa in the gate table t is >= 1 (Model/CutFinderTable.v; kappa of every QPD basis: C15) *)
From Coq Require Import QArith String.
From CKT Require Import Model.CutFinder Model.CutFinderTable Proofs.CutFinderSpec Proofs.CutFinderCirc Proofs.BestFirstP
  Proofs.BestFirstSpec Proofs.BestFirstFuel Proofs.BestFirstExchangeFinal Proofs.BestFirstRefuse Proofs.BestFirstAttain
  Proofs.BestFirstTotal Extracted.Facts.
Close Scope Q_scope.

(* ---- (1) every action multiplies gamma_UB by a factor >= 1 ---- *)
Theorem c08_action_factor : forall k s g W l, next_state_primitive k s g W = Val l ->
  l = [] \/ exists s', l = [s'] /\ (gamma_UB s' == gamma_UB s * factor_of k g)%Q /\ level s' = level s.
Proof. exact primitive_spec. Qed.

Theorem c08_factor_ge_1 : forall k g, gamma_ok g -> (1 <= factor_of k g)%Q.
Proof. exact factor_ge_1. Qed.

Theorem c08_cost_monotone : forall fa s s', gammas_ok (fa_gates fa) -> succ fa s s' ->
  exists f, (1 <= f)%Q /\ (cost s' == cost s * f)%Q /\ level s' = S (level s) /\ level s < length (fa_gates fa).
Proof. exact succ_factor. Qed.

(* ---- (2) generic best-first lemmas: X, cost, successor relation and invariant are arbitrary ---- *)
Theorem c08_dijkstra_generic : forall (X : Type) (gcost : X -> Q) (step : X -> X -> Prop) (ok : X -> Prop),
  (forall x y, ok x -> step x y -> ok y) ->
  (forall x y, ok x -> step x y -> (gcost x <= gcost y)%Q) ->
  (* a cost-minimal frontier element is a lower bound for everything below the frontier (so the first goal popped
     is a cheapest goal) *)
  (forall (F : list X) (e : X), (forall f, In f F -> ok f) -> (forall f, In f F -> (gcost e <= gcost f)%Q) ->
     forall g, (exists f, In f F /\ greach X step f g) -> (gcost e <= gcost g)%Q) /\
  (* pruning a child above the incumbent u loses no goal with cost <= u *)
  (forall (u : Q) (c g : X), ok c -> (u < gcost c)%Q -> greach X step c g -> (u < gcost g)%Q).
Proof.
  intros X gcost step ok H1 H2. split.
  - exact (dijkstra_min X gcost step ok H1 H2).
  - exact (prune_safe X gcost step ok H1 H2).
Qed.

(* the frontier invariant of the model's engine (Inv: every goal of the search space strictly better than the
   incumbent lies below a queued state; once the flag is set the incumbent bounds every goal from below) is preserved
   by a pass of the REPAIRED engine, a returned goal sets the flag, and an unrestricted pass that returns nothing has
   set the flag.  This is the place where the unrepaired code is wrong (a popped state over a bound is dropped). *)
Theorem c08_frontier_invariant : forall tape fa max_gamma max_backjumps s0,
  gammas_ok (fa_gates fa) -> (0 <= cost s0)%Q ->
  forall fuel b pd b' r, Inv fa s0 b ->
  pass_loop tape fa max_gamma max_backjumps fuel b pd = Val (b', r) ->
  Inv fa s0 b' /\ ub_mono b b' /\ res_ok fa s0 b' r /\
  (unrestricted fa max_gamma max_backjumps s0 -> r = None -> min_reached b' = true) /\
  (r = None -> upperbound b' = upperbound b).
Proof. exact pass_loop_inv. Qed.

(* the glue between the passes: the invariant of LOCutsOptimizer.optimize's repeat-until-None loop around
   CutOptimization.optimization_pass (DInv: the frontier invariant of the engine, every collected goal is a goal of the search
   space or the greedy incumbent, the incumbent bounds the upper bound, backjump and bound accounting carried across passes) is
   preserved by the whole driver loop; when the loop ends a goal/incumbent has been returned, and an unrestricted search has set
   the flag *)
Theorem c08_driver_invariant : forall tape fa max_gamma max_backjumps s0, gammas_ok (fa_gates fa) -> (0 <= cost s0)%Q ->
  forall passes fuel co acc co' acc', DInv fa s0 co acc ->
  driver_loop tape fa max_gamma max_backjumps passes fuel co acc = Val (co', acc') ->
  DInv fa s0 co' acc' /\ co_returned co' = true /\ co_greedy co' = co_greedy co /\
  (unrestricted fa max_gamma max_backjumps s0 -> min_reached (co_engine co') = true).
Proof. exact driver_loop_inv. Qed.

(* ---- (3) flag soundness ---- *)
(* relative to the guarded search space, unbounded *)
Theorem c08_flag_sound_guarded : forall fuel i r, gammas_ok_in i -> find_cuts_full fuel i = Val r ->
  md_minimum_reached (fr_meta r) = true ->
  forall g, reach (fa_of i) (start_of i) g -> goal (fa_of i) g ->
  (md_overhead (fr_meta r) <= cost g * cost g)%Q.
Proof. exact flag_sound_guarded. Qed.

(* ---- (3a) pruning soundness, UNBOUNDED: any number of qubits and gates, any width limit, any cut-kind combination, any
   max_gamma.  For every assignment A (leave / gate cut / left / right / both per gate, permitted kinds only) that meets the
   width limit in the wire-segment specification there is a path of guarded actions (next_states: width checks, r1 == r2
   guards, can_expand_subcircuit, W < 2 guard, no-merge clauses, can_add_wires under the budget
   min(#gate inputs, max_wire_cuts_gamma(greedy gamma or max_gamma))) from the start state of the search to a goal state
   whose cost is at most the cost of A.
   Proof (Proofs/BestFirstExchange.v, ...Sim.v, ...Main.v, ...Shrink.v, ...Final.v): A is normalised against the FINAL
   components of its own wire segments (a cut whose sides end in one final component becomes leave, a both-wires cut with
   one useless side becomes a single wire cut); the search follows the normalised assignment under the invariant
   "classes of the search state refine final components of A, clause sides lie in different final components,
   per final component the search has no more wires than A has segments"; 4^(wire cuts) <= cost bounds the wire cuts by
   max_wire_cuts_gamma; when A costs more than the greedy incumbent, the greedy path itself exists under the smaller budget. *)
Theorem c08_pruning_sound : forall nq W gl wl gs mg, gammas_ok gs ->
  (forall g, In g gs -> length (g_qubits g) = 2 /\ q1_of g <> q2_of g /\ q1_of g < nq /\ q2_of g < nq) ->
  pruning_sound_for gs gl wl W mg nq.
Proof. exact pruning_sound. Qed.

(* for the gate list find_cuts derives from a circuit whose multi-qubit gates act on two distinct qubits *)
Theorem c08_pruning_sound_request : forall i, gammas_ok_in i -> circ_wf (fi_circ i) ->
  pruning_sound_for (fa_gates (fa_of i)) (fi_gate_lo i) (fi_wire_lo i) (fi_W i) (fi_max_gamma i) (nq_of i).
Proof. exact pruning_sound_request. Qed.

(* ---- (3b) hypotheses derived from the model ---- *)
(* a value returned by find_cuts proves that every multi-qubit gate acts on exactly two qubits: the returned state is a goal
   reached from level 0, a path visits every level, and next_states raises ValueError at the level of a wider gate *)
Theorem c08_result_two_qubit : forall fuel i r, gammas_ok_in i -> find_cuts_full fuel i = Val r ->
  forall g, In g (fa_gates (fa_of i)) -> length (g_qubits g) = 2.
Proof. exact result_two_qubit. Qed.

(* refusal: a circuit with a multi-qubit gate on other than two qubits never yields a result *)
Theorem c08_wide_gate_no_result : forall fuel i, gtab_ge1 (fi_gtab i) = true ->
  (exists x, In x (fi_circ i) /\ is_multi x = true /\ length (iqs x) <> 2) ->
  forall r, find_cuts_full fuel i <> Val r.
Proof. exact wide_gate_no_result_table. Qed.

(* gate gammas >= 1 is a property of the gate table handed to the model *)
Theorem c08_gammas_from_table : forall i, gtab_ge1 (fi_gtab i) = true -> gammas_ok_in i.
Proof. exact gtab_gammas_ok. Qed.

(* flag soundness against the specification without any hypothesis on the search space: a reported minimum is the
   minimum over all assignments of permitted kinds that meet the width limit.  Hypotheses: the table check and "no qubit
   twice in one instruction" only *)
Theorem c08_flag_sound : forall fuel i r, gtab_ge1 (fi_gtab i) = true -> circ_nodup (fi_circ i) ->
  find_cuts_full fuel i = Val r -> md_minimum_reached (fr_meta r) = true ->
  forall A c, assignment_cost (nq_of i) (fi_W i) (fi_gate_lo i) (fi_wire_lo i) (sgates_of (fa_gates (fa_of i))) A = Some c ->
  (md_overhead (fr_meta r) <= c * c)%Q.
Proof. exact flag_sound_table. Qed.

(* ATTAINMENT: the overhead find_cuts returns is the squared cost of an assignment of permitted kinds that meets the width limit
   in the specification (converse of pruning soundness: every goal of the guarded space, and the greedy incumbent, is read off as
   an assignment; simulation invariant "find a = find b <-> label a = label b", Proofs/BestFirstAttain.v).  An under-reporting
   model would violate this. *)
Theorem c08_result_is_assignment : forall fuel i r, gtab_ge1 (fi_gtab i) = true -> circ_nodup (fi_circ i) ->
  find_cuts_full fuel i = Val r ->
  exists A c, assignment_cost (nq_of i) (fi_W i) (fi_gate_lo i) (fi_wire_lo i) (sgates_of (fa_gates (fa_of i))) A = Some c /\
              (md_overhead (fr_meta r) == c * c)%Q.
Proof. exact result_is_assignment_table. Qed.

(* the two directions together: a reported minimum IS the minimum over all assignments of the specification *)
Theorem c08_reported_minimum_is_minimum : forall fuel i r, gtab_ge1 (fi_gtab i) = true -> circ_nodup (fi_circ i) ->
  find_cuts_full fuel i = Val r -> md_minimum_reached (fr_meta r) = true ->
  exists A c, assignment_cost (nq_of i) (fi_W i) (fi_gate_lo i) (fi_wire_lo i) (sgates_of (fa_gates (fa_of i))) A = Some c /\
    (md_overhead (fr_meta r) == c * c)%Q /\
    forall A' c', assignment_cost (nq_of i) (fi_W i) (fi_gate_lo i) (fi_wire_lo i) (sgates_of (fa_gates (fa_of i))) A' = Some c' ->
      (c * c <= c' * c')%Q.
Proof. exact reported_minimum_is_minimum. Qed.

(* against the specification; the hypothesis pruning_sound_for is c08_pruning_sound for this request *)
Theorem c08_flag_sound_modulo_pruning : forall fuel i r, gammas_ok_in i ->
  pruning_sound_for (fa_gates (fa_of i)) (fi_gate_lo i) (fi_wire_lo i) (fi_W i) (fi_max_gamma i) (nq_of i) ->
  find_cuts_full fuel i = Val r -> md_minimum_reached (fr_meta r) = true ->
  forall A c, assignment_cost (nq_of i) (fi_W i) (fi_gate_lo i) (fi_wire_lo i) (sgates_of (fa_gates (fa_of i))) A = Some c ->
  (md_overhead (fr_meta r) <= c * c)%Q.
Proof. exact flag_sound_spec. Qed.

(* c08_pruning_sound as a FINITE-DOMAIN theorem (complete enumeration inside Coq, Proofs/BestFirstSpec.v): every
   circuit up to qubit relabelling (qubits numbered in order of first use) with 1..3 two-qubit gates of gamma 3 or 7
   on at most 4 qubits (idle qubits included) — 622 circuits —, every width limit 1..4, every cut-kind
   combination, every max_gamma, arbitrary instruction ids / gate names (lab).
   The same statement for 1..4 gates (14 510 circuits) is proved in Proofs/BestFirstSpec4.v (pruning_sound_bounded4,
   flag_sound_bounded4, unrestricted_bounded4, seed_independent_bounded4; ~4 CPU-minutes of vm_compute, closed under the global context) but kept OUT of this file's
   cone because `coqchk` re-checks vm_compute casts ~18x slower (over an hour for that part).
   These finite-domain theorems are now special cases of c08_pruning_sound; they are kept as an independent check
   (complete enumeration, no exchange argument).                                                             *)
Theorem c08_pruning_sound_bounded : forall lab c used, In (c, used) (circuits_upto 4 [3%Q; 7%Q] 3) ->
  forall nq W gl wl mg, used <= nq <= 4 -> 1 <= W <= 4 -> In (gl, wl) [(true, false); (false, true); (true, true)] ->
  pruning_sound_for (gates_from lab 0 c) gl wl W mg nq.
Proof. exact pruning_sound_bounded3. Qed.

(* the two together: on the finite domain a reported minimum is the minimum of the SPECIFICATION *)
Theorem c08_flag_sound_bounded : forall fuel i r lab c used, In (c, used) (circuits_upto 4 [3%Q; 7%Q] 3) ->
  fa_gates (fa_of i) = gates_from lab 0 c -> used <= nq_of i <= 4 -> 1 <= fi_W i <= 4 ->
  In (fi_gate_lo i, fi_wire_lo i) [(true, false); (false, true); (true, true)] ->
  find_cuts_full fuel i = Val r -> md_minimum_reached (fr_meta r) = true ->
  forall A k, assignment_cost (nq_of i) (fi_W i) (fi_gate_lo i) (fi_wire_lo i) (sgates_of (fa_gates (fa_of i))) A = Some k ->
  (md_overhead (fr_meta r) <= k * k)%Q.
Proof. exact flag_sound_bounded3. Qed.

(* ---- (4) the unrestricted search ---- *)
(* no backjump limit and max_gamma at least the optimum of the search space: the flag is set *)
Theorem c08_unrestricted_guarded : forall fuel i r, gammas_ok_in i -> find_cuts_full fuel i = Val r ->
  fi_max_backjumps i = None ->
  (exists g, reach (fa_of i) (start_of i) g /\ goal (fa_of i) g /\ (cost g <= fi_max_gamma i)%Q) ->
  md_minimum_reached (fr_meta r) = true.
Proof. exact unrestricted_sets_flag. Qed.

(* ... and the returned overhead does not depend on the random tape (the seed) *)
Theorem c08_seed_independent_guarded : forall fuel1 fuel2 i t1 t2 r1 r2, gammas_ok_in i ->
  fi_max_backjumps i = None ->
  (exists g, reach (fa_of i) (start_of i) g /\ goal (fa_of i) g /\ (cost g <= fi_max_gamma i)%Q) ->
  find_cuts_full fuel1 (with_tape i t1) = Val r1 -> find_cuts_full fuel2 (with_tape i t2) = Val r2 ->
  (md_overhead (fr_meta r1) == md_overhead (fr_meta r2))%Q.
Proof. exact seed_independent. Qed.

(* the returned overhead is attained: it is that of the greedy incumbent or of a goal of the search space, and it is
   never worse than the incumbent's (so under c08_unrestricted_guarded it is the minimum of both) *)
Theorem c08_result_attained : forall fuel i r, gammas_ok_in i -> find_cuts_full fuel i = Val r ->
  (greedy_of (fa_of i) (nq_of i) = Some (fr_best r) \/
   (reach (fa_of i) (start_of i) (fr_best r) /\ goal (fa_of i) (fr_best r))) /\
  (forall g, greedy_of (fa_of i) (nq_of i) = Some g -> (md_overhead (fr_meta r) <= cost g * cost g)%Q) /\
  (md_overhead (fr_meta r) == cost (fr_best r) * cost (fr_best r))%Q.
Proof. exact result_attained. Qed.

(* (4) in terms of the SPECIFICATION, under the hypothesis c08_pruning_sound for the request ... *)
Theorem c08_unrestricted_modulo_pruning : forall fuel i r, gammas_ok_in i ->
  pruning_sound_for (fa_gates (fa_of i)) (fi_gate_lo i) (fi_wire_lo i) (fi_W i) (fi_max_gamma i) (nq_of i) ->
  find_cuts_full fuel i = Val r -> fi_max_backjumps i = None -> spec_within i ->
  md_minimum_reached (fr_meta r) = true.
Proof. exact unrestricted_spec. Qed.

Theorem c08_seed_independent_modulo_pruning : forall fuel1 fuel2 i t1 t2 r1 r2, gammas_ok_in i ->
  pruning_sound_for (fa_gates (fa_of i)) (fi_gate_lo i) (fi_wire_lo i) (fi_W i) (fi_max_gamma i) (nq_of i) ->
  fi_max_backjumps i = None -> spec_within i ->
  find_cuts_full fuel1 (with_tape i t1) = Val r1 -> find_cuts_full fuel2 (with_tape i t2) = Val r2 ->
  (md_overhead (fr_meta r1) == md_overhead (fr_meta r2))%Q.
Proof. exact seed_independent_spec. Qed.

(* ... and without that hypothesis, unbounded *)
Theorem c08_unrestricted : forall fuel i r, gtab_ge1 (fi_gtab i) = true -> circ_nodup (fi_circ i) ->
  find_cuts_full fuel i = Val r -> fi_max_backjumps i = None -> spec_within i ->
  md_minimum_reached (fr_meta r) = true.
Proof. exact unrestricted_table. Qed.

Theorem c08_seed_independent : forall fuel1 fuel2 i t1 t2 r1 r2, gtab_ge1 (fi_gtab i) = true -> circ_nodup (fi_circ i) ->
  fi_max_backjumps i = None -> spec_within i ->
  find_cuts_full fuel1 (with_tape i t1) = Val r1 -> find_cuts_full fuel2 (with_tape i t2) = Val r2 ->
  (md_overhead (fr_meta r1) == md_overhead (fr_meta r2))%Q.
Proof. exact seed_independent_table. Qed.

(* TOTAL form of the unrestricted clause ("ALWAYS reports the minimum as reached"): inside the domain (multi-qubit gates are
   two-qubit gates on distinct qubits known to the gate table, no classical bits, valid settings, width limit >= 1, at least one
   cut kind) an unrestricted request for which some assignment of the specification lies within max_gamma RETURNS A VALUE, and the
   flag is set.  (Not Crash / NoFuel: C07 never-crashes, enough fuel; not ValueError: a dead-ended greedy pass with known gammas
   means no gate cuts and W = 1, where the specification admits no assignment.) *)
Theorem c08_unrestricted_total : forall fuel i, gtab_ge1 (fi_gtab i) = true -> circ_wf (fi_circ i) ->
  (forall x, In x (fi_circ i) -> is_multi x = true -> kappa_of (fi_gtab i) x <> None) ->
  fi_ncl i = 0 -> 1 <= fi_W i -> settings_ok i = true -> (fi_gate_lo i = true \/ fi_wire_lo i = true) ->
  fi_max_backjumps i = None -> spec_within i -> tree_size 5 (length (fa_gates (fa_of i))) + 3 <= fuel ->
  exists r, find_cuts_full fuel i = Val r /\ md_minimum_reached (fr_meta r) = true.
Proof. exact unrestricted_total. Qed.

(* ... and on the finite domain by enumeration *)
Theorem c08_unrestricted_bounded : forall fuel i r lab c used, In (c, used) (circuits_upto 4 [3%Q; 7%Q] 3) ->
  fa_gates (fa_of i) = gates_from lab 0 c -> used <= nq_of i <= 4 -> 1 <= fi_W i <= 4 ->
  In (fi_gate_lo i, fi_wire_lo i) [(true, false); (false, true); (true, true)] ->
  find_cuts_full fuel i = Val r -> fi_max_backjumps i = None -> spec_within i ->
  md_minimum_reached (fr_meta r) = true.
Proof. exact unrestricted_bounded3. Qed.

Theorem c08_seed_independent_bounded : forall fuel1 fuel2 i t1 t2 r1 r2 lab c used,
  In (c, used) (circuits_upto 4 [3%Q; 7%Q] 3) ->
  fa_gates (fa_of i) = gates_from lab 0 c -> used <= nq_of i <= 4 -> 1 <= fi_W i <= 4 ->
  In (fi_gate_lo i, fi_wire_lo i) [(true, false); (false, true); (true, true)] ->
  fi_max_backjumps i = None -> spec_within i ->
  find_cuts_full fuel1 (with_tape i t1) = Val r1 -> find_cuts_full fuel2 (with_tape i t2) = Val r2 ->
  (md_overhead (fr_meta r1) == md_overhead (fr_meta r2))%Q.
Proof. exact seed_independent_bounded3. Qed.

(* termination: with fuel above the size of the complete 5-ary tree of depth #gates the model never runs out of fuel *)
Theorem c08_enough_fuel : forall fuel i, tree_size 5 (length (fa_gates (fa_of i))) + 3 <= fuel ->
  find_cuts_full fuel i <> NoFuel.
Proof. exact enough_fuel. Qed.

(* ---- non-vacuity: the F3 witness  cx(0,1); swap(1,2),  W = 2, gate cuts only ---- *)
Definition f3_input (max_gamma : Q) (tape : nat -> Q) : fc_input :=
  mkIn 3 0 [mkI (Gate 0) [0; 1] []; mkI (Gate 1) [1; 2] []]
       [(0, (3%Q, Qpd2 0 None (Some (0, None)))); (1, (7%Q, Qpd2 1 None (Some (1, None))))]
       2 true false max_gamma (Some 10000%Z) tape.

Definition overhead_and_flag (o : out fc_result) : option (Q * bool) :=
  match o with Val r => Some (md_overhead (fr_meta r), md_minimum_reached (fr_meta r)) | _ => None end.

(* max_gamma = 2 is below the optimum 3: the (repaired) model returns the greedy 49 and does NOT claim a minimum *)
Example c08_ex_f3_below : overhead_and_flag (find_cuts_full 40 (f3_input 2 (fun _ => 0%Q))) = Some (49%Q, false).
Proof. vm_compute. reflexivity. Qed.

Example c08_ex_f3_at : overhead_and_flag (find_cuts_full 40 (f3_input 3 (fun _ => 0%Q))) = Some (9%Q, true).
Proof. vm_compute. reflexivity. Qed.

(* the hypotheses of the theorems hold on the witness: gammas >= 1, the request is in the finite domain,
   and cutting cx is a feasible assignment of cost 3 *)
Example c08_ex_gammas : gammas_ok_in (f3_input 3 (fun _ => 0%Q)).
Proof.
  intros g Ig q Eq. vm_compute in Ig. destruct Ig as [<-|[<-|[]]]; cbn in Eq; injection Eq as <-; discriminate.
Qed.

Example c08_ex_domain : In ([(0, 1, 3%Q); (1, 2, 7%Q)], 3) (circuits_upto 4 [3%Q; 7%Q] 3) /\
  fa_gates (fa_of (f3_input 3 (fun _ => 0%Q))) = gates_from (fun k => (k, 2 + k)) 0 [(0, 1, 3%Q); (1, 2, 7%Q)].
Proof.
  split; [|reflexivity]. apply in_flat_map. exists 2. split; [cbv; tauto|]. vm_compute. tauto.
Qed.

Example c08_ex_spec :
  assignment_cost 3 2 true false [(0, 1, Some 3%Q); (1, 2, Some 7%Q)] [CutGate; Leave] = Some (1 * 3 * 1)%Q /\
  assignment_cost 3 2 true false [(0, 1, Some 3%Q); (1, 2, Some 7%Q)] [Leave; Leave] = None /\
  assignment_cost 3 2 true false [(0, 1, Some 3%Q); (1, 2, Some 7%Q)] [CutLeft; Leave] = None /\
  assignment_cost 3 2 true true [(0, 1, Some 3%Q); (1, 2, Some 7%Q)] [Leave; CutLeft] = Some (1 * 1 * 4)%Q.
Proof. repeat split; reflexivity. Qed.

Example c08_ex_unrestricted_hyp :
  exists g, reach (fa_of (f3_input 3 (fun _ => 0%Q))) (start_of (f3_input 3 (fun _ => 0%Q))) g /\
            goal (fa_of (f3_input 3 (fun _ => 0%Q))) g /\ (cost g <= 3)%Q.
Proof.
  pose (l := all_goals 2 (fa_of (f3_input 3 (fun _ => 0%Q))) (start_of (f3_input 3 (fun _ => 0%Q)))).
  assert (E : existsb (fun g => Qleb (cost g) 3) l = true) by (vm_compute; reflexivity).
  apply existsb_exists in E. destruct E as (g&Ig&Lg). exists g. destruct (all_goals_sound _ _ _ _ Ig) as (R&Gg).
  split; [exact R|split; [exact Gg|now apply Qleb_true]].
Qed.

(* the witness circuit is well-formed, so the unbounded theorems apply to it *)
Example c08_ex_circ_wf : circ_wf (fi_circ (f3_input 3 (fun _ => 0%Q))).
Proof.
  intros x [<-|[<-|[]]] _; (split; [reflexivity|]); repeat constructor; cbn; intuition discriminate.
Qed.

(* the driver invariant holds when CutOptimization has been initialised (so c08_driver_invariant applies to every run) *)
Example c08_ex_driver : exists co,
  cutopt_init (fun _ => 0%Q) (fa_of (f3_input 3 (fun _ => 0%Q))) 3 (nq_of (f3_input 3 (fun _ => 0%Q))) = Val co /\
  DInv (fa_of (f3_input 3 (fun _ => 0%Q))) (start_of (f3_input 3 (fun _ => 0%Q))) co [].
Proof.
  destruct (cutopt_init (fun _ => 0%Q) (fa_of (f3_input 3 (fun _ => 0%Q))) 3 (nq_of (f3_input 3 (fun _ => 0%Q)))) as [co| | |] eqn:E;
    try (vm_compute in E; discriminate).
  exists co. split; [reflexivity|]. exact (proj1 (cutopt_init_inv _ _ _ _ _ c08_ex_gammas E)).
Qed.

Example c08_ex_circ_nodup : circ_nodup (fi_circ (f3_input 3 (fun _ => 0%Q))).
Proof. exact (circ_wf_nodup _ c08_ex_circ_wf). Qed.

Example c08_ex_gtab : gtab_ge1 (fi_gtab (f3_input 3 (fun _ => 0%Q))) = true.
Proof. reflexivity. Qed.

(* the refusal theorem is not vacuous: cx(0,1); ccx(0,1,2) satisfies its hypotheses, and the model raises ValueError *)
Definition wide_input : fc_input :=
  mkIn 3 0 [mkI (Gate 0) [0; 1] []; mkI (Gate 2) [0; 1; 2] []]
       [(0, (3%Q, Qpd2 0 None (Some (0, None))))] 2 true true 1024 None (fun _ => 0%Q).

Example c08_ex_wide : gtab_ge1 (fi_gtab wide_input) = true /\
  (exists x, In x (fi_circ wide_input) /\ is_multi x = true /\ length (iqs x) <> 2) /\
  find_cuts_full 40 wide_input = Ref.
Proof.
  split; [reflexivity|]. split; [|vm_compute; reflexivity].
  exists (mkI (Gate 2) [0; 1; 2] []). split; [right; left; reflexivity|]. split; [reflexivity|discriminate].
Qed.

(* ---- a non-trivial instance that inhabits the real hypotheses of the request-level theorems: 5 qubits,
   swap(0,1) swap(1,2) cx(2,3) swap(3,4) swap(1,3), W = 3, gate and wire cuts, NO backjump limit, two different tapes ---- *)
Definition five_input (W : nat) (gl wl : bool) (mg : Q) (mb : option Z) (tape : nat -> Q) : fc_input :=
  mkIn 5 0 [mkI (Gate 1) [0; 1] []; mkI (Gate 1) [1; 2] []; mkI (Gate 0) [2; 3] []; mkI (Gate 1) [3; 4] []; mkI (Gate 1) [1; 3] []]
       [(0, (3%Q, Qpd2 0 None (Some (0, None)))); (1, (7%Q, Qpd2 1 None (Some (1, None))))] W gl wl mg mb tape.
Definition tapeA (k : nat) : Q := (Z.of_nat ((k * 7 + 3) mod 11) # 11).
Definition tapeB (k : nat) : Q := (Z.of_nat ((k * 5 + 1) mod 13) # 13).
Definition five : fc_input := five_input 3 true true 1024 None tapeA.

(* the optimum 12 = 3 (gate cut of cx) * 4 (one wire cut) is found and reported under both tapes; with max_gamma = 5 below the
   optimum, or with a backjump limit of 1, the flag is NOT set (the greedy incumbent, which happens to be optimal, is returned unconfirmed) *)
Example c08_ex_five_runs :
  overhead_and_flag (find_cuts_full 4000 five) = Some (144%Q, true) /\
  overhead_and_flag (find_cuts_full 4000 (with_tape five tapeB)) = Some (144%Q, true) /\
  overhead_and_flag (find_cuts_full 4000 (five_input 3 true true 5 None tapeA)) = Some (144%Q, false) /\
  overhead_and_flag (find_cuts_full 4000 (five_input 3 true true 1024 (Some 1%Z) tapeA)) = Some (144%Q, false).
Proof. repeat split; vm_compute; reflexivity. Qed.

Example c08_ex_five_circ_wf : circ_wf (fi_circ five).
Proof.
  intros x H _. cbn in H. repeat (destruct H as [<-|H]; [split; [reflexivity|repeat constructor; cbn; intuition discriminate]|]).
  destruct H.
Qed.

Example c08_ex_five_hyps :
  gtab_ge1 (fi_gtab five) = true /\ circ_nodup (fi_circ five) /\ fi_max_backjumps five = None /\ fi_wire_lo five = true /\
  spec_within five /\
  (forall x, In x (fi_circ five) -> is_multi x = true -> kappa_of (fi_gtab five) x <> None) /\
  fi_ncl five = 0 /\ 1 <= fi_W five /\ settings_ok five = true /\ tree_size 5 (length (fa_gates (fa_of five))) + 3 <= 4000.
Proof.
  split; [reflexivity|]. split; [exact (circ_wf_nodup _ c08_ex_five_circ_wf)|]. split; [reflexivity|]. split; [reflexivity|].
  split; [exists [Leave; Leave; CutGate; Leave; CutLeft], (1 * 1 * 1 * 3 * 1 * 4)%Q; split; [reflexivity|discriminate]|].
  split.
  - intros x H _. cbn in H. repeat (destruct H as [<-|H]; [vm_compute; discriminate|]). destruct H.
  - split; [reflexivity|]. split; [cbn; lia|]. split; [reflexivity|]. vm_compute. lia.
Qed.

Example c08_ex_spec_within : spec_within (f3_input 3 (fun _ => 0%Q)).
Proof. exists [CutGate; Leave], (1 * 3 * 1)%Q. split; [reflexivity|discriminate]. Qed.

(* ---- facts obligation: the wire-cut factors of the specification are those of the source ---- *)
Theorem c08_facts :
  (kind_factor None CutLeft == inject_Z (Z.of_nat cf_left_wire_mult))%Q /\
  (kind_factor None CutRight == inject_Z (Z.of_nat cf_right_wire_mult))%Q /\
  (kind_factor None CutBoth == inject_Z (Z.of_nat cf_both_wires_mult))%Q /\
  cf_gate_cut_uses_gate_gamma = true /\ cf_upper_bound_cost_is_gamma_ub = true /\
  cf_stop_at_first_min = true /\ cf_overhead_is_square = true /\
  (* BestFirstSearch.put enqueues iff cost <= upperbound ; the flag rule is  upperbound <= popped cost *)
  bf_put_prunes_above_upperbound = true /\ bf_flag_rule = true.
Proof. repeat split; reflexivity. Qed.

(* the REPAIRED shape of the bound branch of optimization_pass (DESIGN F3): the popped state is put back unless the
   flag is set.  On the unrepaired source this fact is `false`, the obligation fails, and the correspondence check
   produces the failing input. *)
Theorem c08_fact_requeue : bf_bound_branch_requeues = true.
Proof. reflexivity. Qed.

Print Assumptions c08_action_factor.
Print Assumptions c08_cost_monotone.
Print Assumptions c08_dijkstra_generic.
Print Assumptions c08_frontier_invariant.
Print Assumptions c08_flag_sound_guarded.
Print Assumptions c08_flag_sound_modulo_pruning.
Print Assumptions c08_pruning_sound.
Print Assumptions c08_pruning_sound_request.
Print Assumptions c08_flag_sound.
Print Assumptions c08_result_two_qubit.
Print Assumptions c08_factor_ge_1.
Print Assumptions c08_result_is_assignment.
Print Assumptions c08_reported_minimum_is_minimum.
Print Assumptions c08_unrestricted_total.
Print Assumptions c08_driver_invariant.
Print Assumptions c08_wide_gate_no_result.
Print Assumptions c08_gammas_from_table.
Print Assumptions c08_unrestricted.
Print Assumptions c08_seed_independent.
Print Assumptions c08_pruning_sound_bounded.
Print Assumptions c08_flag_sound_bounded.
Print Assumptions c08_unrestricted_guarded.
Print Assumptions c08_seed_independent_guarded.
Print Assumptions c08_result_attained.
Print Assumptions c08_unrestricted_modulo_pruning.
Print Assumptions c08_seed_independent_modulo_pruning.
Print Assumptions c08_unrestricted_bounded.
Print Assumptions c08_seed_independent_bounded.
Print Assumptions c08_enough_fuel.
Print Assumptions c08_facts.
Print Assumptions c08_fact_requeue.

(* Common/Herbrand.v — symbolic wire-history semantics (DESIGN 3.1).

   The denotation of a circuit assigns to every qubit position a term describing its entire
   causal past, and to every classical bit the term of the measurement that last wrote it.
   Every application of an ordinary gate carries a unique instance tag, so equal terms mean
   "the same physical history", and shared sub-terms record entanglement.

   Modelling assumption M1 (trusted base): any compositional semantics of circuits
   (density matrices with partial trace for discarded wires) factors through this denotation,
   i.e. two circuits whose observed wires and classical bits have equal terms induce the same
   joint law of classical bits and the same conditional state of the observed wires.

   Initial wires and reset wires are both |0>, unentangled: one constructor [Zero]. *)
From CKT Require Import Common.Base Common.Circ.

Inductive wt :=
| Zero
| App (inst : nat) (g : nat) (k : nat) (args : list wt)   (* k-th output of instance [inst] of gate [g] *)
| PostM (t : wt).                                          (* wire after a projective Z measurement of t *)

Definition ct := option wt.   (* Some t: outcome of measuring t ; None: never written (reads 0) *)

Record hstate := mkH { hw : list wt ; hc : list ct }.

Definition hinit (nq nc : nat) : hstate := mkH (repeat Zero nq) (repeat None nc).

Definition wire (s : hstate) (q : nat) : wt := nth q (hw s) Zero.

Fixpoint set_outputs (inst g : nat) (args : list wt) (qs : list nat) (k : nat) (w : list wt) : list wt :=
  match qs with
  | [] => w
  | q :: r => set_outputs inst g args r (S k) (upd w q (App inst g k args))
  end.

(* One tagged instruction.  Tags are only read for [Gate].
   Barrier, CutWire: identity.  Move a b: b receives a's wire, a becomes |0>
   (Move.definition = reset(1); swap(0,1)).
   QPD placeholders have no channel semantics of their own: treated as opaque gates on their
   qubits tagged by (basis, half) so that structure-preservation statements can mention them. *)
Definition hstep (s : hstate) (ti : nat * instr) : hstate :=
  let '(tag, i) := ti in
  match iop i with
  | Gate g => mkH (set_outputs tag g (map (wire s) (iqs i)) (iqs i) 0 (hw s)) (hc s)
  | Barrier _ => s
  | CutWire => s
  | Measure =>
      match iqs i, ics i with
      | q :: _, c :: _ => mkH (upd (hw s) q (PostM (wire s q))) (upd (hc s) c (Some (wire s q)))
      | _, _ => s
      end
  | Reset => match iqs i with q :: _ => mkH (upd (hw s) q Zero) (hc s) | [] => s end
  | Move =>
      match iqs i with
      | a :: b :: _ => mkH (upd (upd (hw s) b (wire s a)) a Zero) (hc s)
      | _ => s
      end
  | Qpd2 b _ _ => mkH (set_outputs tag (1000 + b) (map (wire s) (iqs i)) (iqs i) 0 (hw s)) (hc s)
  | Qpd1 b h _ _ => mkH (set_outputs tag (2000 + 2 * b + h) (map (wire s) (iqs i)) (iqs i) 0 (hw s)) (hc s)
  | QpdMeasure => match iqs i with q :: _ => mkH (upd (hw s) q (PostM (wire s q))) (hc s) | [] => s end
  end.

Definition hrun (s : hstate) (c : list (nat * instr)) : hstate := fold_left hstep c s.

(* number the instructions that create terms (everything except barriers, markers, resets,
   measurements, moves) in program order *)
Definition creates_term (i : instr) : bool :=
  match iop i with Gate _ | Qpd2 _ _ _ | Qpd1 _ _ _ _ => true | _ => false end.

Fixpoint tag_from (n : nat) (c : circ) : list (nat * instr) :=
  match c with
  | [] => []
  | i :: r => if creates_term i then (n, i) :: tag_from (S n) r else (n, i) :: tag_from n r
  end.

Definition tagc (c : circ) : list (nat * instr) := tag_from 0 c.

Definition denote (nq nc : nat) (c : circ) : hstate := hrun (hinit nq nc) (tagc c).

(* basic facts *)
Lemma hrun_app s c1 c2 : hrun s (c1 ++ c2) = hrun (hrun s c1) c2.
Proof. unfold hrun. apply fold_left_app. Qed.

Lemma set_outputs_length inst g args qs k w : length (set_outputs inst g args qs k w) = length w.
Proof. revert k w; induction qs as [|q r IH]; intros k w; simpl; [reflexivity|]. now rewrite IH, upd_length. Qed.

Lemma hstep_wlen s ti : length (hw (hstep s ti)) = length (hw s).
Proof.
  destruct ti as [tag i]. unfold hstep. destruct (iop i); simpl; try reflexivity;
    try apply set_outputs_length.
  - destruct (iqs i) as [|q ?]; [reflexivity|]. destruct (ics i); simpl; [reflexivity|apply upd_length].
  - destruct (iqs i); simpl; [reflexivity|apply upd_length].
  - destruct (iqs i) as [|a [|b ?]]; simpl; try reflexivity. now rewrite !upd_length.
  - destruct (iqs i); simpl; [reflexivity|apply upd_length].
Qed.

Lemma hstep_clen s ti : length (hc (hstep s ti)) = length (hc s).
Proof.
  destruct ti as [tag i]. unfold hstep. destruct (iop i); simpl; try reflexivity.
  - destruct (iqs i) as [|q ?]; [reflexivity|]. destruct (ics i); simpl; [reflexivity|apply upd_length].
  - destruct (iqs i); reflexivity.
  - destruct (iqs i) as [|a [|b ?]]; reflexivity.
  - destruct (iqs i); reflexivity.
Qed.

Lemma set_outputs_other inst g args qs k w j : ~ In j qs -> nth j (set_outputs inst g args qs k w) Zero = nth j w Zero.
Proof.
  revert k w; induction qs as [|q r IH]; intros k w H; simpl; [reflexivity|].
  rewrite IH by (intros X; apply H; now right). apply nth_upd_other. intros E; apply H; now left.
Qed.

(* an instruction does not change wires it does not act on *)
Lemma hstep_other_wire s ti j : ~ In j (iqs (snd ti)) -> wire (hstep s ti) j = wire s j.
Proof.
  destruct ti as [tag i]; simpl. intros H. unfold hstep, wire.
  destruct (iop i); simpl; try reflexivity; try (now apply set_outputs_other).
  - destruct (iqs i) as [|q r]; [reflexivity|]. destruct (ics i); simpl; [reflexivity|].
    apply nth_upd_other. intros E; apply H; now left.
  - destruct (iqs i) as [|q r]; simpl; [reflexivity|]. apply nth_upd_other. intros E; apply H; now left.
  - destruct (iqs i) as [|a [|b r]]; simpl; try reflexivity.
    rewrite nth_upd_other by (intros E; apply H; now left).
    apply nth_upd_other. intros E; apply H; right; now left.
  - destruct (iqs i) as [|q r]; simpl; [reflexivity|]. apply nth_upd_other. intros E; apply H; now left.
Qed.

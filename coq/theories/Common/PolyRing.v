(* Common/PolyRing.v — computable coefficient rings with decidable normal-form equality and
   their evaluation homomorphisms into Coq's reals.

     Ring A         : a record of operations (no laws; the laws live in the target R)
     QRing          : Q with Qred after every operation
     PolyRing O     : list A = polynomials in one fresh indeterminate (little-endian)
     ExtRing O d    : A*A = a + b·t with t² = d
     Coef A         : a ring + injection of Q + an assignment of named quantities (cvar n)
     K              : Q[c,s,r]/(s² = 1-c², 2r² = 1)   (cvar 0 = c, 1 = s, 2 = r)

   SOUNDNESS (the only place where the real numbers enter): whenever f : A -> R preserves the
   operations and the equality test (HomR), so do `peval f x` on PolyRing and `eeval f t` on
   ExtRing (the latter provided t*t = f d).  Hence for K:
       keq x y = true -> forall θ, evalK θ x = evalK θ y
   where evalK θ sends c ↦ cos θ, s ↦ sin θ, r ↦ /sqrt 2.
   Uses Coq Reals (the standard real-number axioms show up in Print Assumptions). *)
From Coq Require Import List Bool Arith QArith Qreals Reals Lra.
Import ListNotations.
Close Scope Q_scope.

Record Ring (A : Type) : Type := mkRing {
  r0 : A; r1 : A;
  radd : A -> A -> A; rmul : A -> A -> A; ropp : A -> A;
  reqb : A -> A -> bool }.
Arguments mkRing {A}. Arguments r0 {A}. Arguments r1 {A}. Arguments radd {A}.
Arguments rmul {A}. Arguments ropp {A}. Arguments reqb {A}.

Definition rsub {A} (O : Ring A) (a b : A) : A := radd O a (ropp O b).

(* ---------- Q ---------- *)
Definition QRing : Ring Q :=
  mkRing 0%Q 1%Q (fun a b => Qred (a + b)%Q) (fun a b => Qred (a * b)%Q) (fun a => Qred (- a)%Q) Qeq_bool.

(* ---------- the reals (target only; the equality test is never used) ---------- *)
Definition RRing : Ring R := mkRing 0%R 1%R Rplus Rmult Ropp (fun _ _ => false).

(* ---------- structure-preserving maps ---------- *)
Record Hom {A B} (OA : Ring A) (OB : Ring B) (f : A -> B) : Prop := mkHom {
  h0 : f (r0 OA) = r0 OB;
  h1 : f (r1 OA) = r1 OB;
  hadd : forall a b, f (radd OA a b) = radd OB (f a) (f b);
  hmul : forall a b, f (rmul OA a b) = rmul OB (f a) (f b);
  hopp : forall a, f (ropp OA a) = ropp OB (f a) }.

(* into R, additionally sound for the equality test *)
Record HomR {A} (O : Ring A) (f : A -> R) : Prop := mkHomR {
  hr_hom : Hom O RRing f;
  hr_eqb : forall a b, reqb O a b = true -> f a = f b }.

Lemma Q2R_hom : HomR QRing Q2R.
Proof.
  split; [split|]; cbn [QRing RRing r0 r1 radd rmul ropp reqb].
  - unfold Q2R; simpl; lra.
  - unfold Q2R; simpl; lra.
  - intros a b. rewrite (Qeq_eqR _ _ (Qred_correct _)). apply Q2R_plus.
  - intros a b. rewrite (Qeq_eqR _ _ (Qred_correct _)). apply Q2R_mult.
  - intros a. rewrite (Qeq_eqR _ _ (Qred_correct _)). apply Q2R_opp.
  - intros a b H. apply Qeq_eqR. now apply Qeq_bool_iff.
Qed.

(* ---------- polynomials over a ring ---------- *)
Section Poly.
  Context {A : Type} (O : Ring A).

  Fixpoint padd (p q : list A) {struct p} : list A :=
    match p, q with
    | [], _ => q
    | _, [] => p
    | a :: p', b :: q' => radd O a b :: padd p' q'
    end.
  Definition pscale (a : A) (p : list A) : list A := map (rmul O a) p.
  Fixpoint pmul (p q : list A) {struct p} : list A :=
    match p with
    | [] => []
    | a :: p' => padd (pscale a q) (match pmul p' q with [] => [] | r => r0 O :: r end)
    end.
  Definition popp (p : list A) : list A := map (ropp O) p.
  Definition pzerob (p : list A) : bool := forallb (fun a => reqb O a (r0 O)) p.
  Fixpoint peqb (p q : list A) {struct p} : bool :=
    match p, q with
    | [], _ => pzerob q
    | _, [] => pzerob p
    | a :: p', b :: q' => reqb O a b && peqb p' q'
    end.
  Definition PolyRing : Ring (list A) := mkRing [] [r1 O] padd pmul popp peqb.

  Section Eval.
    Variable f : A -> R.
    Hypothesis Hf : HomR O f.
    Variable x : R.
    Fixpoint peval (p : list A) : R :=
      match p with [] => 0%R | a :: p' => (f a + x * peval p')%R end.

    Let f0 : f (r0 O) = 0%R. Proof. apply (h0 _ _ _ (hr_hom _ _ Hf)). Qed.
    Let f1 : f (r1 O) = 1%R. Proof. apply (h1 _ _ _ (hr_hom _ _ Hf)). Qed.
    Let fadd a b : f (radd O a b) = (f a + f b)%R. Proof. apply (hadd _ _ _ (hr_hom _ _ Hf)). Qed.
    Let fmul a b : f (rmul O a b) = (f a * f b)%R. Proof. apply (hmul _ _ _ (hr_hom _ _ Hf)). Qed.
    Let fopp a : f (ropp O a) = (- f a)%R. Proof. apply (hopp _ _ _ (hr_hom _ _ Hf)). Qed.

    Lemma peval_padd p q : peval (padd p q) = (peval p + peval q)%R.
    Proof.
      revert q; induction p as [|a p IH]; intros [|b q]; simpl; try lra.
      rewrite fadd, IH. lra.
    Qed.
    Lemma peval_pscale a p : peval (pscale a p) = (f a * peval p)%R.
    Proof. induction p as [|b p IH]; simpl; [lra|]. rewrite fmul, IH. lra. Qed.
    Lemma peval_pmul p q : peval (pmul p q) = (peval p * peval q)%R.
    Proof.
      induction p as [|a p IH]; simpl; [lra|].
      rewrite peval_padd, peval_pscale.
      replace ((f a + x * peval p) * peval q)%R with (f a * peval q + x * (peval p * peval q))%R by lra.
      rewrite <- IH. destruct (pmul p q) as [|c l]; simpl; [lra|]. rewrite f0. lra.
    Qed.
    Lemma peval_popp p : peval (popp p) = (- peval p)%R.
    Proof. induction p as [|b p IH]; simpl; [lra|]. rewrite fopp, IH. lra. Qed.
    Lemma pzerob_sound p : pzerob p = true -> peval p = 0%R.
    Proof.
      induction p as [|a p IH]; simpl; [reflexivity|]. intros H.
      apply andb_prop in H as [H1 H2]. rewrite (hr_eqb _ _ Hf _ _ H1), f0, (IH H2). lra.
    Qed.
    Lemma peqb_sound p q : peqb p q = true -> peval p = peval q.
    Proof.
      revert q; induction p as [|a p IH]; intros [|b q]; simpl; intros H; try reflexivity.
      - symmetry. apply (pzerob_sound (b :: q)). exact H.
      - apply (pzerob_sound (a :: p)). exact H.
      - apply andb_prop in H as [H1 H2]. rewrite (hr_eqb _ _ Hf _ _ H1), (IH _ H2). reflexivity.
    Qed.
    Lemma peval_hom : HomR PolyRing peval.
    Proof.
      split; [split|]; simpl.
      - reflexivity.
      - rewrite f1. lra.
      - apply peval_padd.
      - apply peval_pmul.
      - apply peval_popp.
      - apply peqb_sound.
    Qed.
  End Eval.
End Poly.

(* ---------- quadratic extension  a + b·t, t² = d ---------- *)
Section Ext.
  Context {A : Type} (O : Ring A) (d : A).
  Definition eadd (x y : A * A) : A * A := (radd O (fst x) (fst y), radd O (snd x) (snd y)).
  Definition emul (x y : A * A) : A * A :=
    (radd O (rmul O (fst x) (fst y)) (rmul O d (rmul O (snd x) (snd y))),
     radd O (rmul O (fst x) (snd y)) (rmul O (snd x) (fst y))).
  Definition eopp (x : A * A) : A * A := (ropp O (fst x), ropp O (snd x)).
  Definition eeqb (x y : A * A) : bool := reqb O (fst x) (fst y) && reqb O (snd x) (snd y).
  Definition ExtRing : Ring (A * A) := mkRing (r0 O, r0 O) (r1 O, r0 O) eadd emul eopp eeqb.

  Section Eval.
    Variable f : A -> R.
    Hypothesis Hf : HomR O f.
    Variable t : R.
    Hypothesis Ht : (t * t)%R = f d.
    Definition eeval (x : A * A) : R := (f (fst x) + f (snd x) * t)%R.
    Lemma eeval_hom : HomR ExtRing eeval.
    Proof.
      destruct Hf as [[f0 f1 fadd fmul fopp] feq]. simpl in *.
      split; [split|]; unfold eeval; simpl.
      - rewrite f0. lra.
      - rewrite f0, f1. lra.
      - intros a b. rewrite !fadd. lra.
      - intros [a1 a2] [b1 b2]; simpl. rewrite !fadd, !fmul, <- Ht. ring.
      - intros a. rewrite !fopp. lra.
      - intros [a1 a2] [b1 b2]; unfold eeqb; simpl. intros H. apply andb_prop in H as [H1 H2].
        rewrite (feq _ _ H1), (feq _ _ H2). reflexivity.
    Qed.
  End Eval.

  (* component-wise image under a structure-preserving map (used for complex entries) *)
End Ext.

Definition emap {A B} (f : A -> B) (x : A * A) : B * B := (f (fst x), f (snd x)).
Lemma emap_hom {A B} (OA : Ring A) (OB : Ring B) (f : A -> B) d :
  Hom OA OB f -> Hom (ExtRing OA d) (ExtRing OB (f d)) (emap f).
Proof.
  intros [f0 f1 fadd fmul fopp]. split; unfold emap; simpl.
  - now rewrite f0.
  - now rewrite f0, f1.
  - intros a b. unfold eadd; simpl. now rewrite !fadd.
  - intros a b. unfold emul; simpl. now rewrite !fadd, !fmul.
  - intros a. unfold eopp; simpl. now rewrite !fopp.
Qed.

(* ---------- coefficient structures: ring + Q + named quantities ---------- *)
Record Coef (A : Type) : Type := mkCoef { cring :> Ring A; cofQ : Q -> A; cvar : nat -> A }.
Arguments mkCoef {A}. Arguments cring {A}. Arguments cofQ {A}. Arguments cvar {A}.

Definition QCoef : Coef Q := mkCoef QRing Qred (fun _ => 0%Q).
Definition RCoef (env : nat -> R) : Coef R := mkCoef RRing Q2R env.
Definition poly_coef {A} (C : Coef A) : Coef (list A) :=
  mkCoef (PolyRing C) (fun q => [cofQ C q]) (fun n => [cvar C n]).
Definition ext_coef {A} (C : Coef A) (d : A) : Coef (A * A) :=
  mkCoef (ExtRing C d) (fun q => (cofQ C q, r0 C)) (fun n => (cvar C n, r0 C)).
Definition with_var {A} (C : Coef A) (n : nat) (v : A) : Coef A :=
  mkCoef (cring C) (cofQ C) (fun m => if Nat.eqb m n then v else cvar C m).
Definition upd_env (env : nat -> R) (n : nat) (y : R) : nat -> R :=
  fun m => if Nat.eqb m n then y else env m.

(* f : A -> R is a coefficient homomorphism onto the real coefficient structure with environment env *)
Record CoefHomR {A} (C : Coef A) (f : A -> R) (env : nat -> R) : Prop := mkCoefHomR {
  ch_hom : HomR C f;
  ch_Q : forall q, f (cofQ C q) = Q2R q;
  ch_var : forall n, f (cvar C n) = env n }.

Lemma QCoef_hom : CoefHomR QCoef Q2R (fun _ => 0%R).
Proof.
  split; simpl.
  - exact Q2R_hom.
  - intros q. apply Qeq_eqR, Qred_correct.
  - intros _. unfold Q2R; simpl; lra.
Qed.

Lemma poly_coef_hom {A} (C : Coef A) f env x :
  CoefHomR C f env -> CoefHomR (poly_coef C) (peval f x) env.
Proof.
  intros [H HQ HV]. split; simpl.
  - apply peval_hom; exact H.
  - intros q. rewrite HQ. lra.
  - intros n. rewrite HV. lra.
Qed.

Lemma ext_coef_hom {A} (C : Coef A) d f env t :
  CoefHomR C f env -> (t * t)%R = f d -> CoefHomR (ext_coef C d) (eeval f t) env.
Proof.
  intros [H HQ HV] Ht. pose proof (h0 _ _ _ (hr_hom _ _ H)) as f0. simpl in f0.
  split; simpl.
  - apply eeval_hom; assumption.
  - intros q. unfold eeval; simpl. rewrite HQ, f0. lra.
  - intros n. unfold eeval; simpl. rewrite HV, f0. lra.
Qed.

Lemma with_var_hom {A} (C : Coef A) f env n v y :
  CoefHomR C f env -> f v = y -> CoefHomR (with_var C n v) f (upd_env env n y).
Proof.
  intros [H HQ HV] Hv. split; simpl; auto.
  intros m. unfold upd_env. destruct (Nat.eqb m n); auto.
Qed.

(* ---------- coefficient expressions (data shared by C02 and C15) ---------- *)
Inductive cexpr : Type :=
| CQ (q : Q) | CV (n : nat) | CAdd (a b : cexpr) | CMul (a b : cexpr) | COpp (a : cexpr).

Fixpoint ceval {A} (C : Coef A) (e : cexpr) : A :=
  match e with
  | CQ q => cofQ C q
  | CV n => cvar C n
  | CAdd a b => radd C (ceval C a) (ceval C b)
  | CMul a b => rmul C (ceval C a) (ceval C b)
  | COpp a => ropp C (ceval C a)
  end.

Lemma ceval_hom {A} (C : Coef A) f env (H : CoefHomR C f env) e :
  f (ceval C e) = ceval (RCoef env) e.
Proof.
  destruct H as [[[f0 f1 fadd fmul fopp] _] HQ HV].
  induction e as [q|n|a IHa b IHb|a IHa b IHb|a IHa]; simpl.
  - apply HQ.
  - apply HV.
  - now rewrite fadd, IHa, IHb.
  - now rewrite fmul, IHa, IHb.
  - now rewrite fopp, IHa.
Qed.

(* ---------- K = Q[c,s,r]/(s² = 1-c², 2r² = 1) ---------- *)
Definition vC := 0%nat. Definition vS := 1%nat. Definition vR := 2%nat.

Definition P1 : Coef (list Q) := with_var (poly_coef QCoef) vC [0%Q; 1%Q].
Definition d_s : list Q := [1%Q; 0%Q; (-1)%Q].                       (* 1 - c² *)
Definition E1 : Coef (list Q * list Q) := with_var (ext_coef P1 d_s) vS ([], [1%Q]).
Definition d_r : list Q * list Q := ([(1#2)%Q], []).                  (* 1/2 *)
Definition KT : Type := (list Q * list Q) * (list Q * list Q).
Definition K : Coef KT := with_var (ext_coef E1 d_r) vR (([], []), ([1%Q], [])).
Definition keq : KT -> KT -> bool := reqb K.

Definition evalK (th : R) : KT -> R :=
  eeval (eeval (peval Q2R (cos th)) (sin th)) (/ sqrt 2).
Definition envK (th : R) : nat -> R :=
  upd_env (upd_env (upd_env (fun _ => 0%R) vC (cos th)) vS (sin th)) vR (/ sqrt 2).

Lemma Q2R_consts : Q2R 0 = 0%R /\ Q2R 1 = 1%R /\ Q2R (-1) = (-1)%R /\ Q2R (1#2) = (/2)%R.
Proof. unfold Q2R; simpl; repeat split; lra. Qed.

Lemma inv_sqrt2_sq : (/ sqrt 2 * / sqrt 2)%R = (/ 2)%R.
Proof.
  rewrite <- Rinv_mult. rewrite sqrt_def by lra. reflexivity.
Qed.

Lemma evalK_hom th : CoefHomR K (evalK th) (envK th).
Proof.
  destruct Q2R_consts as (q0 & q1 & qm1 & qh).
  unfold K, evalK, envK.
  apply with_var_hom.
  - apply ext_coef_hom.
    + unfold E1. apply with_var_hom.
      * apply ext_coef_hom.
        -- unfold P1. apply with_var_hom.
           ++ apply poly_coef_hom. exact QCoef_hom.
           ++ simpl. rewrite q0, q1. lra.
        -- simpl. rewrite q0, q1, qm1. pose proof (sin2_cos2 th) as H. unfold Rsqr in H. lra.
      * unfold eeval; simpl. rewrite q1. lra.
    + unfold eeval; simpl. rewrite qh, inv_sqrt2_sq. lra.
  - unfold eeval; simpl. rewrite q1. lra.
Qed.

(* the reflection principle: a boolean computed by vm_compute proves an identity for all real angles *)
Theorem keq_sound : forall x y, keq x y = true -> forall th, evalK th x = evalK th y.
Proof. intros x y H th. exact (hr_eqb _ _ (ch_hom _ _ _ (evalK_hom th)) x y H). Qed.

Lemma envK_C th : envK th vC = cos th. Proof. reflexivity. Qed.
Lemma envK_S th : envK th vS = sin th. Proof. reflexivity. Qed.
Lemma envK_R th : envK th vR = (/ sqrt 2)%R. Proof. reflexivity. Qed.

(* Common/Circ.v — the circuit representation shared by all list-surgery models.
   A circuit is its instruction list; qubits/clbits are indices into circuit.qubits / .clbits. *)
From CKT Require Import Common.Base.

(* operations that may occur inside a QPD basis map *)
Inductive bop :=
| BGate (g : nat)      (* ordinary one-qubit gate, interned (name, params) *)
| BMeas                (* QPDMeasure marker *)
| BReset.

Definition bop_beq (a b : bop) : bool :=
  match a, b with
  | BGate g, BGate h => Nat.eqb g h
  | BMeas, BMeas => true
  | BReset, BReset => true
  | _, _ => false
  end.

(* a QPD basis: maps = list of (ops for half 0, ops for half 1); coefficients are kept
   separately where needed (Model/Weights, Model/Experiments) *)
Definition basis := list (list bop * list bop).
Definition benv := list basis.        (* handle -> basis; equal handles <=> QPDBasis.__eq__ *)

(* QPD gate label: None, or Some (base, suffix) where suffix = Some k iff the text after the
   last "_" parses as the integer k (int(label.split("_")[-1])) *)
Definition qlabel := option (nat * option nat).

Definition qlabel_beq (a b : qlabel) : bool :=
  option_beq (pair_beq Nat.eqb (option_beq Nat.eqb)) a b.

Inductive op :=
| Gate (g : nat)                                   (* opaque ordinary gate, interned (name, params) *)
| Barrier (lbl : option nat)                       (* label None / Some k  ("_uuid=<k>") *)
| Measure
| Reset
| CutWire
| Move
| Qpd2 (b : nat) (bid : option nat) (lbl : qlabel)               (* TwoQubitQPDGate *)
| Qpd1 (b : nat) (half : nat) (bid : option nat) (lbl : qlabel)  (* SingleQubitQPDGate *)
| QpdMeasure.

Definition op_beq (a b : op) : bool :=
  match a, b with
  | Gate g, Gate h => Nat.eqb g h
  | Barrier l, Barrier m => option_beq Nat.eqb l m
  | Measure, Measure => true
  | Reset, Reset => true
  | CutWire, CutWire => true
  | Move, Move => true
  | Qpd2 b i l, Qpd2 b' i' l' => Nat.eqb b b' && option_beq Nat.eqb i i' && qlabel_beq l l'
  | Qpd1 b h i l, Qpd1 b' h' i' l' => Nat.eqb b b' && Nat.eqb h h' && option_beq Nat.eqb i i' && qlabel_beq l l'
  | QpdMeasure, QpdMeasure => true
  | _, _ => false
  end.

Record instr := mkI { iop : op ; iqs : list nat ; ics : list nat }.
Definition circ := list instr.

Definition instr_beq (a b : instr) : bool :=
  op_beq (iop a) (iop b) && list_beq Nat.eqb (iqs a) (iqs b) && list_beq Nat.eqb (ics a) (ics b).
Definition circ_beq := list_beq instr_beq.

Definition is_reset (i : instr) : bool := match iop i with Reset => true | _ => false end.
Definition is_qpd (i : instr) : bool :=
  match iop i with Qpd1 _ _ _ _ | Qpd2 _ _ _ => true | _ => false end.
Definition is_barrier (i : instr) : bool := match iop i with Barrier _ => true | _ => false end.

Definition of_bop (o : bop) : op :=
  match o with BGate g => Gate g | BMeas => QpdMeasure | BReset => Reset end.

(* list surgery with Python semantics *)
Fixpoint insert_at {A} (l : list A) (i : nat) (x : A) : list A :=      (* list.insert(i, x) *)
  match i, l with
  | O, _ => x :: l
  | S j, [] => [x]
  | S j, y :: r => y :: insert_at r j x
  end.

Fixpoint delete_at {A} (l : list A) (i : nat) : list A :=              (* del l[i], i < len l *)
  match i, l with
  | _, [] => []
  | O, _ :: r => r
  | S j, y :: r => y :: delete_at r j
  end.

(* Common/UF.v — functional union-find with the repository's orientation
   (disjoint_subcircuits_state.py: find_wire_root, merge_roots).

   uptree : list nat, uptree[w] = parent of w; a root points to itself.
   merge_roots always executes  uptree[max r1 r2] := min r1 r2,  so parents are never larger than
   their children and [find] is structural recursion on fuel = the index itself.

   Path compression (the second loop of find_wire_root) is NOT part of the model state:
   [compress] below is the compression step, and Proofs/UFP.v-style lemma
   [find_compress] (in Proofs/CutFinderP.v) shows that it never changes the result of any
   later [find]; every observable of the cut finder goes through [find]. *)
From CKT Require Import Common.Base.

Definition uf := list nat.

Definition uf_init (n : nat) : uf := seq 0 n.

Definition parent (u : uf) (w : nat) : nat := nth w u w.

Fixpoint find_fuel (u : uf) (fuel w : nat) : nat :=
  match fuel with
  | O => w
  | S f => let p := parent u w in if Nat.eqb p w then w else find_fuel u f p
  end.

(* root of w: the while loop `while root != uptree[root]: root = uptree[root]` *)
Definition find (u : uf) (w : nat) : nat := find_fuel u w w.

Definition is_root (u : uf) (w : nat) : bool := Nat.eqb (parent u w) w.

(* uptree[other] := merged  where merged = min, other = max *)
Definition union_roots (u : uf) (r1 r2 : nat) : uf := upd u (Nat.max r1 r2) (Nat.min r1 r2).

(* the path-collapsing loop of find_wire_root: every node on the path from w points to root *)
Fixpoint compress_fuel (u : uf) (fuel w root : nat) : uf :=
  match fuel with
  | O => u
  | S f => if Nat.eqb w root then u
           else let p := parent u w in compress_fuel (upd u w root) f p root
  end.

Definition compress (u : uf) (w : nat) : uf := compress_fuel u (S w) w (find u w).

(* well-formedness: parents are not larger than the node *)
Definition uf_wf (u : uf) : Prop := forall w, w < length u -> nth w u w <= w.

(* number of w < n whose root is r *)
Fixpoint class_count (u : uf) (r n : nat) : nat :=
  match n with
  | O => 0
  | S m => (if Nat.eqb (find u m) r then 1 else 0) + class_count u r m
  end.

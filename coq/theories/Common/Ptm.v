(* Common/Ptm.v — exact channel algebra on Pauli-transfer matrices (PTMs).

   Matrices are lists of rows over a `Ring`/`Coef` of Common/PolyRing.v, so the same generic
   definitions are instantiated (i) at the computable ring K (reflection by vm_compute) and
   (ii) at Coq's reals (the statements of Properties/C02.v).  `Hom` lemmas show that a
   coefficient homomorphism commutes with every matrix construction used here.

   Conventions (validated numerically against Qiskit by harness/c02.py on every run):
   * Pauli basis order (I,X,Y,Z);  R[a,b] = tr(P_a E(P_b)) / 2^n.
   * two qubits, little-endian: basis index = 4*a_q1 + a_q0, P = kron(sigma_q1, sigma_q0);
     4x4 unitaries are indexed by 2*bit_q1 + bit_q0 (Qiskit's `to_matrix`).
   * an operation is given by a signed Kraus list  E(rho) = sum_k w_k K_k rho K_k^dagger :
       unitary gate U   : [(1, U)]
       QPDMeasure       : [(1, P0); (-1, P1)]      (the (-1)^outcome sign)
       Reset            : [(1, P0); (1, X P1)] = [(1, |0><0|); (1, |0><1|)]
     and the PTM is computed from it:  R[a,b] = re tr( E^dagger(P_a) P_b ) / 2^n,
     E^dagger(X) = sum_k w_k K_k^dagger X K_k.
   * a sequence [o1; o2; ...] is in circuit order; its PTM is ... M_o2 M_o1. *)
From Coq Require Import List Bool Arith QArith Reals.
From CKT Require Import Common.Base Common.PolyRing.
Import ListNotations.
Close Scope Q_scope.

Definition mmap {A B} (f : A -> B) (M : list (list A)) : list (list B) := map (map f) M.

(* ---------- matrices over a ring ---------- *)
Section Mat.
  Context {A : Type} (O : Ring A).
  Fixpoint vmat (row : list A) (N : list (list A)) {struct row} : list A :=
    match row, N with
    | a :: row', n :: N' => padd O (pscale O a n) (vmat row' N')
    | _, _ => []
    end.
  Definition mmul (M N : list (list A)) : list (list A) := map (fun row => vmat row N) M.
  Fixpoint madd (M N : list (list A)) {struct M} : list (list A) :=
    match M, N with
    | [], _ => N
    | _, [] => M
    | m :: M', n :: N' => padd O m n :: madd M' N'
    end.
  Definition mscale (a : A) (M : list (list A)) : list (list A) := map (pscale O a) M.
  Definition msum (l : list (list (list A))) : list (list A) := fold_right madd [] l.
  Definition kron (M N : list (list A)) : list (list A) :=
    flat_map (fun mrow => map (fun nrow => flat_map (fun a => pscale O a nrow) mrow) N) M.
  Definition ident (n : nat) : list (list A) :=
    map (fun i => map (fun j => if Nat.eqb i j then r1 O else r0 O) (seq 0 n)) (seq 0 n).
  Definition meqb (M N : list (list A)) : bool := list_beq (list_beq (reqb O)) M N.
End Mat.

Section MatHom.
  Context {A B : Type} (OA : Ring A) (OB : Ring B) (f : A -> B).
  Hypothesis H : Hom OA OB f.
  Lemma map_padd u v : map f (padd OA u v) = padd OB (map f u) (map f v).
  Proof.
    revert v; induction u as [|a u IH]; intros [|b v]; simpl; try reflexivity.
    now rewrite (hadd _ _ _ H), IH.
  Qed.
  Lemma map_pscale a v : map f (pscale OA a v) = pscale OB (f a) (map f v).
  Proof. unfold pscale. rewrite !map_map. apply map_ext. intros x. apply (hmul _ _ _ H). Qed.
  Lemma map_vmat row N : map f (vmat OA row N) = vmat OB (map f row) (mmap f N).
  Proof.
    revert N; induction row as [|a row IH]; intros [|n N]; simpl; try reflexivity.
    now rewrite map_padd, map_pscale, IH.
  Qed.
  Lemma mmap_mmul M N : mmap f (mmul OA M N) = mmul OB (mmap f M) (mmap f N).
  Proof.
    unfold mmul, mmap. rewrite !map_map. apply map_ext. intros row. apply map_vmat.
  Qed.
  Lemma mmap_madd M N : mmap f (madd OA M N) = madd OB (mmap f M) (mmap f N).
  Proof.
    revert N; induction M as [|m M IH]; intros [|n N]; simpl; try reflexivity.
    now rewrite map_padd, IH.
  Qed.
  Lemma mmap_mscale a M : mmap f (mscale OA a M) = mscale OB (f a) (mmap f M).
  Proof. unfold mscale, mmap. rewrite !map_map. apply map_ext. intros r. apply map_pscale. Qed.
  Lemma mmap_msum l : mmap f (msum OA l) = msum OB (map (mmap f) l).
  Proof. induction l as [|M l IH]; simpl; [reflexivity|]. now rewrite mmap_madd, IH. Qed.
  Lemma map_flat_pscale mrow nrow :
    map f (flat_map (fun a => pscale OA a nrow) mrow)
    = flat_map (fun a => pscale OB a (map f nrow)) (map f mrow).
  Proof. induction mrow as [|a mrow IH]; simpl; [reflexivity|]. now rewrite map_app, map_pscale, IH. Qed.
  Lemma mmap_kron M N : mmap f (kron OA M N) = kron OB (mmap f M) (mmap f N).
  Proof.
    unfold kron, mmap. induction M as [|mrow M IH]; simpl; [reflexivity|].
    rewrite map_app, IH. f_equal. rewrite !map_map. apply map_ext. intros nrow. apply map_flat_pscale.
  Qed.
  Lemma mmap_ident n : mmap f (ident OA n) = ident OB n.
  Proof.
    unfold ident, mmap. rewrite map_map. apply map_ext. intros i. rewrite map_map. apply map_ext.
    intros j. destruct (Nat.eqb i j); [apply (h1 _ _ _ H)|apply (h0 _ _ _ H)].
  Qed.
End MatHom.

(* equality test soundness: equal under meqb -> equal images under any HomR *)
Lemma meqb_sound {A} (O : Ring A) (f : A -> R) (Hf : HomR O f) M N :
  meqb O M N = true -> mmap f M = mmap f N.
Proof.
  unfold meqb, mmap. revert N; induction M as [|m M IH]; intros [|n N]; simpl; try discriminate; auto.
  intros E. apply andb_prop in E as [E1 E2]. f_equal; [|now apply IH].
  clear IH E2. revert n E1; induction m as [|a m IHm]; intros [|b n]; simpl; try discriminate; auto.
  intros E. apply andb_prop in E as [E1 E2]. f_equal; [apply (hr_eqb _ _ Hf _ _ E1)|now apply IHm].
Qed.

(* ---------- complex numbers over a ring: a + b·i ---------- *)
Definition CxRing {A} (O : Ring A) : Ring (A * A) := ExtRing O (ropp O (r1 O)).
Lemma cx_hom {A B} (OA : Ring A) (OB : Ring B) f : Hom OA OB f -> Hom (CxRing OA) (CxRing OB) (emap f).
Proof.
  intros H. unfold CxRing. rewrite <- (h1 _ _ _ H), <- (hopp _ _ _ H). now apply emap_hom.
Qed.

Section PtmGen.
  Context {A : Type} (C : Coef A).
  Definition c0 : A * A := (r0 C, r0 C).
  Definition c1 : A * A := (r1 C, r0 C).
  Definition cm1 : A * A := (ropp C (r1 C), r0 C).
  Definition ci : A * A := (r0 C, r1 C).
  Definition cmi : A * A := (r0 C, ropp C (r1 C)).
  Definition cconj (z : A * A) : A * A := (fst z, ropp C (snd z)).
  Definition dagger (n : nat) (U : list (list (A * A))) : list (list (A * A)) :=
    map (fun j => map (fun row => cconj (nth j row c0)) U) (seq 0 n).
  Definition ctrace (n : nat) (M : list (list (A * A))) : A * A :=
    fold_right (fun i acc => radd (CxRing C) (nth i (nth i M []) c0) acc) c0 (seq 0 n).
  Definition kraus := list ((A * A) * list (list (A * A))).
  (* Heisenberg picture  X |-> sum_k w_k K_k^dagger X K_k *)
  Definition heis (n : nat) (ks : kraus) (X : list (list (A * A))) : list (list (A * A)) :=
    msum (CxRing C)
      (map (fun wk => mscale (CxRing C) (fst wk)
                        (mmul (CxRing C) (dagger n (snd wk)) (mmul (CxRing C) X (snd wk)))) ks).
  Definition ptm_kraus (n : nat) (dinv : A) (paulis : list (list (list (A * A)))) (ks : kraus)
    : list (list A) :=
    map (fun Pa => let Y := heis n ks Pa in
                   map (fun Pb => rmul C dinv (fst (ctrace n (mmul (CxRing C) Y Pb)))) paulis) paulis.

  Definition sigma (k : nat) : list (list (A * A)) :=
    match k with
    | 0 => [[c1; c0]; [c0; c1]]
    | 1 => [[c0; c1]; [c1; c0]]
    | 2 => [[c0; cmi]; [ci; c0]]
    | _ => [[c1; c0]; [c0; cm1]]
    end.
  Definition paulis1 : list (list (list (A * A))) := map sigma [0; 1; 2; 3].
  Definition paulis2 : list (list (list (A * A))) :=
    flat_map (fun a1 => map (fun a0 => kron (CxRing C) (sigma a1) (sigma a0)) [0; 1; 2; 3]) [0; 1; 2; 3].
  Definition ptm1 (ks : kraus) : list (list A) := ptm_kraus 2 (cofQ C (1 # 2)) paulis1 ks.
  Definition ptm2 (ks : kraus) : list (list A) := ptm_kraus 4 (cofQ C (1 # 4)) paulis2 ks.
End PtmGen.

(* structure-preserving maps between coefficient structures *)
Record CHom {A B} (CA : Coef A) (CB : Coef B) (f : A -> B) : Prop := mkCHom {
  chh : Hom CA CB f;
  chq : forall q, f (cofQ CA q) = cofQ CB q;
  chv : forall n, f (cvar CA n) = cvar CB n }.

Lemma CoefHomR_CHom {A} (C : Coef A) f env : CoefHomR C f env -> CHom C (RCoef env) f.
Proof. intros [[Hh _] HQ HV]. split; auto. Qed.

Section PtmHom.
  Context {A B : Type} (CA : Coef A) (CB : Coef B) (f : A -> B).
  Hypothesis H : CHom CA CB f.
  Let Hh := chh _ _ _ H.
  Let Hc : Hom (CxRing CA) (CxRing CB) (emap f) := cx_hom _ _ _ Hh.
  Definition kmap (ks : kraus (A:=A)) : kraus (A:=B) :=
    map (fun wk => (emap f (fst wk), mmap (emap f) (snd wk))) ks.

  Lemma emap_c0 : emap f (c0 CA) = c0 CB.
  Proof. unfold emap, c0; simpl. now rewrite (h0 _ _ _ Hh). Qed.
  Lemma emap_cconj z : emap f (cconj CA z) = cconj CB (emap f z).
  Proof. unfold emap, cconj; simpl. now rewrite (hopp _ _ _ Hh). Qed.
  Lemma mmap_dagger n U : mmap (emap f) (dagger CA n U) = dagger CB n (mmap (emap f) U).
  Proof.
    unfold dagger, mmap. rewrite map_map. apply map_ext. intros j. rewrite !map_map. apply map_ext.
    intros row. rewrite emap_cconj. f_equal. rewrite <- emap_c0. symmetry. apply map_nth.
  Qed.
  Lemma emap_ctrace n M : emap f (ctrace CA n M) = ctrace CB n (mmap (emap f) M).
  Proof.
    unfold ctrace. induction (seq 0 n) as [|i l IH]; cbn [fold_right]; [apply emap_c0|].
    rewrite (hadd _ _ _ Hc), IH. f_equal.
    rewrite <- emap_c0. unfold mmap.
    change (@nil (B * B)) with (map (emap f) []). now rewrite !map_nth.
  Qed.
  Lemma mmap_heis n ks X :
    mmap (emap f) (heis CA n ks X) = heis CB n (kmap ks) (mmap (emap f) X).
  Proof.
    unfold heis, kmap. rewrite (mmap_msum _ _ _ Hc), !map_map. f_equal. apply map_ext. intros [w Km]; simpl.
    now rewrite (mmap_mscale _ _ _ Hc), !(mmap_mmul _ _ _ Hc), mmap_dagger.
  Qed.
  Lemma mmap_ptm_kraus n dinv paulis ks :
    mmap f (ptm_kraus CA n dinv paulis ks)
    = ptm_kraus CB n (f dinv) (map (mmap (emap f)) paulis) (kmap ks).
  Proof.
    unfold ptm_kraus, mmap at 1. rewrite !map_map. apply map_ext. intros Pa. cbv zeta.
    rewrite !map_map. apply map_ext. intros Pb.
    rewrite (hmul _ _ _ Hh). f_equal.
    change (f (fst ?z)) with (fst (emap f z)).
    now rewrite emap_ctrace, (mmap_mmul _ _ _ Hc), mmap_heis.
  Qed.
  Lemma mmap_sigma k : mmap (emap f) (sigma CA k) = sigma CB k.
  Proof.
    destruct k as [|[|[|k]]]; unfold emap; simpl;
      now rewrite ?(hopp _ _ _ Hh), ?(h0 _ _ _ Hh), ?(h1 _ _ _ Hh).
  Qed.
  Lemma map_paulis1 : map (mmap (emap f)) (paulis1 CA) = paulis1 CB.
  Proof. unfold paulis1. rewrite map_map. apply map_ext. intros k. apply mmap_sigma. Qed.
  Lemma map_paulis2 : map (mmap (emap f)) (paulis2 CA) = paulis2 CB.
  Proof.
    unfold paulis2. cbn [flat_map map app]. now rewrite !(mmap_kron _ _ _ Hc), !mmap_sigma.
  Qed.
  Lemma mmap_ptm1 ks : mmap f (ptm1 CA ks) = ptm1 CB (kmap ks).
  Proof. unfold ptm1. now rewrite mmap_ptm_kraus, map_paulis1, (chq _ _ _ H). Qed.
  Lemma mmap_ptm2 ks : mmap f (ptm2 CA ks) = ptm2 CB (kmap ks).
  Proof. unfold ptm2. now rewrite mmap_ptm_kraus, map_paulis2, (chq _ _ _ H). Qed.
End PtmHom.

(* ---------- syntax: complex entries, Kraus lists and matrices as coefficient expressions ---------- *)
Definition cxe : Type := cexpr * cexpr.                      (* re, im *)
Definition cxeval {A} (C : Coef A) (z : cxe) : A * A := (ceval C (fst z), ceval C (snd z)).
Definition cmeval {A} (C : Coef A) (M : list (list cxe)) : list (list (A * A)) := mmap (cxeval C) M.
Definition krause : Type := list (cxe * list (list cxe)).
Definition kreval {A} (C : Coef A) (ks : krause) : kraus (A:=A) :=
  map (fun wk => (cxeval C (fst wk), cmeval C (snd wk))) ks.

Lemma kmap_kreval {A B} (CA : Coef A) (CB : Coef B) f (H : forall e, f (ceval CA e) = ceval CB e) ks :
  kmap f (kreval CA ks) = kreval CB ks.
Proof.
  unfold kmap, kreval. rewrite map_map. apply map_ext. intros [w M]; simpl. f_equal.
  - unfold emap, cxeval; simpl. now rewrite !H.
  - unfold cmeval, mmap. rewrite map_map. apply map_ext. intros row. rewrite map_map. apply map_ext.
    intros z. unfold emap, cxeval; simpl. now rewrite !H.
Qed.

(* small expression vocabulary *)
Definition e0 : cexpr := CQ 0. Definition e1 : cexpr := CQ 1. Definition em1 : cexpr := CQ (-1).
Definition eh : cexpr := CQ (1 # 2). Definition emh : cexpr := CQ (-1 # 2).
Definition eC : cexpr := CV vC. Definition eS : cexpr := CV vS. Definition eR : cexpr := CV vR.
Definition eC2 : cexpr := CAdd (CMul eC eC) (COpp (CMul eS eS)).        (* cos 2θ' *)
Definition eS2 : cexpr := CMul (CQ 2) (CMul eC eS).                      (* sin 2θ' *)
Definition eC4 : cexpr := CAdd (CMul eC2 eC2) (COpp (CMul eS2 eS2)).    (* cos 4θ' *)
Definition eS4 : cexpr := CMul (CQ 2) (CMul eC2 eS2).                    (* sin 4θ' *)
Definition z0 : cxe := (e0, e0). Definition z1 : cxe := (e1, e0). Definition zm1 : cxe := (em1, e0).
Definition zi : cxe := (e0, e1). Definition zmi : cxe := (e0, em1).
Definition zre (e : cexpr) : cxe := (e, e0).
Definition zim (e : cexpr) : cxe := (e0, e).

(* ---------- one-qubit operations ---------- *)
(* rotation angles occurring in decompositions.py, relative to θ' (cvar vC = cos θ', cvar vS = sin θ') *)
Inductive ang : Type := Th2P | Th2M | HalfPiP | HalfPiM | QuartPiP | QuartPiM.
Inductive op1 : Type :=
| OX | OY | OZ | OH | OS | OSdg | OSX | OSXdg | OT | OTdg
| ORX (a : ang) | ORY (a : ang) | ORZ (a : ang) | OP (a : ang)
| OMeas | OReset
| OU (k : nat).          (* UnitaryGate(K) of the KAK path; its PTM comes from an environment *)

(* cos and sin of HALF the angle (what the 2x2 unitaries need); None when not in Q[c,s,r] *)
Definition half_cs (a : ang) : option (cexpr * cexpr) :=
  match a with
  | Th2P => Some (eC, eS)
  | Th2M => Some (eC, COpp eS)
  | HalfPiP => Some (eR, eR)
  | HalfPiM => Some (eR, COpp eR)
  | QuartPiP | QuartPiM => None
  end.
(* cos and sin of the full angle *)
Definition full_cs (a : ang) : cexpr * cexpr :=
  match a with
  | Th2P => (eC2, eS2)
  | Th2M => (eC2, COpp eS2)
  | HalfPiP => (e0, e1)
  | HalfPiM => (e0, em1)
  | QuartPiP => (eR, eR)
  | QuartPiM => (eR, COpp eR)
  end.

Definition uX : list (list cxe) := [[z0; z1]; [z1; z0]].
Definition uY : list (list cxe) := [[z0; zmi]; [zi; z0]].
Definition uZ : list (list cxe) := [[z1; z0]; [z0; zm1]].
Definition uH : list (list cxe) := [[zre eR; zre eR]; [zre eR; zre (COpp eR)]].
Definition uS : list (list cxe) := [[z1; z0]; [z0; zi]].
Definition uSdg : list (list cxe) := [[z1; z0]; [z0; zmi]].
Definition uSX : list (list cxe) := [[(eh, eh); (eh, emh)]; [(eh, emh); (eh, eh)]].
Definition uSXdg : list (list cxe) := [[(eh, emh); (eh, eh)]; [(eh, eh); (eh, emh)]].
Definition uT : list (list cxe) := [[z1; z0]; [z0; (eR, eR)]].
Definition uTdg : list (list cxe) := [[z1; z0]; [z0; (eR, COpp eR)]].
Definition uRX (c s : cexpr) : list (list cxe) := [[zre c; zim (COpp s)]; [zim (COpp s); zre c]].
Definition uRY (c s : cexpr) : list (list cxe) := [[zre c; zre (COpp s)]; [zre s; zre c]].
Definition uRZ (c s : cexpr) : list (list cxe) := [[(c, COpp s); z0]; [z0; (c, s)]].
Definition uP (c s : cexpr) : list (list cxe) := [[z1; z0]; [z0; (c, s)]].     (* c,s of the FULL angle *)
Definition kP0 : list (list cxe) := [[z1; z0]; [z0; z0]].
Definition kP1 : list (list cxe) := [[z0; z0]; [z0; z1]].
Definition k01 : list (list cxe) := [[z0; z1]; [z0; z0]].                       (* |0><1| = X P1 *)

Inductive opspec : Type :=
| SKraus (ks : krause)                 (* signed Kraus list *)
| SDirect (m : list (list cexpr))      (* PTM written directly (RY(±π/4): half angle π/8 is not in K) *)
| SEnv (k : nat).

Definition ry_direct (c s : cexpr) : list (list cexpr) :=
  [[e1; e0; e0; e0]; [e0; c; e0; s]; [e0; e0; e1; e0]; [e0; COpp s; e0; c]].
Definition rx_direct (c s : cexpr) : list (list cexpr) :=
  [[e1; e0; e0; e0]; [e0; e1; e0; e0]; [e0; e0; c; COpp s]; [e0; e0; s; c]].
Definition rz_direct (c s : cexpr) : list (list cexpr) :=
  [[e1; e0; e0; e0]; [e0; c; COpp s; e0]; [e0; s; c; e0]; [e0; e0; e0; e1]].

Definition rot_spec (u : cexpr -> cexpr -> list (list cxe)) (dir : cexpr -> cexpr -> list (list cexpr))
  (a : ang) : opspec :=
  match half_cs a with
  | Some (c, s) => SKraus [(z1, u c s)]
  | None => let '(c, s) := full_cs a in SDirect (dir c s)
  end.

Definition op_spec (o : op1) : opspec :=
  match o with
  | OX => SKraus [(z1, uX)] | OY => SKraus [(z1, uY)] | OZ => SKraus [(z1, uZ)]
  | OH => SKraus [(z1, uH)] | OS => SKraus [(z1, uS)] | OSdg => SKraus [(z1, uSdg)]
  | OSX => SKraus [(z1, uSX)] | OSXdg => SKraus [(z1, uSXdg)]
  | OT => SKraus [(z1, uT)] | OTdg => SKraus [(z1, uTdg)]
  | ORX a => rot_spec uRX rx_direct a
  | ORY a => rot_spec uRY ry_direct a
  | ORZ a => rot_spec uRZ rz_direct a
  | OP a => let '(c, s) := full_cs a in SKraus [(z1, uP c s)]
  | OMeas => SKraus [(z1, kP0); (zm1, kP1)]
  | OReset => SKraus [(z1, kP0); (z1, k01)]
  | OU k => SEnv k
  end.

Section Chan.
  Context {A : Type} (C : Coef A).
  Variable uenv : nat -> list (list A).        (* PTMs of the KAK local unitaries *)
  Definition ptm_op (o : op1) : list (list A) :=
    match op_spec o with
    | SKraus ks => ptm1 C (kreval C ks)
    | SDirect m => mmap (ceval C) m
    | SEnv k => uenv k
    end.
  Definition ptm_seq (s : list op1) : list (list A) :=
    fold_left (fun acc o => mmul C (ptm_op o) acc) s (ident C 4).
  (* a basis term: coefficient, operations on gate qubit 0, operations on gate qubit 1 *)
  Definition term : Type := cexpr * list op1 * list op1.
  Definition term_ptm (t : term) : list (list A) :=
    let '(c, s0, s1) := t in mscale C (ceval C c) (kron C (ptm_seq s1) (ptm_seq s0)).
  Definition channel (b : list term) : list (list A) := msum C (map term_ptm b).
  Definition ptm_unitary2 (U : list (list cxe)) : list (list A) := ptm2 C (kreval C [(z1, U)]).
End Chan.

Section ChanHom.
  Context {A : Type} (C : Coef A) (f : A -> R) (env : nat -> R).
  Hypothesis H : CoefHomR C f env.
  Variable uenv : nat -> list (list A).
  Let HC := CoefHomR_CHom _ _ _ H.
  Let Hh := chh _ _ _ HC.
  Let He := ceval_hom C f env H.
  Let uenvR := fun k => mmap f (uenv k).
  Lemma mmap_ptm_op o : mmap f (ptm_op C uenv o) = ptm_op (RCoef env) uenvR o.
  Proof.
    unfold ptm_op. destruct (op_spec o) as [ks|m|k].
    - now rewrite (mmap_ptm1 _ _ _ HC), (kmap_kreval _ _ _ He).
    - unfold mmap. rewrite map_map. apply map_ext. intros row. rewrite map_map. apply map_ext. exact He.
    - reflexivity.
  Qed.
  Lemma mmap_ptm_seq s : mmap f (ptm_seq C uenv s) = ptm_seq (RCoef env) uenvR s.
  Proof.
    unfold ptm_seq. rewrite <- (mmap_ident _ _ _ Hh 4).
    generalize (ident C 4). induction s as [|o s IH]; intros M; simpl; [reflexivity|].
    rewrite IH. f_equal. now rewrite (mmap_mmul _ _ _ Hh), mmap_ptm_op.
  Qed.
  Lemma mmap_channel b : mmap f (channel C uenv b) = channel (RCoef env) uenvR b.
  Proof.
    unfold channel. rewrite (mmap_msum _ _ _ Hh), map_map. f_equal. apply map_ext. intros [[c s0] s1].
    unfold term_ptm. now rewrite (mmap_mscale _ _ _ Hh), (mmap_kron _ _ _ Hh), !mmap_ptm_seq, He.
  Qed.
  Lemma mmap_ptm_unitary2 U : mmap f (ptm_unitary2 C U) = ptm_unitary2 (RCoef env) U.
  Proof. unfold ptm_unitary2. now rewrite (mmap_ptm2 _ _ _ HC), (kmap_kreval _ _ _ He). Qed.
  Lemma mmap_ptm2_kr ks : mmap f (ptm2 C (kreval C ks)) = ptm2 (RCoef env) (kreval (RCoef env) ks).
  Proof. now rewrite (mmap_ptm2 _ _ _ HC), (kmap_kreval _ _ _ He). Qed.
End ChanHom.

(* the reflection step used by every exactness theorem *)
Lemma reflect_channel {A} (C : Coef A) f env (H : CoefHomR C f env) uenv b ks :
  meqb C (channel C uenv b) (ptm2 C (kreval C ks)) = true ->
  channel (RCoef env) (fun k => mmap f (uenv k)) b = ptm2 (RCoef env) (kreval (RCoef env) ks).
Proof.
  intros E. rewrite <- (mmap_channel C f env H), <- (mmap_ptm2_kr C f env H).
  apply (meqb_sound C f (ch_hom _ _ _ H)). exact E.
Qed.

(* ---------- two-qubit targets (specifications; compared with gate.to_matrix() by the harness) ---------- *)
Definition zc : cxe := zre eC.        Definition zis : cxe := zim eS.     Definition zmis : cxe := zim (COpp eS).
Definition U_rxx : list (list cxe) :=   (* cos θ' I + i sin θ' XX,  θ' = -θ/2 *)
  [[zc; z0; z0; zis]; [z0; zc; zis; z0]; [z0; zis; zc; z0]; [zis; z0; z0; zc]].
Definition U_ryy : list (list cxe) :=
  [[zc; z0; z0; zmis]; [z0; zc; zis; z0]; [z0; zis; zc; z0]; [zmis; z0; z0; zc]].
Definition U_rzz : list (list cxe) :=
  [[(eC, eS); z0; z0; z0]; [z0; (eC, COpp eS); z0; z0]; [z0; z0; (eC, COpp eS); z0]; [z0; z0; z0; (eC, eS)]].
(* controlled rotations by θ = 4θ' (control = qubit 0, target = qubit 1): half angle 2θ' *)
Definition U_crx : list (list cxe) :=
  [[z1; z0; z0; z0]; [z0; zre eC2; z0; zim (COpp eS2)]; [z0; z0; z1; z0]; [z0; zim (COpp eS2); z0; zre eC2]].
Definition U_cry : list (list cxe) :=
  [[z1; z0; z0; z0]; [z0; zre eC2; z0; zre (COpp eS2)]; [z0; z0; z1; z0]; [z0; zre eS2; z0; zre eC2]].
Definition U_crz : list (list cxe) :=
  [[z1; z0; z0; z0]; [z0; (eC2, COpp eS2); z0; z0]; [z0; z0; z1; z0]; [z0; z0; z0; (eC2, eS2)]].
Definition U_cp : list (list cxe) :=
  [[z1; z0; z0; z0]; [z0; z1; z0; z0]; [z0; z0; z1; z0]; [z0; z0; z0; (eC4, eS4)]].
Definition U_cx : list (list cxe) := [[z1; z0; z0; z0]; [z0; z0; z0; z1]; [z0; z0; z1; z0]; [z0; z1; z0; z0]].
Definition U_cy : list (list cxe) := [[z1; z0; z0; z0]; [z0; z0; z0; zmi]; [z0; z0; z1; z0]; [z0; zi; z0; z0]].
Definition U_cz : list (list cxe) := [[z1; z0; z0; z0]; [z0; z1; z0; z0]; [z0; z0; z1; z0]; [z0; z0; z0; zm1]].
Definition U_ch : list (list cxe) :=
  [[z1; z0; z0; z0]; [z0; zre eR; z0; zre eR]; [z0; z0; z1; z0]; [z0; zre eR; z0; zre (COpp eR)]].
Definition U_cs : list (list cxe) := [[z1; z0; z0; z0]; [z0; z1; z0; z0]; [z0; z0; z1; z0]; [z0; z0; z0; zi]].
Definition U_csdg : list (list cxe) := [[z1; z0; z0; z0]; [z0; z1; z0; z0]; [z0; z0; z1; z0]; [z0; z0; z0; zmi]].
Definition U_csx : list (list cxe) :=
  [[z1; z0; z0; z0]; [z0; (eh, eh); z0; (eh, emh)]; [z0; z0; z1; z0]; [z0; (eh, emh); z0; (eh, eh)]].
Definition U_csxdg : list (list cxe) :=
  [[z1; z0; z0; z0]; [z0; (eh, emh); z0; (eh, eh)]; [z0; z0; z1; z0]; [z0; (eh, eh); z0; (eh, emh)]].
Definition U_swap : list (list cxe) := [[z1; z0; z0; z0]; [z0; z0; z1; z0]; [z0; z1; z0; z0]; [z0; z0; z0; z1]].
Definition U_iswap : list (list cxe) := [[z1; z0; z0; z0]; [z0; z0; zi; z0]; [z0; zi; z0; z0]; [z0; z0; z0; z1]].
Definition U_dcx : list (list cxe) := [[z1; z0; z0; z0]; [z0; z0; z0; z1]; [z0; z1; z0; z0]; [z0; z0; z1; z0]].
Definition zr : cxe := zre eR. Definition zir : cxe := zim eR. Definition zmir : cxe := zim (COpp eR).
Definition U_ecr : list (list cxe) :=
  [[z0; zr; z0; zir]; [zr; z0; zmir; z0]; [z0; zir; z0; zr]; [zmir; z0; zr; z0]].

(* Move = reset(qubit 1); swap(0,1).  Kraus operators  SWAP·(|0><j| on qubit 1 ⊗ I on qubit 0), j = 0,1 *)
Definition K_move0 : list (list cxe) := [[z1; z0; z0; z0]; [z0; z0; z0; z0]; [z0; z1; z0; z0]; [z0; z0; z0; z0]].
Definition K_move1 : list (list cxe) := [[z0; z0; z1; z0]; [z0; z0; z0; z0]; [z0; z0; z0; z1]; [z0; z0; z0; z0]].
Definition move_kraus : krause := [(z1, K_move0); (z1, K_move1)].
(* the same, composed from its definition: swap · (reset ⊗ id) as Kraus products (checked equal in BasesP) *)
Definition ptm_move {A} (C : Coef A) : list (list A) := ptm2 C (kreval C move_kraus).

(* ---------- rational evaluation for the correspondence (c, s rational; r approximated) ---------- *)
Definition QevalCoef (c s r : Q) : Coef Q :=
  with_var (with_var (with_var QCoef vC c) vS s) vR r.
Definition r_approx : Q := (1311738121 # 1855077841)%Q.   (* 1/sqrt 2 to 2e-19 (continued-fraction convergent) *)

(* ---------- complex expression arithmetic ---------- *)
Definition cmulE (x y : cxe) : cxe :=
  (CAdd (CMul (fst x) (fst y)) (COpp (CMul (snd x) (snd y))), CAdd (CMul (fst x) (snd y)) (CMul (snd x) (fst y))).
Definition cconjE (x : cxe) : cxe := (fst x, COpp (snd x)).
Definition caddE (x y : cxe) : cxe := (CAdd (fst x) (fst y), CAdd (snd x) (snd y)).
Definition cnegE (x : cxe) : cxe := (COpp (fst x), COpp (snd x)).
Definition cscaleE (q : Q) (x : cxe) : cxe := (CMul (CQ q) (fst x), CMul (CQ q) (snd x)).
Definition abs2E (x : cxe) : cexpr := CAdd (CMul (fst x) (fst x)) (CMul (snd x) (snd x)).

(* ---------- targets of the KAK path ---------- *)
(* A(u) = u0 II + u1 XX + u2 YY + u3 ZZ  (little-endian 4x4) *)
Definition A_of_u (u : list cxe) : list (list cxe) :=
  let u0 := nth 0 u z0 in let u1 := nth 1 u z0 in let u2 := nth 2 u z0 in let u3 := nth 3 u z0 in
  [[caddE u0 u3; z0; z0; caddE u1 (cnegE u2)]; [z0; caddE u0 (cnegE u3); caddE u1 u2; z0];
   [z0; caddE u1 u2; caddE u0 (cnegE u3); z0]; [caddE u1 (cnegE u2); z0; z0; caddE u0 u3]].
(* the 8 real components of a general u, as named quantities 10..17 *)
Definition uvars : list cxe := [(CV 10, CV 11); (CV 12, CV 13); (CV 14, CV 15); (CV 16, CV 17)].
Definition mII : list (list cxe) := [[z1; z0; z0; z0]; [z0; z1; z0; z0]; [z0; z0; z1; z0]; [z0; z0; z0; z1]].
Definition mXX : list (list cxe) := [[z0; z0; z0; z1]; [z0; z0; z1; z0]; [z0; z1; z0; z0]; [z1; z0; z0; z0]].
Definition mYY : list (list cxe) := [[z0; z0; z0; zm1]; [z0; z0; z1; z0]; [z0; z1; z0; z0]; [zm1; z0; z0; z0]].
Definition mZZ : list (list cxe) := [[z1; z0; z0; z0]; [z0; zm1; z0; z0]; [z0; z0; zm1; z0]; [z0; z0; z0; z1]].
(* Weyl coordinates: cvar 3..8 = cos a, sin a, cos b, sin b, cos c, sin c *)
Definition vCa := 3. Definition vSa := 4. Definition vCb := 5. Definition vSb := 6. Definition vCc := 7. Definition vSc := 8.
(* cos t · II + i sin t · P *)
Definition weyl_factor {A} (C : Coef A) (vc vs : nat) (P : list (list cxe)) : list (list (A * A)) :=
  madd (CxRing C) (mscale (CxRing C) (cxeval C (CV vc, e0)) (cmeval C mII))
                  (mscale (CxRing C) (cxeval C (e0, CV vs)) (cmeval C P)).
(* exp(i(a XX + b YY + c ZZ)) = (cos a + i sin a XX)(cos b + i sin b YY)(cos c + i sin c ZZ) *)
Definition Uweyl {A} (C : Coef A) : list (list (A * A)) :=
  mmul (CxRing C) (weyl_factor C vCa vSa mXX)
       (mmul (CxRing C) (weyl_factor C vCb vSb mYY) (weyl_factor C vCc vSc mZZ)).

(* ---------- further coefficient rings ---------- *)
(* Q[r], 2r² = 1 *)
Definition QR : Coef (Q * Q) := with_var (ext_coef QCoef (1 # 2)%Q) vR (0%Q, 1%Q).
(* adjoin a free indeterminate named n *)
Definition add_indet {A} (C : Coef A) (n : nat) : Coef (list A) := with_var (poly_coef C) n [r0 C; r1 C].
(* adjoin a point (cvar vc, cvar vs) of the unit circle *)
Definition add_circle {A} (C : Coef A) (vc vs : nat) : Coef (list A * list A) :=
  let P := add_indet C vc in
  with_var (ext_coef P (radd P (r1 P) (ropp P (rmul P (cvar P vc) (cvar P vc))))) vs (r0 P, r1 P).

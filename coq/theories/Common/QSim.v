(* Common/QSim.v — an exact state-vector simulator over Q(sqrt 2)(i).
   Amplitudes  a + b*sqrt2 + i*(c + d*sqrt2)  with a b c d : Q; vectors are lists of 2^n amplitudes,
   index i = sum_q bit_q(i) 2^q  (Qiskit's little-endian convention).  Branches are kept UNNORMALISED
   (a projection only zeroes amplitudes), and the outcome probability is the ratio of squared norms, so no
   square root is ever taken.  Gate set: x y z h s sdg sx sxdg cx cz swap ccx (matrices as in qiskit.circuit.library).
   Used as the non-vacuity instance and the in-Coq oracle of C13.  Definitions only; stdlib only. *)
From Coq Require Import QArith List Arith Bool.
Import ListNotations.
Close Scope Q_scope.

(* ---- Q(sqrt 2) ---- *)
Definition q2 := (Q * Q)%type.                       (* (a, b) = a + b sqrt2 *)
Definition q2zero : q2 := (0%Q, 0%Q).
Definition q2add (x y : q2) : q2 := (Qred (fst x + fst y)%Q, Qred (snd x + snd y)%Q).
Definition q2neg (x : q2) : q2 := (Qopp (fst x), Qopp (snd x)).
Definition q2sub (x y : q2) : q2 := q2add x (q2neg y).
Definition q2mul (x y : q2) : q2 :=
  (Qred (fst x * fst y + (2 # 1) * (snd x * snd y))%Q, Qred (fst x * snd y + snd x * fst y)%Q).
Definition q2_is_zero (x : q2) : bool := Qeq_bool (fst x) 0%Q && Qeq_bool (snd x) 0%Q.
(* x / y = x * conj(y) / (c^2 - 2 d^2) *)
Definition q2div (x y : q2) : q2 :=
  let n := (fst y * fst y - (2 # 1) * (snd y * snd y))%Q in
  let z := q2mul x (fst y, Qopp (snd y)) in
  (Qred (fst z / n)%Q, Qred (snd z / n)%Q).

(* ---- Q(sqrt 2)(i) ---- *)
Definition amp := (q2 * q2)%type.                    (* (re, im) *)
Definition mkamp (a b c d : Q) : amp := ((a, b), (c, d)).
Definition azero : amp := (q2zero, q2zero).
Definition aone : amp := mkamp 1 0 0 0.
Definition aadd (x y : amp) : amp := (q2add (fst x) (fst y), q2add (snd x) (snd y)).
Definition aneg (x : amp) : amp := (q2neg (fst x), q2neg (snd x)).
Definition amul (x y : amp) : amp :=
  (q2sub (q2mul (fst x) (fst y)) (q2mul (snd x) (snd y)),
   q2add (q2mul (fst x) (snd y)) (q2mul (snd x) (fst y))).
Definition anorm2 (x : amp) : q2 := q2add (q2mul (fst x) (fst x)) (q2mul (snd x) (snd x)).

(* ---- vectors ---- *)
Definition vec := list amp.
Definition vget (v : vec) (i : nat) : amp := nth i v azero.
Definition init_vec (n : nat) : vec := aone :: repeat azero (2 ^ n - 1).
Definition tabulate (v : vec) (f : nat -> amp) : vec := map f (seq 0 (length v)).

Inductive qgate := Gx | Gy | Gz | Gh | Gs | Gsdg | Gsx | Gsxdg | Gcx | Gcz | Gswap | Gccx.

Definition ai : amp := mkamp 0 0 1 0.
Definition ami : amp := mkamp 0 0 (-1) 0.
Definition am1 : amp := mkamp (-1) 0 0 0.
Definition ars : amp := mkamp 0 (1 # 2) 0 0.                (*  1/sqrt2 *)
Definition amrs : amp := mkamp 0 (-1 # 2) 0 0.              (* -1/sqrt2 *)
Definition ahp : amp := mkamp (1 # 2) 0 (1 # 2) 0.          (* (1+i)/2 *)
Definition ahm : amp := mkamp (1 # 2) 0 (-1 # 2) 0.         (* (1-i)/2 *)

(* row-major 2x2 matrix (m00, m01, m10, m11) *)
Definition mat1 (g : qgate) : option (amp * amp * amp * amp) :=
  match g with
  | Gx => Some (azero, aone, aone, azero)
  | Gy => Some (azero, ami, ai, azero)
  | Gz => Some (aone, azero, azero, am1)
  | Gh => Some (ars, ars, ars, amrs)
  | Gs => Some (aone, azero, azero, ai)
  | Gsdg => Some (aone, azero, azero, ami)
  | Gsx => Some (ahp, ahm, ahm, ahp)
  | Gsxdg => Some (ahm, ahp, ahp, ahm)
  | _ => None
  end.

Definition apply1 (m : amp * amp * amp * amp) (q : nat) (v : vec) : vec :=
  let '(m00, m01, m10, m11) := m in
  let s := 2 ^ q in
  tabulate v (fun i =>
    if Nat.testbit i q
    then aadd (amul m10 (vget v (i - s))) (amul m11 (vget v i))
    else aadd (amul m00 (vget v i)) (amul m01 (vget v (i + s)))).

Definition qapply (g : qgate) (qs : list nat) (v : vec) : vec :=
  match mat1 g, qs with
  | Some m, [q] => apply1 m q v
  | None, [a; b] =>
      match g with
      | Gcx => tabulate v (fun i => vget v (if Nat.testbit i a then Nat.lxor i (2 ^ b) else i))   (* a control, b target *)
      | Gcz => tabulate v (fun i => if Nat.testbit i a && Nat.testbit i b then aneg (vget v i) else vget v i)
      | Gswap => tabulate v (fun i => vget v (if Bool.eqb (Nat.testbit i a) (Nat.testbit i b) then i
                                               else Nat.lxor (Nat.lxor i (2 ^ a)) (2 ^ b)))
      | _ => v
      end
  | None, [a; b; c] =>
      match g with
      | Gccx => tabulate v (fun i => vget v (if Nat.testbit i a && Nat.testbit i b then Nat.lxor i (2 ^ c) else i))  (* a b controls, c target *)
      | _ => v
      end
  | _, _ => v                                                 (* wrong arity: not generated *)
  end.

Fixpoint q2sum (l : list q2) : q2 := match l with [] => q2zero | x :: r => q2add x (q2sum r) end.

(* squared norm of the part of v with bit q equal to b, and of all of v *)
Definition norm2_bit (v : vec) (q : nat) (b : bool) : q2 :=
  q2sum (map (fun i => if Bool.eqb (Nat.testbit i q) b then anorm2 (vget v i) else q2zero) (seq 0 (length v))).
Definition norm2 (v : vec) : q2 := q2sum (map anorm2 v).

(* exact probability of outcome 1 as an element of Q(sqrt 2) *)
Definition qp1_exact (v : vec) (q : nat) : q2 := q2div (norm2_bit v q true) (norm2 v).

Definition clamp01 (x : Q) : Q := if Qle_bool x 0 then 0%Q else if Qle_bool 1 x then 1%Q else x.

(* the instrument's p1 : Q.  Every matrix entry of the gate set is a Gaussian integer times a fixed power of
   1/sqrt2 per gate, so all amplitudes of a reachable vector share one denominator sqrt2^k and every squared
   norm -- hence every reachable probability -- is rational (0, 1/2, 1 without ccx; other dyadic ratios with it):
   the sqrt2-part of qp1_exact is 0 and the clamp is the identity;  `qp1_is_exact`
   is evaluated by the correspondence checker on every state that is measured (fail-closed audit). *)
Definition qp1 (v : vec) (q : nat) : Q := clamp01 (fst (qp1_exact v q)).
Definition qp1_is_exact (v : vec) (q : nat) : bool :=
  let e := qp1_exact v q in
  Qeq_bool (snd e) 0%Q && Qle_bool 0 (fst e) && Qle_bool (fst e) 1 && negb (q2_is_zero (norm2 v)).

(* unnormalised projection on bit q = b *)
Definition qproj (v : vec) (q : nat) (b : bool) : vec :=
  tabulate v (fun i => if Bool.eqb (Nat.testbit i q) b then vget v i else azero).

Definition qflipx (v : vec) (q : nat) : vec := apply1 (azero, aone, aone, azero) q v.

Definition qgate_beq (a b : qgate) : bool :=
  match a, b with
  | Gx, Gx | Gy, Gy | Gz, Gz | Gh, Gh | Gs, Gs | Gsdg, Gsdg | Gsx, Gsx | Gsxdg, Gsxdg
  | Gcx, Gcx | Gcz, Gcz | Gswap, Gswap | Gccx, Gccx => true
  | _, _ => false
  end.

(* Common/Base.v — shared small definitions for every model.
   Stdlib only.  No axioms. *)
From Coq Require Export List Arith ZArith NArith Bool Lia.
Export ListNotations.

(* Result of a public call, as every harness canonicalises it:
   Ok v | Refused (a ValueError) | Crashed (any other exception). *)
Inductive res (A : Type) : Type :=
| Ok (v : A)
| Refused
| Crashed.
Arguments Ok {A} v.
Arguments Refused {A}.
Arguments Crashed {A}.

Definition res_map {A B} (f : A -> B) (r : res A) : res B :=
  match r with Ok v => Ok (f v) | Refused => Refused | Crashed => Crashed end.

Definition res_bind {A B} (r : res A) (f : A -> res B) : res B :=
  match r with Ok v => f v | Refused => Refused | Crashed => Crashed end.

Definition is_ok {A} (r : res A) : bool :=
  match r with Ok _ => true | _ => false end.

(* Boolean equalities used by the correspondence case files. *)
Fixpoint list_beq {A} (eqb : A -> A -> bool) (l1 l2 : list A) : bool :=
  match l1, l2 with
  | [], [] => true
  | x :: xs, y :: ys => eqb x y && list_beq eqb xs ys
  | _, _ => false
  end.

Definition option_beq {A} (eqb : A -> A -> bool) (a b : option A) : bool :=
  match a, b with
  | None, None => true
  | Some x, Some y => eqb x y
  | _, _ => false
  end.

Definition pair_beq {A B} (ea : A -> A -> bool) (eb : B -> B -> bool)
  (p q : A * B) : bool := ea (fst p) (fst q) && eb (snd p) (snd q).

Definition res_beq {A} (eqb : A -> A -> bool) (a b : res A) : bool :=
  match a, b with
  | Ok x, Ok y => eqb x y
  | Refused, Refused => true
  | Crashed, Crashed => true
  | _, _ => false
  end.

Lemma list_beq_refl {A} (eqb : A -> A -> bool) :
  (forall x, eqb x x = true) -> forall l, list_beq eqb l l = true.
Proof. intros H l; induction l as [|x xs IH]; simpl; [reflexivity|]. now rewrite H, IH. Qed.

Lemma list_beq_eq {A} (eqb : A -> A -> bool) :
  (forall x y, eqb x y = true -> x = y) ->
  forall l1 l2, list_beq eqb l1 l2 = true -> l1 = l2.
Proof.
  intros H l1; induction l1 as [|x xs IH]; intros [|y ys]; simpl; try discriminate; auto.
  intros E; apply andb_prop in E as [E1 E2]. f_equal; auto.
Qed.

(* Tally of a list of per-case verdicts: (#false, index of first false). *)
Fixpoint first_false_from (i : nat) (l : list bool) : option nat :=
  match l with
  | [] => None
  | b :: r => if b then first_false_from (S i) r else Some i
  end.

Definition tally (l : list bool) : nat * nat * option nat :=
  (length l, length (filter negb l), first_false_from 0 l).

(* update / nth helpers *)
Fixpoint upd {A} (l : list A) (i : nat) (v : A) : list A :=
  match l, i with
  | [], _ => []
  | _ :: r, O => v :: r
  | x :: r, S j => x :: upd r j v
  end.

Lemma upd_length {A} (l : list A) i v : length (upd l i v) = length l.
Proof. revert i; induction l as [|x xs IH]; intros [|i]; simpl; auto. Qed.

Lemma nth_upd_same {A} (l : list A) i v d : i < length l -> nth i (upd l i v) d = v.
Proof. revert i; induction l as [|x xs IH]; intros [|i] H; simpl in *; try lia; auto. apply IH; lia. Qed.

Lemma nth_upd_other {A} (l : list A) i j v d : i <> j -> nth j (upd l i v) d = nth j l d.
Proof.
  revert i j; induction l as [|x xs IH]; intros [|i] [|j] H; simpl; auto; try congruence.
Qed.

(* index of first occurrence *)
Fixpoint index_of (x : nat) (l : list nat) : option nat :=
  match l with
  | [] => None
  | y :: r => if Nat.eqb x y then Some 0 else option_map S (index_of x r)
  end.

Lemma index_of_Some x l i : index_of x l = Some i -> i < length l /\ nth i l 0 = x.
Proof.
  revert i; induction l as [|y r IH]; simpl; intros i H; [discriminate|].
  destruct (Nat.eqb_spec x y) as [->|N].
  - inversion H; subst; simpl; split; [lia|reflexivity].
  - destruct (index_of x r) as [j|] eqn:E; simpl in H; [|discriminate].
    inversion H; subst. destruct (IH j eq_refl) as [H1 H2]. simpl; split; [lia|assumption].
Qed.

Lemma index_of_None x l : index_of x l = None -> ~ In x l.
Proof.
  induction l as [|y r IH]; simpl; intros H; [tauto|].
  destruct (Nat.eqb_spec x y) as [->|N]; [discriminate|].
  destruct (index_of x r); simpl in H; [discriminate|]. intros [E|I]; [congruence|]. now apply IH.
Qed.

Lemma index_of_nth_NoDup l i : NoDup l -> i < length l -> index_of (nth i l 0) l = Some i.
Proof.
  revert i; induction l as [|y r IH]; intros i ND Hi; simpl in *; [lia|].
  inversion ND as [|? ? Hn ND']; subst.
  destruct i as [|i]; [now rewrite Nat.eqb_refl|].
  destruct (Nat.eqb_spec (nth i r 0) y) as [E|N].
  - exfalso; apply Hn; rewrite <- E; apply nth_In; lia.
  - rewrite IH; auto; lia.
Qed.

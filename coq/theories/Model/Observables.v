(* Model/Observables.v — executable model of
     utils/observable_grouping.py : observables_restricted_to_subsystem
     cutting_decomposition.py     : decompose_observables
     wire_cutting_transforms.py   : expand_observables
   No proofs here (Proofs/ObservablesP.v). *)
From CKT Require Import Common.Base.

(* Pauli letters by their symplectic bits: 0 = I, 1 = X (x), 2 = Y (x,z), 3 = Z (z).
   A Pauli is its group phase exponent (0..3, meaning (-i)^phase) and one letter per
   qubit INDEX (position k = qubit k, i.e. column k of the .x/.z arrays). *)
Definition letter := nat.
Record pauli := mkP { pphase : nat ; plets : list letter }.

Definition pauli_beq (a b : pauli) : bool :=
  Nat.eqb (pphase a) (pphase b) && list_beq Nat.eqb (plets a) (plets b).

(* observables_restricted_to_subsystem(qubits, PauliList):
   PauliList.from_symplectic(o.z[:, qubits], o.x[:, qubits])  -- phase dropped.
   An index >= num_qubits raises IndexError (Crashed). *)
Definition restrict1 (qs : list nat) (p : pauli) : pauli :=
  mkP 0 (map (fun q => nth q (plets p) 0) qs).

Definition restrict (n : nat) (qs : list nat) (ps : list pauli) : res (list pauli) :=
  if forallb (fun q => Nat.ltb q n) qs then Ok (map (restrict1 qs) ps) else Crashed.

(* decompose_observables: defaultdict(list) keyed by label, filled in index order;
   dict order = first appearance of the label. Labels are interned as nat by the
   harness (Python ==/hash classes). *)
Fixpoint add_to_group (l : nat) (i : nat) (g : list (nat * list nat)) : list (nat * list nat) :=
  match g with
  | [] => [(l, [i])]
  | (l', qs) :: r => if Nat.eqb l l' then (l', qs ++ [i]) :: r else (l', qs) :: add_to_group l i r
  end.

Fixpoint groups_from (labels : list nat) (i : nat) (g : list (nat * list nat)) : list (nat * list nat) :=
  match labels with
  | [] => g
  | l :: r => groups_from r (S i) (add_to_group l i g)
  end.

Definition qubits_by_subsystem (labels : list nat) : list (nat * list nat) := groups_from labels 0 [].

Definition decompose_observables (labels : list nat) (ps : list pauli)
  : list (nat * list nat * list pauli) :=
  map (fun lq => (fst lq, snd lq, map (restrict1 (snd lq)) ps)) (qubits_by_subsystem labels).

(* Recombination (specification side): scatter every group's letters back. *)
Fixpoint scatter (idx : list nat) (vals : list letter) (acc : list letter) : list letter :=
  match idx, vals with
  | i :: ir, v :: vr => scatter ir vr (upd acc i v)
  | _, _ => acc
  end.

Definition recombine1 (n : nat) (groups : list (list nat * pauli)) : list letter :=
  fold_left (fun acc g => scatter (fst g) (plets (snd g)) acc) groups (repeat 0 n).

(* expand_observables(observables, original_circuit, final_circuit).
   Qubit objects are modelled by identity tags (nat); oq / fq are the .qubits lists
   of the two circuits.  find_bit = index of the object in fq. *)
Fixpoint find_all (oq fq : list nat) : option (list nat) :=
  match oq with
  | [] => Some []
  | q :: r => match index_of q fq with
              | None => None
              | Some i => option_map (cons i) (find_all r fq)
              end
  end.

Definition expand1 (m : list nat) (nf : nat) (p : pauli) : pauli :=
  mkP (pphase p) (scatter m (plets p) (repeat 0 nf)).

Definition expand (nobs : nat) (oq fq : list nat) (ps : list pauli) : res (list pauli) :=
  if negb (Nat.eqb nobs (length oq)) then Refused else
  match find_all oq fq with
  | None => Refused
  | Some m => Ok (map (expand1 m (length fq)) ps)
  end.

(* Model/Observables.v — executable model of
     utils/observable_grouping.py : observables_restricted_to_subsystem
     cutting_decomposition.py     : decompose_observables
     wire_cutting_transforms.py   : expand_observables
   No proofs here (Proofs/ObservablesP.v). *)
From CKT Require Import Common.Base.

(* Pauli letters by their symplectic bits: 0 = I, 1 = X (x), 2 = Y (x,z), 3 = Z (z).
   A Pauli is its group phase exponent (0..3, meaning (-i)^phase) and one letter per
   qubit INDEX (position k = qubit k, i.e. column k of the .x/.z arrays). *)
Definition letter := nat.
Record pauli := mkP { pphase : nat ; plets : list letter }.

Definition pauli_beq (a b : pauli) : bool :=
  Nat.eqb (pphase a) (pphase b) && list_beq Nat.eqb (plets a) (plets b).

(* observables_restricted_to_subsystem(qubits, PauliList):
   PauliList.from_symplectic(o.z[:, qubits], o.x[:, qubits])  -- phase dropped.
   An index >= num_qubits raises IndexError (Crashed). *)
Definition restrict1 (qs : list nat) (p : pauli) : pauli :=
  mkP 0 (map (fun q => nth q (plets p) 0) qs).

Definition restrict (n : nat) (qs : list nat) (ps : list pauli) : res (list pauli) :=
  if forallb (fun q => Nat.ltb q n) qs then Ok (map (restrict1 qs) ps) else Crashed.

(* decompose_observables: defaultdict(list) keyed by label, filled in index order;
   dict order = first appearance of the label. Labels are interned as nat by the
   harness (Python ==/hash classes). *)
Fixpoint add_to_group (l : nat) (i : nat) (g : list (nat * list nat)) : list (nat * list nat) :=
  match g with
  | [] => [(l, [i])]
  | (l', qs) :: r => if Nat.eqb l l' then (l', qs ++ [i]) :: r else (l', qs) :: add_to_group l i r
  end.

Fixpoint groups_from (labels : list nat) (i : nat) (g : list (nat * list nat)) : list (nat * list nat) :=
  match labels with
  | [] => g
  | l :: r => groups_from r (S i) (add_to_group l i g)
  end.

Definition qubits_by_subsystem (labels : list nat) : list (nat * list nat) := groups_from labels 0 [].

Definition decompose_observables (labels : list nat) (ps : list pauli)
  : list (nat * list nat * list pauli) :=
  map (fun lq => (fst lq, snd lq, map (restrict1 (snd lq)) ps)) (qubits_by_subsystem labels).

(* Recombination (specification side): scatter every group's letters back. *)
Fixpoint scatter (idx : list nat) (vals : list letter) (acc : list letter) : list letter :=
  match idx, vals with
  | i :: ir, v :: vr => scatter ir vr (upd acc i v)
  | _, _ => acc
  end.

Definition recombine1 (n : nat) (groups : list (list nat * pauli)) : list letter :=
  fold_left (fun acc g => scatter (fst g) (plets (snd g)) acc) groups (repeat 0 n).

(* expand_observables(observables, original_circuit, final_circuit).
   Qubit objects are modelled by identity tags (nat); oq / fq are the .qubits lists
   of the two circuits.  find_bit = index of the object in fq. *)
Fixpoint find_all (oq fq : list nat) : option (list nat) :=
  match oq with
  | [] => Some []
  | q :: r => match index_of q fq with
              | None => None
              | Some i => option_map (cons i) (find_all r fq)
              end
  end.

Definition expand1 (m : list nat) (nf : nat) (p : pauli) : pauli :=
  mkP (pphase p) (scatter m (plets p) (repeat 0 nf)).

Definition expand (nobs : nat) (oq fq : list nat) (ps : list pauli) : res (list pauli) :=
  if negb (Nat.eqb nobs (length oq)) then Refused else
  match find_all oq fq with
  | None => Refused
  | Some m => Ok (map (expand1 m (length fq)) ps)
  end.

(* ------------------------------------------------------------------------------------------
   Additions (C17 review follow-up).  Nothing above is changed.
   ------------------------------------------------------------------------------------------ *)

(* observables_restricted_to_subsystem, both input paths.
   PauliList path (aslist = false): o.z[:, qubits] is evaluated even with zero rows, so an
   out-of-range index is an IndexError whatever the number of observables.
   list[Pauli] fallback (aslist = true): [observable[(qubits,)] for observable in ...] never
   evaluates the index when the list is empty -> [] ; otherwise the first element raises. *)
Definition restrict_seq (aslist : bool) (n : nat) (qs : list nat) (ps : list pauli)
  : res (list pauli) :=
  match aslist, ps with
  | true, [] => Ok []
  | _, _ => restrict n qs ps
  end.

(* decompose_observables as a PUBLIC CALL (n = observables.num_qubits): the dict comprehension
   restricts group after group in dict order; the first group holding an index >= n raises
   IndexError (reachable exactly when len(partition_labels) > n, see decompose_call_crash);
   len(partition_labels) < n is not validated by the source: the trailing qubits are dropped. *)
Fixpoint decompose_groups (aslist : bool) (n : nat) (G : list (nat * list nat)) (ps : list pauli)
  : res (list (nat * list nat * list pauli)) :=
  match G with
  | [] => Ok []
  | lq :: r =>
      res_bind (restrict_seq aslist n (snd lq) ps) (fun sub =>
        res_map (cons (fst lq, snd lq, sub)) (decompose_groups aslist n r ps))
  end.

Definition decompose_call (aslist : bool) (n : nat) (labels : list nat) (ps : list pauli)
  : res (list (nat * list nat * list pauli)) :=
  decompose_groups aslist n (qubits_by_subsystem labels) ps.

(* expand_observables: WHICH of the two documented ValueErrors is raised.
   RCount a b  : "The `observables` and `original_circuit` must have the same number of qubits. (a != b)"
   RMissing i  : "The i-th qubit of the `original_circuit` cannot be found in the `final_circuit`."
   The count check comes first; the find_bit loop stops at the first missing qubit. *)
Inductive refusal := RCount (nobs n : nat) | RMissing (i : nat).

Definition refusal_beq (a b : refusal) : bool :=
  match a, b with
  | RCount x y, RCount x' y' => Nat.eqb x x' && Nat.eqb y y'
  | RMissing i, RMissing j => Nat.eqb i j
  | _, _ => false
  end.

Fixpoint first_missing (oq fq : list nat) (i : nat) : option nat :=
  match oq with
  | [] => None
  | q :: r => match index_of q fq with
              | None => Some i
              | Some _ => first_missing r fq (S i)
              end
  end.

Definition expand_refusal (nobs : nat) (oq fq : list nat) : option refusal :=
  if negb (Nat.eqb nobs (length oq)) then Some (RCount nobs (length oq))
  else option_map RMissing (first_missing oq fq 0).

(* Model/Bases.v — executable model of qpd/decompositions.py (qpdbasis_from_instruction and the
   20 registered decomposition functions), mirroring the Python code by hand.  No proofs here.

   * Python `list` objects are cells of a heap (`pheap`, index = identity of the list); a map is a
     pair of cell indices.  In-place edits (`insert(0, g)`, `append(g)`) update a cell, so lists
     shared by several maps are edited once — and a list shared by BOTH sides would be edited by
     both loops, which is exactly what `_copy_unique_sublists` prevents and what the model
     reproduces.  `unique_by_id` = distinct cell indices in first-occurrence order.
   * coefficients are `cexpr` (Common/PolyRing.v) over the named quantities
        cvar 0 = cos θ', cvar 1 = sin θ'   (θ' = theta_prime of the code:
                                            -θ/2 for rxx/ryy/rzz, θ/4 for crx/cry/crz/cp,
                                            ±π/8 for cs/csx resp. csdg/csxdg)
        cvar 2 = 1/sqrt 2
        cvar 3..8 = cos a, sin a, cos b, sin b, cos c, sin c   (Weyl coordinates, KAK path)
     They are data: C15 reuses `pcoeffs`.
   * rotation parameters are symbolic (`ang`): the only θ-dependent gate parameters in the code
     are  -theta = θ/2 = 2θ'  (RX/RY/RZ appended on the target side) and theta/2 = 2θ' (PhaseGate). *)
From Coq Require Import String List QArith.
From CKT Require Import Common.Base Common.PolyRing Common.Ptm.
Import ListNotations.
Close Scope Q_scope.
Open Scope string_scope.
Open Scope list_scope.

Record pbasis : Type := mkPB {
  pheap : list (list op1);        (* heap of Python lists *)
  pmaps : list (nat * nat);       (* (cell of m[0], cell of m[1]) *)
  pcoeffs : list cexpr }.

(* ---------- heap helpers ---------- *)
Fixpoint uniq_ids (seen : list nat) (l : list nat) : list nat :=
  match l with
  | [] => []
  | x :: r => if existsb (Nat.eqb x) seen then uniq_ids seen r else x :: uniq_ids (x :: seen) r
  end.
(* for operations in unique_by_id(m[side] for m in maps): operations := g operations *)
Definition dress (ids : list nat) (g : list op1 -> list op1) (h : list (list op1)) : list (list op1) :=
  fold_left (fun h id => upd h id (g (nth id h []))) (uniq_ids [] ids) h.
Definition dress0 g (b : pbasis) : pbasis := mkPB (dress (map fst (pmaps b)) g (pheap b)) (pmaps b) (pcoeffs b).
Definition dress1 g (b : pbasis) : pbasis := mkPB (dress (map snd (pmaps b)) g (pheap b)) (pmaps b) (pcoeffs b).
Definition ins0 (o : op1) (l : list op1) : list op1 := o :: l.           (* insert(0, o) *)
Definition app1 (o : op1) (l : list op1) : list op1 := l ++ [o].         (* append(o)    *)
Definition nonempty (l : list op1) : bool := match l with [] => false | _ => true end.

(* _copy_unique_sublists applied to the second components: every distinct cell is copied once *)
Fixpoint copy_cells (h : list (list op1)) (done : list (nat * nat)) (ids : list nat) : list (list op1) * list nat :=
  match ids with
  | [] => (h, [])
  | x :: r =>
      match find (fun p => Nat.eqb (fst p) x) done with
      | Some p => let '(h', out) := copy_cells h done r in (h', snd p :: out)
      | None => let n := length h in
                let '(h', out) := copy_cells (h ++ [nth x h []]) ((x, n) :: done) r in (h', n :: out)
      end
  end.

(* the basis as a plain list of terms (what QPDBasis.maps / .coeffs expose) *)
Definition resolve (b : pbasis) : list term :=
  map (fun mc => (snd mc, nth (fst (fst mc)) (pheap b) [], nth (snd (fst mc)) (pheap b) []))
      (combine (pmaps b) (pcoeffs b)).

(* ---------- rxx ryy rzz crx cry crz ---------- *)
Inductive axis : Type := AxX | AxY | AxZ.
Definition ecs : cexpr := CMul eC eS.                                   (* cs_theta_prime *)
Definition family_coeffs : list cexpr :=
  [CMul eC eC; CMul eS eS; COpp ecs; ecs; COpp ecs; ecs].

Definition family_basis (ax : axis) (controlled : bool) : pbasis :=
  let '(pauli, r_plus, r_minus, meas0) :=
    match ax with
    | AxX => (OX, OSX, OSXdg, [OH; OMeas; OH])
    | AxY => (OY, ORY HalfPiP, ORY HalfPiM, [OSX; OMeas; OSXdg])
    | AxZ => (OZ, OS, OSdg, [OMeas])
    end in
  (* cells: 0 measurement_0, 1 measurement_1 = measurement_0.copy(), then the literals of `maps` *)
  let heap := [meas0; meas0; []; []; [pauli]; [pauli]; [r_plus]; [r_minus]; [r_plus]; [r_minus]] in
  let maps := [(2, 3); (4, 5); (0, 6); (0, 7); (8, 1); (9, 1)] in
  let b := mkPB heap maps family_coeffs in
  if controlled then
    let g0 (ops : list op1) :=
      match ax with
      | AxZ => ops
      | AxX => if nonempty ops then app1 OH (ins0 OH ops) else ops
      | AxY => if nonempty ops then app1 OH (ins0 OH (app1 OSdg (ins0 OS ops))) else ops
      end in
    let rot := match ax with AxX => ORX Th2P | AxY => ORY Th2P | AxZ => ORZ Th2P end in
    dress1 (app1 rot) (dress0 g0 b)
  else b.

(* ---------- cx cy cz ch ---------- *)
Inductive cxkind : Type := KCX | KCY | KCZ | KCH.
Definition cx_coeffs : list cexpr := [eh; eh; eh; emh; eh; emh].
Definition cx_basis (k : cxkind) : pbasis :=
  let meas0 := [OSdg; OMeas] in
  let heap := [meas0; meas0; [OSdg]; [OSdg]; [OS]; [OS]; []; [OZ]; []; [OZ]] in
  let maps := [(2, 3); (4, 5); (0, 6); (0, 7); (8, 1); (9, 1)] in
  let b := mkPB heap maps cx_coeffs in
  let g1 (ops : list op1) :=
    if nonempty ops then
      match k with
      | KCZ => ops
      | KCX => app1 OH (ins0 OH ops)
      | KCY => app1 OS (ins0 OSdg (app1 OH (ins0 OH ops)))
      | KCH => app1 (ORY QuartPiP) (ins0 (ORY QuartPiM) ops)
      end
    else ops in
  match k with KCZ => b | _ => dress1 g1 b end.

(* ---------- move ---------- *)
Definition move_coeffs : list cexpr := [eh; eh; eh; emh; eh; emh; eh; emh].
Definition move_basis : pbasis :=
  let heap := [[OReset]; [OH; OMeas; OReset]; [OSX; OMeas; OReset]; [OMeas; OReset];
               [OReset]; [OReset; OX]; [OReset; OH]; [OReset; OX; OH]; [OReset; OSXdg]; [OReset; OX; OSXdg]] in
  mkPB heap [(0, 4); (0, 5); (1, 6); (1, 7); (2, 8); (2, 9); (3, 4); (3, 5)] move_coeffs.

(* ---------- _nonlocal_qpd_basis_from_u ---------- *)
Definition re (q : Q) (z : cxe) : cexpr := CMul (CQ q) (fst z).      (* q * np.real(z) *)
Definition im (q : Q) (z : cxe) : cexpr := CMul (CQ q) (snd z).      (* q * np.imag(z) *)

(* cell numbering of the named lists *)
Definition nl_heap : list (list op1) :=
  let A0x := [OH; OMeas; OH] in let A0y := [OSX; OMeas; OSXdg] in let A0z := [OMeas] in
  let Axyp := [OS; OY] in let Ayzp := [OSX; OZ] in let Azxp := [OH] in
  [ A0x; A0y; A0z;                                   (* 0 1 2 *)
    Axyp; OZ :: Axyp; Ayzp; OX :: Ayzp; Azxp; OY :: Azxp;    (* 3 Axyp 4 Axym 5 Ayzp 6 Ayzm 7 Azxp 8 Azxm *)
    [OSX]; [OSXdg]; [ORY HalfPiP]; [ORY HalfPiM]; [OS]; [OSdg];   (* 9 B0xp 10 B0xm 11 B0yp 12 B0ym 13 B0zp 14 B0zm *)
    A0z ++ [OX]; A0x ++ [OY]; A0y ++ [OZ];            (* 15 Bxy 16 Byz 17 Bzx *)
    []; []; [OX]; [OX]; [OY]; [OY]; [OZ]; [OZ] ].     (* 18..25: the literals of the first line *)

Definition nonlocal_basis (u : list cxe) : pbasis :=
  let u0 := nth 0 u z0 in let u1 := nth 1 u z0 in let u2 := nth 2 u z0 in let u3 := nth 3 u z0 in
  let uu01 := cmulE u0 (cconjE u1) in let uu02 := cmulE u0 (cconjE u2) in
  let uu03 := cmulE u0 (cconjE u3) in let uu12 := cmulE u1 (cconjE u2) in
  let uu23 := cmulE u2 (cconjE u3) in let uu31 := cmulE u3 (cconjE u1) in
  let A0x := 0 in let A0y := 1 in let A0z := 2 in let Axyp := 3 in let Axym := 4 in
  let Ayzp := 5 in let Ayzm := 6 in let Azxp := 7 in let Azxm := 8 in
  let B0xp := 9 in let B0xm := 10 in let B0yp := 11 in let B0ym := 12 in let B0zp := 13 in let B0zm := 14 in
  let Bxy := 15 in let Byz := 16 in let Bzx := 17 in
  let rows : list (cexpr * nat * nat) :=
    [ (abs2E u0, 18, 19); (abs2E u1, 20, 21); (abs2E u2, 22, 23); (abs2E u3, 24, 25);
      (re 2 uu01, A0x, A0x); (re 2 uu02, A0y, A0y); (re 2 uu03, A0z, A0z);
      (re (1#2) uu12, Axyp, Axyp); (re (-1#2) uu12, Axyp, Axym); (re (-1#2) uu12, Axym, Axyp); (re (1#2) uu12, Axym, Axym);
      (re (1#2) uu23, Ayzp, Ayzp); (re (-1#2) uu23, Ayzp, Ayzm); (re (-1#2) uu23, Ayzm, Ayzp); (re (1#2) uu23, Ayzm, Ayzm);
      (re (1#2) uu31, Azxp, Azxp); (re (-1#2) uu31, Azxp, Azxm); (re (-1#2) uu31, Azxm, Azxp); (re (1#2) uu31, Azxm, Azxm);
      (re (-1#2) uu01, B0xp, B0xp); (re (1#2) uu01, B0xp, B0xm); (re (1#2) uu01, B0xm, B0xp); (re (-1#2) uu01, B0xm, B0xm);
      (re (-1#2) uu02, B0yp, B0yp); (re (1#2) uu02, B0yp, B0ym); (re (1#2) uu02, B0ym, B0yp); (re (-1#2) uu02, B0ym, B0ym);
      (re (-1#2) uu03, B0zp, B0zp); (re (1#2) uu03, B0zp, B0zm); (re (1#2) uu03, B0zm, B0zp); (re (-1#2) uu03, B0zm, B0zm);
      (re (-2) uu12, Bxy, Bxy); (re (-2) uu23, Byz, Byz); (re (-2) uu31, Bzx, Bzx);
      (im 1 uu01, A0x, B0xp); (im (-1) uu01, A0x, B0xm); (im 1 uu01, B0xp, A0x); (im (-1) uu01, B0xm, A0x);
      (im 1 uu02, A0y, B0yp); (im (-1) uu02, A0y, B0ym); (im 1 uu02, B0yp, A0y); (im (-1) uu02, B0ym, A0y);
      (im 1 uu03, A0z, B0zp); (im (-1) uu03, A0z, B0zm); (im 1 uu03, B0zp, A0z); (im (-1) uu03, B0zm, A0z);
      (im 1 uu12, Axyp, Bxy); (im (-1) uu12, Axym, Bxy); (im 1 uu12, Bxy, Axyp); (im (-1) uu12, Bxy, Axym);
      (im 1 uu23, Ayzp, Byz); (im (-1) uu23, Ayzm, Byz); (im 1 uu23, Byz, Ayzp); (im (-1) uu23, Byz, Ayzm);
      (im 1 uu31, Azxp, Bzx); (im (-1) uu31, Azxm, Bzx); (im 1 uu31, Bzx, Azxp); (im (-1) uu31, Bzx, Azxm) ] in
  let maps1 := map (fun r => snd (fst r)) rows in
  let maps2 := map snd rows in
  let '(heap', maps2') := copy_cells nl_heap [] maps2 in       (* _copy_unique_sublists(maps2) *)
  mkPB heap' (combine maps1 maps2') (map (fun r => fst (fst r)) rows).

(* ---------- _u_from_thetavec ---------- *)
(* exp(i·(sa·a + sb·b + sc·c)) for signs in {+1,-1}, as a product of unit complex numbers *)
Definition expi_signed (sa sb sc : bool) : cxe :=
  let e := fun (vc vs : nat) (pos : bool) => (CV vc, if pos then CV vs else COpp (CV vs)) in
  cmulE (cmulE (e vCa vSa sa) (e vCb vSb sb)) (e vCc vSc sc).
Definition eig_signs : list (bool * bool * bool) :=
  [(false, false, false);       (* -(a+b+c)   *)
   (false, true, true);         (* -a + b + c *)
   (true, false, true);         (* -b + c + a *)
   (true, true, false)].        (* -c + a + b *)
Definition eigvec (k al : nat) : Q := if Nat.eqb k al then (-1 # 2)%Q else (1 # 2)%Q.   (* ones/2 - eye *)
Definition u_from_thetavec : list cxe :=
  map (fun al =>
         fold_right caddE z0
           (map (fun k => let '(sa, sb, sc) := nth k eig_signs (true, true, true) in
                          cscaleE (Qmult (eigvec k al) (eigvec k 0)) (expi_signed sa sb sc))
                [0; 1; 2; 3]))
      [0; 1; 2; 3].

(* ---------- the registry ---------- *)
Definition u_swap : list cxe := let z := (CMul eh eR, CMul eh eR) in [z; z; z; z].     (* (1+1j)/sqrt(8) *)
Definition u_iswap : list cxe := [zre eh; zim eh; zim eh; zre eh].

(* what the model needs to know about the instruction *)
Record gdesc : Type := mkG {
  g_name : string;
  g_is_gate : bool;          (* isinstance(gate, Gate) *)
  g_nq : nat;                (* gate.num_qubits *)
  g_param_ok : bool;         (* float(gate.params[0]) succeeds (no unbound parameter) *)
  g_matrix_ok : bool;        (* gate.to_matrix() succeeds *)
  g_has_param : bool }.      (* gate.params is non-empty (gate.params[0] exists) *)

Definition registered : list string :=
  ["swap"; "iswap"; "dcx"; "rxx"; "ryy"; "rzz"; "crx"; "cry"; "crz"; "cs"; "csdg"; "cp"; "csx"; "csxdg";
   "cx"; "cy"; "cz"; "ch"; "ecr"; "move"].

Definition ecr_basis : pbasis :=
  dress1 (ins0 OSX) (dress0 (fun ops => app1 OX (ins0 OS ops)) (cx_basis KCX)).
Definition dcx_basis : pbasis :=
  dress1 (fun ops => app1 OH (ins0 OSdg ops))
    (dress0 (fun ops => ins0 OH (ins0 OSdg ops)) (nonlocal_basis u_iswap)).
(* KAK path: OU 0 = K2r, OU 1 = K1r (qubit 0), OU 2 = K2l, OU 3 = K1l (qubit 1) *)
Definition kak_dress (b : pbasis) : pbasis :=
  dress1 (fun ops => app1 (OU 3) (ins0 (OU 2) ops)) (dress0 (fun ops => app1 (OU 1) (ins0 (OU 0) ops)) b).
Definition kak_basis : pbasis := kak_dress (nonlocal_basis u_from_thetavec).

Definition theta_guard (g : gdesc) (b : pbasis) : res pbasis :=
  if negb (g_has_param g) then Crashed          (* gate.params[0]: IndexError, not caught *)
  else if g_param_ok g then Ok b else Refused.  (* _theta_from_instruction: TypeError -> ValueError *)

Definition basis_of (g : gdesc) : res pbasis :=
  let n := g_name g in
  if n =? "swap" then Ok (nonlocal_basis u_swap)
  else if n =? "iswap" then Ok (nonlocal_basis u_iswap)
  else if n =? "dcx" then Ok dcx_basis
  else if n =? "rxx" then theta_guard g (family_basis AxX false)
  else if n =? "ryy" then theta_guard g (family_basis AxY false)
  else if n =? "rzz" then theta_guard g (family_basis AxZ false)
  else if n =? "crx" then theta_guard g (family_basis AxX true)
  else if n =? "cry" then theta_guard g (family_basis AxY true)
  else if n =? "crz" then theta_guard g (family_basis AxZ true)
  else if n =? "cs" then Ok (dress0 (ins0 OT) (family_basis AxZ true))
  else if n =? "csdg" then Ok (dress0 (ins0 OTdg) (family_basis AxZ true))
  else if n =? "cp" then theta_guard g (dress0 (ins0 (OP Th2P)) (family_basis AxZ true))
  else if n =? "csx" then Ok (dress0 (ins0 OT) (family_basis AxX true))
  else if n =? "csxdg" then Ok (dress0 (ins0 OTdg) (family_basis AxX true))
  else if n =? "cx" then Ok (cx_basis KCX)
  else if n =? "cy" then Ok (cx_basis KCY)
  else if n =? "cz" then Ok (cx_basis KCZ)
  else if n =? "ch" then Ok (cx_basis KCH)
  else if n =? "ecr" then Ok ecr_basis
  else if n =? "move" then Ok move_basis
  else if g_is_gate g && Nat.eqb (g_nq g) 2 then
    if g_matrix_ok g then Ok kak_basis else Refused
  else Refused.

Definition basis_terms (name : string) : list term :=
  match basis_of (mkG name true 2 true true true) with Ok b => resolve b | _ => [] end.

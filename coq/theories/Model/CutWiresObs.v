(* Model/CutWiresObs.v — vocabulary for the observable clauses of C03 (new file; Model/CutWires.v is shared with C19
   and left untouched).  No proofs here (Proofs/CutWiresObsP.v).

   reading s lets : what a Pauli string reads on a symbolic (Herbrand) state: the (letter, wire term) pairs of its
   non-identity positions, in position order.  Identity positions are traced out and do not enter.  Every
   expectation-value functional that respects the wire-history semantics (modelling assumption M1) is a function of
   this reading, the classical bits and the phase:  expect ev s p.

   move_cq : the coefficient list of the Move basis (qpd/decompositions.py, C02's move_coeffs evaluated over Q). *)
From Coq Require Import QArith.
From CKT Require Import Common.Base Common.Circ Common.Herbrand Model.Observables Model.CutWires.
Close Scope Q_scope.

Definition reading (s : hstate) (lets : list letter) : list (letter * wt) :=
  flat_map (fun j => if Nat.eqb (nth j lets 0) 0 then [] else [(nth j lets 0, wire s j)]) (seq 0 (length lets)).

Definition expect {A : Type} (ev : list (letter * wt) -> list ct -> nat -> A) (s : hstate) (p : pauli) : A :=
  ev (reading s (plets p)) (hc s) (pphase p).

(* the observables expanded onto the result, as the model of expand_observables places them *)
Definition expanded (nq : nat) (c : circ) (ps : list pauli) : list pauli :=
  map (expand1 (map (final_position c) (seq 0 nq)) (nq + count_markers c)) ps.

Definition pI0 : pauli := mkP 0 [].

Definition move_cq : list Q := [1 # 2; 1 # 2; 1 # 2; - (1 # 2); 1 # 2; - (1 # 2); 1 # 2; - (1 # 2)]%Q.
(* one coefficient list per marker, in circuit order: the `bases` of partition_problem on cut_wires' output *)
Definition move_cuts (c : circ) : list (list Q) := repeat move_cq (count_markers c).

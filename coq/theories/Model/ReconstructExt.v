(* Model/ReconstructExt.v — additions of the correction round to Model/Reconstruct.v (kept in a
   separate file because other properties import Model/Reconstruct.v): definitions only.
     - locs_ok_ne : locs_ok AND every lookup list non-empty (np.mean([]) is nan, not 0);
     - merge_dist / merge_data : the DICT-shaped V1 description of a list of (key, weight) entries —
       entries whose keys denote the same integer are one dict entry whose weight is the sum;
     - den_of : the integer a key denotes under the parser (0 for a rejected key). *)
From Coq Require Import QArith Ascii String.
From CKT Require Import Common.Base Model.Reconstruct.
Close Scope Q_scope.
Open Scope nat_scope.

Definition locs_ok_ne (p : part) : Prop :=
  locs_ok p /\ forall locs, In locs (plookup p) -> locs <> [].

Definition den_of (pyint0 : list ascii -> option N) (k : key) : N :=
  match outcome_to_int pyint0 k with Some n => n | None => 0%N end.

(* acc[o] = acc.get(o, 0) + p   on an insertion-ordered dict *)
Fixpoint merge_add (o : N) (p : Q) (acc : list (N * Q)) : list (N * Q) :=
  match acc with
  | [] => [(o, p)]
  | (o', p') :: r => if N.eqb o o' then (o', (p' + p)%Q) :: r else (o', p') :: merge_add o p r
  end.

Definition merge_ints (l : list (N * Q)) : list (N * Q) :=
  fold_left (fun acc op => merge_add (fst op) (snd op) acc) l [].

Fixpoint parse_all (pyint0 : list ascii -> option N) (qd : list (key * Q)) : option (list (N * Q)) :=
  match qd with
  | [] => Some []
  | (k, p) :: r =>
      match outcome_to_int pyint0 k, parse_all pyint0 r with
      | Some o, Some l => Some ((o, p) :: l)
      | _, _ => None
      end
  end.

(* the dict {int(key): summed weight}; a distribution holding a rejected key is left alone *)
Definition merge_dist (pyint0 : list ascii -> option N) (qd : list (key * Q)) : list (key * Q) :=
  match parse_all pyint0 qd with
  | Some l => map (fun op => (KInt (fst op), snd op)) (merge_ints l)
  | None => qd
  end.

Definition merge_data (pyint0 : list ascii -> option N) (d : pdata) : pdata :=
  match d with DV1 qds => DV1 (map (merge_dist pyint0) qds) | DV2 p => DV2 p end.

(* every V1 distribution has pairwise distinct integer keys — what a dict can hold *)
Definition dict_shaped (d : pdata) : Prop :=
  match d with
  | DV1 qds => forall qd, In qd qds -> exists l, qd = map (fun op => (KInt (fst op), snd op)) l /\ NoDup (map fst l)
  | DV2 _ => True
  end.

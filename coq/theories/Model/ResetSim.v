(* Model/ResetSim.v — a CONCRETE semantics for circuits of gates, measurements, resets and barriers:
   exact state-vector branch simulation (Common/QSim.v), used to discharge the Herbrand modelling
   assumption M1 for the reset passes whose proof is a state-by-state argument
   (_consolidate_resets, _remove_resets_in_zero_state).  Definitions only.

   A branch is (classical register, UNNORMALISED state vector); its Born weight is the squared norm.
     gate        : the vector is transformed
     barrier     : nothing
     measure q c : two branches, projected on q = 0 / q = 1, bit c written
     reset q     : two branches, projected on q = 0, and projected on q = 1 then flipped back to 0
   Branches whose vector is identically zero have weight 0 and are dropped by [clean]. *)
From Coq Require Import QArith.
From CKT Require Import Common.Base Common.Circ Common.QSim Model.ResetPasses.
Close Scope Q_scope.

Section BranchSem.
  Variable state : Type.
  Variable apply : nat -> list nat -> state -> state.   (* interpretation of [Gate g] on its qubits *)
  Variable proj : state -> nat -> bool -> state.
  Variable flipx : state -> nat -> state.
  Variable szero : state -> bool.

  Definition branch := (list bool * state)%type.

  Definition bstep (x : instr) (b : branch) : list branch :=
    match iop x with
    | Gate g => [(fst b, apply g (iqs x) (snd b))]
    | Measure =>
        match iqs x, ics x with
        | q :: _, c :: _ => [(upd (fst b) c false, proj (snd b) q false); (upd (fst b) c true, proj (snd b) q true)]
        | _, _ => [b]
        end
    | Reset =>
        match iqs x with
        | q :: _ => [(fst b, proj (snd b) q false); (fst b, flipx (proj (snd b) q true) q)]
        | [] => [b]
        end
    | _ => [b]       (* Barrier; everything else is outside [simple] *)
    end.

  Definition bsteps (x : instr) (l : list branch) : list branch := flat_map (bstep x) l.
  Definition brun (c : circ) (l : list branch) : list branch := fold_left (fun l x => bsteps x l) c l.
  Definition clean (l : list branch) : list branch := filter (fun b => negb (szero (snd b))) l.
End BranchSem.

Arguments bstep {state} apply proj flipx x b.
Arguments bsteps {state} apply proj flipx x l.
Arguments brun {state} apply proj flipx c l.
Arguments clean {state} szero l.

(* the property's quantifier: gates, mid-circuit measurements, resets and barriers *)
Definition simple_instr (x : instr) : bool :=
  match iop x with Gate _ | Barrier _ | Measure | Reset => true | _ => false end.
Definition simple (c : circ) : bool := forallb simple_instr c.

(* ---- the QSim instance ---- *)
Definition amp_is_azero (a : amp) : bool :=
  match a with
  | ((Qmake 0 1, Qmake 0 1), (Qmake 0 1, Qmake 0 1)) => true
  | _ => false
  end.
Definition vec_is_zero (v : vec) : bool := forallb amp_is_azero v.

(* [gi]: which interned gate id is which QSim gate (ids without an entry act as the identity) *)
Definition qgapply (gi : nat -> option qgate) (g : nat) (qs : list nat) (v : vec) : vec :=
  match gi g with Some qg => qapply qg qs v | None => v end.

Definition qbrun (gi : nat -> option qgate) (nq nc : nat) (c : circ) : list (list bool * vec) :=
  clean vec_is_zero (brun (qgapply gi) qproj qflipx c [(repeat false nc, init_vec nq)]).

(* Born law carried by a branch list: (register, squared norm) per branch *)
Definition qlaw (l : list (list bool * vec)) : list (list bool * q2) := map (fun b => (fst b, norm2 (snd b))) l.

(* ---- vocabulary of the statements about the concrete semantics (added; nothing above changed) ---- *)

(* every gate of the circuit has an interpretation of the right arity (an id without entry, or a wrong
   arity, would silently act as the identity in [qgapply]/[qapply]) *)
Definition qarity (g : qgate) : nat :=
  match g with Gcx | Gcz | Gswap => 2 | Gccx => 3 | _ => 1 end.
Definition interpreted (gi : nat -> option qgate) (c : circ) : bool :=
  forallb (fun x => match iop x with
                    | Gate g => match gi g with Some qg => Nat.eqb (qarity qg) (length (iqs x)) | None => false end
                    | _ => true
                    end) c.

(* in v, qubit q is |0> and unentangled: v is supported where bit q = 0 *)
Definition qZ (q : nat) (v : vec) : Prop := forall i, Nat.testbit i q = true -> vget v i = azero.

(* the ten algebraic laws under which the two state-by-state reset passes are correct in a branch semantics
   (Proofs/ResetSimP.v).  [Zq q s]: in s, qubit q is |0> and unentangled. *)
Record reset_laws {state : Type} (apply : nat -> list nat -> state -> state) (proj : state -> nat -> bool -> state)
       (flipx : state -> nat -> state) (szero : state -> bool) (Zq : nat -> state -> Prop) : Prop := {
  rl_proj0_id : forall q s, Zq q s -> proj s q false = s;
  rl_proj1_zero : forall q s, Zq q s -> szero (flipx (proj s q true) q) = true;
  rl_reset_Z0 : forall q s, Zq q (proj s q false);
  rl_reset_Z1 : forall q s, Zq q (flipx (proj s q true) q);
  rl_apply_Z : forall g qs q s, ~ In q qs -> Zq q s -> Zq q (apply g qs s);
  rl_proj_Z : forall q q' b s, q <> q' -> Zq q s -> Zq q (proj s q' b);
  rl_flipx_Z : forall q q' s, q <> q' -> Zq q s -> Zq q (flipx s q');
  rl_zero_apply : forall g qs s, szero s = true -> szero (apply g qs s) = true;
  rl_zero_proj : forall s q b, szero s = true -> szero (proj s q b) = true;
  rl_zero_flipx : forall s q, szero s = true -> szero (flipx s q) = true
}.

(* the instructions _remove_final_resets deletes, in program order (the scan collects indices from the end) *)
Definition final_removed (nq : nat) (c : circ) : circ :=
  rev (map (fun i => nth i c dummy_instr) (final_scan (repeat true nq) (length c) 0 (rev c))).

(* commutation laws of a branch semantics: the two halves of a reset of q (project, flip back) commute with
   everything that acts on other qubits *)
Record commute_laws {state : Type} (apply : nat -> list nat -> state -> state) (proj : state -> nat -> bool -> state)
       (flipx : state -> nat -> state) : Prop := {
  cl_proj_apply : forall g qs q b s, ~ In q qs -> proj (apply g qs s) q b = apply g qs (proj s q b);
  cl_flipx_apply : forall g qs q s, ~ In q qs -> flipx (apply g qs s) q = apply g qs (flipx s q);
  cl_proj_proj : forall q q' b b' s, q <> q' -> proj (proj s q' b') q b = proj (proj s q b) q' b';
  cl_flipx_proj : forall q q' b' s, q <> q' -> flipx (proj s q' b') q = proj (flipx s q) q' b';
  cl_flipx_flipx : forall q q' s, q <> q' -> flipx (flipx s q') q = flipx (flipx s q) q'
}.

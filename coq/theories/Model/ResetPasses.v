(* Model/ResetPasses.v — executable model of the reset optimisations
     cutting_experiments.py        : _consolidate_resets, _remove_resets_in_zero_state, _remove_final_resets
     utils/transpiler_passes.py    : RemoveFinalReset.run, ConsolidateResets.run  (wire level)
   No proofs here (Proofs/ResetPassesP.v).

   A circuit is its instruction list (Common/Circ.v); [nq] = circuit.num_qubits.
   qargs = [find_bit(q).index for q in inst.qubits] = [iqs];  "inst.operation.name == 'reset'" = [is_reset].
   Barriers and measurements are ordinary non-reset instructions for all five passes. *)
From CKT Require Import Common.Base Common.Circ.

(* qargs[0] of a reset *)
Definition rq (x : instr) : nat := hd 0 (iqs x).

(* for q in qargs: flags[q] = v *)
Definition set_flags (f : list bool) (qs : list nat) (v : bool) : list bool :=
  fold_left (fun f q => upd f q v) qs f.

(* sorted(remove_ids, reverse=True): insertion sort, descending *)
Fixpoint insert_desc (x : nat) (l : list nat) : list nat :=
  match l with
  | [] => [x]
  | y :: r => if Nat.leb y x then x :: l else y :: insert_desc x r
  end.
Fixpoint sort_desc (l : list nat) : list nat :=
  match l with [] => [] | x :: r => insert_desc x (sort_desc r) end.

(* for i in sorted(remove_ids, reverse=True): del circuit.data[i] *)
Definition delete_ids (c : circ) (ids : list nat) : circ :=
  fold_left (@delete_at instr) (sort_desc ids) c.

(* ---------------------------------------------------------------------------------------
   _consolidate_resets:
     resets = [False] * num_qubits
     for i, inst in enumerate(data):
         if reset:  if resets[q0]: remove_ids.append(i)  else: resets[q0] = True
         else:      for q in qargs: resets[q] = False                                        *)
Fixpoint consolidate_scan (resets : list bool) (i : nat) (c : circ) : list nat :=
  match c with
  | [] => []
  | x :: r =>
      if is_reset x then
        if nth (rq x) resets false then i :: consolidate_scan resets (S i) r
        else consolidate_scan (upd resets (rq x) true) (S i) r
      else consolidate_scan (set_flags resets (iqs x) false) (S i) r
  end.

Definition consolidate_resets (nq : nat) (c : circ) : circ :=
  delete_ids c (consolidate_scan (repeat false nq) 0 c).

(* ---------------------------------------------------------------------------------------
   _remove_resets_in_zero_state:
     active_qubits = set()
     for i, inst in enumerate(data):
         if reset:  if q0 not in active: remove_ids.append(i)
         else:      active.update(qargs);  if len(active) == num_qubits: break      (EARLY EXIT)
   the set is a flag list of length num_qubits; len(set) = number of raised flags. *)
Definition count_true (f : list bool) : nat := length (filter (fun b : bool => b) f).

Fixpoint zero_scan (active : list bool) (nq i : nat) (c : circ) : list nat :=
  match c with
  | [] => []
  | x :: r =>
      if is_reset x then
        if nth (rq x) active false then zero_scan active nq (S i) r
        else i :: zero_scan active nq (S i) r
      else
        let active' := set_flags active (iqs x) true in
        if Nat.eqb (count_true active') nq then [] else zero_scan active' nq (S i) r
  end.

Definition remove_resets_in_zero_state (nq : nat) (c : circ) : circ :=
  delete_ids c (zero_scan (repeat false nq) nq 0 c).

(* ---------------------------------------------------------------------------------------
   _remove_final_resets:
     qubit_ended = set(range(num_qubits));  num_inst = len(data)
     for i, inst in enumerate(reversed(data)):
         if reset:  if q0 in ended: remove_ids.append(num_inst - 1 - i)
         else:      ended.discard(qargs...);  if not ended: break                   (EARLY EXIT)
   [rc] is reversed(data). *)
Fixpoint final_scan (ended : list bool) (num_inst i : nat) (rc : circ) : list nat :=
  match rc with
  | [] => []
  | x :: r =>
      if is_reset x then
        if nth (rq x) ended false then (num_inst - 1 - i) :: final_scan ended num_inst (S i) r
        else final_scan ended num_inst (S i) r
      else
        let ended' := set_flags ended (iqs x) false in
        if Nat.eqb (count_true ended') 0 then [] else final_scan ended' num_inst (S i) r
  end.

Definition remove_final_resets (nq : nat) (c : circ) : circ :=
  delete_ids c (final_scan (repeat true nq) (length c) 0 (rev c)).

(* the qubits whose trailing reset(s) the pass drops (q0 of every removed instruction) *)
Definition final_dropped (nq : nat) (c : circ) : list nat :=
  map (fun i => rq (nth i c (mkI (Barrier None) [] [])))
      (final_scan (repeat true nq) (length c) 0 (rev c)).

(* the pipeline of generate_cutting_experiments (cutting_experiments.py:166-169) *)
Definition optimise_resets (nq : nat) (c : circ) : circ :=
  consolidate_resets nq (remove_final_resets nq (remove_resets_in_zero_state nq c)).

(* all reset-pass call sites of generate_cutting_experiments on one subexperiment
   (cutting_experiments.py:156-159 and 166-169).  [c] is the subexperiment as it would be WITHOUT any
   reset optimisation.  When the observable group is the identity on this subsystem
   ([placeholder] = not cog.pauli_indices) the only measurement appended is the placeholder
   `measure q0 -> observable_measurements[0]` (outcome ignored by reconstruction), and
   _remove_final_resets already runs BEFORE it is appended. *)
Definition subexperiment_resets (nq : nat) (placeholder : bool) (c : circ) : circ :=
  optimise_resets nq
    (if placeholder
     then remove_final_resets nq (removelast c) ++ [last c (mkI (Barrier None) [] [])]
     else c).

(* ---------------------------------------------------------------------------------------
   DAG passes, at wire level.  The DAG of a circuit has one op node per instruction and, for every
   qubit wire, the chain of the instructions acting on that qubit in program order between the
   wire's input and output node.  The model keeps the instruction LIST (program order) and reads
   predecessor/successor on a wire off the list; PassManager's circuit->DAG->circuit round trip
   may permute independent instructions, therefore the correspondence compares per wire. *)
Definition on_wire (q : nat) (x : instr) : bool := existsb (Nat.eqb q) (iqs x).
Definition dummy_instr : instr := mkI (Barrier None) [] [].

(* index of the last instruction on wire q = predecessor of the wire's output node
   (None: the predecessor is the input node) *)
Fixpoint last_on_wire_from (q i : nat) (c : circ) (acc : option nat) : option nat :=
  match c with
  | [] => acc
  | x :: r => last_on_wire_from q (S i) r (if on_wire q x then Some i else acc)
  end.
Definition last_on_wire (q : nat) (c : circ) : option nat := last_on_wire_from q 0 c None.

(* RemoveFinalReset.run, one wire:
     pred = next(dag.predecessors(output_node))
     if isinstance(pred, DAGOpNode) and isinstance(pred.op, Reset): dag.remove_op_node(pred) *)
Definition rfr_wire (c : circ) (q : nat) : circ :=
  match last_on_wire q c with
  | Some i => if is_reset (nth i c dummy_instr) then delete_at c i else c
  | None => c
  end.

(* one run: for output_node in dag.output_map.values(): if the wire is a Qubit: ...
   (at most ONE reset per wire per run) *)
Definition dag_remove_final_reset (nq : nat) (c : circ) : circ :=
  fold_left rfr_wire (seq 0 nq) c.

(* the qubits on which one run removes a reset *)
Fixpoint dag_rfr_dropped_from (c : circ) (qs : list nat) : list nat :=
  match qs with
  | [] => []
  | q :: r =>
      let c' := rfr_wire c q in
      if Nat.eqb (length c') (length c) then dag_rfr_dropped_from c' r
      else q :: dag_rfr_dropped_from c' r
  end.
Definition dag_rfr_dropped (nq : nat) (c : circ) : list nat := dag_rfr_dropped_from c (seq 0 nq).

(* DoWhileController([RemoveFinalReset(), DAGFixedPoint()], do_while = not dag_fixed_point):
   repeat the run until it leaves the DAG unchanged.  Fuel = number of instructions + 1
   (Proofs: always enough). *)
Fixpoint iter_fix (fuel : nat) (f : circ -> circ) (c : circ) : circ :=
  match fuel with
  | O => c
  | S k => let c' := f c in if circ_beq c' c then c else iter_fix k f c'
  end.
Definition dag_remove_final_reset_fix (nq : nat) (c : circ) : circ :=
  iter_fix (S (length c)) (dag_remove_final_reset nq) c.

(* ConsolidateResets.run:
     for reset in dag.op_nodes(Reset):            (program order; all of them, listed up front)
         successor = next(dag.successors(reset))  (next instruction on the reset's wire, or the output node)
         if isinstance(successor, DAGOpNode) and isinstance(successor.op, Reset): dag.remove_op_node(reset)
   When a reset is examined everything after it in program order is still untouched, and removing
   an earlier node never changes what follows a later one: the forward recursion is the loop. *)
Definition next_on_wire (q : nat) (r : circ) : option instr := find (on_wire q) r.

Fixpoint dag_consolidate_resets (c : circ) : circ :=
  match c with
  | [] => []
  | x :: r =>
      if is_reset x &&
         match next_on_wire (rq x) r with Some y => is_reset y | None => false end
      then dag_consolidate_resets r
      else x :: dag_consolidate_resets r
  end.

(* ---------------------------------------------------------------------------------------
   Vocabulary of the property statements *)

(* [del_resets c c']: c' is c with some Reset instructions deleted; every other instruction is
   kept, in order *)
Inductive del_resets : circ -> circ -> Prop :=
| dr_nil : del_resets [] []
| dr_keep x c c' : del_resets c c' -> del_resets (x :: c) (x :: c')
| dr_drop x c c' : is_reset x = true -> del_resets c c' -> del_resets (x :: c) c'.

(* per-wire projections: the instruction sequence seen by qubit q / clbit k *)
Definition proj_q (q : nat) (c : circ) : circ := filter (on_wire q) c.
Definition proj_c (k : nat) (c : circ) : circ := filter (fun x => existsb (Nat.eqb k) (ics x)) c.
Definition non_resets (c : circ) : circ := filter (fun x => negb (is_reset x)) c.

(* well-formedness: indices in range; Reset = one qubit, no clbit; Measure = one qubit, one clbit *)
Definition wf_instr (nq nc : nat) (x : instr) : bool :=
  forallb (fun q => Nat.ltb q nq) (iqs x) && forallb (fun k => Nat.ltb k nc) (ics x) &&
  match iop x with
  | Reset => Nat.eqb (length (iqs x)) 1 && Nat.eqb (length (ics x)) 0
  | Measure => Nat.eqb (length (iqs x)) 1 && Nat.eqb (length (ics x)) 1
  | _ => true
  end.
Definition wf (nq nc : nat) (c : circ) : bool := forallb (wf_instr nq nc) c.

(* last instruction on wire q is a reset *)
Definition ends_in_reset (q : nat) (c : circ) : bool :=
  match last_on_wire q c with Some i => is_reset (nth i c dummy_instr) | None => false end.

(* Model/Heap.v — object-heap model of the COPY DISCIPLINE of the public functions (property C16).

   Sources mirrored (statement by statement where allocation / field writes / stored references matter):
     cutting_decomposition.py : partition_circuit_qubits, cut_gates, partition_problem
     wire_cutting_transforms.py : cut_wires (_transform_cut_wires), expand_observables
     automated_cut_finding.py : find_cuts (cut_gates + inserted CutWire markers)
     qpd/decompose.py : decompose_qpd_instructions (+ _decompose_qpd_instructions splice)
     cutting_experiments.py : generate_cutting_experiments (per (sample, label, group): copy, set basis_id, splice)
     cutting_reconstruction.py : reconstruct_expectation_values (allocates only its result)

   A heap is a list of objects, address = index, allocation appends.  Only MUTABLE Python objects are
   represented: circuits, instruction objects, QPD bases, lists, PauliLists, result objects.  Immutable
   objects (Qubit/Clbit, registers, floats, singleton gates such as HGate()) are not in the heap, so
   `reachable` below is the "mutable_reach" of the design.

   Oracle O-copy (Qiskit 1.4, monitored by harness/c16.py on every case): QuantumCircuit.copy() makes a new
   circuit and a new instruction object per instruction with the SAME attribute values (so a QPD gate's
   `basis` object is shared by the copy); QuantumCircuit.compose(other=<operation>) / append(CircuitInstruction)
   store the operation object itself.

   The three flags of `mode` select, per call site, the behaviour the property demands (true) or the
   behaviour of the tree as observed in the design phase (false):
     fix6  : circuit.copy() in cutting_decomposition.py also copies the bases of pre-placed QPD gates   (F6)
     fix10 : cut_wires copies the operation objects it transfers to the new circuit                     (F10)
     fix11 : the splice of basis.maps[...] operations into a circuit copies those operations            (F11)
   No proofs here (Proofs/HeapP.v). *)
From Coq Require Import QArith.
From CKT Require Import Common.Base.
Close Scope Q_scope.

Definition addr := nat.

(* kind of an instruction object:
   KNative : instruction held natively by the Rust CircuitData (h, cx, rzz(θ) made by qc.rzz …):
             every transfer to another circuit re-materialises it, it has no stable Python identity
   KPy     : a mutable Python gate object (e.g. qc.append(RZXGate(θ)), RYGate(θ) inside basis.maps)
   KQpd2 / KQpd1 half : TwoQubitQPDGate / SingleQubitQPDGate(qubit_id = half);  KCutWire : CutWire marker
   KMeas   : a QPDMeasure placeholder inside basis.maps (a mutable Python instruction object) *)
Inductive kind := KNative | KPy | KQpd2 | KQpd1 (half : nat) | KCutWire | KMeas.

Inductive obj :=
| ONull                                                     (* dangling / not an object *)
| OCirc (ops : list addr) (cregs : nat)                     (* QuantumCircuit: instruction list, number of classical registers *)
| OOp (k : kind) (label : nat) (bid : option nat) (basis : option addr)
| OBasis (maps : list addr) (coeffs : list Q)               (* maps = [m0 slot0; m0 slot1; m1 slot0; …] (OList each) *)
| OList (items : list addr)                                 (* list / dict values *)
| OPauli (data : list nat)                                  (* PauliList (its arrays as one object) *)
| OResult (data : list nat).                                (* sampler result / metadata / value list *)

Definition heap := list obj.
Definition get (h : heap) (a : addr) : obj := nth a h ONull.

Definition refs (o : obj) : list addr :=
  match o with
  | OCirc ops _ => ops
  | OOp _ _ _ (Some b) => [b]
  | OBasis maps _ => maps
  | OList items => items
  | _ => []
  end.

(* reachability, as a relation (used by the theorems) *)
Inductive reachable (h : heap) (roots : list addr) : addr -> Prop :=
| reach_root a : In a roots -> a < length h -> reachable h roots a
| reach_step a b : reachable h roots a -> In b (refs (get h a)) -> b < length h -> reachable h roots b.

(* ... and as a function (depth-first, used by the correspondence checker) *)
Definition mem (a : addr) (l : list addr) : bool := existsb (Nat.eqb a) l.

Fixpoint dfs (h : heap) (fuel : nat) (stack visited : list addr) : list addr :=
  match fuel with
  | O => visited
  | S f =>
    match stack with
    | [] => visited
    | a :: st =>
      if (a <? length h) && negb (mem a visited)
      then dfs h f (refs (get h a) ++ st) (a :: visited)
      else dfs h f st visited
    end
  end.

Definition total_refs (h : heap) : nat := fold_right (fun o n => length (refs o) + n) 0 h.
Definition reach (h : heap) (roots : list addr) : list addr :=
  dfs h (S (length roots + total_refs h)) roots [].

(* certificate that a computed reachable set R is complete (no fuel shortfall): it contains every valid root
   and is closed under valid references; Proofs/HeapP.v: reach_closed ... = true -> reachable ⊆ R *)
Definition reach_closed (h : heap) (roots R : list addr) : bool :=
  forallb (fun r => negb (r <? length h) || mem r R) roots &&
  forallb (fun a => forallb (fun b => negb (b <? length h) || mem b R) (refs (get h a))) R.
Definition reach_ok (h : heap) (roots : list addr) : bool := reach_closed h roots (reach h roots).

(* ---------------------------------------------------------------- state monad over the heap *)
Definition M (A : Type) := heap -> heap * A.
Definition ret {A} (x : A) : M A := fun h => (h, x).
Definition bind {A B} (m : M A) (k : A -> M B) : M B := fun h => let r := m h in k (snd r) (fst r).
Definition alloc (o : obj) : M addr := fun h => (h ++ [o], length h).
Definition write (a : addr) (o : obj) : M unit := fun h => (upd h a o, tt).
Definition read (a : addr) : M obj := fun h => (h, get h a).
Fixpoint mapM {A B} (f : A -> M B) (l : list A) : M (list B) :=
  match l with
  | [] => ret []
  | x :: r => bind (f x) (fun y => bind (mapM f r) (fun ys => ret (y :: ys)))
  end.
Notation "x <- m ;; k" := (bind m (fun x => k)) (at level 61, m at next level, right associativity).

Record mode := mkMode { fix6 : bool ; fix10 : bool ; fix11 : bool }.
Definition Repaired := mkMode true true true.
Definition Current := mkMode false false false.

(* ---------------------------------------------------------------- building blocks *)

(* a leaf instruction object copied with the same attribute values (never carries a basis) *)
Definition copy_leaf (a : addr) : M addr :=
  o <- read a ;;
  alloc (match o with OOp k l bid _ => OOp k l bid None | _ => ONull end).

Definition copy_list (a : addr) : M addr :=
  o <- read a ;;
  match o with
  | OList items => its <- mapM copy_leaf items ;; alloc (OList its)
  | _ => alloc ONull
  end.

(* deep copy of a basis: new map lists with new gate objects, new coefficient list *)
Definition copy_basis (b : addr) : M addr :=
  o <- read b ;;
  match o with
  | OBasis maps coeffs => ms <- mapM copy_list maps ;; alloc (OBasis ms coeffs)
  | _ => alloc ONull
  end.

(* O-copy: new instruction object, same attribute values; `deep` additionally copies the basis *)
Definition copy_op (deep : bool) (a : addr) : M addr :=
  o <- read a ;;
  match o with
  | OOp k l bid (Some b) =>
      if deep then (b' <- copy_basis b ;; alloc (OOp k l bid (Some b')))
      else alloc (OOp k l bid (Some b))
  | OOp k l bid None => alloc (OOp k l bid None)
  | _ => alloc ONull
  end.

Definition ops_of (c : addr) : M (list addr) :=
  o <- read c ;; ret (match o with OCirc ops _ => ops | _ => [] end).
Definition cregs_of (c : addr) : M nat :=
  o <- read c ;; ret (match o with OCirc _ n => n | _ => 0 end).

(* QuantumCircuit.copy(): returns the new circuit and (for the model's convenience) its instruction list.
   The model threads instruction lists it has just built instead of re-reading them from the heap. *)
Definition circuit_copy (deep : bool) (c : addr) : M (addr * list addr) :=
  ops <- ops_of c ;;
  n <- cregs_of c ;;
  ops' <- mapM (copy_op deep) ops ;;
  c' <- alloc (OCirc ops' n) ;;
  ret (c', ops').

(* `circuit` itself when inplace, a copy otherwise *)
Definition target (deep inplace : bool) (c : addr) : M (addr * list addr) :=
  if inplace then (ops <- ops_of c ;; ret (c, ops)) else circuit_copy deep c.

(* QPDBasis.from_instruction(gate): the registry functions build new lists and new gate objects on
   every call; the content of the basis is the business of C02, only its freshness matters here:
   two maps x two slots, one mutable gate object in the outer slots. *)
Definition new_gate : M addr := alloc (OOp KPy 0 None None).
Definition new_list (n : nat) : M addr := its <- mapM (fun _ => new_gate) (repeat tt n) ;; alloc (OList its).
Definition new_basis : M addr :=
  ms <- mapM new_list [1; 0; 0; 1] ;;
  alloc (OBasis ms [1 # 2; 1 # 2]%Q).

(* TwoQubitQPDGate.from_instruction(op) *)
Definition new_qpd2 (lbl : nat) : M (addr * addr) :=
  b <- new_basis ;; g <- alloc (OOp KQpd2 lbl None (Some b)) ;; ret (g, b).

(* circuit.data[i] = CircuitInstruction(g, ...)  and  circuit.data.insert(i, ...) *)
Definition set_op (c : addr) (i : nat) (g : addr) : M unit :=
  ops <- ops_of c ;; n <- cregs_of c ;; write c (OCirc (upd ops i g) n).
Definition insert_op (c : addr) (i : nat) (g : addr) : M unit :=
  ops <- ops_of c ;; n <- cregs_of c ;; write c (OCirc (firstn i ops ++ g :: skipn i ops) n).

Definition is_qpd2 (o : obj) : bool := match o with OOp KQpd2 _ _ _ => true | _ => false end.

(* ---------------------------------------------------------------- partition_circuit_qubits *)
(* spans[i] = instruction i is a two-qubit non-barrier instruction whose qubits carry two labels *)
(* returns the instruction list of c after the loop *)
Fixpoint pcq_loop (c : addr) (i : nat) (ops : list addr) (spans : list bool) : M (list addr) :=
  match ops with
  | [] => ret []
  | a :: r =>
      o <- read a ;;
      a' <- (if nth i spans false && negb (is_qpd2 o)
             then (gb <- new_qpd2 1 ;; _ <- set_op c i (fst gb) ;; ret (fst gb))
             else ret a) ;;
      rest <- pcq_loop c (S i) r spans ;;
      ret (a' :: rest)
  end.

Definition partition_circuit_qubits (m : mode) (inplace : bool) (c : addr) (spans : list bool)
  : M (addr * list addr) :=
  co <- target (fix6 m) inplace c ;;
  ops' <- pcq_loop (fst co) 0 (snd co) spans ;;
  ret (fst co, ops').

(* ---------------------------------------------------------------- cut_gates *)
Definition cut_one (c : addr) (gid : nat) : M addr :=
  gb <- new_qpd2 1 ;; _ <- set_op c gid (fst gb) ;; ret (snd gb).

Definition cut_gates (m : mode) (inplace : bool) (c : addr) (gate_ids : list nat) : M (addr * addr) :=
  co <- target (fix6 m) inplace c ;;
  bases <- mapM (cut_one (fst co)) gate_ids ;;
  bl <- alloc (OList bases) ;;
  ret (fst co, bl).

(* ---------------------------------------------------------------- partition_problem *)
(* for inst in qpd_circuit.data: if TwoQubitQPDGate: bases.append(op.basis); op.label = f"{label}_{i}" *)
Fixpoint relabel_loop (ops : list addr) (i : nat) : M (list addr) :=
  match ops with
  | [] => ret []
  | a :: r =>
      o <- read a ;;
      match o with
      | OOp KQpd2 l bid (Some b) =>
          _ <- write a (OOp KQpd2 (l * 100 + i) bid (Some b)) ;;
          bs <- relabel_loop r (S i) ;; ret (b :: bs)
      | _ => relabel_loop r i
      end
  end.

(* qpd_circuit.decompose(TwoQubitQPDGate) + separate_circuit: the instructions of subcircuit l.
   sides[i] = (l1, l2): labels of the first / second qubit of instruction i (l1 = l2 for local ones). *)
Definition sub_piece (l : nat) (a : addr) (s : nat * nat) : M (list addr) :=
  o <- read a ;;
  match o with
  | OOp KQpd2 lbl bid (Some b) =>
      p0 <- (if Nat.eqb (fst s) l then (x <- alloc (OOp (KQpd1 0) lbl bid (Some b)) ;; ret [x]) else ret []) ;;
      p1 <- (if Nat.eqb (snd s) l then (x <- alloc (OOp (KQpd1 1) lbl bid (Some b)) ;; ret [x]) else ret []) ;;
      ret (p0 ++ p1)
  | _ => if Nat.eqb (fst s) l then (x <- copy_op false a ;; ret [x]) else ret []
  end.

Definition build_sub (ops : list addr) (sides : list (nat * nat)) (l : nat) : M addr :=
  ps <- mapM (fun as_ => sub_piece l (fst as_) (snd as_)) (combine ops sides) ;;
  alloc (OCirc (concat ps) 0).       (* partition_problem refuses circuits with classical registers *)

Definition sub_obs (p : addr) (l : nat) : M addr :=
  o <- read p ;; alloc (match o with OPauli d => OPauli (l :: d) | _ => ONull end).

Definition partition_problem (m : mode) (c : addr) (spans : list bool) (sides : list (nat * nat))
    (nl : nat) (obs : option addr) : M (list addr) :=
  qo <- partition_circuit_qubits m false c spans ;;
  let ops := snd qo in
  bases <- relabel_loop ops 0 ;;
  subs <- mapM (build_sub ops sides) (seq 0 nl) ;;
  d <- alloc (OList subs) ;;
  bl <- alloc (OList bases) ;;
  match obs with
  | Some p => so <- mapM (sub_obs p) (seq 0 nl) ;; sd <- alloc (OList so) ;; ret [d; bl; sd]
  | None => ret [d; bl]
  end.

(* ---------------------------------------------------------------- separate_circuit (utils/transforms.py) *)
(* new_qc = circuit.copy(); every subcircuit is built from the COPY's instruction objects (append(CircuitInstruction)
   stores the operation it is given), so each instruction of the argument is copied exactly once *)
Definition sep_piece (deep : bool) (l : nat) (a : addr) (s : nat * nat) : M (list addr) :=
  if Nat.eqb (fst s) l then (x <- copy_op deep a ;; ret [x]) else ret [].

Definition sep_sub (deep : bool) (ops : list addr) (sides : list (nat * nat)) (n : nat) (l : nat) : M addr :=
  ps <- mapM (fun as_ => sep_piece deep l (fst as_) (snd as_)) (combine ops sides) ;;
  alloc (OCirc (concat ps) n).

Definition separate_circuit (m : mode) (c : addr) (sides : list (nat * nat)) (nl : nat) : M (list addr) :=
  ops <- ops_of c ;;
  n <- cregs_of c ;;
  subs <- mapM (sep_sub (fix6 m) ops sides n) (seq 0 nl) ;;
  d <- alloc (OList subs) ;;
  qm <- alloc (OResult [nl]) ;;
  ret [d; qm].

(* ---------------------------------------------------------------- cut_wires *)
Definition wire_piece (m : mode) (a : addr) : M addr :=
  o <- read a ;;
  match o with
  | OOp KCutWire _ _ _ => gb <- new_qpd2 2 ;; ret (fst gb)       (* factory(): TwoQubitQPDGate.from_instruction(Move()) *)
  | OOp KNative l bid _ => alloc (OOp KNative l bid None)         (* re-materialised by the Rust circuit data *)
  | _ => if fix10 m then copy_op true a else ret a                (* compose(other=instructions.operation) *)
  end.

Definition cut_wires (m : mode) (c : addr) : M addr :=
  ops <- ops_of c ;;
  n <- cregs_of c ;;
  ops' <- mapM (wire_piece m) ops ;;
  alloc (OCirc ops' n).

(* ---------------------------------------------------------------- expand_observables *)
(* PauliList.from_symplectic(z, x, observables.phase.copy()) with new z, x arrays *)
Definition expand_observables (obs c1 c2 : addr) : M addr :=
  o <- read obs ;; alloc (match o with OPauli d => OPauli d | _ => ONull end).

(* ---------------------------------------------------------------- find_cuts *)
Fixpoint insert_markers (c : addr) (wires : list nat) : M unit :=
  match wires with
  | [] => ret tt
  | p :: r => w <- alloc (OOp KCutWire 0 None None) ;; _ <- insert_op c p w ;; insert_markers c r
  end.

Definition find_cuts (m : mode) (c : addr) (gate_ids wires : list nat) : M (addr * addr) :=
  cb <- cut_gates m false c gate_ids ;;
  _ <- insert_markers (fst cb) wires ;;
  meta <- alloc (OResult (gate_ids ++ wires)) ;;
  ret (fst cb, meta).

(* ---------------------------------------------------------------- decompose_qpd_instructions *)
(* circuit.data[gate_id].operation.basis_id = map_ids[i] *)
Definition set_bid (a : addr) (j : nat) : M unit :=
  o <- read a ;;
  match o with
  | OOp k l _ b => write a (OOp k l (Some j) b)
  | _ => ret tt
  end.

Fixpoint set_bids (ops : list addr) (ids mids : list nat) : M unit :=
  match ids, mids with
  | g :: ir, j :: jr =>
      _ <- match nth_error ops g with Some a => set_bid a j | None => ret tt end ;;
      set_bids ops ir jr
  | _, _ => ret tt
  end.

(* one operation of a slot list: a QPDMeasure placeholder is replaced by a new Measure instruction
   (_decompose_qpd_measurements), any other operation is copied (fix11) or stored as it is *)
Definition slot_item (m : mode) (a : addr) : M addr :=
  o <- read a ;;
  match o with
  | OOp KMeas _ _ _ => alloc (OOp KNative 0 None None)
  | _ => if fix11 m then copy_leaf a else ret a
  end.

(* operations of one slot list of the selected map *)
Definition slot_ops (m : mode) (maps : list addr) (i : nat) : M (list addr) :=
  match nth_error maps i with
  | None => ret []
  | Some la =>
      o <- read la ;;
      match o with
      | OList items => mapM (slot_item m) items
      | _ => ret []
      end
  end.

(* what replaces instruction a: a QPD gate with a selected map becomes the operations of that map *)
Definition splice_piece (m : mode) (a : addr) : M (list addr) :=
  o <- read a ;;
  match o with
  | OOp k _ (Some j) (Some b) =>
      ob <- read b ;;
      match ob, k with
      | OBasis maps _, KQpd1 half => slot_ops m maps (2 * j + half)
      | OBasis maps _, KQpd2 => x0 <- slot_ops m maps (2 * j) ;; x1 <- slot_ops m maps (2 * j + 1) ;; ret (x0 ++ x1)
      | _, _ => ret []
      end
  | OOp _ _ None (Some _) => ret []          (* no map selected: refused by the repaired tree (F5), not modelled here *)
  | OOp _ _ _ None => ret [a]                (* an ordinary instruction stays *)
  | _ => ret []                              (* not an instruction object *)
  end.

(* the part of decompose_qpd_instructions after the optional copy; `ops` = circuit.data of c *)
Definition dqi_body (m : mode) (c : addr) (ops : list addr) (ids mids : list nat) : M unit :=
  _ <- set_bids ops ids mids ;;
  ps <- mapM (splice_piece m) ops ;;
  n <- cregs_of c ;;
  write c (OCirc (concat ps) (S n)).      (* + the new "qpd_measurements" register *)

Definition decompose_qpd_instructions (m : mode) (inplace : bool) (c : addr) (ids mids : list nat) : M addr :=
  co <- target false inplace c ;;
  _ <- dqi_body m (fst co) (snd co) ids mids ;;
  ret (fst co).

(* ---------------------------------------------------------------- generate_cutting_experiments *)
(* indices of the QPD gates of a circuit, in order (= _get_bases / _get_mapping_ids_by_partition) *)
Fixpoint qpd_ids (h : heap) (ops : list addr) (i : nat) : list nat :=
  match ops with
  | [] => []
  | a :: r => match get h a with
              | OOp KQpd2 _ _ _ | OOp (KQpd1 _) _ _ _ => i :: qpd_ids h r (S i)
              | _ => qpd_ids h r (S i)
              end
  end.
Definition qpd_ids_of (ops : list addr) : M (list nat) := fun h => (h, qpd_ids h ops 0).

(* one subexperiment: new_qc = _append_measurement_register(subcircuit, cog)   [copies]
                       decompose_qpd_instructions(new_qc, ids, map_ids_tmp, inplace=True) *)
Definition one_experiment (m : mode) (c : addr) (mids : list nat) : M addr :=
  eo <- circuit_copy false c ;;
  ids <- qpd_ids_of (snd eo) ;;
  _ <- dqi_body m (fst eo) (snd eo) ids mids ;;
  ret (fst eo).

(* cutidx[l] = for each QPD gate of circuit l, in order, the index of its cut in a sample *)
Definition experiments_for_sample (m : mode) (circs : list addr) (ngroups : list nat) (cutidx : list (list nat))
    (sample : list nat) : M (list addr) :=
  ess <- mapM (fun cg => let '(c, g, ci) := cg in
                  mapM (fun _ => one_experiment m c (map (fun k => nth k sample 0) ci)) (repeat tt g))
       (combine (combine circs ngroups) cutidx) ;;
  ret (concat ess).

Definition generate_cutting_experiments (m : mode) (circs : list addr) (obs : list addr)
    (samples : list (list nat)) (ngroups : list nat) (cutidx : list (list nat)) : M (list addr) :=
  ess <- mapM (experiments_for_sample m circs ngroups cutidx) samples ;;
  d <- alloc (OList (concat ess)) ;;
  co <- alloc (OResult (map (@length nat) samples)) ;;
  ret [d; co].

(* ---------------------------------------------------------------- reconstruct_expectation_values *)
Definition reconstruct (results : list addr) (coeffs : addr) (obs : list addr) : M addr :=
  alloc (OResult [length results; length obs]).

(* ---------------------------------------------------------------- the public calls, uniformly *)
Inductive call :=
| CPcq (inplace : bool) (c : addr) (spans : list bool)
| CCutGates (inplace : bool) (c : addr) (gate_ids : list nat)
| CPartition (c : addr) (spans : list bool) (sides : list (nat * nat)) (nl : nat) (obs : option addr)
| CCutWires (c : addr)
| CExpand (obs c1 c2 : addr)
| CFindCuts (c : addr) (gate_ids wires : list nat)
| CGenerate (circs obs : list addr) (samples : list (list nat)) (ngroups : list nat) (cutidx : list (list nat))
| CDqi (inplace : bool) (c : addr) (ids mids : list nat)
| CReconstruct (results : list addr) (coeffs : addr) (obs : list addr)
| CSeparate (c : addr) (sides : list (nat * nat)) (nl : nat).

Definition run (m : mode) (cl : call) : M (list addr) :=
  match cl with
  | CPcq ip c spans => x <- partition_circuit_qubits m ip c spans ;; ret [fst x]
  | CCutGates ip c gids => x <- cut_gates m ip c gids ;; ret [fst x; snd x]
  | CPartition c spans sides nl obs => partition_problem m c spans sides nl obs
  | CCutWires c => x <- cut_wires m c ;; ret [x]
  | CExpand obs c1 c2 => x <- expand_observables obs c1 c2 ;; ret [x]
  | CFindCuts c gids wires => x <- find_cuts m c gids wires ;; ret [fst x; snd x]
  | CGenerate circs obs samples ng ci => generate_cutting_experiments m circs obs samples ng ci
  | CDqi ip c ids mids => x <- decompose_qpd_instructions m ip c ids mids ;; ret [x]
  | CReconstruct rs co obs => x <- reconstruct rs co obs ;; ret [x]
  | CSeparate c sides nl => separate_circuit m c sides nl
  end.

(* the mutable arguments of a call *)
Definition args_of (cl : call) : list addr :=
  match cl with
  | CPcq _ c _ | CCutGates _ c _ | CCutWires c | CFindCuts c _ _ | CDqi _ c _ _ | CSeparate c _ _ => [c]
  | CPartition c _ _ _ obs => c :: match obs with Some p => [p] | None => [] end
  | CExpand obs c1 c2 => [obs; c1; c2]
  | CGenerate circs obs _ _ _ => circs ++ obs
  | CReconstruct rs co obs => rs ++ co :: obs
  end.

Definition in_place (cl : call) : bool :=
  match cl with
  | CPcq ip _ _ | CCutGates ip _ _ | CDqi ip _ _ _ => ip
  | _ => false
  end.

(* the addresses an in-place call may write: the argument circuit and its own instruction objects *)
Definition own (h : heap) (cl : call) : list addr :=
  match cl with
  | CPcq _ c _ | CCutGates _ c _ => [c]                         (* circuit.data[i] = ... only *)
  | CDqi _ c _ _ => c :: match get h c with OCirc ops _ => ops | _ => [] end   (* + operation.basis_id = ... *)
  | _ => []
  end.

(* ---------------------------------------------------------------- inputs outside the known sharing classes *)
Definition ops_at (h : heap) (c : addr) : list addr := match get h c with OCirc ops _ => ops | _ => [] end.
Definition valid (h : heap) (a : addr) : bool := a <? length h.
(* an instruction object that carries no basis (not a QPD placeholder) *)
Definition op_nobasis (o : obj) : bool := match o with OOp _ _ _ (Some _) => false | _ => true end.
(* an instruction that cut_wires re-materialises (native) or replaces (CutWire marker) *)
Definition op_wireclean (o : obj) : bool := match o with OOp KNative _ _ _ | OOp KCutWire _ _ _ => true | _ => false end.
Definition circ_clean (h : heap) (c : addr) : bool :=
  valid h c && forallb (fun a => valid h a && op_nobasis (get h a)) (ops_at h c).
Definition wires_clean (h : heap) (c : addr) : bool :=
  valid h c && forallb (fun a => valid h a && op_wireclean (get h a)) (ops_at h c).
(* `clean h cl`: the arguments of the call are outside the classes F6 / F19 (no pre-placed placeholder in the argument
   circuit), F10 (cut_wires: only native instructions and CutWire markers) and - conservatively - F11 (decompose /
   generate: no placeholder at all; the case "placeholders whose selected maps hold only singleton gates" is NOT covered) *)
Definition clean (h : heap) (cl : call) : bool :=
  match cl with
  | CPcq _ c _ | CCutGates _ c _ | CPartition c _ _ _ _ | CFindCuts c _ _ | CDqi _ c _ _ | CSeparate c _ _ => circ_clean h c
  | CCutWires c => wires_clean h c
  | CGenerate circs _ _ _ _ => forallb (circ_clean h) circs
  | CExpand _ _ _ | CReconstruct _ _ _ => true
  end.

(* destructive edits of a result: arbitrary overwrites of existing objects; well-formed heap: no dangling reference *)
Definition apply_edits (h : heap) (es : list (addr * obj)) : heap :=
  fold_left (fun h1 e => upd h1 (fst e) (snd e)) es h.
Definition wf (h : heap) : Prop := forall a, a < length h -> forall b, In b (refs (get h a)) -> b < length h.
Definition wfb (h : heap) : bool := forallb (fun o => forallb (fun b => b <? length h) (refs o)) h.

(* what the property allows a result to share with the arguments *)
Definition documented_shared (cl : call) : list addr := [].

(* ---------------------------------------------------------------- observation used by the correspondence *)
Definition obj_tag (o : obj) : nat :=
  match o with
  | ONull => 9 | OCirc _ _ => 0 | OOp _ _ _ _ => 1 | OBasis _ _ => 2 | OList _ => 3 | OPauli _ => 4 | OResult _ => 5
  end.

(* rin = objects reachable from the arguments BEFORE the call; shared = those also reachable from the result;
   alias roots = shared objects that are a result root or
   are referenced by a non-shared object reachable from the result roots *)
Definition alias_roots (h : heap) (rin outs : list addr) : list addr :=
  let rout := reach h outs in
  let shared := filter (fun a => mem a rin) rout in
  (* everything referenced by a non-shared object reachable from the result *)
  let cand := flat_map (fun p => if mem p shared then [] else refs (get h p)) rout in
  filter (fun a => mem a outs || mem a cand) shared.

Fixpoint count_tag (h : heap) (t : nat) (l : list addr) : nat :=
  match l with [] => 0 | a :: r => (if Nat.eqb (obj_tag (get h a)) t then 1 else 0) + count_tag h t r end.

(* counts per kind: circuit, operation, basis, list, paulilist, result, other (never produced by the model) *)
Definition tag_counts (h : heap) (l : list addr) : list nat := map (fun t => count_tag h t l) (seq 0 7).

Definition kind_beq (a b : kind) : bool :=
  match a, b with
  | KNative, KNative | KPy, KPy | KQpd2, KQpd2 | KCutWire, KCutWire | KMeas, KMeas => true
  | KQpd1 x, KQpd1 y => Nat.eqb x y
  | _, _ => false
  end.
Definition q_beq (a b : Q) : bool := Z.eqb (Qnum a) (Qnum b) && Pos.eqb (Qden a) (Qden b).
Definition obj_beq (a b : obj) : bool :=
  match a, b with
  | ONull, ONull => true
  | OCirc x n, OCirc y n' => list_beq Nat.eqb x y && Nat.eqb n n'
  | OOp k l i b, OOp k' l' i' b' =>
      kind_beq k k' && Nat.eqb l l' && option_beq Nat.eqb i i' && option_beq Nat.eqb b b'
  | OBasis m c, OBasis m' c' => list_beq Nat.eqb m m' && list_beq q_beq c c'
  | OList x, OList y => list_beq Nat.eqb x y
  | OPauli x, OPauli y => list_beq Nat.eqb x y
  | OResult x, OResult y => list_beq Nat.eqb x y
  | _, _ => false
  end.

(* (arguments changed?, tag counts of the alias roots between arguments and result,
    tag counts of the alias roots between the results of two successive calls) *)
Definition observe (m : mode) (h : heap) (cl : call) : bool * list nat * list nat :=
  let r1 := run m cl h in
  let h1 := fst r1 in
  let changed := negb (list_beq obj_beq (firstn (length h) h1) h) in
  let r2 := run m cl h1 in
  let h2 := fst r2 in
  (changed,
   tag_counts h1 (alias_roots h1 (reach h (args_of cl)) (snd r1)),
   if in_place cl then repeat 0 7 else tag_counts h2 (alias_roots h2 (reach h2 (snd r1)) (snd r2))).

(* every reachability computation that `observe` relies on is certified complete *)
Definition observe_ok (m : mode) (h : heap) (cl : call) : bool :=
  let r1 := run m cl h in
  let h1 := fst r1 in
  let r2 := run m cl h1 in
  let h2 := fst r2 in
  reach_ok h (args_of cl) && reach_ok h1 (snd r1) &&
  (in_place cl || (reach_ok h2 (snd r1) && reach_ok h2 (snd r2))).

(* Model/CutFinderExport.v — executable model of what `best_result.export_cuts(interface)` does to the
   SimpleGateList (circuit_interface.py: insert_gate_cut, insert_wire_cut, replace_wire_ids, NameToIDMap.define_id,
   get_array_size_needed, define_subcircuits; disjoint_subcircuits_state.py: export_cuts; cutting_actions.py:
   insert_all_lo_wire_cuts).  Its results are not used by find_cuts, but its ASSERTIONS run inside
   LOCutsOptimizer.optimize, so a failing assertion would surface as a crash of find_cuts.
   No proofs here. *)
From Coq Require Import QArith.
From CKT Require Import Common.Base Common.Circ Common.UF Model.CutFinderState.
Close Scope Q_scope.

(* wire names: the original qubit index, or ("cut", name) *)
Inductive wname := WOrig (q : nat) | WCut (n : wname).

Fixpoint wname_beq (a b : wname) : bool :=
  match a, b with
  | WOrig p, WOrig q => Nat.eqb p q
  | WCut x, WCut y => wname_beq x y
  | _, _ => false
  end.

(* entries of new_circuit *)
Inductive nelem :=
| NBar                                                  (* "barrier" *)
| NEl (name : nat) (qs : list nat) (gam : option Q)     (* CircuitElement, qubits = wire ids *)
| NMove (src dst : nat).                                (* ["move", src, dst] *)

Record iface := mkIF {
  if_circuit : list cco ;               (* self.circuit (qubit ids) *)
  if_new : list nelem ;                 (* self.new_circuit *)
  if_cut_type : list bool ;             (* self.cut_type: false = None, true = "LO" *)
  if_map : list nat ;                   (* self.new_gate_id_map *)
  if_names : list (option wname) ;      (* qubit_names.id_dict: id -> name; length = get_array_size_needed() *)
  if_num_qubits : nat ;
  if_out_wires : list nat ;             (* self.output_wires *)
  if_subcircuits : list (list nat)
}.

Definition nelem_of_cco (c : cco) : nelem :=
  match c with CBar => NBar | CEl nm qs g => NEl nm qs g end.

(* SimpleGateList(circuit_cco) *)
Definition iface_init (c : list cco) : iface :=
  let '(names, c') := sgl_init [] c in
  let n := length names in
  mkIF c' (map nelem_of_cco c') (map (fun _ => false) c') (seq 0 (length c'))
       (map (fun q => Some (WOrig q)) names) n (seq 0 n) [seq 0 n].

Definition name_defined (names : list (option wname)) (nm : wname) : bool :=
  existsb (fun o => match o with Some x => wname_beq x nm | None => false end) names.

(* define_id(item_id, item_name): both assertions; the id table grows as needed *)
Definition define_id (names : list (option wname)) (id : nat) (nm : wname) : out (list (option wname)) :=
  do _ <- oassert (match nth id names None with None => true | Some _ => false end) ;;
  do _ <- oassert (negb (name_defined names nm)) ;;
  if Nat.ltb id (length names) then Val (upd names id (Some nm))
  else Val (names ++ repeat None (id - length names) ++ [Some nm]).

(* wire_map[q] with wire_map = list(range(size)); wire_map[src] = dest ;  IndexError when q >= size *)
Definition rename1 (size src dst q : nat) : out nat :=
  if Nat.ltb q size then Val (if Nat.eqb q src then dst else q) else Crash.

Fixpoint rename_list (size src dst : nat) (qs : list nat) : out (list nat) :=
  match qs with
  | [] => Val []
  | q :: r => do q' <- rename1 size src dst q ;; do r' <- rename_list size src dst r ;; Val (q' :: r')
  end.

(* replace_wire_ids on a list of new_circuit entries *)
Fixpoint replace_wire_ids (size src dst : nat) (l : list nelem) : out (list nelem) :=
  match l with
  | [] => Val []
  | e :: r =>
      do e' <- match e with
               | NBar => Val NBar
               | NEl nm qs g => do qs' <- rename_list size src dst qs ;; Val (NEl nm qs' g)
               | NMove a b => do a' <- rename1 size src dst a ;; do b' <- rename1 size src dst b ;; Val (NMove a' b')
               end ;;
      do r' <- replace_wire_ids size src dst r ;;
      Val (e' :: r')
  end.

Definition incr_from (l : list nat) (i : nat) : list nat :=
  firstn i l ++ map S (skipn i l).

Definition insert_gate_cut (f : iface) (gate_id : nat) : out iface :=
  match nth_error (if_map f) gate_id with
  | None => Crash
  | Some pos =>
      if Nat.ltb pos (length (if_cut_type f)) then
        Val (mkIF (if_circuit f) (if_new f) (upd (if_cut_type f) pos true) (if_map f) (if_names f)
                  (if_num_qubits f) (if_out_wires f) (if_subcircuits f))
      else Crash
  end.

Definition insert_wire_cut (f : iface) (gate_id input_id src dst : nat) : out iface :=
  match nth_error (if_map f) gate_id with
  | None => Crash
  | Some pos =>
    match nth_error (if_new f) pos with
    | Some (NEl _ qs _) =>
      match nth_error qs (input_id - 1) with
      | None => Crash
      | Some q =>
        (* assert src_wire_id == new_gate_spec.qubits[input_id - 1] *)
        do _ <- oassert (Nat.eqb src q) ;;
        do names <- match nth dst (if_names f) None with
                    | Some _ => Val (if_names f)
                    | None => match nth src (if_names f) None with
                              | Some nm => define_id (if_names f) dst (WCut nm)
                              | None => Crash      (* ("cut", None) cannot arise: src is always defined *)
                              end
                    end ;;
        let size := length names in
        do _ <- oassert (Nat.ltb src size) ;;
        do tail <- replace_wire_ids size src dst (skipn pos (if_new f)) ;;
        let new := firstn pos (if_new f) ++ NMove src dst :: tail in
        let ct := insert_at (if_cut_type f) pos true in
        let mp := incr_from (if_map f) gate_id in
        match nth_error (if_circuit f) gate_id with
        | Some (CEl _ oqs _) =>
            match nth_error oqs (input_id - 1) with
            | Some oq =>
                if Nat.ltb oq (length (if_out_wires f)) then
                  Val (mkIF (if_circuit f) new ct mp names (if_num_qubits f) (upd (if_out_wires f) oq dst)
                            (if_subcircuits f))
                else Crash
            | None => Crash
            end
        | _ => Crash
        end
      end
    | _ => Crash          (* new_circuit[gate_pos] must be a CircuitElement *)
    end
  end.

(* one action's export_cuts; wire_map = arange(num_wires) is the identity, an index >= num_wires is an IndexError *)
Fixpoint insert_all_lo_wire_cuts (f : iface) (num_wires gate_id : nat) (args : list (list nat)) : out iface :=
  match args with
  | [] => Val f
  | [input_id; w; nw] :: r =>
      if Nat.ltb w num_wires && Nat.ltb nw num_wires then
        do f' <- insert_wire_cut f gate_id input_id w nw ;;
        insert_all_lo_wire_cuts f' num_wires gate_id r
      else Crash
  | _ :: _ => Ref       (* tuple unpacking of a non-triple: ValueError *)
  end.

Definition export_action (f : iface) (num_wires : nat) (a : action) : out iface :=
  match a_name a with
  | CutTwoQubitGate => insert_gate_cut f (g_inst (a_gate a))
  | _ => insert_all_lo_wire_cuts f num_wires (g_inst (a_gate a)) (a_args a)
  end.

Fixpoint export_actions (f : iface) (num_wires : nat) (l : list action) : out iface :=
  match l with
  | [] => Val f
  | a :: r => do f' <- export_action f num_wires a ;; export_actions f' num_wires r
  end.

(* DisjointSubcircuitsState.export_cuts *)
Definition export_cuts (s : dstate) (f : iface) : out iface :=
  do f' <- export_actions f (num_wires s) (actions s) ;;
  let n := num_wires s in
  let roots := filter (fun i => Nat.eqb (parent (uptree s) i) i) (seq 0 n) in
  let subs := map (fun r => filter (fun w => Nat.eqb (find_wire_root s w) r) (seq 0 n)) roots in
  Val (mkIF (if_circuit f') (if_new f') (if_cut_type f') (if_map f') (if_names f') (if_num_qubits f')
            (if_out_wires f') subs).

(* Model/CutFinder.v — executable model of automated_cut_finding.py : find_cuts
   (plus OptimizationSettings.__post_init__, DeviceConstraints.__post_init__, cutting_decomposition.cut_gates
   restricted to what find_cuts uses).  Re-exports the state, search and export models.
   No proofs here (Proofs/CutFinderP.v). *)
From Coq Require Import QArith.
From CKT Require Export Common.Base Common.Circ Common.UF
  Model.CutFinderState Model.CutFinderSearch Model.CutFinderExport.
Close Scope Q_scope.

Record fc_input := mkIn {
  fi_nq : nat ;                    (* circuit.num_qubits *)
  fi_ncl : nat ;                   (* circuit.num_clbits (cut_gates refuses circuits with classical bits) *)
  fi_circ : circ ;                 (* circuit.data, canonical (harness/circ.py) *)
  fi_gtab : gtab ;                 (* 2-qubit Gate id -> (kappa, canonical TwoQubitQPDGate.from_instruction) *)
  fi_W : nat ;                     (* constraints.qubits_per_subcircuit *)
  fi_gate_lo : bool ;
  fi_wire_lo : bool ;
  fi_max_gamma : Q ;
  fi_max_backjumps : option Z ;
  fi_tape : nat -> Q               (* the numbers drawn by the queue's numpy Generator, in order *)
}.

Inductive cut_kind := GateCut | WireCut.       (* "Gate Cut" / "Wire Cut" *)

Definition cut_kind_beq (a b : cut_kind) : bool :=
  match a, b with GateCut, GateCut | WireCut, WireCut => true | _, _ => false end.

Record metadata := mkMD { md_cuts : list (cut_kind * nat) ; md_overhead : Q ; md_minimum_reached : bool }.

(* everything find_cuts computes; the public result is (fr_circ, fr_meta) *)
Record fc_result := mkFR {
  fr_circ : circ ;
  fr_meta : metadata ;
  fr_best : dstate ;               (* optimizer.best_result *)
  fr_greedy : option dstate ;      (* cut_optimization.greedy_goal_state *)
  fr_goals : list (Q * dstate) ;   (* out_1 *)
  fr_stats : stats ;               (* get_stats() *)
  fr_pen_stats : stats ;           (* get_stats(penultimate=True) *)
  fr_pushes : nat ;                (* numbers drawn from the tape *)
  fr_pushback : nat ;              (* ghost: number of repaired push-backs (DESIGN F3 path) *)
  fr_iface : iface                 (* the SimpleGateList after export_cuts *)
}.

(* cut_gates(circuit, gate_ids)[0]: circuit.data[gate_id] = TwoQubitQPDGate.from_instruction(op), one id at a time.
   An id whose gate is not in the table cannot be wrapped: QPDBasis.from_instruction raises ValueError. *)
Definition wrap_instr (t : gtab) (i : instr) : out instr :=
  match iop i with
  | Gate g => match glookup g t with
              | Some (_, o) => Val (mkI o (iqs i) [])
              | None => Ref
              end
  | _ => Ref
  end.

Fixpoint cut_gates (t : gtab) (c : circ) (ids : list nat) : out circ :=
  match ids with
  | [] => Val c
  | id :: r =>
      match nth_error c id with
      | None => Crash
      | Some i => do i' <- wrap_instr t i ;; cut_gates t (upd c id i') r
      end
  end.

(* sorted(wire_cut_actions, key=lambda a: a[1][0]): stable insertion sort by instruction id
   (fold_right inserts each action BEFORE the later ones of equal key, so equal keys keep their order) *)
Fixpoint insert_sorted (a : action) (l : list action) : list action :=
  match l with
  | [] => [a]
  | b :: r => if Nat.ltb (g_inst (a_gate b)) (g_inst (a_gate a)) then b :: insert_sorted a r else a :: b :: r
  end.

Definition sort_actions (l : list action) : list action := fold_right insert_sorted [] l.

Definition cut_wire_instr (q : nat) : instr := mkI CutWire [q] [].

(* action.args[k][0] - 1 *)
Definition arg_qubit (a : action) (k : nat) : nat := nth 0 (nth k (a_args a) []) 0 - 1.

(* circuit.data[inst_id].qubits[qubit_id] : IndexError when out of range *)
Definition orig_qubit (c : circ) (inst_id qubit_id : nat) : out nat :=
  match nth_error c inst_id with
  | None => Crash
  | Some i => match nth_error (iqs i) qubit_id with Some q => Val q | None => Crash end
  end.

(* the wire-cut insertion loop with its running counter *)
Fixpoint insert_wire_cuts (orig : circ) (out_c : circ) (counter : nat) (l : list action) : out circ :=
  match l with
  | [] => Val out_c
  | a :: r =>
      let inst_id := g_inst (a_gate a) in
      do q <- orig_qubit orig inst_id (arg_qubit a 0) ;;
      let c1 := insert_at out_c (inst_id + counter) (cut_wire_instr q) in
      let counter1 := S counter in
      if aname_beq (a_name a) CutBothWires then
        do _ <- oassert (Nat.eqb (length (a_args a)) 2) ;;
        do q2 <- orig_qubit orig inst_id (arg_qubit a 1) ;;
        let c2 := insert_at c1 (inst_id + counter1) (cut_wire_instr q2) in
        insert_wire_cuts orig c2 (S counter1) r
      else insert_wire_cuts orig c1 counter1 r
  end.

(* metadata scan over circ_out.data *)
Fixpoint scan_cuts (i : nat) (c : circ) : list (cut_kind * nat) :=
  match c with
  | [] => []
  | x :: r => match iop x with
              | Qpd2 _ _ _ => (GateCut, i) :: scan_cuts (S i) r
              | CutWire => (WireCut, i) :: scan_cuts (S i) r
              | _ => scan_cuts (S i) r
              end
  end.

Definition is_gate_cut (a : action) : bool := aname_beq (a_name a) CutTwoQubitGate.

(* OptimizationSettings.__post_init__ and DeviceConstraints.__post_init__ *)
Definition settings_ok (i : fc_input) : bool :=
  Qleb 1 (fi_max_gamma i) && match fi_max_backjumps i with Some z => Z.leb 0 z | None => true end.

Definition find_cuts_full (fuel : nat) (i : fc_input) : out fc_result :=
  if Nat.ltb (fi_W i) 1 then Ref else
  let cco := qc_to_cco (fi_nq i) (fi_gtab i) (fi_circ i) in
  let f0 := iface_init cco in
  if negb (settings_ok i) then Ref else
  let gates := get_multiqubit_gates (if_circuit f0) in
  let fa := mkF gates (search_actions (fi_gate_lo i) (fi_wire_lo i)) (fi_W i) in
  do r <- optimize (fi_tape i) fa (fi_max_gamma i) (option_map Z.to_nat (fi_max_backjumps i)) (if_num_qubits f0) fuel ;;
  match or_best r with
  | None => Crash                              (* opt_out.actions of None: AttributeError *)
  | Some best =>
      do f1 <- export_cuts best f0 ;;
      let gate_ids := map (fun a => g_inst (a_gate a)) (filter is_gate_cut (actions best)) in
      let wire_cut_actions := filter (fun a => negb (is_gate_cut a)) (actions best) in
      do c1 <- (if negb (Nat.eqb (fi_ncl i) 0) then Ref else cut_gates (fi_gtab i) (fi_circ i) gate_ids) ;;
      do c2 <- insert_wire_cuts (fi_circ i) c1 0 (sort_actions wire_cut_actions) ;;
      let e := co_engine (or_cutopt r) in
      let md := mkMD (scan_cuts 0 c2) (Qmult (gamma_UB best) (gamma_UB best)) (min_reached e) in
      Val (mkFR c2 md best (co_greedy (or_cutopt r)) (or_goals r) (get_stats e) (pen_stats e) (pushes e) (n_pushback e) f1)
  end.

(* the public function: (circuit, metadata) | ValueError | other exception ; None = the model ran out of fuel *)
Definition find_cuts (fuel : nat) (i : fc_input) : option (res (circ * metadata)) :=
  match find_cuts_full fuel i with
  | Val r => Some (Ok (fr_circ r, fr_meta r))
  | Ref => Some Refused
  | Crash => Some Crashed
  | NoFuel => None
  end.

(* Model/CutFinderTable.v — an executable check of the gate table handed to the cut-finder model (C08):
   every kappa in the table (QPDBasis.from_instruction(op).kappa as observed by the harness) is at least 1.
   Evaluated by the Coq case checker Corr/C08Corr.v on every generated case; hypothesis of the C08 theorems. *)
From Coq Require Import QArith.
From CKT Require Import Model.CutFinder.
Close Scope Q_scope.

Definition gtab_ge1 (t : gtab) : bool := forallb (fun e => Qleb 1 (fst (snd e))) t.

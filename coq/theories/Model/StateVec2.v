(* Model/StateVec2.v — executable two-qubit state-vector arithmetic over Z[i] for the C11 correspondence stream born2.
   These are verbatim COPIES of the specification definitions st2 / ev_st2 / law_st2 of Proofs/MeasurementP.v (kept there
   because other developments import that file); Proofs/BornTwoQubitP.v proves sv2_ev = ev_st2 and sv2_law = law_st2, so
   what the correspondence compares with qiskit's Statevector is exactly what c11_born_two_qubits speaks about.
   Unnormalised amplitudes; index of an amplitude = b0 + 2 b1 (qubit 0 = least significant bit, as in Qiskit). *)
From Coq Require Import QArith.
From CKT Require Import Common.Base Common.Circ Model.Observables Model.Grouping Model.Measurement.
Close Scope Q_scope.

Definition sv2 := (gi * gi * gi * gi)%type.

Definition sv2_app0 (m : mat2) (s : sv2) : sv2 :=
  let '(a0, a1, a2, a3) := s in
  (gi_add (gi_mul (m00 m) a0) (gi_mul (m01 m) a1), gi_add (gi_mul (m10 m) a0) (gi_mul (m11 m) a1),
   gi_add (gi_mul (m00 m) a2) (gi_mul (m01 m) a3), gi_add (gi_mul (m10 m) a2) (gi_mul (m11 m) a3)).
Definition sv2_app1 (m : mat2) (s : sv2) : sv2 :=
  let '(a0, a1, a2, a3) := s in
  (gi_add (gi_mul (m00 m) a0) (gi_mul (m01 m) a2), gi_add (gi_mul (m00 m) a1) (gi_mul (m01 m) a3),
   gi_add (gi_mul (m10 m) a0) (gi_mul (m11 m) a2), gi_add (gi_mul (m10 m) a1) (gi_mul (m11 m) a3)).

Definition sv2_gnorm2 (x : gi) : Z := (fst x * fst x + snd x * snd x)%Z.
Definition sv2_norm2 (s : sv2) : Z :=
  let '(a0, a1, a2, a3) := s in (sv2_gnorm2 a0 + sv2_gnorm2 a1 + sv2_gnorm2 a2 + sv2_gnorm2 a3)%Z.
Definition sv2_inner_re (s t : sv2) : Z :=
  let '(a0, a1, a2, a3) := s in let '(b0, b1, b2, b3) := t in
  (fst (gi_mul (gi_conj a0) b0) + fst (gi_mul (gi_conj a1) b1)
   + fst (gi_mul (gi_conj a2) b2) + fst (gi_mul (gi_conj a3) b3))%Z.

(* <psi| P |psi> / <psi|psi> *)
Definition sv2_ev (s : sv2) (lets : list nat) : Q :=
  let t := sv2_app1 (pauli_mat (nth 1 lets 0)) (sv2_app0 (pauli_mat (nth 0 lets 0)) s) in
  Qmake (sv2_inner_re s t) (Z.to_pos (sv2_norm2 s)).

Fixpoint sv2_word (pidx : list nat) (i : nat) (b : N) : N :=
  match pidx with
  | [] => 0%N
  | q :: r => N.lor (if N.testbit b (N.of_nat q) then N.shiftl 1 (N.of_nat i) else 0%N) (sv2_word r (S i) b)
  end.

(* outcome law of the observable register after the rotations for the general letters g (identity qubit_locations) *)
Definition sv2_law (s : sv2) (g : list nat) : list (N * Q) :=
  let r := sv2_app1 (snd (rotation_of (nth 1 g 0))) (sv2_app0 (snd (rotation_of (nth 0 g 0))) s) in
  let '(a0, a1, a2, a3) := r in
  let d := Z.to_pos (sv2_norm2 r) in
  let w := sv2_word (pauli_indices_or_dummy (nonid_positions g)) 0 in
  [(w 0%N, Qmake (sv2_gnorm2 a0) d); (w 1%N, Qmake (sv2_gnorm2 a1) d);
   (w 2%N, Qmake (sv2_gnorm2 a2) d); (w 3%N, Qmake (sv2_gnorm2 a3) d)].

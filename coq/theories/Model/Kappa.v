(* Model/Kappa.v — coefficients of the QPD bases, kappa / probabilities / overhead (property C15).

   The coefficient EXPRESSIONS are not written here: they are regenerated from
   qiskit_addon_cutting/qpd/decompositions.py on every run (tools/facts_c15.py, a fail-closed
   translator of the Python AST) as reverse-Polish token lists in Extracted/Facts.v and decoded
   below into the expression type [cexp].  This file only says how an expression is evaluated
   (generically over a ring, instantiated at Q, Q(sqrt 2) and R), how the registry dispatches a
   gate name to its coefficient list, and what the `coeffs` setter of QPDBasis computes.
   No proofs inside. *)
From Coq Require Import String Ascii QArith Qabs Reals Qreals.
From CKT Require Import Common.Base Extracted.Facts.
Close Scope Q_scope.
Local Open Scope string_scope.

(* ------------------------------------------------------------------------------------ *)
(* expressions                                                                            *)
(* ------------------------------------------------------------------------------------ *)

Inductive cexp :=
| CConst (q : Q)            (* numeric literal, exact decimal value *)
| CCos                      (* np.cos(theta_prime) *)
| CSin                      (* np.sin(theta_prime) *)
| CNeg (e : cexp)           (* -e *)
| CMul (a b : cexp)         (* a * b *)
| CSq (e : cexp)            (* e ** 2 *)
| CAbs2 (k : nat)           (* np.abs(u[k]) ** 2 *)
| CRe (j k : nat)           (* np.real(u[j] * np.conj(u[k])) *)
| CIm (j k : nat).          (* np.imag(u[j] * np.conj(u[k])) *)

Definition tok := (string * list Z)%type.

Definition idx (z : Z) : option nat :=
  if ((0 <=? z) && (z <? 4))%Z then Some (Z.to_nat z) else None.

(* one step of the reverse-Polish stack machine; None = malformed *)
Definition step (st : option (list cexp)) (t : tok) : option (list cexp) :=
  match st with
  | None => None
  | Some stack =>
    let '(name, args) := t in
    if name =? "const" then
      match args with
      | [n; Zpos d] => Some (CConst (Qmake n d) :: stack)
      | _ => None
      end
    else if name =? "cos" then match args with [] => Some (CCos :: stack) | _ => None end
    else if name =? "sin" then match args with [] => Some (CSin :: stack) | _ => None end
    else if name =? "neg" then
      match args, stack with [], e :: r => Some (CNeg e :: r) | _, _ => None end
    else if name =? "sq" then
      match args, stack with [], e :: r => Some (CSq e :: r) | _, _ => None end
    else if name =? "mul" then
      match args, stack with [], b :: a :: r => Some (CMul a b :: r) | _, _ => None end
    else if name =? "abs2" then
      match args with
      | [k] => match idx k with Some k' => Some (CAbs2 k' :: stack) | None => None end
      | _ => None
      end
    else if name =? "re" then
      match args with
      | [j; k] => match idx j, idx k with Some j', Some k' => Some (CRe j' k' :: stack) | _, _ => None end
      | _ => None
      end
    else if name =? "im" then
      match args with
      | [j; k] => match idx j, idx k with Some j', Some k' => Some (CIm j' k' :: stack) | _, _ => None end
      | _ => None
      end
    else None
  end.

Definition decode (ts : list tok) : option cexp :=
  match fold_left step ts (Some []) with
  | Some [e] => Some e
  | _ => None
  end.

Fixpoint decode_all (l : list (list tok)) : option (list cexp) :=
  match l with
  | [] => Some []
  | ts :: r =>
    match decode ts, decode_all r with
    | Some e, Some es => Some (e :: es)
    | _, _ => None
    end
  end.

(* fail closed: an undecodable fact gives the empty list, for which no theorem below holds *)
Definition exprs_of (l : list (list tok)) : list cexp :=
  match decode_all l with Some r => r | None => [] end.

Definition rot_exprs : list cexp := exprs_of c15_rot_coeffs.
Definition nonlocal_exprs : list cexp := exprs_of c15_nonlocal_coeffs.

(* ------------------------------------------------------------------------------------ *)
(* evaluation, generic over the ring of values                                            *)
(* ------------------------------------------------------------------------------------ *)

Section Eval.
  Variable A : Type.
  Variable ofQ : Q -> A.
  Variables add mul : A -> A -> A.
  Variable neg : A -> A.

  (* environment: cos/sin of theta_prime, and the vector u as (real, imaginary) parts *)
  Record env := { e_cos : A; e_sin : A; e_u : nat -> A * A }.

  Fixpoint eval (E : env) (e : cexp) : A :=
    match e with
    | CConst q => ofQ q
    | CCos => e_cos E
    | CSin => e_sin E
    | CNeg x => neg (eval E x)
    | CMul a b => mul (eval E a) (eval E b)
    | CSq x => mul (eval E x) (eval E x)
    | CAbs2 k => let z := e_u E k in add (mul (fst z) (fst z)) (mul (snd z) (snd z))
    | CRe j k =>   (* (rj + i ij)(rk - i ik) = (rj rk + ij ik) + i (ij rk - rj ik) *)
      let zj := e_u E j in let zk := e_u E k in
      add (mul (fst zj) (fst zk)) (mul (snd zj) (snd zk))
    | CIm j k =>
      let zj := e_u E j in let zk := e_u E k in
      add (mul (snd zj) (fst zk)) (neg (mul (fst zj) (snd zk)))
    end.

  (* _u_from_thetavec:  np.transpose(eigvecs) @ (np.exp(1j * eigvals) * eigvecs[:, 0]),
     given (cos, sin) of the four eigenvalues:  u_j = sum_k E[k][j] * E[k][0] * exp(i lam_k) *)
  Definition ev_entry (k j : nat) : Q := nth j (nth k c15_eigvecs []) (0#1)%Q.

  Definition u_from_cs (cs : list (A * A)) (j : nat) : A * A :=
    fold_right
      (fun k acc =>
         let w := ofQ (ev_entry k j * ev_entry k 0)%Q in
         let z := nth k cs (ofQ (0#1)%Q, ofQ (0#1)%Q) in
         (add (mul w (fst z)) (fst acc), add (mul w (snd z)) (snd acc)))
      (ofQ (0#1)%Q, ofQ (0#1)%Q) [0; 1; 2; 3]%nat.
End Eval.

Arguments e_cos {A} _.
Arguments e_sin {A} _.
Arguments e_u {A} _ _.
Arguments Build_env {A} _ _ _.

(* Q, every intermediate result kept in lowest terms (Qred x == x; it only keeps the numerals of
   the correspondence small: sums of binary64 values stay dyadic instead of multiplying denominators) *)
Definition qadd (x y : Q) : Q := Qred (x + y).
Definition qmul (x y : Q) : Q := Qred (x * y).
Definition evalQ : env Q -> cexp -> Q := eval Q Qred qadd qmul Qopp.

(* Q(sqrt 2): (a, b) = a + b*sqrt 2 *)
Definition q2 := (Q * Q)%type.
Definition q2_ofQ (q : Q) : q2 := (q, (0#1)%Q).
Definition q2_add (x y : q2) : q2 := ((fst x + fst y)%Q, (snd x + snd y)%Q).
Definition q2_mul (x y : q2) : q2 :=
  ((fst x * fst y + (2#1) * (snd x * snd y))%Q, (fst x * snd y + snd x * fst y)%Q).
Definition q2_neg (x : q2) : q2 := ((- fst x)%Q, (- snd x)%Q).
Definition evalQ2 : env q2 -> cexp -> q2 := eval q2 q2_ofQ q2_add q2_mul q2_neg.

(* R *)
Definition evalR : env R -> cexp -> R := eval R Q2R Rplus Rmult Ropp.
Definition q2R (x : q2) : R := (Q2R (fst x) + Q2R (snd x) * sqrt 2)%R.

(* ------------------------------------------------------------------------------------ *)
(* kappa, probabilities, overhead   (qpd_basis.py, `coeffs` setter and `overhead`)        *)
(*   weights = np.abs(coeffs); kappa = sum(weights); probabilities = weights / kappa      *)
(*   overhead = kappa ** 2                                                                *)
(* Exact arithmetic: the order of the summation is immaterial; rounding is not modelled.  *)
(* ------------------------------------------------------------------------------------ *)

Definition kappaQ (l : list Q) : Q := fold_right (fun x acc => qadd (Qabs x) acc) (0#1)%Q l.
Definition probsQ (l : list Q) : list Q :=
  let k := kappaQ l in map (fun c => Qred (Qabs c / k)) l.   (* kappa computed once *)
Definition overheadQ (l : list Q) : Q := qmul (kappaQ l) (kappaQ l).
Definition sumQ (l : list Q) : Q := fold_right Qplus (0#1)%Q l.

Definition kappaR (l : list R) : R := fold_right (fun x acc => (Rabs x + acc)%R) 0%R l.
Definition probsR (l : list R) : list R := map (fun c => (Rabs c / kappaR l)%R) l.
Definition overheadR (l : list R) : R := (kappaR l * kappaR l)%R.
Definition sumR (l : list R) : R := fold_right Rplus 0%R l.

(* The object state that the setter maintains. *)
Record bstate := { st_coeffs : list Q; st_kappa : Q; st_probs : list Q }.

(* two states: maps set but no coefficients yet (inside __init__), or coefficients assigned *)
Inductive bphase :=
| Unset (nmaps : nat)
| Ready (nmaps : nat) (s : bstate).

Definition nmaps_of (p : bphase) : nat := match p with Unset n => n | Ready n _ => n end.

(* `basis.coeffs = coeffs`:  Refused = ValueError, the object is left as it was *)
Definition set_coeffs (p : bphase) (coeffs : list Q) : res bphase :=
  if Nat.eqb (length coeffs) (nmaps_of p) then
    Ok (Ready (nmaps_of p) {| st_coeffs := coeffs; st_kappa := kappaQ coeffs; st_probs := probsQ coeffs |})
  else Refused.

(* a sequence of assignments; a refused assignment changes nothing *)
Definition assign (p : bphase) (coeffs : list Q) : bphase :=
  match set_coeffs p coeffs with Ok p' => p' | _ => p end.
Definition run_assignments (p : bphase) (ops : list (list Q)) : bphase := fold_left assign ops p.

(* QPDBasis(maps, coeffs): _set_maps validations (arities = len of every map tuple), then the setter *)
Definition new_basis (arities : list nat) (coeffs : list Q) : res bphase :=
  match arities with
  | [] => Refused
  | a :: r =>
    if Nat.ltb 2 a then Refused
    else if forallb (Nat.eqb a) r then set_coeffs (Unset (length arities)) coeffs
    else Refused
  end.

(* the public read-only properties *)
Definition get_kappa (p : bphase) : option Q := match p with Ready _ s => Some (st_kappa s) | _ => None end.
Definition get_probs (p : bphase) : option (list Q) := match p with Ready _ s => Some (st_probs s) | _ => None end.
Definition get_coeffs (p : bphase) : option (list Q) := match p with Ready _ s => Some (st_coeffs s) | _ => None end.
Definition get_overhead (p : bphase) : option Q :=
  match p with Ready _ s => Some (qmul (st_kappa s) (st_kappa s)) | _ => None end.

(* ------------------------------------------------------------------------------------ *)
(* registry dispatch: gate name -> which coefficient list, at which angle                 *)
(* ------------------------------------------------------------------------------------ *)

Definition mem (x : string) (l : list string) : bool := existsb (String.eqb x) l.

Fixpoint assoc {B} (x : string) (l : list (string * B)) : option B :=
  match l with
  | [] => None
  | (k, v) :: r => if String.eqb x k then Some v else assoc x r
  end.

(* source guard of the controlled branch:  gate.name[0] == 'c'  (fact c15_ctrl_test) *)
Definition is_ctrl (name : string) : bool :=
  match name with String c _ => Ascii.eqb c "c"%char | EmptyString => false end.

(* theta_prime = scale * theta :   theta = -theta/2 (controlled only);  theta_prime = -theta/2 *)
Definition rot_scale (name : string) : Q :=
  if is_ctrl name then (c15_theta_prime_scale * c15_ctrl_theta_scale)%Q else c15_theta_prime_scale.

Inductive family :=
| FRot (p q : Q)                     (* rot_exprs at theta_prime = p*theta + q*pi *)
| FConst (l : list Q)                (* literal coefficient list *)
| FNonlocal (u : list (Q * Q * Q * Q))   (* nonlocal_exprs at a literal u, entries over Q(sqrt 2) *)
| FNone.

(* the gate's own angle is a*theta + b*pi  (a = 1, b = 0 at the top) *)
Fixpoint family_of (fuel : nat) (name : string) (a b : Q) : family :=
  match fuel with
  | O => FNone
  | S f =>
    if mem name c15_rot_names then FRot (rot_scale name * a)%Q (rot_scale name * b)%Q
    else if mem name c15_cx_names then FConst c15_cx_coeffs
    else if name =? "move" then FConst c15_move_coeffs
    else if name =? "swap" then FNonlocal c15_swap_u
    else if name =? "iswap" then FNonlocal c15_iswap_u
    else match assoc name c15_delegates with
         | Some (tgt, (a', b')) => family_of f tgt (a' * a)%Q (a' * b + b')%Q
         | None => FNone
         end
  end.

Definition family_of_name (name : string) : family := family_of 3 name (1#1)%Q (0#1)%Q.

(* --- reals ---------------------------------------------------------------------------- *)

Definition env_rotR (x : R) : env R :=
  {| e_cos := cos x; e_sin := sin x; e_u := fun _ => (0%R, 0%R) |}.
Definition env_uR (u : nat -> R * R) : env R := {| e_cos := 0%R; e_sin := 0%R; e_u := u |}.

Definition zero4 : Q * Q * Q * Q := ((0#1)%Q, (0#1)%Q, (0#1)%Q, (0#1)%Q).
Definition lit_u_q2 (u : list (Q * Q * Q * Q)) (k : nat) : q2 * q2 :=
  let '(ra, rb, ia, ib) := nth k u zero4 in ((ra, rb), (ia, ib)).
Definition lit_uR (u : list (Q * Q * Q * Q)) (k : nat) : R * R :=
  (q2R (fst (lit_u_q2 u k)), q2R (snd (lit_u_q2 u k))).

Definition rot_coeffsR (x : R) : list R := map (evalR (env_rotR x)) rot_exprs.
Definition nonlocal_coeffsR (u : nat -> R * R) : list R := map (evalR (env_uR u)) nonlocal_exprs.

(* coefficient list of QPDBasis.from_instruction(<gate name>(theta)) *)
Definition coeffsR (name : string) (theta : R) : list R :=
  match family_of_name name with
  | FRot p q => rot_coeffsR (Q2R p * theta + Q2R q * PI)%R
  | FConst l => map Q2R l
  | FNonlocal u => nonlocal_coeffsR (lit_uR u)
  | FNone => []
  end.

(* KAK path: eigenvalues are integer combinations of the Weyl coordinates (fact c15_eigvals) *)
Definition eigvalR (a b c : R) (row : list Z) : R :=
  (IZR (nth 0 row 0%Z) * a + IZR (nth 1 row 0%Z) * b + IZR (nth 2 row 0%Z) * c)%R.
Definition u_from_thetavecR (a b c : R) : nat -> R * R :=
  u_from_cs R Q2R Rplus Rmult
    (map (fun row => (cos (eigvalR a b c row), sin (eigvalR a b c row))) c15_eigvals).
Definition kak_coeffsR (a b c : R) : list R := nonlocal_coeffsR (u_from_thetavecR a b c).

(* what TwoQubitWeylDecomposition returns (oracle O-KAK): Weyl coordinates plus the four local
   factors and the global phase.  L is whatever represents the latter; it is not inspected. *)
Record weyl (L : Type) := { w_a : R; w_b : R; w_c : R; w_K1l : L; w_K1r : L; w_K2l : L; w_K2r : L; w_phase : R }.
Arguments w_a {L} _. Arguments w_b {L} _. Arguments w_c {L} _.
Definition kak_basis_coeffsR {L} (d : weyl L) : list R := kak_coeffsR (w_a d) (w_b d) (w_c d).

(* --- rationals (correspondence) -------------------------------------------------------- *)

Definition env_rotQ (c s : Q) : env Q :=
  {| e_cos := c; e_sin := s; e_u := fun _ => ((0#1)%Q, (0#1)%Q) |}.
Definition env_uQ (u : list (Q * Q)) : env Q :=
  {| e_cos := (0#1)%Q; e_sin := (0#1)%Q; e_u := fun k => nth k u ((0#1)%Q, (0#1)%Q) |}.
Definition env_uQ2 (u : nat -> q2 * q2) : env q2 :=
  {| e_cos := q2_ofQ (0#1)%Q; e_sin := q2_ofQ (0#1)%Q; e_u := u |}.

(* the literal-u families evaluate inside Q(sqrt 2) *)
Definition nonlocal_lit_q2 (u : list (Q * Q * Q * Q)) : list q2 :=
  map (evalQ2 (env_uQ2 (lit_u_q2 u))) nonlocal_exprs.

(* rational part when the sqrt 2 part vanishes *)
Fixpoint rationals (l : list q2) : option (list Q) :=
  match l with
  | [] => Some []
  | (a, b) :: r =>
    if Qeq_bool b (0#1)%Q then match rationals r with Some t => Some (a :: t) | None => None end
    else None
  end.

(* coefficient list at a rational point (c, s) standing for (cos theta_prime, sin theta_prime) *)
Definition coeffsQ (name : string) (c s : Q) : option (list Q) :=
  match family_of_name name with
  | FRot _ _ => Some (map (evalQ (env_rotQ c s)) rot_exprs)
  | FConst l => Some l
  | FNonlocal u => rationals (nonlocal_lit_q2 u)
  | FNone => None
  end.

(* the affine map theta |-> theta_prime of a name, when it has one *)
Definition theta_affine (name : string) : option (Q * Q) :=
  match family_of_name name with FRot p q => Some (p, q) | _ => None end.

Definition u_from_csQ (cs : list (Q * Q)) : list (Q * Q) :=
  map (u_from_cs Q Qred qadd qmul cs) [0; 1; 2; 3]%nat.
Definition nonlocal_coeffsQ (u : list (Q * Q)) : list Q := map (evalQ (env_uQ u)) nonlocal_exprs.

(* ------------------------------------------------------------------------------------ *)
(* the documented table (docs/explanation/index.rst, fact c15_doc_table)                  *)
(* ------------------------------------------------------------------------------------ *)

(* formula text of the "Sampling overhead factor" column -> the function of theta it denotes *)
Definition doc_formula (f : string) : option (R -> R) :=
  if f =? "3+2\sqrt{2}\approx5.828" then Some (fun _ => 3 + 2 * sqrt 2)%R
  else if f =? "3^2=9" then Some (fun _ => 3 ^ 2)%R
  else if f =? "7^2=49" then Some (fun _ => 7 ^ 2)%R
  else if f =? "4^2=16" then Some (fun _ => 4 ^ 2)%R
  else if f =? "\left[1+2\left|\sin(\theta)\right|\right]^2"
       then Some (fun t => (1 + 2 * Rabs (sin t)) ^ 2)%R
  else if f =? "\left[1+2\left|\sin(\theta/2)\right|\right]^2"
       then Some (fun t => (1 + 2 * Rabs (sin (t / 2))) ^ 2)%R
  else if f =? "\left[1+4\left|\sin(\theta/2)\right|+2\sin^2(\theta/2)\right]^2"
       then Some (fun t => (1 + 4 * Rabs (sin (t / 2)) + 2 * (sin (t / 2)) ^ 2) ^ 2)%R
  else None.

(* what a row of the "Instruction(s)" column is about: a registered name, or a gate that goes
   through the KAK path, given by its documented Weyl coordinates (|p theta|, |q theta|, 0) *)
Inductive subject := SName (n : string) | SKak (p q : Q).

Definition doc_subject (cls : string) : option subject :=
  assoc cls
    [("CSGate", SName "cs"); ("CSdgGate", SName "csdg"); ("CSXGate", SName "csx");
     ("CXGate", SName "cx"); ("CYGate", SName "cy"); ("CZGate", SName "cz"); ("CHGate", SName "ch");
     ("ECRGate", SName "ecr"); ("iSwapGate", SName "iswap"); ("DCXGate", SName "dcx");
     ("SwapGate", SName "swap"); ("RXXGate", SName "rxx"); ("RYYGate", SName "ryy");
     ("RZZGate", SName "rzz"); ("RZXGate", SKak (1#2) (0#1));
     ("CRXGate", SName "crx"); ("CRYGate", SName "cry"); ("CRZGate", SName "crz");
     ("CPhaseGate", SName "cp");
     ("XXPlusYYGate", SKak (1#4) (1#4)); ("XXMinusYYGate", SKak (1#4) (1#4));
     ("Move", SName "move")].

Definition subject_coeffsR (s : subject) (theta : R) : list R :=
  match s with
  | SName n => coeffsR n theta
  | SKak p q => kak_coeffsR (Rabs (Q2R p * theta)) (Rabs (Q2R q * theta)) 0
  end.

(* ------------------------------------------------------------------------------------ *)
(* coordinate triples that describe the same gate up to local unitaries                    *)
(* ------------------------------------------------------------------------------------ *)

(* The Weyl-group moves on (a, b, c) — transpositions, sign change of two coordinates, shift of one
   coordinate by pi/2 — closed under reflexivity, symmetry, transitivity; plus the sign change of a
   single coordinate (mirror image of the gate), which is NOT a local equivalence but leaves the
   58-term kappa unchanged as well.  Used as the EXPLICIT oracle premise of the c15_*_oracle theorems:
   "TwoQubitWeylDecomposition returned a triple related in this way to the one proved for the gate". *)
Inductive weyl_equiv : R * R * R -> R * R * R -> Prop :=
| we_refl t : weyl_equiv t t
| we_sym t u : weyl_equiv t u -> weyl_equiv u t
| we_trans t u v : weyl_equiv t u -> weyl_equiv u v -> weyl_equiv t v
| we_swap_ab a b c : weyl_equiv (a, b, c) (b, a, c)
| we_swap_bc a b c : weyl_equiv (a, b, c) (a, c, b)
| we_neg_ab a b c : weyl_equiv (a, b, c) ((- a)%R, (- b)%R, c)
| we_shift_a a b c : weyl_equiv (a, b, c) ((a + PI / 2)%R, b, c)
| we_mirror_a a b c : weyl_equiv (a, b, c) ((- a)%R, b, c).

Definition kak3 (t : R * R * R) : list R := let '(a, b, c) := t in kak_coeffsR a b c.
Definition weyl_coords {L} (d : weyl L) : R * R * R := (w_a d, w_b d, w_c d).

(* registered names whose basis is the rotation list at a FIXED angle q*pi with q <> 0 (cs, csdg, csx, csxdg):
   their (cos, sin) point is irrational, so they have no instance in the Q-level table theorems *)
Definition fixed_angle (name : string) : bool :=
  match family_of_name name with
  | FRot _ q => negb (Qeq_bool q (0#1)%Q)
  | _ => false
  end.

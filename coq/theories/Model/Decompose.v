(* Model/Decompose.v — executable model of
     qpd/decompose.py : decompose_qpd_instructions, _validate_qpd_instructions,
                        _decompose_qpd_instructions, _decompose_qpd_measurements
     qpd/instructions/qpd_gate.py : basis_id setter (range check), TwoQubitQPDGate._define,
                        SingleQubitQPDGate._define
   The list surgery keeps the running offsets of the Python code.  No proofs here
   (Proofs/DecomposeP.v).

   Conventions.
   * a circuit is its instruction list (Common/Circ.v); instruction_ids : list (list nat),
     map_ids : option (list (option Z)) (None = argument omitted; entries are Python ints, possibly
     negative, or None).  Negative instruction indices are outside the model and the property's
     quantifier (the harness never sends them).
   * benv : handle -> basis; two placeholders have equal handles iff QPDBasis.__eq__ holds.
   * Qiskit invariant used silently: an instruction whose operation is a TwoQubitQPDGate has
     two qubits, a SingleQubitQPDGate one qubit (QuantumCircuit.append enforces the arity), so
     `nth 0 / nth 1` on the qubit list never meets its default.
   * the model has no notion of the cached `Instruction._definition`: `definition` is always
     computed from the CURRENT basis_id, which is what the property demands.
   * unset basis_id (F5, c8b859e): _decompose_qpd_instructions refuses BEFORE any rewriting when some
     placeholder has basis_id None.
   * inconsistent groupings (property: "are refused"): the model follows the REPAIRED validation, which
     also refuses a two-element group containing a TwoQubitQPDGate and an instruction index that is
     mentioned twice (inside one group or across groups). *)
From CKT Require Import Common.Base Common.Circ.

(* ---------- small observers ---------- *)
Definition basis_of (i : instr) : option nat :=
  match iop i with Qpd2 b _ _ | Qpd1 b _ _ _ => Some b | _ => None end.
Definition bid_of (i : instr) : option nat :=
  match iop i with Qpd2 _ m _ | Qpd1 _ _ m _ => m | _ => None end.
Definition is_qpd2 (i : instr) : bool := match iop i with Qpd2 _ _ _ => true | _ => false end.
Definition is_marker (i : instr) : bool := match iop i with QpdMeasure => true | _ => false end.
(* a placeholder without basis_id *)
Definition has_bid (i : instr) : bool :=
  match iop i with Qpd2 _ None _ | Qpd1 _ _ None _ => false | _ => true end.

(* [i for i, inst in enumerate(data) if f inst], indices counted from k *)
Fixpoint positions_from {A} (f : A -> bool) (k : nat) (l : list A) : list nat :=
  match l with
  | [] => []
  | x :: r => if f x then k :: positions_from f (S k) r else positions_from f (S k) r
  end.
Definition positions {A} (f : A -> bool) (l : list A) : list nat := positions_from f 0 l.

(* ---------- _validate_qpd_instructions ---------- *)
(* for gate_id in decomp_ids: isinstance check, basis comparison with the first gate's, and (repair)
   a TwoQubitQPDGate must be a decomposition of its own; `pair` = (len(decomp_ids) == 2) *)
Fixpoint validate_members (c : circ) (b0 : nat) (pair : bool) (g : list nat) : res unit :=
  match g with
  | [] => Ok tt
  | p :: r =>
      match nth_error c p with
      | None => Crashed                                   (* IndexError *)
      | Some ins =>
          match basis_of ins with
          | None => Refused                               (* non-QPDGate *)
          | Some b => if Nat.eqb b0 b
                      then (if pair && is_qpd2 ins then Refused          (* 2q gate inside a two-element group *)
                            else validate_members c b0 pair r)
                      else Refused                        (* differing bases *)
          end
      end
  end.

Definition validate_group (c : circ) (g : list nat) : res unit :=
  if negb (Nat.eqb (length g) 1 || Nat.eqb (length g) 2) then Refused else
  match g with
  | [] => Refused
  | p0 :: _ =>
      match nth_error c p0 with
      | None => Crashed
      | Some ins0 =>
          match basis_of ins0 with
          | None => Refused
          | Some b0 => validate_members c b0 (Nat.eqb (length g) 2) g
          end
      end
  end.

Fixpoint validate_groups (c : circ) (ids : list (list nat)) : res unit :=
  match ids with
  | [] => Ok tt
  | g :: r => res_bind (validate_group c g) (fun _ => validate_groups c r)
  end.

(* len(set(flat)) != len(flat) *)
Fixpoint nodupb (l : list nat) : bool :=
  match l with [] => true | x :: r => negb (existsb (Nat.eqb x) r) && nodupb r end.

Definition validate (c : circ) (ids : list (list nat)) : res unit :=
  res_bind (validate_groups c ids) (fun _ =>
    if negb (nodupb (concat ids)) then Refused                                     (* (repair) an index mentioned twice *)
    else if Nat.eqb (length (filter is_qpd c)) (list_sum (map (@length nat) ids)) then Ok tt else Refused).

(* ---------- map_ids: length check + assignment loop (basis_id setter) ---------- *)
Definition set_bid_op (m : nat) (o : op) : op :=
  match o with
  | Qpd2 b _ l => Qpd2 b (Some m) l
  | Qpd1 b h _ l => Qpd1 b h (Some m) l
  | o => o
  end.
Definition set_bid (m : nat) (i : instr) : instr := mkI (set_bid_op m (iop i)) (iqs i) (ics i).

(* BaseQPDGate.basis_id setter (also run by both constructors) on a gate whose basis has handle b:
   `basis_id not in range(0, len(basis.maps))` -> ValueError.  This is the class invariant `wfb`. *)
Definition bid_in_range (benv : benv) (b : nat) (m : Z) : bool :=
  (Z.leb 0 m && Z.ltb m (Z.of_nat (length (nth b benv []))))%bool.
Definition setter (benv : benv) (b : nat) (m : Z) : res unit :=
  if bid_in_range benv b m then Ok tt else Refused.

(* (since fix 417f876 decompose_qpd_instructions checks every map id with the same range test before
   assigning any; the functional model returns Refused either way)
   circuit.data[gate_id].operation.basis_id = m ;  setter: m not in range(0, len(basis.maps)) -> ValueError.
   map ids are Python ints (Z): a negative id is out of range *)
Definition assign1 (benv : benv) (c : circ) (p : nat) (m : Z) : res circ :=
  match nth_error c p with
  | None => Crashed
  | Some ins =>
      match basis_of ins with
      | None => Ok c                       (* unreachable after validate *)
      | Some b => if (Z.leb 0 m && Z.ltb m (Z.of_nat (length (nth b benv []))))%bool
                  then Ok (upd c p (set_bid (Z.to_nat m) ins)) else Refused
      end
  end.

Fixpoint assign_group (benv : benv) (c : circ) (g : list nat) (m : Z) : res circ :=
  match g with
  | [] => Ok c
  | p :: r => res_bind (assign1 benv c p m) (fun c' => assign_group benv c' r m)
  end.

(* for i, decomp_gate_ids in enumerate(instruction_ids): ... map_ids[i] ; lengths are equal here *)
Fixpoint assign_loop (benv : benv) (c : circ) (gm : list (list nat * Z)) : res circ :=
  match gm with
  | [] => Ok c
  | (g, m) :: r => res_bind (assign_group benv c g m) (fun c' => assign_loop benv c' r)
  end.

(* [m for m in map_ids] when no entry is None *)
Fixpoint all_some {A} (l : list (option A)) : option (list A) :=
  match l with
  | [] => Some []
  | None :: _ => None
  | Some x :: r => option_map (cons x) (all_some r)
  end.

(* length check; pre-validation loop (417f876, 32107ac): `map_ids[i] is None or map_ids[i] not in range(num_maps)`
   -> ValueError for every member of every group, before anything is assigned; then the assignment loop.
   After validate every group is non-empty and every index is a placeholder, so the pre-validation refuses
   iff some entry is None or out of range for a member of its group, and the assignment loop then cannot
   fail: the two loops are folded into `all_some` + `assign_loop` (same returned value; the argument's
   state after a refusal is observed by the harness, not modelled). *)
Definition set_basis_ids (benv : benv) (c : circ) (ids : list (list nat)) (maps : option (list (option Z))) : res circ :=
  match maps with
  | None => Ok c
  | Some mos => if negb (Nat.eqb (length ids) (length mos)) then Refused
                else match all_some mos with
                     | None => Refused
                     | Some ms => assign_loop benv c (combine ids ms)
                     end
  end.

(* ---------- _decompose_qpd_instructions, first loop: 2q -> two 1q halves ---------- *)
(* sorted() on a list of ints: insertion sort (any correct sort returns the same list) *)
Fixpoint insert_sorted (x : nat) (l : list nat) : list nat :=
  match l with
  | [] => [x]
  | y :: r => if Nat.leb x y then x :: l else y :: insert_sorted x r
  end.
Fixpoint isort (l : list nat) : list nat :=
  match l with [] => [] | x :: r => insert_sorted x (isort r) end.

(* for decomp in instruction_ids: if len(decomp) != 1: continue; if isinstance(data[decomp[0]], TwoQubitQPDGate) *)
Fixpoint ids_2q (c : circ) (ids : list (list nat)) : list nat :=
  match ids with
  | [] => []
  | [p] :: r => match nth_error c p with
                | Some ins => if is_qpd2 ins then p :: ids_2q c r else ids_2q c r
                | None => ids_2q c r        (* IndexError; unreachable after validate *)
                end
  | _ :: r => ids_2q c r
  end.

(* TwoQubitQPDGate._define: two SingleQubitQPDGate(basis, qubit_id=0/1, basis_id, label) on qubits[0], qubits[1] *)
Definition halves (i : instr) : option (instr * instr) :=
  match iop i with
  | Qpd2 b m l => Some (mkI (Qpd1 b 0 m l) [nth 0 (iqs i) 0] [], mkI (Qpd1 b 1 m l) [nth 1 (iqs i) 0] [])
  | _ => None
  end.

Fixpoint loop_2q (L : list nat) (off : nat) (cur : circ) : res circ :=
  match L with
  | [] => Ok cur
  | i :: L' =>
      match nth_error cur (i + off) with
      | None => Crashed
      | Some ins =>
          match halves ins with
          | None => Crashed                (* definition.data[1] / qubits[1] of a non-2q instruction *)
          | Some (h0, h1) =>
              let cur1 := upd cur (i + off) h0 in            (* circuit.data[i + off] = inst1 *)
              let off1 := S off in                            (* data_id_offset += 1 *)
              loop_2q L' off1 (insert_at cur1 (i + off1) h1)  (* circuit.data.insert(i + off, inst2) *)
          end
      end
  end.

Definition expand_2q (c : circ) (ids : list (list nat)) : res circ :=
  loop_2q (isort (ids_2q c ids)) 0 c.

(* ---------- second loop: every remaining placeholder -> its definition ---------- *)
Definition half_seq (h : nat) (m : list bop * list bop) : list bop :=
  match h with O => fst m | _ => snd m end.

(* SingleQubitQPDGate._define: basis.maps[basis_id][qubit_id] *)
Definition definition_1q (benv : benv) (b h m : nat) : option (list bop) :=
  option_map (half_seq h) (nth_error (nth b benv []) m).

(* for data in tmp_data[1:]: data_id_offset += 1; circuit.data.insert(i + data_id_offset, data) *)
Fixpoint insert_rest (cur : circ) (i : nat) (off : Z) (ds : list instr) : circ * Z :=
  match ds with
  | [] => (cur, off)
  | d :: r => let off1 := (off + 1)%Z in
              insert_rest (insert_at cur (Z.to_nat (Z.of_nat i + off1)) d) i off1 r
  end.

Fixpoint loop_1q (benv : benv) (L : list nat) (off : Z) (cur : circ) : res circ :=
  match L with
  | [] => Ok cur
  | i :: L' =>
      let pos := Z.to_nat (Z.of_nat i + off) in
      match nth_error cur pos with
      | None => Crashed
      | Some ins =>
          match iop ins with
          | Qpd2 _ _ _ => Crashed                       (* assert len(qubits) == 1 *)
          | Qpd1 b h None _ => Crashed                  (* definition is None (`None.data`); unreachable after the up-front check *)
          | Qpd1 b h (Some m) _ =>
              match definition_1q benv b h m with
              | None => Crashed                         (* maps[basis_id] IndexError (setter invariant broken) *)
              | Some ops =>
                  let q := nth 0 (iqs ins) 0 in
                  match map (fun o => mkI (of_bop o) [q] []) ops with
                  | [] => loop_1q benv L' (off - 1)%Z (delete_at cur pos)     (* del; offset -= 1 *)
                  | d0 :: ds =>
                      let '(cur2, off2) := insert_rest (upd cur pos d0) i off ds in
                      loop_1q benv L' off2 cur2
                  end
              end
          | _ => Crashed                                (* position does not hold a placeholder *)
          end
      end
  end.

Definition expand_1q (benv : benv) (c : circ) : res circ :=
  loop_1q benv (positions is_qpd c) 0%Z c.

(* ---------- _decompose_qpd_measurements ---------- *)
(* for idx, i in enumerate(qpd_measure_ids): data[i] = Measure on gate.qubits writing reg[idx];
   reg is appended after the nc existing clbits, so reg[idx] has index nc + idx *)
Fixpoint loop_meas (L : list nat) (idx nc : nat) (cur : circ) : circ :=
  match L with
  | [] => cur
  | i :: L' =>
      let g := nth i cur (mkI QpdMeasure [] []) in
      loop_meas L' (S idx) nc (upd cur i (mkI Measure (iqs g) [nc + idx]))
  end.

Definition decompose_measurements (nc : nat) (c : circ) : circ * nat :=
  let L := positions is_marker c in
  (loop_meas L 0 nc c, Nat.max 1 (length L)).          (* ClassicalRegister(max(1, len(ids))) *)

(* ---------- decompose_qpd_instructions ---------- *)
(* _decompose_qpd_instructions: up-front unset-basis_id check, the two loops, the marker pass *)
Definition finish (benv : benv) (c1 : circ) (nc : nat) (ids : list (list nat)) : res (circ * nat) :=
  if negb (forallb has_bid c1) then Refused else          (* "Cannot decompose a QPD gate whose basis_id is unset" *)
  res_bind (expand_2q c1 ids) (fun c2 =>
  res_bind (expand_1q benv c2) (fun c3 =>
  Ok (decompose_measurements nc c3))).

(* result: new instruction list and the size of the new final register "qpd_measurements";
   nc = number of classical bits of the input circuit *)
Definition decompose (benv : benv) (c : circ) (nc : nat) (ids : list (list nat)) (maps : option (list (option Z)))
  : res (circ * nat) :=
  res_bind (validate c ids) (fun _ =>
  res_bind (set_basis_ids benv c ids maps) (fun c1 =>
  finish benv c1 nc ids)).

(* Model/ResetFreeBases.v — bridge from C02's model of qpd/decompositions.py (Model/Bases.v: the 20 registered
   decomposition functions and the KAK path, sequences over op1) to the basis form used by the splice / reset models
   (Common/Circ.v: sequences over bop).  Only the position of OReset / OMeas matters for C19; gates are interned so that
   the `move` table comes out literally as Model/ResetFree.v's [move_basis].  No proofs here. *)
From Coq Require Import String List.
From CKT Require Import Common.Base Common.Circ Common.Ptm Model.Bases Model.ResetFree.
Import ListNotations.

Definition bop_of_op1 (o : op1) : bop :=
  match o with
  | OReset => BReset
  | OMeas => BMeas
  | OH => BGate 0 | OSX => BGate 1 | OX => BGate 2 | OSXdg => BGate 3
  | OY => BGate 4 | OZ => BGate 5 | OS => BGate 6 | OSdg => BGate 7 | OT => BGate 8 | OTdg => BGate 9
  | ORX _ => BGate 10 | ORY _ => BGate 11 | ORZ _ => BGate 12 | OP _ => BGate 13
  | OU k => BGate (20 + k)
  end.

(* QPDBasis.maps of a modelled basis: (sequence on qubit 0, sequence on qubit 1) per map *)
Definition circ_basis (b : pbasis) : basis :=
  map (fun t => (map bop_of_op1 (snd (fst t)), map bop_of_op1 (snd t))) (resolve b).

(* every basis qpdbasis_from_instruction can return: the 20 registered names and the KAK path *)
Definition all_bases : list (string * pbasis) :=
  [("swap", nonlocal_basis u_swap); ("iswap", nonlocal_basis u_iswap); ("dcx", dcx_basis);
   ("rxx", family_basis AxX false); ("ryy", family_basis AxY false); ("rzz", family_basis AxZ false);
   ("crx", family_basis AxX true); ("cry", family_basis AxY true); ("crz", family_basis AxZ true);
   ("cs", dress0 (ins0 OT) (family_basis AxZ true)); ("csdg", dress0 (ins0 OTdg) (family_basis AxZ true));
   ("cp", dress0 (ins0 (OP Th2P)) (family_basis AxZ true));
   ("csx", dress0 (ins0 OT) (family_basis AxX true)); ("csxdg", dress0 (ins0 OTdg) (family_basis AxX true));
   ("cx", cx_basis KCX); ("cy", cx_basis KCY); ("cz", cx_basis KCZ); ("ch", cx_basis KCH);
   ("ecr", ecr_basis); ("move", Bases.move_basis); ("<kak>", kak_basis)]%string.

(* 0: no Reset anywhere; 1: Move-like; 2: other — of a single basis (ResetFree.basis_class is the same on env entries) *)
Definition class_of (b : basis) : nat :=
  if basis_reset_free b then 0 else if move_like b then 1 else 2.

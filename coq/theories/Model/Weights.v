(* Model/Weights.v — executable model of qiskit_addon_cutting/qpd/weights.py over exact Q.
     _min_filter_nonzero
     _generate_exact_weights_and_conditional_probabilities_assume_sorted   (dfs_spec AND dfs_machine)
     _generate_exact_weights_and_conditional_probabilities                 (gen_unsorted: permutation wrapper)
     _generate_qpd_weights                                                 (gen_core / gen_weights)
     _populate_samples                                                     (populate: draw tape; ecount: expectation)
     generate_qpd_weights                                                  (final_sort)
   Binary64 rounding is out of scope.  The cut-off comes from Extracted/Facts.v (nonzero_atol).
   No proofs here (Proofs/WeightsP*.v). *)
From Coq Require Import QArith Qabs Qround.
From CKT Require Import Common.Base Extracted.Facts.
Open Scope Q_scope.

(* ---------- small numeric helpers ---------- *)
Definition Qltb (x y : Q) : bool := negb (Qle_bool y x).
Definition qsum (l : list Q) : Q := fold_right Qplus 0 l.            (* np.sum *)
Definition qprod (l : list Q) : Q := fold_right Qmult 1 l.           (* np.prod *)

(* np.isclose(x, 0, atol=_NONZERO_ATOL):  |x - 0| <= atol + rtol*|0|  =  |x| <= atol *)
Definition isclose0 (x : Q) : bool := Qle_bool (Qabs x) nonzero_atol.
Definition zero_small (x : Q) : Q := if isclose0 x then 0 else x.

(* ---------- keys and insertion-ordered dicts ---------- *)
Definition key := list nat.
Definition key_eqb : key -> key -> bool := list_beq Nat.eqb.

Fixpoint dget {V} (d : list (key * V)) (k : key) : option V :=
  match d with
  | [] => None
  | (k', v) :: r => if key_eqb k k' then Some v else dget r k
  end.

(* d[k] = v : an existing key keeps its position *)
Fixpoint dset {V} (d : list (key * V)) (k : key) (v : V) : list (key * V) :=
  match d with
  | [] => [(k, v)]
  | (k', v') :: r => if key_eqb k k' then (k', v) :: r else (k', v') :: dset r k v
  end.

Definition dmem {V} (d : list (key * V)) (k : key) : bool :=
  match dget d k with Some _ => true | None => false end.

(* ---------- yields of the generator ---------- *)
Inductive yield :=
| YFull (st : key) (p : Q)            (* full state, its exact probability *)
| YCond (st : key) (v : list Q).      (* partial state, conditional-probability vector *)

(* ================================================================================
   (a) dfs_spec : structurally recursive SPECIFICATION of
       _generate_exact_weights_and_conditional_probabilities_assume_sorted.
   A node = a prefix `prefix` (natural order) whose running product `rp` passed the
   threshold test; `bases` = the coefficient vectors still to be chosen.
   sub = what the node reports to its parent's table entry:
     SubNone   nothing exact below: entry untouched (no table was ever created)
     SubLeaf   full state, yielded: entry := 0
     SubNorm n a table existed below: entry *= n  (n = sum of the zeroed table)      *)
Inductive sub := SubNone | SubLeaf | SubNorm (n : Q).

(* Loop over the children i, i+1, ... of a node (entries l of the current vector).
   Returns (yields, raw table entries for positions i.., found-something-exact).
   `rp*p < thr` => pop: this child AND every later sibling stay unvisited, entries untouched. *)
Fixpoint kids (thr : Q) (node : key -> Q -> list yield * sub) (prefix : key) (rp : Q)
              (i : nat) (l : list Q) {struct l} : list yield * list Q * bool :=
  match l with
  | [] => ([], [], false)
  | p :: l' =>
      if Qltb (rp * p) thr then ([], l, false)
      else
        let '(ys, s) := node (prefix ++ [i]) (rp * p) in
        let '(ys', tab, fnd) := kids thr node prefix rp (S i) l' in
        match s with
        | SubNone => (ys ++ ys', p :: tab, fnd)
        | SubLeaf => (ys ++ ys', 0 :: tab, true)
        | SubNorm n => (ys ++ ys', p * n :: tab, true)
        end
  end.

(* what happens when the level below `prefix` is popped *)
Definition finish (prefix : key) (r : list yield * list Q * bool) : list yield * sub :=
  let '(ys, tab, fnd) := r in
  if fnd then
    let tab0 := map zero_small tab in
    match prefix with
    | [] => (ys ++ [YCond [] tab0], SubNorm (qsum tab0))       (* top level: not normalised *)
    | _ :: _ =>
        let norm := qsum tab0 in
        (ys ++ (if Qeq_bool norm 0 then [] else [YCond prefix (map (fun x => x / norm) tab0)]),
         SubNorm norm)
    end
  else (ys, SubNone).

Fixpoint dfs_node (thr : Q) (bases : list (list Q)) (prefix : key) (rp : Q) {struct bases}
  : list yield * sub :=
  match bases with
  | [] => ([YFull prefix rp], SubLeaf)
  | cur :: rest => finish prefix (kids thr (dfs_node thr rest) prefix rp 0%nat cur)
  end.

Definition dfs_spec (probs : list (list Q)) (thr : Q) : list yield := fst (dfs_node thr probs [] 1).

(* The raw (pre-cut-off) tables popped by the generator, with their prefix.  Used only to STATE the
   hypothesis "no conditional-table entry lies in the cut-off band (0, atol]" (and by examples). *)
Fixpoint kids_raw (thr : Q) (nraw : key -> Q -> list (key * list Q)) (prefix : key) (rp : Q)
                  (i : nat) (l : list Q) {struct l} : list (key * list Q) :=
  match l with
  | [] => []
  | p :: l' =>
      if Qltb (rp * p) thr then []
      else nraw (prefix ++ [i]) (rp * p) ++ kids_raw thr nraw prefix rp (S i) l'
  end.

Fixpoint node_raw (thr : Q) (bases : list (list Q)) (prefix : key) (rp : Q) {struct bases} : list (key * list Q) :=
  match bases with
  | [] => []
  | cur :: rest =>
      let '(_, tab, fnd) := kids thr (dfs_node thr rest) prefix rp 0%nat cur in
      kids_raw thr (node_raw thr rest) prefix rp 0%nat cur ++ (if fnd then [(prefix, tab)] else [])
  end.

Definition raw_tables (probs : list (list Q)) (thr : Q) : list (key * list Q) := node_raw thr probs [] 1.

(* x is not in the cut-off band: the zeroing leaves it alone *)
Definition band_free (x : Q) : Prop := x == 0 \/ nonzero_atol < x.
Definition band_free_b (x : Q) : bool := Qeq_bool x 0 || Qltb nonzero_atol x.

(* ================================================================================
   (b) dfs_machine : the `while True` loop, one iteration per step.
   Python lists used as stacks (state, running_product, running_conditional_probabilities)
   are stored REVERSED: head = element [-1].  `mout` is newest-first.                 *)
Record mstate := mkM {
  m_pop : bool;                 (* next_pop *)
  m_st : list nat;              (* state, reversed *)
  m_rp : list Q;                (* running_product, reversed *)
  m_rcp : list (list Q);        (* running_conditional_probabilities, reversed *)
  m_out : list yield            (* yields so far, newest first *)
}.

Inductive stepres := Next (m : mstate) | Done (ys : list yield) | Stuck.

(* while len(rcp) < len(probs): rcp.append(np.array(probs[len(rcp)])) *)
Fixpoint extend_rcp (probs : list (list Q)) (n : nat) (rcp : list (list Q)) : list (list Q) :=
  match n with
  | O => rcp
  | S n' => extend_rcp probs n' (nth (length rcp) probs [] :: rcp)
  end.

(* __update_running_product_after_increment, on the reversed stack *)
Definition update_rp (probs : list (list Q)) (st : list nat) (rp : list Q) : option (list Q) :=
  match rp, st with
  | _ :: below, s :: _ =>
      let prev := match below with b :: _ => b | [] => 1 end in
      Some (prev * nth s (nth (length st - 1) probs []) 0 :: below)
  | _, _ => None
  end.

Definition init_state (probs : list (list Q)) : mstate :=
  mkM false [0%nat] [nth 0 (nth 0 probs []) 0] [] [].

Definition step (probs : list (list Q)) (thr : Q) (m : mstate) : stepres :=
  let D := length probs in
  if m_pop m then
    match m_st m with
    | [] => Stuck
    | _ :: st1 =>                                            (* state.pop() *)
        let stageA :=
          if Nat.eqb (length st1 + 1) (length (m_rcp m)) then
            match m_rcp m with
            | [] => None
            | cur :: rcp1 =>                                 (* rcp.pop() *)
                let cur0 := map zero_small cur in
                match st1 with
                | [] => Some (rcp1, YCond [] cur0 :: m_out m)
                | top :: _ =>
                    let norm := qsum cur0 in
                    let out' := if Qeq_bool norm 0 then m_out m
                                else YCond (rev st1) (map (fun x => x / norm) cur0) :: m_out m in
                    match rcp1 with
                    | [] => None
                    | par :: rcp2 => Some (upd par top (nth top par 0 * norm) :: rcp2, out')
                    end
                end
            end
          else Some (m_rcp m, m_out m) in
        match stageA with
        | None => Stuck
        | Some (rcp', out') =>
            match st1 with
            | [] => Done (rev out')                          (* if not state: return *)
            | top :: st2 =>
                match m_rp m with
                | [] => Stuck
                | _ :: rp1 =>                                (* running_product.pop() *)
                    let st' := S top :: st2 in               (* state[-1] += 1 *)
                    if negb (Nat.eqb (S top) (length (nth (length st' - 1) probs []))) then
                      match update_rp probs st' rp1 with
                      | None => Stuck
                      | Some rp' => Next (mkM false st' rp' rcp' out')
                      end
                    else Next (mkM true st' rp1 rcp' out')
                end
            end
        end
    end
  else
    match m_rp m, m_st m with
    | r :: _, s :: st1 =>
        if Qltb r thr then Next (mkM true (m_st m) (m_rp m) (m_rcp m) (m_out m))
        else if Nat.ltb (length (m_st m)) D then
          match nth (length (m_st m)) probs [] with
          | [] => Stuck                                      (* IndexError on [0] *)
          | p0 :: _ => Next (mkM false (0%nat :: m_st m) (r * p0 :: m_rp m) (m_rcp m) (m_out m))
          end
        else
          let out' := YFull (rev (m_st m)) r :: m_out m in
          let rcp1 := extend_rcp probs (D - length (m_rcp m)) (m_rcp m) in
          match rcp1 with
          | [] => Stuck
          | t :: more =>
              let rcp2 := upd t s 0 :: more in               (* rcp[-1][state[-1]] = 0 *)
              let st' := S s :: st1 in
              if Nat.eqb (S s) (length (last probs [])) then
                Next (mkM true st' (m_rp m) rcp2 out')
              else
                match update_rp probs st' (m_rp m) with
                | None => Stuck
                | Some rp' => Next (mkM false st' rp' rcp2 out')
                end
          end
    | _, _ => Stuck
    end.

Fixpoint run_from (fuel : nat) (probs : list (list Q)) (thr : Q) (m : mstate) : option (list yield) :=
  match fuel with
  | O => None
  | S f => match step probs thr m with
           | Done ys => Some ys
           | Stuck => None
           | Next m' => run_from f probs thr m'
           end
  end.

Definition run_machine (fuel : nat) (probs : list (list Q)) (thr : Q) : option (list yield) :=
  run_from fuel probs thr (init_state probs).

(* number of prefixes of the full tree; every prefix costs at most one non-pop and one pop step *)
Fixpoint tree_size (bases : list (list Q)) : nat :=
  match bases with
  | [] => 0%nat
  | cur :: rest => (length cur * S (tree_size rest))%nat
  end.
Definition fuel_bound (probs : list (list Q)) : nat := (2 * tree_size probs + 2)%nat.

(* ================================================================================
   (c) permutation wrapper  _generate_exact_weights_and_conditional_probabilities.
   perms[k] = np.argsort(probs[k])[::-1] is an INPUT (tie order is numpy's business).     *)
Definition apply_perm (perm : list nat) (v : list Q) : list Q := map (fun j => nth j v 0) perm.   (* cp[permutation] *)

Fixpoint map2 {A B C} (f : A -> B -> C) (la : list A) (lb : list B) : list C :=
  match la, lb with
  | a :: ra, b :: rb => f a b :: map2 f ra rb
  | _, _ => []
  end.

Definition sorted_probs (probs : list (list Q)) (perms : list (list nat)) : list (list Q) :=
  map2 apply_perm perms probs.

(* tuple(perm[idx] for perm, idx in zip(permutations, coeff_indices)) *)
Definition unperm_state (perms : list (list nat)) (st : key) : key :=
  map2 (fun perm idx => nth idx perm 0%nat) perms st.

(* probability[ipermutation] : position j receives the entry of the sorted position k with perm[k] = j *)
Definition unperm_vec (perm : list nat) (v : list Q) : list Q :=
  map (fun j => match index_of j perm with Some k => nth k v 0 | None => 0 end) (seq 0 (length perm)).

Definition unperm_yield (perms : list (list nat)) (y : yield) : yield :=
  match y with
  | YFull st p => YFull (unperm_state perms st) p
  | YCond st v => YCond (unperm_state perms st) (unperm_vec (nth (length st) perms []) v)
  end.

Definition gen_unsorted (probs : list (list Q)) (perms : list (list nat)) (thr : Q) : list yield :=
  map (unperm_yield perms) (dfs_spec (sorted_probs probs perms) thr).

(* contract of argsort()[::-1] : a permutation of range(n) listing the entries in descending order *)
Fixpoint desc_b (l : list Q) : bool :=
  match l with
  | x :: ((y :: _) as r) => Qle_bool y x && desc_b r
  | _ => true
  end.
Definition is_perm_b (n : nat) (perm : list nat) : bool :=
  Nat.eqb (length perm) n && forallb (fun j => existsb (Nat.eqb j) perm) (seq 0 n).
Definition sorting_perm_b (v : list Q) (perm : list nat) : bool :=
  is_perm_b (length v) perm && desc_b (apply_perm perm v).
Fixpoint sorting_perms_b (probs : list (list Q)) (perms : list (list nat)) : bool :=
  match probs, perms with
  | [], [] => true
  | v :: rv, p :: rp => sorting_perm_b v p && sorting_perms_b rv rp
  | _, _ => false
  end.

(* "no entry in the cut-off": the inputs are clean (every entry is 0 or > atol) and no raw table entry of the
   DFS (run in sorted coordinates with threshold thr) lies in (0, atol] *)
Definition no_entry_in_cutoff (probs : list (list Q)) (perms : list (list nat)) (thr : Q) : Prop :=
  Forall (Forall band_free) probs /\
  Forall (fun kt => Forall band_free (snd kt)) (raw_tables (sorted_probs probs perms) thr).
Definition no_entry_in_cutoff_b (probs : list (list Q)) (perms : list (list nat)) (thr : Q) : bool :=
  forallb (forallb band_free_b) probs &&
  forallb (fun kt => forallb band_free_b (snd kt)) (raw_tables (sorted_probs probs perms) thr).

(* ================================================================================
   (d) _generate_qpd_weights                                                              *)
Inductive num := Fin (q : Q) | PInf | NInf | NaN.        (* the float num_samples *)
Inductive wtype := EXACT | SAMPLED.
Definition wtype_eqb (a b : wtype) : bool :=
  match a, b with EXACT, EXACT => true | SAMPLED, SAMPLED => true | _, _ => false end.
Definition wdict := list (key * (Q * wtype)).

(* np.min(vals[~isclose(vals,0)]) ; ValueError on an empty selection *)
Definition min_filter_nonzero (v : list Q) : option Q :=
  match filter (fun x => negb (isclose0 x)) v with
  | [] => None
  | x :: r => Some (fold_left (fun a b => if Qltb b a then b else a) r x)
  end.
Definition qmax (v : list Q) : Q :=
  match v with [] => 0 | x :: r => fold_left (fun a b => if Qltb a b then b else a) r x end.

Fixpoint all_some {A} (l : list (option A)) : option (list A) :=
  match l with
  | [] => Some []
  | None :: _ => None
  | Some x :: r => option_map (cons x) (all_some r)
  end.

(* itertools.product over range(len(p)) for p in probs : last index fastest *)
Fixpoint cart (dims : list nat) : list key :=
  match dims with
  | [] => [[]]
  | n :: r => flat_map (fun i => map (cons i) (cart r)) (seq 0 n)
  end.

(* prod(probs[k][ids[k]]) over strict_zip *)
Fixpoint jointp (probs : list (list Q)) (ids : key) : Q :=
  match probs, ids with
  | v :: rv, i :: ri => nth i v 0 * jointp rv ri
  | _, _ => 1
  end.

Definition in_range (probs : list (list Q)) (ids : key) : Prop :=
  length ids = length probs /\ forall k, (k < length ids)%nat -> (nth k ids 0 < length (nth k probs []))%nat.
Fixpoint in_range_b (probs : list (list Q)) (ids : key) : bool :=
  match probs, ids with
  | [], [] => true
  | v :: rv, i :: ri => Nat.ltb i (length v) && in_range_b rv ri
  | _, _ => false
  end.

Definition all_exact (probs : list (list Q)) (mult : Q) : wdict :=
  fold_left (fun d ids => let p := jointp probs ids in
                          if Qltb p nonzero_atol then d else dset d ids (mult * p, EXACT))
            (cart (map (@length Q) probs)) [].

(* the for-loop over the generator *)
Definition absorb (D : nat) (N : Q) (acc : wdict * list (key * list Q) * Q) (y : yield)
  : wdict * list (key * list Q) * Q :=
  let '(ret, cond, wts) := acc in
  match y with
  | YFull st p => (dset ret st (p * N, EXACT), cond, wts)
  | YCond st v =>
      match st with
      | [] => let w := qsum v in (ret, dset cond st (map (fun x => x / w) v), w)
      | _ :: _ => (ret, dset cond st v, wts)
      end
  end.

(* np.flatnonzero *)
Definition flatnonzero (v : list Q) : list nat :=
  map fst (filter (fun ix => negb (Qeq_bool (snd ix) 0)) (combine (seq 0 (length v)) v)).

(* the `while len(running_state) < len(probs)` walk of the single-leftover shortcut.
   Some (Some rs): loop ran to completion (else-clause); Some None: break; None: assert len(x) != 0 failed *)
Fixpoint leftover_walk (rest : list (list Q)) (cond : list (key * list Q)) (rs : key) : option (option key) :=
  match rest with
  | [] => Some (Some rs)
  | indep :: rest' =>
      let probs := match dget cond rs with Some v => v | None => indep end in
      match flatnonzero probs with
      | [] => None
      | [x] => leftover_walk rest' cond (rs ++ [x])
      | _ => Some None
      end
  end.

Inductive core :=
| CDone (r : wdict)                                        (* returned without sampling *)
| CSample (r : wdict) (cond : list (key * list Q)) (nd : nat) (ssw : Q).

Definition gen_core (probs : list (list Q)) (perms : list (list nat)) (N : num) : res core :=
  match N with
  | NaN | NInf => Refused                                   (* not num_samples >= 1 *)
  | Fin q => if Qltb q 1 then Refused else
      let thr := 1 / q in
      match all_some (map min_filter_nonzero probs) with
      | None => Refused                                     (* ValueError from np.min([]) *)
      | Some mins =>
        if Qle_bool thr (qprod mins) then Ok (CDone (all_exact probs q))
        else
          let '(ret, cond, wts0) :=
            if Qle_bool thr (qprod (map qmax probs))
            then fold_left (absorb (length probs) q) (gen_unsorted probs perms thr) ([], [], 1)
            else ([], [], 1) in
          let wts := wts0 * q in
          let sn := Qceiling wts in
          if Z.ltb sn 1 then Ok (CDone ret)                 (* REPAIRED (F9): `if samples_needed < 1: return retval`;
                                                               /repo has `assert samples_needed >= 1` here, which fails
                                                               when the whole residual mass was zeroed by the cut-off *)
          else
            let ssw := wts / inject_Z sn in
            let sample := Ok (CSample ret cond (Z.to_nat sn) ssw) in
            match cond with
            | [] => sample
            | _ :: _ =>
                match leftover_walk probs cond [] with
                | None => Crashed                           (* assert len(x) != 0 *)
                | Some None => sample
                | Some (Some rs) =>
                    if dmem ret rs then Crashed             (* assert running_state not in retval *)
                    else Ok (CDone (dset ret rs (wts, EXACT)))
                end
            end
      end
  | PInf =>                                                 (* threshold = 0.0, multiplier = 1.0 *)
      match all_some (map min_filter_nonzero probs) with
      | None => Refused
      | Some mins => if Qle_bool 0 (qprod mins) then Ok (CDone (all_exact probs 1)) else Crashed
      end
  end.

(* ================================================================================
   (e) _populate_samples on an explicit draw tape.
   np.random.choice(range(n), k, p=probs) consumes k indices.  Oracle contract O-choice on the
   support: an index is < n and has p > 0; a tape that violates it (or is too short) is
   inadmissible (None).                                                                   *)
Fixpoint draw (p : list Q) (k : nat) (tape : list nat) : option (list nat * list nat) :=
  match k with
  | O => Some ([], tape)
  | S k' =>
      match tape with
      | [] => None
      | x :: t =>
          if Nat.ltb x (length p) && negb (Qeq_bool (nth x p 0) 0) then
            match draw p k' t with
            | Some (xs, t') => Some (x :: xs, t')
            | None => None
            end
          else None
      end
  end.

(* every np.random.choice call is logged as (k, p) so that the correspondence can compare the
   arguments the implementation passed to the oracle *)
Definition calllog := list (nat * list Q).

Fixpoint take_cols (ps : list (list Q)) (k : nat) (tape : list nat)
  : option (list (list nat) * list nat * calllog) :=
  match ps with
  | [] => Some ([], tape, [])
  | p :: r =>
      match draw p k tape with
      | None => None
      | Some (c, t1) =>
          match take_cols r k t1 with
          | None => None
          | Some (cs, t2, lg) => Some (c :: cs, t2, (k, p) :: lg)
          end
      end
  end.

(* zip of the unpacked columns *)
Definition rows (k : nat) (cols : list (list nat)) : list key :=
  match cols with
  | [] => []
  | _ => map (fun j => map (fun c => nth j c 0%nat) cols) (seq 0 k)
  end.

(* collections.Counter(...).items() : first-occurrence order *)
Fixpoint cnt_add {A} (eqb : A -> A -> bool) (c : list (A * nat)) (x : A) : list (A * nat) :=
  match c with
  | [] => [(x, 1%nat)]
  | (y, n) :: r => if eqb x y then (y, S n) :: r else (y, n) :: cnt_add eqb r x
  end.
Definition counter {A} (eqb : A -> A -> bool) (l : list A) : list (A * nat) :=
  fold_left (cnt_add eqb) l [].

(* the `for current_outcome, count in Counter(current_outcomes).items()` loop;
   `rec` = the recursive call of _populate_samples one level down, `full` = the new outcome is a full state *)
Fixpoint pop_loop (rec : key -> nat -> list nat -> option (list (key * nat) * list nat * calllog))
                  (full : bool) (rs : key) (ocs : list (nat * nat)) (t : list nat) {struct ocs}
  : option (list (key * nat) * list nat * calllog) :=
  match ocs with
  | [] => Some ([], t, [])
  | (o, c) :: more =>
      if full then                                         (* "It's a full one" *)
        match pop_loop rec full rs more t with
        | None => None
        | Some (acc, t', lg) => Some ((rs ++ [o], c) :: acc, t', lg)
        end
      else
        match rec (rs ++ [o]) c t with                     (* Recurse *)
        | None => None
        | Some (s1, t2, lg1) =>
            match pop_loop rec full rs more t2 with
            | None => None
            | Some (s2, t3, lg2) => Some (s1 ++ s2, t3, lg1 ++ lg2)
            end
        end
  end.

Fixpoint populate (rest : list (list Q)) (cond : list (key * list Q)) (rs : key) (nd : nat)
                  (tape : list nat) {struct rest} : option (list (key * nat) * list nat * calllog) :=
  match dget cond rs with
  | None =>
      match take_cols rest nd tape with
      | None => None
      | Some (cols, t', lg) =>
          Some (map (fun oc => (rs ++ fst oc, snd oc)) (counter key_eqb (rows nd cols)), t', lg)
      end
  | Some probs =>
      match rest with
      | [] => None                          (* a table keyed by a full state never exists *)
      | _ :: rest' =>
          match draw probs nd tape with
          | None => None
          | Some (outs, t1) =>
              match pop_loop (fun rs' c t => populate rest' cond rs' c t)
                             (match rest' with [] => true | _ :: _ => false end)
                             rs (counter Nat.eqb outs) t1 with
              | None => None
              | Some (s, t, lg) => Some (s, t, (nd, probs) :: lg)
              end
          end
      end
  end.

(* retval[outcome] = (count * single_sample_weight, SAMPLED), with `assert outcome not in retval` *)
Fixpoint insert_samples (ret : wdict) (ssw : Q) (s : list (key * nat)) : option wdict :=
  match s with
  | [] => Some ret
  | (k, c) :: r => if dmem ret k then None else insert_samples (dset ret k (inject_Z (Z.of_nat c) * ssw, SAMPLED)) ssw r
  end.

(* None = inadmissible tape;  Some (Ok d) | Some Refused | Some Crashed *)
Definition gen_weights (probs : list (list Q)) (perms : list (list nat)) (N : num) (tape : list nat)
  : option (res wdict) :=
  match gen_core probs perms N with
  | Refused => Some Refused
  | Crashed => Some Crashed
  | Ok (CDone r) => Some (Ok r)
  | Ok (CSample ret cond nd ssw) =>
      match populate probs cond [] nd tape with
      | None => None
      | Some (s, _, _) => match insert_samples ret ssw s with
                       | None => Some Crashed
                       | Some r => Some (Ok r)
                       end
      end
  end.

(* Expected count of `ids` among nd draws, following _populate_samples with
   O-choice: E[count_i of n draws from p] = n * p_i (draws of different calls independent),
   and linearity/tower property for the recursion on the random count.                     *)
Fixpoint ecount (rest : list (list Q)) (cond : list (key * list Q)) (rs : key) (nd : Q) (ids : key) : Q :=
  match dget cond rs with
  | None => nd * jointp rest ids
  | Some probs =>
      match rest, ids with
      | _ :: rest', i :: ids' => ecount rest' cond (rs ++ [i]) (nd * nth i probs 0) ids'
      | _, _ => 0
      end
  end.

(* expected weight reported for the joint map ids *)
Definition expected_weight (probs : list (list Q)) (perms : list (list nat)) (N : num) (ids : key) : Q :=
  match gen_core probs perms N with
  | Ok (CDone r) => match dget r ids with Some (w, _) => w | None => 0 end
  | Ok (CSample ret cond nd ssw) =>
      match dget ret ids with
      | Some (w, _) => w
      | None => ssw * ecount probs cond [] (inject_Z (Z.of_nat nd)) ids
      end
  | _ => 0
  end.

(* ================================================================================
   (f) generate_qpd_weights : sorted(items, key=(type.value, -weight)) — stable            *)
Definition wt_value (t : wtype) : nat := match t with EXACT => 1%nat | SAMPLED => 2%nat end.
(* key a <= key b *)
Definition sort_le (a b : key * (Q * wtype)) : bool :=
  let ta := wt_value (snd (snd a)) in let tb := wt_value (snd (snd b)) in
  Nat.ltb ta tb || (Nat.eqb ta tb && Qle_bool (fst (snd b)) (fst (snd a))).
Fixpoint sort_insert (x : key * (Q * wtype)) (l : wdict) : wdict :=
  match l with
  | [] => [x]
  | y :: r => if sort_le x y then x :: l else y :: sort_insert x r
  end.
(* stable insertion sort: fold from the right, an element goes BEFORE the first y with key x <= key y *)
Definition final_sort (d : wdict) : wdict := fold_right sort_insert [] d.

(* ================================================================================
   (g) the public entry point generate_qpd_weights(qpd_bases, num_samples):
       probabilities of a basis = |coeffs| / kappa, kappa = sum |coeffs|   (QPDBasis.coeffs setter, qpd_basis.py)
       result = dict(sorted(_generate_qpd_weights(probabilities, num_samples).items(), key=...))                     *)
Definition basis_probs (coeffs : list Q) : list Q :=
  let kappa := qsum (map Qabs coeffs) in map (fun c => Qabs c / kappa) coeffs.

Definition generate_qpd_weights (bases : list (list Q)) (perms : list (list nat)) (N : num) (tape : list nat)
  : option (res wdict) :=
  match gen_weights (map basis_probs bases) perms N tape with
  | None => None
  | Some r => Some (res_map final_sort r)
  end.

(* weight reported for a joint map in a returned dictionary (0 when absent) *)
Definition weight_of (d : wdict) (k : key) : Q := match dget d k with Some (w, _) => w | None => 0 end.

(* the dictionary _generate_qpd_weights returns after sampling: retval with the samples inserted *)
Definition final_dict (ret : wdict) (ssw : Q) (s : list (key * nat)) : wdict :=
  match insert_samples ret ssw s with Some r => r | None => [] end.

(* Model/Sim.v — executable model of
     utils/simulation.py : simulate_statevector_outcomes   (and ExactSampler._call / BaseSamplerV1.run around it)
   over an ABSTRACT INSTRUMENT (the quantum step is a Section variable; the branch bookkeeping is modelled
   line by line).  No proofs here (Proofs/SimP.v). *)
From Coq Require Import QArith Qabs.
From CKT Require Import Common.Base Common.QSim.
Close Scope Q_scope.

Section Sim.
  (* ---- the instrument: everything Qiskit's Statevector does for the function under study ----
     state        a (normalised) state vector                          Statevector
     apply g qs s Statevector._evolve_instruction(s, g, qs)            unitary gate g on qubits qs
     p1 s q       s.probabilities([q])[1]; p0 is modelled as 1 - p1    (contract: 0 <= p1 <= 1, used only where stated)
     proj s q b   s.evolve(diag(1/sqrt p0, 0) resp. diag(0, 1/sqrt p1), [q])   normalised post-measurement state
     flipx s q    X on qubit q (the reset branch multiplies the 1-projector by X)
     tol          _TOLERANCE (Extracted.Facts.sim_tolerance) *)
  Variable gate : Type.
  Variable state : Type.
  Variable apply : gate -> list nat -> state -> state.
  Variable p1 : state -> nat -> Q.
  Variable proj : state -> nat -> bool -> state.
  Variable flipx : state -> nat -> state.
  Variable tol : Q.

  (* programs: qc.data after canonicalisation by the harness *)
  Inductive pinstr :=
  | PGate (g : gate) (qs : list nat)     (* unitary gate, no clbits, no condition *)
  | PMeasure (q c : nat)                 (* measure qubit q into clbit c *)
  | PReset (q : nat)
  | PBarrier (qs : list nat)
  | PCond                                (* any operation with condition_bits (c_if, if_test, ...) *)
  | PGateWithClbit.                      (* unconditioned operation other than measure/reset that has clbits *)
  Definition prog := list pinstr.

  Definition refusing (i : pinstr) : bool :=
    match i with PCond | PGateWithClbit => true | _ => false end.

  Definition branch := (Q * state)%type.            (* (prob, sv) *)
  Definition dict := list (N * list branch).        (* defaultdict(list), items in insertion order, keys unique *)

  (* np.isclose(p, 0, atol=_TOLERANCE):  |p - 0| <= atol + rtol*|0| *)
  Definition isclose0 (p : Q) : bool := Qle_bool (Qabs p) tol.

  (* current[k].append(v) on a defaultdict: existing key keeps its position, a new key goes last *)
  Fixpoint dict_append (d : dict) (k : N) (v : branch) : dict :=
    match d with
    | [] => [(k, [v])]
    | (k', l) :: r => if N.eqb k k' then (k', l ++ [v]) :: r else (k', l) :: dict_append r k v
    end.

  (* del l[i]; None = IndexError *)
  Fixpoint del_at {A} (l : list A) (i : nat) : option (list A) :=
    match l, i with
    | [], _ => None
    | _ :: r, O => Some r
    | x :: r, S j => option_map (cons x) (del_at r j)
    end.

  (* del current[k][i]; a missing key would be created empty by the defaultdict and then IndexError *)
  Fixpoint dict_del (d : dict) (k : N) (i : nat) : option dict :=
    match d with
    | [] => None
    | (k', l) :: r =>
        if N.eqb k k' then option_map (fun l' => (k', l') :: r) (del_at l i)
        else option_map (cons (k', l)) (dict_del r k i)
    end.

  (* the body of `for i, (prob, sv) in enumerate(svs)` : what one branch appends to pending_insert *)
  Definition split_branch (q : nat) (kf : N) (k : N) (b : branch) : list (N * branch) :=
    let prob := fst b in
    let sv := snd b in
    let prob1 := p1 sv q in
    let prob0 := (1 - prob1)%Q in
    let k0 := N.lxor k (N.land k kf) in            (* k ^ (k & k_flipper) *)
    let k1 := N.lor k kf in                        (* k | k_flipper *)
    (if isclose0 prob0 then [] else [(k0, ((prob * prob0)%Q, proj sv q false))]) ++
    (if isclose0 prob1 then [] else
       [(k1, ((prob * prob1)%Q,
              if N.eqb kf 0 then flipx (proj sv q true) q   (* reset: X @ proj1 *)
              else proj sv q true))]).

  (* ghost: how many of the two children of this branch were truncated *)
  Definition pruned_here (q : nat) (b : branch) : nat :=
    ((if isclose0 (1 - p1 (snd b) q)%Q then 1 else 0) + (if isclose0 (p1 (snd b) q) then 1 else 0))%nat.

  Definition pending_delete (d : dict) : list (N * nat) :=
    flat_map (fun kl => map (fun i => (fst kl, i)) (seq 0 (length (snd kl)))) d.

  Definition pending_insert (q : nat) (kf : N) (d : dict) : list (N * branch) :=
    flat_map (fun kl => flat_map (split_branch q kf (fst kl)) (snd kl)) d.

  Definition pruned_count (q : nat) (d : dict) : nat :=
    fold_right (fun kl acc => (fold_right (fun b a => (pruned_here q b + a)%nat) 0%nat (snd kl) + acc)%nat) 0%nat d.

  (* for k, i in <dels>: del current[k][i] *)
  Fixpoint apply_deletes (dels : list (N * nat)) (d : dict) : option dict :=
    match dels with
    | [] => Some d
    | (k, i) :: r => match dict_del d k i with None => None | Some d' => apply_deletes r d' end
    end.

  (* for k, v in pending_insert: current[k].append(v) *)
  Fixpoint apply_inserts (ins : list (N * branch)) (d : dict) : dict :=
    match ins with
    | [] => d
    | (k, v) :: r => apply_inserts r (dict_append d k v)
    end.

  (* for k in [k for k, v in current.items() if not v]: del current[k] *)
  Definition cleanup (d : dict) : dict :=
    filter (fun kl => match snd kl with [] => false | _ => true end) d.

  (* the measure/reset arm of the loop; None = an exception other than ValueError *)
  Definition nonunitary_step (q : nat) (kf : N) (d : dict) : option dict :=
    match apply_deletes (rev (pending_delete d)) d with
    | None => None
    | Some d1 => Some (cleanup (apply_inserts (pending_insert q kf d) d1))
    end.

  (* the gate arm: every state vector is evolved in place *)
  Definition evolve (g : gate) (qs : list nat) (d : dict) : dict :=
    map (fun kl => (fst kl, map (fun b => (fst b, apply g qs (snd b))) (snd kl))) d.

  (* the loop over qc.data; the nat is a ghost counter of truncated branches *)
  Fixpoint run (p : prog) (d : dict) (n : nat) : res (dict * nat) :=
    match p with
    | [] => Ok (d, n)
    | PCond :: _ => Refused
    | PGateWithClbit :: _ => Refused
    | PGate g qs :: r => run r (evolve g qs d) n
    | PBarrier _ :: r => run r d n        (* _evolve_instruction returns the vector unchanged for a Barrier *)
    | PMeasure q c :: r =>
        match nonunitary_step q (N.shiftl 1 (N.of_nat c)) d with
        | None => Crashed
        | Some d' => run r d' (n + pruned_count q d)
        end
    | PReset q :: r =>
        match nonunitary_step q 0%N d with
        | None => Crashed
        | Some d' => run r d' (n + pruned_count q d)
        end
    end.

  (* sum(prob for prob, _ in svs): ((0 + p1) + p2) + ... *)
  Definition sum_probs (l : list branch) : Q := fold_left (fun acc b => (acc + fst b)%Q) l 0%Q.

  Definition finalize (d : dict) : list (N * Q) := map (fun kl => (fst kl, sum_probs (snd kl))) d.

  Definition init_dict (s0 : state) : dict := [(0%N, [(1%Q, s0)])].

  (* simulate_statevector_outcomes; s0 = Statevector.from_int(0, 2**num_qubits) *)
  Definition simulate (s0 : state) (p : prog) : res (list (N * Q)) :=
    res_map (fun dn => finalize (fst dn)) (run p (init_dict s0) 0).

  Definition pruned_total (s0 : state) (p : prog) : res nat :=
    res_map snd (run p (init_dict s0) 0).

  (* ExactSampler().run([qc]).result().quasi_dists[0]:  BaseSamplerV1.run first validates (Qiskit, not the
     package): a circuit without classical bits or without a Measure instruction is a ValueError. *)
  Definition is_measure (i : pinstr) : bool := match i with PMeasure _ _ => true | _ => false end.
  Definition sampler (nclbits : nat) (s0 : state) (p : prog) : res (list (N * Q)) :=
    if Nat.eqb nclbits 0 then Refused
    else if negb (existsb is_measure p) then Refused
    else simulate s0 p.

  (* ---------------- specification side: independent recursive path semantics ----------------
     Each measurement splits the path in two with weights p0/p1 and clears/sets the classical bit (a later
     measurement into the same bit overwrites); a reset splits and leaves the bits alone.  A path is a pair
     (final classical register, probability); no merging, no pruning. *)
  Definition scale (c : Q) (l : list (N * Q)) : list (N * Q) := map (fun kp => (fst kp, (c * snd kp)%Q)) l.

  Fixpoint path_law (p : prog) (s : state) (k : N) : list (N * Q) :=
    match p with
    | [] => [(k, 1%Q)]
    | PGate g qs :: r => path_law r (apply g qs s) k
    | PBarrier _ :: r => path_law r s k
    | PMeasure q c :: r =>
        scale (1 - p1 s q)%Q (path_law r (proj s q false) (N.clearbit k (N.of_nat c))) ++
        scale (p1 s q) (path_law r (proj s q true) (N.setbit k (N.of_nat c)))
    | PReset q :: r =>
        scale (1 - p1 s q)%Q (path_law r (proj s q false) k) ++
        scale (p1 s q) (path_law r (flipx (proj s q true) q) k)
    | PCond :: r => path_law r s k              (* not in the domain of the theorems *)
    | PGateWithClbit :: r => path_law r s k
    end.
End Sim.

Arguments PGate {gate} g qs.
Arguments PMeasure {gate} q c.
Arguments PReset {gate} q.
Arguments PBarrier {gate} qs.
Arguments PCond {gate}.
Arguments PGateWithClbit {gate}.
Arguments refusing {gate} i.
Arguments is_measure {gate} i.
Arguments dict_append {state} d k v.
Arguments dict_del {state} d k i.
Arguments split_branch {state} p1 proj flipx tol q kf k b.
Arguments pruned_here {state} p1 tol q b.
Arguments pending_delete {state} d.
Arguments pending_insert {state} p1 proj flipx tol q kf d.
Arguments pruned_count {state} p1 tol q d.
Arguments apply_deletes {state} dels d.
Arguments apply_inserts {state} ins d.
Arguments cleanup {state} d.
Arguments nonunitary_step {state} p1 proj flipx tol q kf d.
Arguments evolve {gate state} apply g qs d.
Arguments run {gate state} apply p1 proj flipx tol p d n.
Arguments sum_probs {state} l.
Arguments finalize {state} d.
Arguments init_dict {state} s0.
Arguments simulate {gate state} apply p1 proj flipx tol s0 p.
Arguments pruned_total {gate state} apply p1 proj flipx tol s0 p.
Arguments sampler {gate state} apply p1 proj flipx tol nclbits s0 p.
Arguments path_law {gate state} apply p1 proj flipx p s k.

(* finite maps outcome -> Q as association lists (merging equal outcomes by summation) *)
Definition lookup (l : list (N * Q)) (k : N) : Q :=
  fold_right (fun kp acc => if N.eqb (fst kp) k then (snd kp + acc)%Q else acc) 0%Q l.

Definition total (l : list (N * Q)) : Q := fold_right (fun kp acc => (snd kp + acc)%Q) 0%Q l.

(* expectation of a function of the outcome *)
Definition ev (phi : N -> Q) (l : list (N * Q)) : Q :=
  fold_right (fun kp acc => (phi (fst kp) * snd kp + acc)%Q) 0%Q l.

(* ---------------- the QSim instance (Common/QSim.v): exact Q(sqrt 2)(i) state vectors ---------------- *)
Definition qprog := prog qgate.
Definition qsimulate (tol : Q) (nq : nat) (p : qprog) : res (list (N * Q)) :=
  simulate qapply qp1 qproj qflipx tol (init_vec nq) p.
Definition qsampler (tol : Q) (nq ncl : nat) (p : qprog) : res (list (N * Q)) :=
  sampler qapply qp1 qproj qflipx tol ncl (init_vec nq) p.
Definition qpruned (tol : Q) (nq : nat) (p : qprog) : res nat :=
  pruned_total qapply qp1 qproj qflipx tol (init_vec nq) p.
Definition qpath (nq : nat) (p : qprog) : list (N * Q) :=
  path_law qapply qp1 qproj qflipx p (init_vec nq) 0%N.

(* Model/ProcessCF.v — the process-state model of C09 (Model/Process.v) with the find_cuts oracle INSTANTIATED by the
   executable cut-finder model of C07/C08 (Model/CutFinder*.v), parameterised by the tape of the per-search Generator.

   Glue that is modelled here (automated_cut_finding.py / cut_optimization.py):
     CutOptimization.__init__ :  cut_actions = search_space_actions.copy(cut_groups)          (Process.an_copy)
     cut_optimization_next_state_func :  func_args.search_actions.get_group("TwoQubitGates")    (two_qubit_group)
   i.e. the action list the search works with is READ FROM THE PROCESS REGISTRY through the fresh filtered copy; the
   cut-finder model's own five-element `registry`/`search_actions` is then a theorem about the import-time registry
   (Proofs/ProcessCFP.v), not a definition.  The five slots of the function table are the five functions the search
   model gives semantics to; a table holding anything else is outside the model (value None, like out-of-fuel).
   No proofs here. *)
From Coq Require Import String QArith.
From CKT Require Import Model.CutFinder.
From CKT Require Import Model.Process.
Close Scope Q_scope.
Open Scope string_scope.
Open Scope list_scope.

(* an action object of the registry (identified by get_name()) -> the next-state primitive of the search model *)
Definition akind_of_gname (g : gname) : option akind :=
  match g with
  | None => Some KApply
  | Some s =>
      if String.eqb s "CutTwoQubitGate" then Some KGate
      else if String.eqb s "CutLeftWire" then Some KLeft
      else if String.eqb s "CutRightWire" then Some KRight
      else if String.eqb s "CutBothWires" then Some KBoth
      else None
  end.

Fixpoint akinds_of (l : list gname) : option (list akind) :=
  match l with
  | [] => Some []
  | g :: r => match akind_of_gname g, akinds_of r with
              | Some k, Some ks => Some (k :: ks)
              | _, _ => None
              end
  end.

Fixpoint dict_get {V} (k : gname) (d : list (gname * V)) : option V :=
  match d with
  | [] => None
  | (k', v) :: r => if gname_eqb k k' then Some v else dict_get k r
  end.

(* ActionNames.get_group("TwoQubitGates") on the fresh copy, as search-model action kinds.
   Outer None: an action the search model has no semantics for.  Inner None: the group is absent (get_group returns
   None and `assert action_list is not None` fails as soon as a two-qubit gate is expanded). *)
Definition two_qubit_group (c : action_names) : option (option (list akind)) :=
  match dict_get (Some "TwoQubitGates") (group_dict c) with
  | None => Some None
  | Some l => option_map Some (akinds_of (map Process.a_name l))
  end.

Definition ft_beq (a b : func_table) : bool :=
  list_beq (option_beq String.eqb) (ft_view a) (ft_view b).

(* find_cuts (Model/CutFinder.v: find_cuts_full) with the action list as an argument instead of
   `search_actions (fi_gate_lo i) (fi_wire_lo i)`; everything else verbatim *)
Definition find_cuts_full_acts (fuel : nat) (acts : list akind) (i : fc_input) : out fc_result :=
  if Nat.ltb (fi_W i) 1 then Ref else
  let cco := qc_to_cco (fi_nq i) (fi_gtab i) (fi_circ i) in
  let f0 := iface_init cco in
  if negb (settings_ok i) then Ref else
  let gates := get_multiqubit_gates (if_circuit f0) in
  let fa := mkF gates acts (fi_W i) in
  do r <- optimize (fi_tape i) fa (fi_max_gamma i) (option_map Z.to_nat (fi_max_backjumps i)) (if_num_qubits f0) fuel ;;
  match or_best r with
  | None => Crash
  | Some best =>
      do f1 <- export_cuts best f0 ;;
      let gate_ids := map (fun a => g_inst (a_gate a)) (filter is_gate_cut (actions best)) in
      let wire_cut_actions := filter (fun a => negb (is_gate_cut a)) (actions best) in
      do c1 <- (if negb (Nat.eqb (fi_ncl i) 0) then Ref else cut_gates (fi_gtab i) (fi_circ i) gate_ids) ;;
      do c2 <- insert_wire_cuts (fi_circ i) c1 0 (sort_actions wire_cut_actions) ;;
      let e := co_engine (or_cutopt r) in
      let md := mkMD (scan_cuts 0 c2) (Qmult (gamma_UB best) (gamma_UB best)) (min_reached e) in
      Val (mkFR c2 md best (co_greedy (or_cutopt r)) (or_goals r) (get_stats e) (pen_stats e) (pushes e) (n_pushback e) f1)
  end.

Definition public_result (o : out fc_result) : option (res (circ * metadata)) :=
  match o with
  | Val r => Some (Ok (fr_circ r, fr_meta r))
  | Ref => Some Refused
  | Crash => Some Crashed
  | NoFuel => None
  end.

(* the arguments of one find_cuts call: circuit, constraints, options (fi_tape of ca_in is ignored: the tape comes from
   the seed), and how the decomposition registry determines kappa / the QPD gate of each two-qubit gate of the circuit
   (QPDBasis.from_instruction, the model of C02) *)
Record cf_args := mkCA { ca_in : fc_input ; ca_gtab : list string -> gtab }.

Definition input_of (a : cf_args) (basis : list string) (t : nat -> Q) : fc_input :=
  let i := ca_in a in
  mkIn (fi_nq i) (fi_ncl i) (fi_circ i) (ca_gtab a basis) (fi_W i) (fi_gate_lo i) (fi_wire_lo i)
       (fi_max_gamma i) (fi_max_backjumps i) t.

(* the TwoQubitGates group is absent from the copy: get_group returns None, get_action_subset(None, None) returns None and
   `assert action_list is not None` in cut_optimization_next_state_func fails — as soon as a gate is expanded, which the
   greedy pass does iff the circuit has a multi-qubit gate; the refusals of DeviceConstraints / OptimizationSettings come
   before *)
Definition find_cuts_missing_group (fuel : nat) (i : fc_input) : option (res (circ * metadata)) :=
  if Nat.ltb (fi_W i) 1 then Some Refused else
  if negb (settings_ok i) then Some Refused else
  match get_multiqubit_gates (if_circuit (iface_init (qc_to_cco (fi_nq i) (fi_gtab i) (fi_circ i)))) with
  | [] => public_result (find_cuts_full_acts fuel [] i)
  | _ :: _ => Some Crashed
  end.

(* find_cuts as a function of what it reads from the process: the fresh copy, the function table, the decomposition
   registry — and its arguments and tape.  None = outside the model (a table not holding the five import-time functions,
   an action name the search model has no semantics for) or out of fuel. *)
Definition find_cuts_reg (fuel : nat) (fresh : res action_names) (tbl : func_table) (basis : list string)
                         (a : cf_args) (t : nat -> Q) : option (res (circ * metadata)) :=
  if negb (ft_beq tbl import_funcs) then None else
  match fresh with
  | Ok c =>
      match two_qubit_group c with
      | Some (Some acts) => public_result (find_cuts_full_acts fuel acts (input_of a basis t))
      | Some None => find_cuts_missing_group fuel (input_of a basis t)
      | None => None
      end
  | _ => Some Crashed                   (* the assertion inside define_action: AssertionError out of find_cuts *)
  end.

(* the oracle record of Model/Process.v with the cut finder made concrete; generation and from_instruction stay as in O.
   st : O-rng, the stream of doubles of np.random.default_rng(s) as a function of the integer s *)
Definition O_cf (fuel : nat) (st : Z -> nat -> Q) (O : oracles) : oracles :=
  mkO cf_args (args_ge O) (args_fi O) (nat -> Q) (option (res (circ * metadata))) (res_ge O) (res_fi O)
      st
      (fun a => fi_gate_lo (ca_in a)) (fun a => fi_wire_lo (ca_in a))
      (find_cuts_reg fuel)
      (ge_coeffs O) (tail_reaches_sampler O) (np_advance O)
      (gen_exact_pure O) (gen_sampled O) (from_instruction_pure O).

(* the registry after import, as a value *)
Definition import_registry : action_names :=
  match import_actions with Ok an => an | _ => an_empty end.

(* a process state as import leaves it, as far as find_cuts can see *)
Definition import_state (g : gstate) : Prop :=
  action_registry g = import_registry /\ funcs_lo g = import_funcs.

(* Model/KappaGates.v — the 4x4 matrices of the named gates that reach the KAK path (rzx, xx_plus_yy,
   xx_minus_yy) and of the canonical two-qubit interaction  N(a,b,c) = sum_k u_k s_k (x) s_k  with
   u = _u_from_thetavec([a,b,c]) (property C15).  Little-endian as in Qiskit: index = 2*q1 + q0 and
   kron A B puts A on q1.  The gate tables are generic over the ring of entries (R for the theorems,
   Q for the correspondence with Gate.to_matrix()).  No proofs inside. *)
From Coq Require Import QArith Reals.
From CKT Require Import Common.Base Extracted.Facts Model.Kappa.
Close Scope Q_scope.
Local Open Scope R_scope.

(* complex numbers as (re, im) *)
Definition C := (R * R)%type.
Definition C0 : C := (0, 0).
Definition C1 : C := (1, 0).
Definition Ci : C := (0, 1).
Definition Cadd (x y : C) : C := (fst x + fst y, snd x + snd y).
Definition Cmul (x y : C) : C := (fst x * fst y - snd x * snd y, fst x * snd y + snd x * fst y).
Definition Cscale (r : R) (x : C) : C := (r * fst x, r * snd x).
Definition Cneg (x : C) : C := (- fst x, - snd x).

Definition mat := nat -> nat -> C.
Definition sum4 (f : nat -> C) : C := Cadd (f 0%nat) (Cadd (f 1%nat) (Cadd (f 2%nat) (f 3%nat))).
Definition mmul (A B : mat) : mat := fun i j => sum4 (fun k => Cmul (A i k) (B k j)).
Definition mscale (r : R) (A : mat) : mat := fun i j => Cscale r (A i j).

(* 2x2 blocks and their Kronecker product (first factor on q1, the high bit) *)
Definition m2 (a b c d : C) : mat :=
  fun i j => match i, j with
             | 0%nat, 0%nat => a | 0%nat, 1%nat => b | 1%nat, 0%nat => c | 1%nat, 1%nat => d
             | _, _ => C0 end.
Definition kron (A B : mat) : mat :=
  fun i j => Cmul (A (Nat.div i 2) (Nat.div j 2)) (B (Nat.modulo i 2) (Nat.modulo j 2)).

Definition sI : mat := m2 C1 C0 C0 C1.
Definition sX : mat := m2 C0 C1 C1 C0.
Definition sY : mat := m2 C0 (Cneg Ci) Ci C0.
Definition sZ : mat := m2 C1 C0 C0 (Cneg C1).
Definition sigma (k : nat) : mat :=
  match k with 0%nat => sI | 1%nat => sX | 2%nat => sY | _ => sZ end.

(* Hadamard without its 1/sqrt 2 (Hm * Hm = 2 I), and the phase gate diag(1, e^{i beta}) *)
Definition Hm : mat := m2 C1 C1 C1 (Cneg C1).
Definition Dph (beta : R) : mat := m2 C1 C0 C0 (cos beta, sin beta).

(* the canonical interaction as the code builds it: coefficients u on the basis II, XX, YY, ZZ *)
Definition nonlocal_mat (u : nat -> R * R) : mat :=
  fun i j => sum4 (fun k => Cmul (u k) (kron (sigma k) (sigma k) i j)).
Definition kak_mat (a b c : R) : mat := nonlocal_mat (u_from_thetavecR a b c).

(* --- gate tables, generic over the ring of entries --------------------------------------- *)
Section Tables.
  Variable A : Type.
  Variables zero one : A.
  Variable mul : A -> A -> A.
  Variable neg : A -> A.
  (* c = cos(theta/2), s = sin(theta/2), cb = cos beta, sb = sin beta *)
  Variables c s cb sb : A.
  Let z : A * A := (zero, zero).
  Let o : A * A := (one, zero).
  Let cc : A * A := (c, zero).

  (* RZXGate(theta) = exp(-i theta/2 X(x)Z) *)
  Definition rzx_table : list (list (A * A)) :=
    [[cc; z; (zero, neg s); z];
     [z; cc; z; (zero, s)];
     [(zero, neg s); z; cc; z];
     [z; (zero, s); z; cc]].

  (* XXPlusYYGate(theta, beta) *)
  Definition xxpyy_table : list (list (A * A)) :=
    [[o; z; z; z];
     [z; cc; (neg (mul s sb), neg (mul s cb)); z];
     [z; (mul s sb, neg (mul s cb)); cc; z];
     [z; z; z; o]].

  (* XXMinusYYGate(theta, beta) *)
  Definition xxmyy_table : list (list (A * A)) :=
    [[cc; z; z; (neg (mul s sb), neg (mul s cb))];
     [z; o; z; z];
     [z; z; o; z];
     [(mul s sb, neg (mul s cb)); z; z; cc]].
End Tables.

Definition table_mat (t : list (list C)) : mat := fun i j => nth j (nth i t []) C0.

Definition rzx_mat (theta : R) : mat :=
  table_mat (rzx_table R 0 Ropp (cos (theta / 2)) (sin (theta / 2))).
Definition xxpyy_mat (theta beta : R) : mat :=
  table_mat (xxpyy_table R 0 1 Rmult Ropp (cos (theta / 2)) (sin (theta / 2)) (cos beta) (sin beta)).
Definition xxmyy_mat (theta beta : R) : mat :=
  table_mat (xxmyy_table R 0 1 Rmult Ropp (cos (theta / 2)) (sin (theta / 2)) (cos beta) (sin beta)).

(* rational instances for the correspondence *)
Definition rzx_tableQ (c s : Q) := rzx_table Q (0#1)%Q Qopp c s.
Definition xxpyy_tableQ (c s cb sb : Q) := xxpyy_table Q (0#1)%Q (1#1)%Q Qmult Qopp c s cb sb.
Definition xxmyy_tableQ (c s cb sb : Q) := xxmyy_table Q (0#1)%Q (1#1)%Q Qmult Qopp c s cb sb.

(* --- unitarity of the 2x2 local factors ---------------------------------------------------- *)
Definition Cconj (x : C) : C := (fst x, - snd x).
(* K * K^dagger = I for a 2x2 matrix *)
Definition unitary2 (K : mat) : Prop :=
  forall i j, (i < 2)%nat -> (j < 2)%nat ->
    Cadd (Cmul (K i 0%nat) (Cconj (K j 0%nat))) (Cmul (K i 1%nat) (Cconj (K j 1%nat))) = sI i j.
(* the Hadamard gate *)
Definition Hn : mat := mscale (/ sqrt 2) Hm.
(* a gate matrix G is K1 * N(a,b,c) * K2 with K1 = A1 (x) B1, K2 = A2 (x) B2 local unitaries *)
Definition local_conjugate_of_kak (G : mat) (a b c : R) : Prop :=
  exists A1 B1 A2 B2 : mat,
    unitary2 A1 /\ unitary2 B1 /\ unitary2 A2 /\ unitary2 B2 /\
    forall i j, (i < 4)%nat -> (j < 4)%nat ->
      G i j = mmul (mmul (kron A1 B1) (kak_mat a b c)) (kron A2 B2) i j.

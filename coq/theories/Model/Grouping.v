(* Model/Grouping.v — executable model of utils/observable_grouping.py :
     most_general_observable, CommutingObservableGroup.__post_init__, ObservableCollection.__init__
   (property C11; the measurement side is Model/Measurement.v).  No proofs here (Proofs/GroupingP.v).

   Paulis are the `pauli` record of Model/Observables.v: group phase exponent + one letter per
   qubit INDEX (0 = I, 1 = X, 2 = Y, 3 = Z).  `obs[i]` / `enumerate(obs)` in the Python code walk the
   qubit indices 0,1,... and yield phase-free one-qubit Paulis, i.e. exactly the letters. *)
From CKT Require Import Common.Base Model.Observables.

(* ------------------------------------------------------------------------------------------
   most_general_observable(commuting_observables, num_qubits=None)
   ------------------------------------------------------------------------------------------ *)

(* inner loop `for i, o in enumerate(obs)` on the running value rv (same length, checked before):
     o == I       -> continue
     rv[i] == o   -> continue
     rv[i] != I   -> raise ValueError (None)
     otherwise    -> rv[i] = o                                                              *)
Fixpoint merge_letters (rv obs : list letter) : option (list letter) :=
  match rv, obs with
  | r :: rs, o :: os =>
      if Nat.eqb o 0 then option_map (cons r) (merge_letters rs os)
      else if Nat.eqb r o then option_map (cons r) (merge_letters rs os)
      else if negb (Nat.eqb r 0) then None
      else option_map (cons o) (merge_letters rs os)
  | _, _ => Some rv
  end.

(* outer loop `for j, obs in enumerate(commuting_observables)`:
     len(obs) != num_qubits -> ValueError ; then the inner loop (ValueError on incompatibility).
   Member phases are never looked at.  (The isinstance(obs, Pauli) guard is outside the model:
   every element of a `list pauli` is a Pauli.)                                              *)
Fixpoint mgo_loop (n : nat) (rv : list letter) (group : list pauli) : res (list letter) :=
  match group with
  | [] => Ok rv
  | obs :: rest =>
      if negb (Nat.eqb (length (plets obs)) n) then Refused
      else match merge_letters rv (plets obs) with
           | None => Refused
           | Some rv' => mgo_loop n rv' rest
           end
  end.

Definition most_general_observable (group : list pauli) (num_qubits : option nat) : res pauli :=
  match group with
  | [] => Refused                                         (* "Empty input sequence" *)
  | first :: _ =>
      let n := match num_qubits with Some k => k | None => length (plets first) end in
      res_map (mkP 0) (mgo_loop n (repeat 0 n) group)     (* rv starts as the phase-0 identity *)
  end.

(* ------------------------------------------------------------------------------------------
   CommutingObservableGroup.__post_init__
   ------------------------------------------------------------------------------------------ *)

(* [i for i, pauli in enumerate(general_observable) if pauli != I] *)
Fixpoint nonid_from (i : nat) (lets : list letter) : list nat :=
  match lets with
  | [] => []
  | l :: r => if Nat.eqb l 0 then nonid_from (S i) r else i :: nonid_from (S i) r
  end.
Definition nonid_positions (lets : list letter) : list nat := nonid_from 0 lets.

(* v = 0; for i, j in enumerate(pauli_indices): if pauli[j] != I: v |= 1 << i
   pauli[j] with j >= len(pauli) is an IndexError (None). *)
Fixpoint mask_from (i : nat) (lets : list letter) (idx : list nat) : option N :=
  match idx with
  | [] => Some 0%N
  | j :: r =>
      if Nat.ltb j (length lets) then
        option_map (fun v => if Nat.eqb (nth j lets 0) 0 then v
                             else N.lor (N.shiftl 1 (N.of_nat i)) v)
                   (mask_from (S i) lets r)
      else None
  end.
Definition mask_of (lets : list letter) (idx : list nat) : option N := mask_from 0 lets idx.

(* for pauli in commuting_observables: phase != 0 -> ValueError ; else the mask *)
Fixpoint masks_loop (idx : list nat) (members : list pauli) : res (list N) :=
  match members with
  | [] => Ok []
  | m :: r =>
      if negb (Nat.eqb (pphase m) 0) then Refused
      else match mask_of (plets m) idx with
           | None => Crashed
           | Some v => res_map (cons v) (masks_loop idx r)
           end
  end.

(* returns (pauli_indices, pauli_bitmasks); the phase of general_observable is not inspected *)
Definition cog_post_init (general : pauli) (members : list pauli) : res (list nat * list N) :=
  let idx := nonid_positions (plets general) in
  res_map (fun ms => (idx, ms)) (masks_loop idx members).

Record cog := mkCog {
  cg_general : pauli ;
  cg_members : list pauli ;
  cg_indices : list nat ;
  cg_masks   : list N
}.

Definition make_cog (general : pauli) (members : list pauli) : res cog :=
  res_map (fun im => mkCog general members (fst im) (snd im)) (cog_post_init general members).

(* ------------------------------------------------------------------------------------------
   ObservableCollection.__init__
   ------------------------------------------------------------------------------------------ *)

(* ORACLES.  `PauliList.unique()` / `PauliList(set(observables))` and
   `unique_observables.group_commuting(qubit_wise=True)` are Qiskit/rustworkx code.  The model
   receives what they actually returned on this call. *)
Record grouping_oracle := mkOracle {
  o_unique : list pauli ;            (* unique_observables *)
  o_groups : list (list pauli)       (* [list(group) for group in unique.group_commuting(qubit_wise=True)] *)
}.

(* Their assumed CONTRACT (monitored by the harness on every generated case):
     - unique has no duplicates and the same elements as the input (Pauli.__eq__: phase and letters)
     - the groups are non-empty, contain only unique observables, and their concatenation lists every
       unique observable exactly once
     - inside a group any two members are qubit-wise commuting: at every qubit one letter is I
       or both letters are equal
     - all observables act on the same number of qubits (a PauliList invariant)                 *)
Definition count_pauli (p : pauli) (l : list pauli) : nat := length (filter (pauli_beq p) l).
Definition mem_pauli (p : pauli) (l : list pauli) : bool := existsb (pauli_beq p) l.

Fixpoint letters_compat (a b : list letter) : bool :=
  match a, b with
  | x :: xs, y :: ys => (Nat.eqb x 0 || Nat.eqb y 0 || Nat.eqb x y) && letters_compat xs ys
  | _, _ => true
  end.

Fixpoint pairwise_compat (g : list pauli) : bool :=
  match g with
  | [] => true
  | p :: r => forallb (fun q => letters_compat (plets p) (plets q)) r && pairwise_compat r
  end.

Definition same_width (n : nat) (l : list pauli) : bool :=
  forallb (fun p => Nat.eqb (length (plets p)) n) l.

Definition grouping_contract (obs : list pauli) (o : grouping_oracle) : bool :=
  let u := o_unique o in
  let flat := concat (o_groups o) in
  let n := match obs with [] => 0 | p :: _ => length (plets p) end in
  same_width n obs && same_width n u &&
  forallb (fun p => mem_pauli p u) obs &&
  forallb (fun p => mem_pauli p obs) u &&
  forallb (fun p => Nat.eqb (count_pauli p u) 1) u &&
  Nat.eqb (length flat) (length u) &&
  forallb (fun p => Nat.eqb (count_pauli p flat) 1) u &&
  forallb (fun p => mem_pauli p u) flat &&
  forallb (fun g => negb (Nat.eqb (length g) 0)) (o_groups o) &&
  forallb pairwise_compat (o_groups o).

(* general_observables = [most_general_observable(group) for group in commuting_groups] *)
Fixpoint generals_loop (groups : list (list pauli)) : res (list pauli) :=
  match groups with
  | [] => Ok []
  | g :: r => res_bind (most_general_observable g None)
                       (fun p => res_map (cons p) (generals_loop r))
  end.

(* groups = [CommutingObservableGroup(go, co) for go, co in strict_zip(generals, groups)]
   (strict_zip: the two lists have equal length by construction) *)
Fixpoint cogs_loop (generals : list pauli) (groups : list (list pauli)) : res (list cog) :=
  match generals, groups with
  | p :: pr, g :: gr => res_bind (make_cog p g) (fun c => res_map (cons c) (cogs_loop pr gr))
  | _, _ => Ok []
  end.

(* lookup: defaultdict(list) filled in (i, j) order; dict order = first insertion of the key,
   keys compared by Pauli.__eq__ (phase and letters) *)
Definition lookup_t := list (pauli * list (nat * nat)).

Fixpoint lookup_add (p : pauli) (ij : nat * nat) (l : lookup_t) : lookup_t :=
  match l with
  | [] => [(p, [ij])]
  | (p', locs) :: r =>
      if pauli_beq p p' then (p', locs ++ [ij]) :: r else (p', locs) :: lookup_add p ij r
  end.

Fixpoint lookup_group (i j : nat) (members : list pauli) (l : lookup_t) : lookup_t :=
  match members with
  | [] => l
  | m :: r => lookup_group i (S j) r (lookup_add m (i, j) l)
  end.

Fixpoint lookup_groups (i : nat) (cogs : list cog) (l : lookup_t) : lookup_t :=
  match cogs with
  | [] => l
  | c :: r => lookup_groups (S i) r (lookup_group i 0 (cg_members c) l)
  end.

Fixpoint lookup_find (p : pauli) (l : lookup_t) : option (list (nat * nat)) :=
  match l with
  | [] => None
  | (p', locs) :: r => if pauli_beq p p' then Some locs else lookup_find p r
  end.

(* ObservableCollection(observables): an empty input makes PauliList(...) raise QiskitError *)
Definition collection (obs : list pauli) (o : grouping_oracle) : res (list cog * lookup_t) :=
  match obs with
  | [] => Crashed
  | _ =>
    res_bind (generals_loop (o_groups o)) (fun generals =>
    res_bind (cogs_loop generals (o_groups o)) (fun cogs =>
    Ok (cogs, lookup_groups 0 cogs [])))
  end.

(* Model/CutFinderState.v — executable model of
     cut_finding/cco_utils.py            : qc_to_cco_circuit, greedy_best_first_search
     cut_finding/circuit_interface.py    : NameToIDMap.get_id (first-use renumbering),
                                           SimpleGateList.__init__, get_multiqubit_gates
     cut_finding/disjoint_subcircuits_state.py : DisjointSubcircuitsState
     cut_finding/cutting_actions.py      : the five actions with their guards and assertions
     cut_finding/search_space_generator.py : ActionNames.copy / get_action_subset
     cut_finding/cut_optimization.py     : next_state_func, goal_state_func, cost function,
                                           max_wire_cuts_circuit, max_wire_cuts_gamma, greedy_cut_optimization
   No proofs here (Proofs/CutFinderP.v).

   Omitted on purpose (stated in lib/props.d/C07.py): bell_pairs, gamma_LB, cut_actions_list — they do not
   influence the default cost function (cost_func = upperbound_cost_func = cut_optimization_upper_bound_cost_func
   in both SearchFunctions tables; facts obligation c07_facts).  A cost (gamma_UB, inf) is modelled by gamma_UB : Q
   (the second component is the constant +inf on both sides of every comparison).
   Path compression in find_wire_root is left out (Common/UF.v). *)
From Coq Require Import QArith.
From CKT Require Import Common.Base Common.Circ Common.UF.
Close Scope Q_scope.

(* ------------------------------------------------------------------------------------ *)
(* outcomes of internal calls: a value, ValueError, any other exception, out of fuel     *)
(* ------------------------------------------------------------------------------------ *)
Inductive out (A : Type) : Type :=
| Val (v : A)
| Ref          (* ValueError *)
| Crash        (* AssertionError / IndexError / ... *)
| NoFuel.      (* the model's fuel ran out: not an outcome of the implementation *)
Arguments Val {A} v.
Arguments Ref {A}.
Arguments Crash {A}.
Arguments NoFuel {A}.

Definition obind {A B} (m : out A) (f : A -> out B) : out B :=
  match m with Val v => f v | Ref => Ref | Crash => Crash | NoFuel => NoFuel end.

Notation "'do' x <- m ;; f" := (obind m (fun x => f)) (at level 200, x name, m at level 100, f at level 200).
Notation "'do' ' p <- m ;; f" := (obind m (fun x => let p := x in f))
  (at level 200, p pattern, m at level 100, f at level 200).

Definition oassert (b : bool) : out unit := if b then Val tt else Crash.

(* comparisons of exact rationals *)
Definition Qltb (a b : Q) : bool := match Qcompare a b with Lt => true | _ => false end.
Definition Qleb (a b : Q) : bool := match Qcompare a b with Gt => false | _ => true end.
Definition Qeqb (a b : Q) : bool := match Qcompare a b with Eq => true | _ => false end.

(* ------------------------------------------------------------------------------------ *)
(* cco circuit (qc_to_cco_circuit)                                                        *)
(* ------------------------------------------------------------------------------------ *)
(* name 0 is the string "barrier"; every other name is S _ .  Only the test name == "barrier" is ever made. *)
Definition barrier_name : nat := 0.

Inductive cco :=
| CBar                                                   (* the string "barrier": a barrier over ALL qubits *)
| CEl (name : nat) (qs : list nat) (gam : option Q).      (* CircuitElement(name, params, qubits, gamma) *)

(* gate table supplied by the harness: interned gate id -> (QPDBasis.from_instruction(op).kappa,
   canonical form of TwoQubitQPDGate.from_instruction(op)); present exactly for the 2-qubit `Gate` instances *)
Definition gtab := list (nat * (Q * op)).

Fixpoint glookup (g : nat) (t : gtab) : option (Q * op) :=
  match t with
  | [] => None
  | (h, v) :: r => if Nat.eqb g h then Some v else glookup g r
  end.

Definition op_name (o : op) : nat :=
  match o with
  | Barrier _ => barrier_name
  | Gate g => S (S g)
  | _ => 1
  end.

(* gamma = kappa only for 2-qubit Gate instances; None otherwise *)
Definition op_gamma (t : gtab) (i : instr) : option Q :=
  match iop i with
  | Gate g => if Nat.eqb (length (iqs i)) 2 then option_map fst (glookup g t) else None
  | _ => None
  end.

Definition cco_of_instr (nq : nat) (t : gtab) (i : instr) : cco :=
  if is_barrier i && Nat.eqb (length (iqs i)) nq then CBar
  else CEl (op_name (iop i)) (iqs i) (op_gamma t i).

Definition qc_to_cco (nq : nat) (t : gtab) (c : circ) : list cco := map (cco_of_instr nq t) c.

(* ------------------------------------------------------------------------------------ *)
(* NameToIDMap.get_id : first-use renumbering.  names = id_dict as a list (id -> name)    *)
(* ------------------------------------------------------------------------------------ *)
Definition get_id (names : list nat) (x : nat) : list nat * nat :=
  match index_of x names with
  | Some i => (names, i)
  | None => (names ++ [x], length names)
  end.

Fixpoint get_ids (names : list nat) (xs : list nat) : list nat * list nat :=
  match xs with
  | [] => (names, [])
  | x :: r => let '(n1, i) := get_id names x in
              let '(n2, is) := get_ids n1 r in (n2, i :: is)
  end.

(* SimpleGateList.__init__ : self.circuit with qubit names replaced by ids, and the name table *)
Fixpoint sgl_init (names : list nat) (c : list cco) : list nat * list cco :=
  match c with
  | [] => (names, [])
  | CBar :: r => let '(n, c') := sgl_init names r in (n, CBar :: c')
  | CEl nm qs g :: r =>
      let '(n1, ids) := get_ids names qs in
      let '(n2, c') := sgl_init n1 r in (n2, CEl nm ids g :: c')
  end.

(* ------------------------------------------------------------------------------------ *)
(* GateSpec and get_multiqubit_gates                                                      *)
(* ------------------------------------------------------------------------------------ *)
Record gate_spec := mkGS { g_inst : nat ; g_name : nat ; g_qubits : list nat ; g_gamma : option Q }.

Fixpoint multiqubit_from (k : nat) (c : list cco) : list gate_spec :=
  match c with
  | [] => []
  | CBar :: r => multiqubit_from (S k) r
  | CEl nm qs g :: r =>
      if Nat.ltb 1 (length qs) && negb (Nat.eqb nm barrier_name)
      then mkGS k nm qs g :: multiqubit_from (S k) r
      else multiqubit_from (S k) r
  end.

Definition get_multiqubit_gates (c : list cco) : list gate_spec := multiqubit_from 0 c.

Definition max_wire_cuts_circuit (gs : list gate_spec) : nat :=
  fold_right (fun g acc => length (g_qubits g) + acc) 0 gs.

(* max_wire_cuts_gamma g = int(ceil(log2(g+1) - 1)), exactly over Q for g >= 1:
   the least k with 2^(k+1) >= g+1.  (binary64 corner cases of np.log2 are a documented assumption.) *)
Fixpoint least_pow2 (fuel j : nat) (x : Q) : nat :=
  match fuel with
  | O => j
  | S f => if Qleb x (inject_Z (2 ^ Z.of_nat j)) then j else least_pow2 f (S j) x
  end.

Definition max_wire_cuts_gamma (g : Q) : nat :=
  let x := Qplus g 1 in
  Nat.pred (least_pow2 (S (Z.to_nat (Z.log2_up (Qnum x)))) 0 x).

(* ------------------------------------------------------------------------------------ *)
(* search state                                                                           *)
(* ------------------------------------------------------------------------------------ *)
Inductive aname := CutTwoQubitGate | CutLeftWire | CutRightWire | CutBothWires.

Definition aname_beq (a b : aname) : bool :=
  match a, b with
  | CutTwoQubitGate, CutTwoQubitGate | CutLeftWire, CutLeftWire
  | CutRightWire, CutRightWire | CutBothWires, CutBothWires => true
  | _, _ => false
  end.

(* Action(action, gate_spec, args); args is a tuple of tuples of ints:
   (((1,w1),(2,w2)),) for a gate cut (modelled without the outer 1-tuple), ((input, wire, new_wire),...) for wire cuts *)
Record action := mkA { a_name : aname ; a_gate : gate_spec ; a_args : list (list nat) }.

Record dstate := mkS {
  wiremap : list nat ;        (* qubit id -> wire id *)
  num_wires : nat ;
  uptree : uf ;               (* length = max_wires = num_qubits + max_wire_cuts *)
  width : list nat ;          (* valid at roots *)
  no_merge : list (nat * nat) ;
  gamma_UB : Q ;
  actions : list action ;
  level : nat
}.

Definition init_state (num_qubits max_wire_cuts : nat) : dstate :=
  let mw := num_qubits + max_wire_cuts in
  mkS (seq 0 num_qubits) num_qubits (uf_init mw) (repeat 1 mw) [] 1%Q [] 0.

Definition get_wire (s : dstate) (q : nat) : nat := nth q (wiremap s) 0.
Definition find_wire_root (s : dstate) (w : nat) : nat := find (uptree s) w.
Definition find_qubit_root (s : dstate) (q : nat) : nat := find_wire_root s (get_wire s q).
Definition width_at (s : dstate) (r : nat) : nat := nth r (width s) 0.

Definition can_add_wires (s : dstate) (k : nat) : bool := Nat.leb (num_wires s + k) (length (uptree s)).
Definition can_expand_subcircuit (s : dstate) (root k max_width : nat) : bool :=
  Nat.leb (width_at s root + k) max_width.

Definition set_uf (s : dstate) (u : uf) (w : list nat) : dstate :=
  mkS (wiremap s) (num_wires s) u w (no_merge s) (gamma_UB s) (actions s) (level s).

(* merge_roots: asserts both arguments are roots and differ *)
Definition merge_roots (s : dstate) (r1 r2 : nat) : out dstate :=
  do _ <- oassert (is_root (uptree s) r1 && is_root (uptree s) r2) ;;
  do _ <- oassert (negb (Nat.eqb r1 r2)) ;;
  let m := Nat.min r1 r2 in let o := Nat.max r1 r2 in
  Val (set_uf s (union_roots (uptree s) r1 r2) (upd (width s) m (width_at s m + width_at s o))).

(* new_wire: asserts there is room *)
Definition new_wire (s : dstate) (q : nat) : out (dstate * nat) :=
  do _ <- oassert (Nat.ltb (num_wires s) (length (uptree s))) ;;
  let s' := mkS (upd (wiremap s) q (num_wires s)) (S (num_wires s)) (uptree s) (width s)
                (no_merge s) (gamma_UB s) (actions s) (level s) in
  Val (s', get_wire s' q).

(* check_donot_merge_roots: asserts roots; asserts every clause joins two different subcircuits *)
Fixpoint check_clauses (s : dstate) (cl : list (nat * nat)) (r1 r2 : nat) : out bool :=
  match cl with
  | [] => Val false
  | (a, b) :: rest =>
      let ra := find_wire_root s a in let rb := find_wire_root s b in
      do _ <- oassert (negb (Nat.eqb ra rb)) ;;
      if (Nat.eqb ra r1 && Nat.eqb rb r2) || (Nat.eqb ra r2 && Nat.eqb rb r1) then Val true
      else check_clauses s rest r1 r2
  end.

Definition check_donot_merge_roots (s : dstate) (r1 r2 : nat) : out bool :=
  do _ <- oassert (is_root (uptree s) r1 && is_root (uptree s) r2) ;;
  check_clauses s (no_merge s) r1 r2.

Definition assert_donot_merge_roots (s : dstate) (w1 w2 : nat) : out dstate :=
  do _ <- oassert (negb (Nat.eqb (find_wire_root s w1) (find_wire_root s w2))) ;;
  Val (mkS (wiremap s) (num_wires s) (uptree s) (width s) (no_merge s ++ [(w1, w2)])
           (gamma_UB s) (actions s) (level s)).

Definition mul_gamma (s : dstate) (g : Q) : dstate :=
  mkS (wiremap s) (num_wires s) (uptree s) (width s) (no_merge s) (Qmult (gamma_UB s) g) (actions s) (level s).

Definition add_action (s : dstate) (a : action) : dstate :=
  mkS (wiremap s) (num_wires s) (uptree s) (width s) (no_merge s) (gamma_UB s) (actions s ++ [a]) (level s).

Definition set_level (s : dstate) (l : nat) : dstate :=
  mkS (wiremap s) (num_wires s) (uptree s) (width s) (no_merge s) (gamma_UB s) (actions s) l.

(* the LO wire-cut cost multipliers (cutting_actions.py: `gamma_UB *= 4`, `*= 4`, `*= 16`);
   tied to the source by the facts obligation c07_facts *)
Definition left_wire_mult : Q := 4%Q.
Definition right_wire_mult : Q := 4%Q.
Definition both_wires_mult : Q := 16%Q.

(* ------------------------------------------------------------------------------------ *)
(* the five actions: next_state_primitive                                                 *)
(* ------------------------------------------------------------------------------------ *)
Definition q1_of (g : gate_spec) : nat := nth 0 (g_qubits g) 0.
Definition q2_of (g : gate_spec) : nat := nth 1 (g_qubits g) 0.

Definition apply_gate (s : dstate) (g : gate_spec) (W : nat) : out (list dstate) :=
  let r1 := find_qubit_root s (q1_of g) in
  let r2 := find_qubit_root s (q2_of g) in
  if negb (Nat.eqb r1 r2) && Nat.ltb W (width_at s r1 + width_at s r2) then Val []
  else
    do dnm <- check_donot_merge_roots s r1 r2 ;;
    if dnm then Val []
    else
      do s1 <- (if negb (Nat.eqb r1 r2) then merge_roots s r1 r2 else Val s) ;;
      Val [s1].          (* add_action: get_name() is None, nothing is recorded *)

Definition cut_two_qubit_gate (s : dstate) (g : gate_spec) (W : nat) : out (list dstate) :=
  if negb (Nat.eqb (length (g_qubits g)) 2) then Ref
  else match g_gamma g with
  | None => Val []
  | Some gam =>
      let q1 := q1_of g in let q2 := q2_of g in
      let w1 := get_wire s q1 in let w2 := get_wire s q2 in
      let r1 := find_qubit_root s q1 in let r2 := find_qubit_root s q2 in
      if Nat.eqb r1 r2 then Val []
      else
        do s1 <- assert_donot_merge_roots s r1 r2 ;;
        let s2 := mul_gamma s1 gam in
        Val [add_action s2 (mkA CutTwoQubitGate g [[1; w1]; [2; w2]])]
  end.

Definition cut_left_wire (s : dstate) (g : gate_spec) (W : nat) : out (list dstate) :=
  if negb (Nat.eqb (length (g_qubits g)) 2) then Ref
  else if negb (can_add_wires s 1) then Val []
  else
    let q1 := q1_of g in let q2 := q2_of g in
    let w1 := get_wire s q1 in
    let r1 := find_qubit_root s q1 in let r2 := find_qubit_root s q2 in
    if Nat.eqb r1 r2 then Val []
    else if negb (can_expand_subcircuit s r2 1 W) then Val []
    else
      do '(s1, rnew) <- new_wire s q1 ;;
      do s2 <- merge_roots s1 rnew r2 ;;
      do s3 <- assert_donot_merge_roots s2 r1 r2 ;;
      let s4 := mul_gamma s3 left_wire_mult in
      Val [add_action s4 (mkA CutLeftWire g [[1; w1; rnew]])].

Definition cut_right_wire (s : dstate) (g : gate_spec) (W : nat) : out (list dstate) :=
  if negb (Nat.eqb (length (g_qubits g)) 2) then Ref
  else if negb (can_add_wires s 1) then Val []
  else
    let q1 := q1_of g in let q2 := q2_of g in
    let w2 := get_wire s q2 in
    let r1 := find_qubit_root s q1 in let r2 := find_qubit_root s q2 in
    if Nat.eqb r1 r2 then Val []
    else if negb (can_expand_subcircuit s r1 1 W) then Val []
    else
      do '(s1, rnew) <- new_wire s q2 ;;
      do s2 <- merge_roots s1 r1 rnew ;;
      do s3 <- assert_donot_merge_roots s2 r1 r2 ;;
      let s4 := mul_gamma s3 right_wire_mult in
      Val [add_action s4 (mkA CutRightWire g [[2; w2; rnew]])].

Definition cut_both_wires (s : dstate) (g : gate_spec) (W : nat) : out (list dstate) :=
  if negb (Nat.eqb (length (g_qubits g)) 2) then Ref
  else if negb (can_add_wires s 2) then Val []
  else if Nat.ltb W 2 then Val []
  else
    let q1 := q1_of g in let q2 := q2_of g in
    let w1 := get_wire s q1 in let w2 := get_wire s q2 in
    let r1 := find_qubit_root s q1 in let r2 := find_qubit_root s q2 in
    do '(s1, rnew1) <- new_wire s q1 ;;
    do '(s2, rnew2) <- new_wire s1 q2 ;;
    do s3 <- merge_roots s2 rnew1 rnew2 ;;
    do s4 <- assert_donot_merge_roots s3 r1 rnew1 ;;
    do s5 <- assert_donot_merge_roots s4 r2 rnew2 ;;
    let s6 := mul_gamma s5 both_wires_mult in
    Val [add_action s6 (mkA CutBothWires g [[1; w1; rnew1]; [2; w2; rnew2]])].

(* registry: disjoint_subcircuit_actions in definition order, with their group names
   (group None is written GNone) *)
Inductive akind := KApply | KGate | KLeft | KRight | KBoth.
Inductive agroup := GNone | GGateCut | GWireCut | GTwoQubitGates.

Definition agroup_beq (a b : agroup) : bool :=
  match a, b with
  | GNone, GNone | GGateCut, GGateCut | GWireCut, GWireCut | GTwoQubitGates, GTwoQubitGates => true
  | _, _ => false
  end.

Definition registry : list akind := [KApply; KGate; KLeft; KRight; KBoth].

Definition group_names (k : akind) : list agroup :=
  match k with
  | KApply => [GNone; GTwoQubitGates]
  | KGate => [GGateCut; GTwoQubitGates]
  | KLeft | KRight | KBoth => [GWireCut; GTwoQubitGates]
  end.

(* OptimizationSettings.get_cut_search_groups *)
Definition cut_search_groups (gate_lo wire_lo : bool) : list agroup :=
  [GNone] ++ (if gate_lo then [GGateCut] else []) ++ (if wire_lo then [GWireCut] else []).

(* get_action_subset: actions whose group names intersect the given groups (order kept) *)
Definition action_subset (l : list akind) (groups : list agroup) : list akind :=
  filter (fun k => existsb (fun g => existsb (agroup_beq g) groups) (group_names k)) l.

(* ActionNames.copy(groups) followed by get_group("TwoQubitGates") *)
Definition search_actions (gate_lo wire_lo : bool) : list akind :=
  filter (fun k => existsb (agroup_beq GTwoQubitGates) (group_names k))
         (action_subset registry (cut_search_groups gate_lo wire_lo)).

Definition next_state_primitive (k : akind) : dstate -> gate_spec -> nat -> out (list dstate) :=
  match k with
  | KApply => apply_gate
  | KGate => cut_two_qubit_gate
  | KLeft => cut_left_wire
  | KRight => cut_right_wire
  | KBoth => cut_both_wires
  end.

(* DisjointSearchAction.next_state: set_next_level on every result *)
Definition next_state (k : akind) (s : dstate) (g : gate_spec) (W : nat) : out (list dstate) :=
  do l <- next_state_primitive k s g W ;;
  Val (map (fun s' => set_level s' (S (level s))) l).

(* the constant arguments of the search-space functions (CutOptimizationFuncArgs) *)
Record fargs := mkF { fa_gates : list gate_spec ; fa_actions : list akind ; fa_W : nat }.

Fixpoint next_states_over (acts : list akind) (s : dstate) (g : gate_spec) (W : nat) : out (list dstate) :=
  match acts with
  | [] => Val []
  | k :: r => do l <- next_state k s g W ;; do l' <- next_states_over r s g W ;; Val (l ++ l')
  end.

(* cut_optimization_next_state_func *)
Definition next_states (fa : fargs) (s : dstate) : out (list dstate) :=
  match nth_error (fa_gates fa) (level s) with
  | None => Crash                                    (* IndexError *)
  | Some g =>
      if Nat.eqb (length (g_qubits g)) 2 then next_states_over (fa_actions fa) s g (fa_W fa)
      else Ref                                       (* "must contain only single and two-qubit gates" *)
  end.

(* cut_optimization_goal_state_func *)
Definition goal_state (fa : fargs) (s : dstate) : bool := Nat.leb (length (fa_gates fa)) (level s).

(* cost_func = cut_optimization_upper_bound_cost_func: (gamma_UB, inf) *)
Definition cost (s : dstate) : Q := gamma_UB s.

(* min over [(cost, k, state)]: the first state of minimal cost *)
Fixpoint first_min (best : dstate) (l : list dstate) : dstate :=
  match l with
  | [] => best
  | s :: r => if Qltb (cost s) (cost best) then first_min s r else first_min best r
  end.

(* greedy_best_first_search; the loop runs once per multi-qubit gate, fuel = their number suffices *)
Fixpoint greedy (fuel : nat) (fa : fargs) (s : dstate) : out (option dstate) :=
  if goal_state fa s then Val (Some s)
  else match fuel with
  | O => NoFuel
  | S f =>
      do l <- next_states fa s ;;
      match l with
      | [] => Val None
      | s0 :: r => greedy f fa (first_min s0 r)
      end
  end.

(* greedy_cut_optimization *)
Definition greedy_cut_optimization (nq : nat) (fa : fargs) : out (option dstate) :=
  greedy (length (fa_gates fa)) fa (init_state nq (max_wire_cuts_circuit (fa_gates fa))).

(* Model/Separate.v — executable model of qiskit_addon_cutting/utils/transforms.py
     _split_barriers, _partition_labels_from_circuit, _qubit_map_from_partition_labels,
     _separate_instructions_by_partition, _circuit_from_instructions, _combine_barriers,
     separate_circuit                                  and utils/iteration.py : unique_by_eq.
   No proofs here (Proofs/SeparateP.v).

   Partition labels are [option nat]: None = Python None, every other hashable is interned by the
   harness (Python ==/hash classes).  Circuits are instruction lists over qubit / clbit indices. *)
From CKT Require Import Common.Base Common.Circ Model.Observables.

Notation label := (option nat) (only parsing).
Definition label_beq : label -> label -> bool := option_beq Nat.eqb.
Definition memb (x : nat) (l : list nat) : bool := existsb (Nat.eqb x) l.

(* ------------------------------------------------------------------------------------------ *)
(* _split_barriers(circuit):   for i, inst in enumerate(circuit): ...
   The loop indexes the LIVE list: when the k-qubit barrier at index i is replaced by k one-qubit
   barriers (data[i] = first; data.insert(i+j, j-th)), iterations i+1 .. i+k-1 see the inserted
   ones and skip them (one qubit).  uuid4() is modelled by the ordinal of the split barrier. *)
Definition needs_split (i : instr) : bool :=
  negb (Nat.eqb (length (iqs i)) 1 || negb (is_barrier i)).

Definition piece (u q : nat) : instr := mkI (Barrier (Some u)) [q] [].

Fixpoint insert_pieces (c : circ) (pos u : nat) (qs : list nat) : circ :=
  match qs with
  | [] => c
  | q :: r => insert_pieces (insert_at c pos (piece u q)) (S pos) u r
  end.

(* data[i] = piece(qubits[0]) ; for j in 1..k-1: data.insert(i+j, piece(qubits[j])).
   qubits[0] of a 0-qubit barrier raises IndexError: excluded by [has_empty_barrier] below. *)
Definition replace_barrier (c : circ) (i u : nat) (inst : instr) : circ :=
  match iqs inst with
  | [] => c
  | q0 :: r => insert_pieces (upd c i (piece u q0)) (S i) u r
  end.

Fixpoint split_live (fuel i u : nat) (c : circ) : circ :=
  match fuel with
  | O => c
  | S f =>
      match nth_error c i with
      | None => c                                  (* iterator exhausted *)
      | Some inst =>
          if needs_split inst
          then split_live f (S i) (S u) (replace_barrier c i u inst)
          else split_live f (S i) u c
      end
  end.

(* the loop body runs once per element of the FINAL list: at most len + total number of qubits *)
Definition split_fuel (c : circ) : nat :=
  length c + fold_right (fun i a => length (iqs i) + a) 0 c.

Definition split_barriers (c : circ) : circ := split_live (split_fuel c) 0 0 c.

Definition has_empty_barrier (c : circ) : bool :=
  existsb (fun i => is_barrier i && Nat.eqb (length (iqs i)) 0) c.

Definition split_barriers_res (c : circ) : res circ :=
  if has_empty_barrier c then Crashed else Ok (split_barriers c).

(* ------------------------------------------------------------------------------------------ *)
(* _partition_labels_from_circuit(circuit, ignore, keep_idle_wires)
   rustworkx.connected_components is an ORACLE; its contract "returns the connected components of the
   graph (as sets of node indices)" is monitored by the harness.  The model computes the components
   with a functional union-find oriented like the repository's (uptree[max] := min, so a parent is
   strictly smaller than its child and [find] needs fuel i+1 from node i). *)
Fixpoint find_fuel (fuel : nat) (up : list nat) (i : nat) : nat :=
  match fuel with
  | O => i
  | S f => let p := nth i up i in if Nat.eqb p i then i else find_fuel f up p
  end.

Definition find (up : list nat) (i : nat) : nat := find_fuel (S i) up i.

Definition union (up : list nat) (a b : nat) : list nat :=
  let ra := find up a in
  let rb := find up b in
  if Nat.eqb ra rb then up else upd up (Nat.max ra rb) (Nat.min ra rb).

(* for i, q1 in enumerate(qubits): for q2 in qubits[i+1:]: add_edge(q1, q2) *)
Fixpoint all_pairs (qs : list nat) : list (nat * nat) :=
  match qs with
  | [] => []
  | q :: r => map (pair q) r ++ all_pairs r
  end.

Definition edges (ignore : instr -> bool) (c : circ) : list (nat * nat) :=
  flat_map (fun i => if ignore i then [] else all_pairs (iqs i)) c.

Definition uptree (n : nat) (es : list (nat * nat)) : list nat :=
  fold_left (fun up e => union up (fst e) (snd e)) es (seq 0 n).

(* qubit_subsets = connected_components(graph); qubit_subsets.sort(key=min) *)
Definition components (n : nat) (up : list nat) : list (list nat) :=
  map (fun r => filter (fun q => Nat.eqb (find up q) r) (seq 0 n))
      (filter (fun r => Nat.eqb (find up r) r) (seq 0 n)).

(* idle_wires: qubits touched by NO instruction at all (ignored ones and barriers count as use) *)
Definition touched (c : circ) (q : nat) : bool := existsb (fun i => memb q (iqs i)) c.

Definition is_idle_singleton (c : circ) (s : list nat) : bool :=
  match s with
  | [q] => negb (touched c q)
  | _ => false
  end.

Definition kept_subsets (keep_idle : bool) (c : circ) (subsets : list (list nat)) : list (list nat) :=
  if keep_idle then subsets else filter (fun s => negb (is_idle_singleton c s)) subsets.

(* partition_labels = [None]*n ; for i, subset in enumerate(subsets): for q in subset: labels[q] = i *)
Fixpoint assign_labels (subsets : list (list nat)) (i : nat) (labels : list label) : list label :=
  match subsets with
  | [] => labels
  | s :: r => assign_labels r (S i) (fold_left (fun ls q => upd ls q (Some i)) s labels)
  end.

Definition auto_labels (n : nat) (ignore : instr -> bool) (keep_idle : bool) (c : circ) : list label :=
  assign_labels (kept_subsets keep_idle c (components n (uptree n (edges ignore c)))) 0 (repeat None n).

(* ------------------------------------------------------------------------------------------ *)
(* _qubit_map_from_partition_labels: qubit_map[i] = (label, #earlier qubits with that label) or
   (None, None); qubits_by_subsystem = dict label -> indices, insertion order *)
Definition qmap := list (option (nat * nat)).

Definition lookup (l : nat) (g : list (nat * list nat)) : list nat :=
  match List.find (fun p => Nat.eqb (fst p) l) g with
  | Some p => snd p
  | None => []
  end.

Fixpoint qmap_from (labels : list label) (i : nat) (g : list (nat * list nat)) (acc : qmap)
  : qmap * list (nat * list nat) :=
  match labels with
  | [] => (acc, g)
  | None :: r => qmap_from r (S i) g (acc ++ [None])
  | Some l :: r => qmap_from r (S i) (add_to_group l i g) (acc ++ [Some (l, length (lookup l g))])
  end.

Definition qubit_map_from_labels (labels : list label) : qmap * list (nat * list nat) :=
  qmap_from labels 0 [] [].

(* ------------------------------------------------------------------------------------------ *)
(* unique_by_eq: first-appearance order *)
Fixpoint uniq_acc (l rv : list nat) : list nat :=
  match l with
  | [] => rv
  | x :: r => if memb x rv then uniq_acc r rv else uniq_acc r (rv ++ [x])
  end.

Definition unique_by_eq (l : list nat) : list nat := uniq_acc l [].

Definition qm_label (qm : qmap) (q : nat) : label := option_map fst (nth q qm None).

(* the labels spanned by one instruction; a None-labelled qubit raises ValueError at once *)
Fixpoint spanned (qm : qmap) (qs : list nat) (acc : list nat) : res (list nat) :=
  match qs with
  | [] => Ok acc
  | q :: r =>
      match qm_label qm q with
      | None => Refused
      | Some l => spanned qm r (if memb l acc then acc else acc ++ [l])
      end
  end.

Definition append_id (l i : nat) (ids : list (nat * list nat)) : list (nat * list nat) :=
  map (fun p => if Nat.eqb (fst p) l then (fst p, snd p ++ [i]) else p) ids.

Fixpoint sep_loop (qm : qmap) (c : circ) (i : nat) (ids : list (nat * list nat))
  : res (list (nat * list nat)) :=
  match c with
  | [] => Ok ids
  | inst :: r =>
      match spanned qm (iqs inst) [] with
      | Ok [l] => sep_loop qm r (S i) (append_id l i ids)
      | Ok [] => Crashed                 (* assert len(partitions_spanned) != 0 *)
      | Ok _ => Refused                  (* spans more than one partition *)
      | Refused => Refused
      | Crashed => Crashed
      end
  end.

Definition qm_labels (qm : qmap) : list nat :=
  flat_map (fun e => match e with Some (l, _) => [l] | None => [] end) qm.

Definition separate_instructions (c : circ) (qm : qmap) : res (list (nat * list nat)) :=
  sep_loop qm c 0 (map (fun l => (l, [])) (unique_by_eq (qm_labels qm))).

(* ------------------------------------------------------------------------------------------ *)
(* _circuit_from_instructions(instructions, qubits, cregs): one QuantumRegister(bits=qubits), then every
   classical register of the original circuit; an instruction bit that is not in the new circuit
   (a clbit outside every register) makes append raise CircuitError. *)
Definition remap_instr (qs cl : list nat) (i : instr) : option instr :=
  match find_all (iqs i) qs, find_all (ics i) cl with
  | Some a, Some b => Some (mkI (iop i) a b)
  | _, _ => None
  end.

Fixpoint remap_all (qs cl : list nat) (c : circ) : option circ :=
  match c with
  | [] => Some []
  | i :: r =>
      match remap_instr qs cl i with
      | None => None
      | Some i' => option_map (cons i') (remap_all qs cl r)
      end
  end.

Definition clbits_of (cregs : list (list nat)) : list nat := unique_by_eq (concat cregs).

(* ------------------------------------------------------------------------------------------ *)
(* _combine_barriers *)
Definition uuid_of (i : instr) : option nat :=
  match iop i with
  | Barrier (Some u) => if Nat.eqb (length (iqs i)) 1 then Some u else None
  | _ => None
  end.

(* uuid_map = defaultdict(list): uuid -> indices, dict insertion order *)
Fixpoint uuid_groups (c : circ) (i : nat) (g : list (nat * list nat)) : list (nat * list nat) :=
  match c with
  | [] => g
  | x :: r => uuid_groups r (S i) (match uuid_of x with Some u => add_to_group u i g | None => g end)
  end.

Definition dummy_instr : instr := mkI (Barrier None) [] [].
Definition first_qubit (c : circ) (j : nat) : nat := hd 0 (iqs (nth j c dummy_instr)).

(* for indices in uuid_map.values(): data[indices[0]] = Barrier(len) on the qubits in list order;
   cleanup.extend(indices[1:]) *)
Fixpoint replace_groups (c : circ) (gs : list (nat * list nat)) (cleanup : list nat) : circ * list nat :=
  match gs with
  | [] => (c, cleanup)
  | g :: r =>
      let idxs := snd g in
      replace_groups (upd c (hd 0 idxs) (mkI (Barrier None) (map (first_qubit c) idxs) []))
                     r (cleanup ++ tl idxs)
  end.

Fixpoint insert_sorted (x : nat) (l : list nat) : list nat :=
  match l with
  | [] => [x]
  | y :: r => if Nat.leb x y then x :: l else y :: insert_sorted x r
  end.
Definition sort_nat (l : list nat) : list nat := fold_right insert_sorted [] l.

(* for shift, inst in enumerate(sorted(cleanup)): del data[inst - shift] *)
Fixpoint delete_shifted (c : circ) (idxs : list nat) (shift : nat) : circ :=
  match idxs with
  | [] => c
  | j :: r => delete_shifted (delete_at c (j - shift)) r (S shift)
  end.

Definition combine_barriers (c : circ) : circ :=
  let '(c', cleanup) := replace_groups c (uuid_groups c 0 []) [] in
  delete_shifted c' (sort_nat cleanup) 0.

(* ------------------------------------------------------------------------------------------ *)
(* separate_circuit(circuit, partition_labels)
   n = circuit.num_qubits ; cregs = the classical registers as lists of clbit indices.
   Result: [(label, #qubits of the subcircuit, instructions)] in dict order, and qubit_map. *)
Definition subcirc := (nat * nat * circ)%type.

Fixpoint build_subcircuits (sc : circ) (qbs : list (nat * list nat)) (cl : list nat)
  (ids : list (nat * list nat)) : option (list subcirc) :=
  match ids with
  | [] => Some []
  | (l, idxs) :: r =>
      let qs := lookup l qbs in
      match remap_all qs cl (map (fun j => nth j sc dummy_instr) idxs) with
      | None => None
      | Some body =>
          option_map (cons (l, length qs, combine_barriers body)) (build_subcircuits sc qbs cl r)
      end
  end.

Definition separate_with (n : nat) (cregs : list (list nat)) (sc : circ) (labels : list label)
  : res (list subcirc * qmap) :=
  if negb (Nat.eqb (length labels) n) then Refused else
  let '(qm, qbs) := qubit_map_from_labels labels in
  match separate_instructions sc qm with
  | Ok ids =>
      match build_subcircuits sc qbs (clbits_of cregs) ids with
      | Some subs => Ok (subs, qm)
      | None => Crashed
      end
  | Refused => Refused
  | Crashed => Crashed
  end.

Definition separate_circuit (n : nat) (cregs : list (list nat)) (c : circ) (labels : option (list label))
  : res (list subcirc * qmap) :=
  if has_empty_barrier c then Crashed else
  let sc := split_barriers c in
  separate_with n cregs sc
    (match labels with
     | Some ls => ls
     | None => auto_labels n (fun _ => false) false sc
     end).

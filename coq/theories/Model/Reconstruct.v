(* Model/Reconstruct.v — executable model of
     cutting_reconstruction.py : reconstruct_expectation_values, _process_outcome,
                                 _process_outcome_v2, _outcome_to_int
     utils/bitwise.py          : bit_count
     cutting_experiments.py    : _get_pauli_indices   (number of measured bits only)
   Exact arithmetic in Q; outcomes, bit masks and bytes in N.
   The model is decoupled from how observable groups are built: per partition it takes
   (len(cog.pauli_indices), cog.pauli_bitmasks) for every group and, for every sub-observable k,
   the list  so.lookup[subobservable_k]  of (group, member) locations; the harness reads both from
   the real ObservableCollection.
   No proofs here (Proofs/ReconstructP.v).  Part 2 of the file is the DECLARATIVE specification
   (the estimator of the property text); it is used only in theorem statements. *)
From Coq Require Import QArith Ascii String.
From CKT Require Import Common.Base.
Close Scope Q_scope.
Open Scope nat_scope.

(* ------------------------------------------------------------------------------------------ *)
(* 1. bit_count, _process_outcome_v2                                                           *)
(* ------------------------------------------------------------------------------------------ *)

(* int.bit_count() / bin(x).count("1") *)
Fixpoint popcount_pos (p : positive) : nat :=
  match p with
  | xH => 1
  | xO q => popcount_pos q
  | xI q => S (popcount_pos q)
  end.

Definition bit_count (x : N) : nat :=
  match x with N0 => 0 | Npos p => popcount_pos p end.

(* 1 - 2 * (n & 1) *)
Definition pm1 (n : nat) : Z := (1 - 2 * (if Nat.odd n then 1 else 0))%Z.

(* _process_outcome_v2(cog, obs_outcomes, qpd_outcomes):
     qpd_factor = 1 - 2 * (bit_count(qpd_outcomes) & 1)
     rv[i] = qpd_factor * (1 - 2 * (bit_count(obs_outcomes & mask_i) & 1))                      *)
Definition process_outcome_v2 (masks : list N) (obs qpd : N) : list Z :=
  let qpd_factor := pm1 (bit_count qpd) in
  map (fun mask => (qpd_factor * pm1 (bit_count (N.land obs mask)))%Z) masks.

(* ------------------------------------------------------------------------------------------ *)
(* 2. outcome keys, _outcome_to_int, _process_outcome                                          *)
(* ------------------------------------------------------------------------------------------ *)

(* A V1 outcome key is a (non-negative) Python int or a str. *)
Inductive key :=
| KInt (n : N)
| KStr (s : string).

Definition ch_eqb (a b : ascii) : bool := Ascii.eqb a b.
Definition is01 (c : ascii) : bool := ch_eqb c "0"%char || ch_eqb c "1"%char.
(* str.replace(" ", "") *)
Definition remove_spaces (s : list ascii) : list ascii :=
  filter (fun c => negb (ch_eqb c " "%char)) s.

(* A commuting observable group as the reconstruction sees it:
   (len(cog.pauli_indices), cog.pauli_bitmasks). *)
Definition cog := (nat * list N)%type.
(* len(_get_pauli_indices(cog)): an empty index list is replaced by [0]. *)
Definition num_meas_bits (c : cog) : nat := match fst c with O => 1 | S _ => fst c end.
Definition cog_masks (c : cog) : list N := snd c.
Definition dcog : cog := (0, []).    (* default for nth *)

Section WithPyInt.
  (* ORACLE: Python's int(s, 0) on a str (None = ValueError).  Assumed contract, used by c06_keys
     and monitored by the correspondence stream `pyint0`:
       int("0b" + ds, 0) = int("0B" + ds, 0) = value of ds in radix 2   for every non-empty string ds of binary digits,
       int("0x" + hs, 0) = int("0X" + hs, 0) = value of hs in radix 16  for every non-empty string hs of hex digits. *)
  Variable pyint0 : list ascii -> option N.

  (* _outcome_to_int:
       if isinstance(outcome, int): return outcome
       outcome = outcome.replace(" ", "")
       if len(outcome) < 2 or outcome[1] in ("0", "1"): return int(f"0b{outcome}", 0)
       return int(outcome, 0)                                                                    *)
  Definition outcome_to_int (k : key) : option N :=
    match k with
    | KInt n => Some n
    | KStr s =>
        let o := remove_spaces (list_ascii_of_string s) in
        if (length o <? 2) || (match nth_error o 1 with Some c => is01 c | None => false end)
        then pyint0 ("0"%char :: "b"%char :: o)
        else pyint0 o
    end.

  (* _process_outcome(cog, outcome): split the packed outcome at the number of measured bits.
       obs_outcomes = outcome & ((1 << num_meas_bits) - 1) ; qpd_outcomes = outcome >> num_meas_bits *)
  Definition process_outcome (c : cog) (k : key) : res (list Z) :=
    match outcome_to_int k with
    | None => Refused
    | Some outcome =>
        let nb := N.of_nat (num_meas_bits c) in
        Ok (process_outcome_v2 (cog_masks c) (N.land outcome (N.ones nb)) (N.shiftr outcome nb))
    end.

  (* ---------------------------------------------------------------------------------------- *)
  (* 3. numpy vectors over Q                                                                   *)
  (* ---------------------------------------------------------------------------------------- *)
  (* Qred only normalises the fraction (value-preserving); it keeps vm_compute fast. *)

  (* a += b  (equal shapes) *)
  Fixpoint vadd (a b : list Q) : list Q :=
    match a, b with
    | x :: xs, y :: ys => Qred (x + y) :: vadd xs ys
    | _, _ => []
    end.
  (* c * v *)
  Definition vscale (c : Q) (v : list Q) : list Q := map (fun x => (c * x)%Q) v.
  (* for k, f in enumerate(fs): cur[k] *= f *)
  Fixpoint vmul (cur fs : list Q) : list Q :=
    match cur, fs with
    | c :: cs, f :: r => Qred (c * f) :: vmul cs r
    | cs, [] => cs
    | [], _ :: _ => []
    end.
  Definition Qsum (l : list Q) : Q := fold_right Qplus 0%Q l.
  Definition Qprod (l : list Q) : Q := fold_right Qmult 1%Q l.
  Definition Qnat (n : nat) : Q := inject_Z (Z.of_nat n).
  (* np.mean *)
  Definition Qmean (l : list Q) : Q := (Qsum l / Qnat (length l))%Q.
  Definition zvec (v : list Z) : list Q := map inject_Z v.

  (* ---------------------------------------------------------------------------------------- *)
  (* 4. one experiment                                                                         *)
  (* ---------------------------------------------------------------------------------------- *)

  (* int.from_bytes(row, "big") *)
  Definition from_bytes_big (row : list N) : N := fold_left (fun acc b => (acc * 256 + b)%N) row 0%N.

  (* Result data of one partition:
       DV1: SamplerResult.quasi_dists — per experiment the dict items (key, quasi-probability) in
            iteration order;
       DV2: PrimitiveResult — per experiment (pub) the shots; a shot is the pair of uint8 rows
            (observable_measurements.array[j], qpd_measurements.array[j]).                       *)
  Inductive pdata :=
  | DV1 (qds : list (list (key * Q)))
  | DV2 (pubs : list (list (list N * list N))).

  Definition data_len (d : pdata) : nat :=
    match d with DV1 q => length q | DV2 p => length p end.

  (* for outcome, quasi_prob in quasi_probs.items():
         subsystem_expvals[k] += quasi_prob * _process_outcome(cog, outcome)                      *)
  Fixpoint exp_v1 (c : cog) (qd : list (key * Q)) (acc : list Q) : res (list Q) :=
    match qd with
    | [] => Ok acc
    | (k, p) :: r =>
        match process_outcome c k with
        | Ok v => exp_v1 c r (vadd acc (vscale p (zvec v)))
        | Refused => Refused
        | Crashed => Crashed
        end
    end.

  (* for j in range(shots):
         subsystem_expvals[k] += (1 / shots) * _process_outcome_v2(cog, from_bytes(obs[j]), from_bytes(qpd[j])) *)
  Fixpoint exp_v2 (c : cog) (w : Q) (shots : list (list N * list N)) (acc : list Q) : list Q :=
    match shots with
    | [] => acc
    | (ob, qp) :: r =>
        exp_v2 c w r (vadd acc (vscale w (zvec (process_outcome_v2 (cog_masks c) (from_bytes_big ob) (from_bytes_big qp)))))
    end.

  Definition zeros (n : nat) : list Q := repeat 0%Q n.
  Definition ones (n : nat) : list Q := repeat 1%Q n.

  (* subsystem_expvals[k] after processing experiment number idx of this partition *)
  Definition experiment (d : pdata) (idx : nat) (c : cog) : res (list Q) :=
    match d with
    | DV1 qds => exp_v1 c (nth idx qds []) (zeros (length (cog_masks c)))
    | DV2 pubs =>
        let shots := nth idx pubs [] in
        Ok (exp_v2 c (1 / Qnat (length shots))%Q shots (zeros (length (cog_masks c))))
    end.

  (* ---------------------------------------------------------------------------------------- *)
  (* 5. the reconstruction loops                                                               *)
  (* ---------------------------------------------------------------------------------------- *)

  (* One partition: interned label, phases of its sub-observables, its commuting groups
     (so.groups), and for sub-observable k the location list so.lookup[subobservables[k]]. *)
  Record part := mkPart {
    plabel : nat ;
    pphases : list nat ;
    pgroups : list cog ;
    plookup : list (list (nat * nat))
  }.

  Fixpoint mapM {A B} (f : A -> res B) (l : list A) : res (list B) :=
    match l with
    | [] => Ok []
    | x :: r =>
        match f x with
        | Ok y => match mapM f r with Ok ys => Ok (y :: ys) | Refused => Refused | Crashed => Crashed end
        | Refused => Refused
        | Crashed => Crashed
        end
    end.

  Definition enumerate {A} (l : list A) : list (nat * A) := combine (seq 0 (length l)) l.

  (* for k, cog in enumerate(so.groups): idx = i * len(so.groups) + k ; ... *)
  Definition subsystem_expvals (i : nat) (p : part) (d : pdata) : res (list (list Q)) :=
    mapM (fun kc => experiment d (i * length (pgroups p) + fst kc) (snd kc)) (enumerate (pgroups p)).

  (* np.mean([subsystem_expvals[m][n] for m, n in so.lookup[subobservable]])  for every k *)
  Definition part_factors (i : nat) (p : part) (d : pdata) : res (list Q) :=
    match subsystem_expvals i p d with
    | Ok sub =>
        Ok (map (fun locs => Qmean (map (fun mn => nth (snd mn) (nth (fst mn) sub []) 0%Q) locs)) (plookup p))
    | Refused => Refused
    | Crashed => Crashed
    end.

  (* for label, so in subsystem_observables.items(): ... current_expvals[k] *= mean *)
  Fixpoint term_loop (i : nat) (pds : list (part * pdata)) (cur : list Q) : res (list Q) :=
    match pds with
    | [] => Ok cur
    | (p, d) :: r =>
        match part_factors i p d with
        | Ok f => term_loop i r (vmul cur f)
        | Refused => Refused
        | Crashed => Crashed
        end
    end.

  (* for i, coeff in enumerate(coefficients): ... expvals += coeff[0] * current_expvals *)
  Fixpoint coeff_loop (i : nat) (cs : list Q) (pds : list (part * pdata)) (expvals : list Q) : res (list Q) :=
    match cs with
    | [] => Ok expvals
    | c :: r =>
        match term_loop i pds (ones (length expvals)) with
        | Ok cur => coeff_loop (S i) r pds (vadd expvals (vscale c cur))
        | Refused => Refused
        | Crashed => Crashed
        end
    end.

  (* len(current_result) != len(coefficients) * len(so.groups) *)
  Definition count_bad (ncoeff : nat) (pd : part * pdata) : bool :=
    negb (data_len (snd pd) =? ncoeff * length (pgroups (fst pd))).

  (* Everything after the dictionaries have been formed: count validation, then the loops.
     nobs = len(expvals). *)
  Definition reconstruct_parts (nobs : nat) (coeffs : list Q) (pds : list (part * pdata)) : res (list Q) :=
    if existsb (count_bad (length coeffs)) pds then Refused
    else coeff_loop 0 coeffs pds (zeros nobs).

  (* ---------------------------------------------------------------------------------------- *)
  (* 6. the public function with its type / key / phase validation                             *)
  (* ---------------------------------------------------------------------------------------- *)

  Inductive oobj :=          (* `observables` *)
  | OList (p : part)         (* a PauliList: the single partition "A" *)
  | OMap (ps : list part)    (* a Mapping label -> PauliList, in dict order *)
  | OOther.
  Inductive robj :=          (* `results` *)
  | RLeaf (d : pdata)        (* a SamplerResult / PrimitiveResult *)
  | RMap (m : list (nat * pdata))
  | ROther.

  Definition phases_bad (ph : list nat) : bool := existsb (fun x => negb (x =? 0)) ph.

  Fixpoint assoc (m : list (nat * pdata)) (l : nat) : option pdata :=
    match m with
    | [] => None
    | (l', d) :: r => if l =? l' then Some d else assoc r l
    end.

  (* dict.keys() != dict.keys()  (set comparison; keys of a dict are distinct) *)
  Definition same_keys (a b : list nat) : bool :=
    forallb (fun x => existsb (Nat.eqb x) b) a && forallb (fun x => existsb (Nat.eqb x) a) b.

  Fixpoint attach (ps : list part) (m : list (nat * pdata)) : option (list (part * pdata)) :=
    match ps with
    | [] => Some []
    | p :: r =>
        match assoc m (plabel p), attach r m with
        | Some d, Some t => Some ((p, d) :: t)
        | _, _ => None
        end
    end.

  Definition reconstruct (r : robj) (coeffs : list Q) (o : oobj) : res (list Q) :=
    match o with
    | OList p =>
        match r with
        | RLeaf d =>
            if phases_bad (pphases p) then Refused
            else reconstruct_parts (length (plookup p)) coeffs [(p, d)]
        | _ => Refused
        end
    | OMap ps =>
        match r with
        | RMap m =>
            if negb (same_keys (map plabel ps) (map fst m)) then Refused
            else if existsb (fun p => phases_bad (pphases p)) ps then Refused
            else match ps with
                 | [] => Crashed                       (* list(observables.values())[0] : IndexError *)
                 | p0 :: _ =>
                     match attach ps m with
                     | Some pds => reconstruct_parts (length (plookup p0)) coeffs pds
                     | None => Crashed                 (* unreachable after the key comparison *)
                     end
                 end
        | _ => Refused
        end
    | OOther => Refused
    end.

End WithPyInt.

(* ------------------------------------------------------------------------------------------ *)
(* 7. a reference instance of the int(s, 0) oracle                                             *)
(* ------------------------------------------------------------------------------------------ *)
(* Python's int(s, 0) on strings WITHOUT sign, underscore or white space:
   0b/0B, 0o/0O, 0x/0X prefix + at least one digit of the radix; otherwise decimal digits with no
   leading zero unless the literal is all zeros; anything else is a ValueError. *)
Definition digit_val (c : ascii) : option N :=
  let n := N_of_ascii c in
  if (48 <=? n)%N && (n <=? 57)%N then Some (n - 48)%N
  else if (97 <=? n)%N && (n <=? 102)%N then Some (n - 87)%N
  else if (65 <=? n)%N && (n <=? 70)%N then Some (n - 55)%N
  else None.

Fixpoint parse_radix_from (radix : N) (ds : list ascii) (acc : N) : option N :=
  match ds with
  | [] => Some acc
  | c :: r =>
      match digit_val c with
      | Some v => if (v <? radix)%N then parse_radix_from radix r (acc * radix + v)%N else None
      | None => None
      end
  end.

Definition parse_radix (radix : N) (ds : list ascii) : option N :=
  match ds with [] => None | _ => parse_radix_from radix ds 0%N end.

Definition pyint0_ref (s : list ascii) : option N :=
  match s with
  | "0"%char :: c :: r =>
      if ch_eqb c "b"%char || ch_eqb c "B"%char then parse_radix 2 r
      else if ch_eqb c "o"%char || ch_eqb c "O"%char then parse_radix 8 r
      else if ch_eqb c "x"%char || ch_eqb c "X"%char then parse_radix 16 r
      else if forallb (fun d => ch_eqb d "0"%char) (c :: r) then Some 0%N
      else None
  | _ => parse_radix 10 s       (* includes the single character "0" *)
  end.

(* ------------------------------------------------------------------------------------------ *)
(* 8. DECLARATIVE SPECIFICATION (used only in theorem statements)                              *)
(* ------------------------------------------------------------------------------------------ *)
(* Written from the property text with bit tests only: no popcount, no land/shiftr, no running
   accumulators. *)

Definition bit (x : N) (j : nat) : bool := N.testbit x (N.of_nat j).
Definition xor_list (l : list bool) : bool := fold_right xorb false l.
(* (-1)^b *)
Definition sgn (b : bool) : Z := if b then (-1)%Z else 1%Z.
Definition nbits_of (x : N) : nat := N.to_nat (N.size x).

(* parity of ALL bits of x *)
Definition parity_all (x : N) : bool := xor_list (map (bit x) (seq 0 (nbits_of x))).
(* parity of the bits j < w of x on which the observable acts (bit j of its mask is set) *)
Definition parity_on (w : nat) (x mask : N) : bool :=
  xor_list (map (fun j => bit x j && bit mask j) (seq 0 w)).
(* V1 key layout: bits 0 .. nb-1 are the observable register, every higher bit is a QPD bit *)
Definition parity_high (nb : nat) (o : N) : bool :=
  xor_list (map (bit o) (seq nb (nbits_of o - nb))).

(* value of one V1 outcome o for the observable with mask `mask`, nb measured bits *)
Definition outcome_value_v1 (nb : nat) (mask o : N) : Z :=
  (sgn (parity_high nb o) * sgn (parity_on nb o mask))%Z.
(* value of one V2 shot (obs register, qpd register) *)
Definition outcome_value_v2 (mask obs qpd : N) : Z :=
  (sgn (parity_all qpd) * sgn (parity_on (nbits_of obs) obs mask))%Z.

(* the integer a row of bytes denotes, most significant byte first *)
Fixpoint bytes_value (row : list N) : N :=
  match row with
  | [] => 0%N
  | b :: r => (b * 256 ^ N.of_nat (length r) + bytes_value r)%N
  end.

(* positional value of a digit string, and the assumed contract of the int(s, 0) oracle *)
Definition digit_ok (radix : N) (c : ascii) : bool :=
  match digit_val c with Some v => (v <? radix)%N | None => false end.
Definition radix_value (radix : N) (ds : list ascii) : N :=
  fold_left (fun acc c => (acc * radix + match digit_val c with Some v => v | None => 0 end)%N) ds 0%N.
Definition pyint0_contract (pyint0 : list ascii -> option N) : Prop :=
  (forall c ds, c = "b"%char \/ c = "B"%char -> ds <> [] -> forallb (digit_ok 2) ds = true ->
     pyint0 ("0"%char :: c :: ds) = Some (radix_value 2 ds)) /\
  (forall c hs, c = "x"%char \/ c = "X"%char -> hs <> [] -> forallb (digit_ok 16) hs = true ->
     pyint0 ("0"%char :: c :: hs) = Some (radix_value 16 hs)).
(* the characters that reach the branch test of _outcome_to_int *)
Definition key_chars (s : string) : list ascii := remove_spaces (list_ascii_of_string s).

Section Spec.
  (* den k = the integer the key k denotes *)
  Variable den : key -> N.

  (* average over the outcomes of one experiment, for member n of group c *)
  Definition E_exp (c : cog) (n : nat) (d : pdata) (idx : nat) : Q :=
    let mask := nth n (cog_masks c) 0%N in
    match d with
    | DV1 qds =>
        Qsum (map (fun kp => (snd kp * inject_Z (outcome_value_v1 (num_meas_bits c) mask (den (fst kp))))%Q)
                  (nth idx qds []))
    | DV2 pubs =>
        let shots := nth idx pubs [] in
        Qsum (map (fun s => (1 / Qnat (length shots)
                              * inject_Z (outcome_value_v2 mask (bytes_value (fst s)) (bytes_value (snd s))))%Q)
                  shots)
    end.

  (* E_{i,partition}[k]: mean over the locations (group m, member n) of sub-observable k;
     the relevant experiment is number i * #groups + m *)
  Definition E (pd : part * pdata) (i k : nat) : Q :=
    let p := fst pd in
    Qmean (map (fun mn => E_exp (nth (fst mn) (pgroups p) dcog) (snd mn) (snd pd)
                                (i * length (pgroups p) + fst mn))
               (nth k (plookup p) [])).

  (* sum_i coeff_i * prod_partitions E_{i,partition}[k] *)
  Definition estimator (coeffs : list Q) (pds : list (part * pdata)) (k : nat) : Q :=
    Qsum (map (fun ic => (snd ic * Qprod (map (fun pd => E pd (fst ic) k) pds))%Q) (enumerate coeffs)).
End Spec.

(* shape conditions of the property ("sampler results of matching shape") *)
Definition locs_ok (p : part) : Prop :=
  forall locs m n, In locs (plookup p) -> In (m, n) locs ->
    m < length (pgroups p) /\ n < length (cog_masks (nth m (pgroups p) dcog)).

Definition keys_of (d : pdata) : list key :=
  match d with DV1 qds => map fst (concat qds) | DV2 _ => [] end.

(* pointwise equality of results up to Qeq *)
Definition res_Qeq (a b : res (list Q)) : Prop :=
  match a, b with
  | Ok x, Ok y => Forall2 Qeq x y
  | Refused, Refused => True
  | Crashed, Crashed => True
  | _, _ => False
  end.

(* two V1 data sets whose keys denote the same integers (same quasi-probabilities, same order) *)
Definition kp_equiv (pyint0 : list ascii -> option N) (a b : key * Q) : Prop :=
  outcome_to_int pyint0 (fst a) = outcome_to_int pyint0 (fst b) /\ snd a = snd b.
Definition data_equiv (pyint0 : list ascii -> option N) (d d' : pdata) : Prop :=
  match d, d' with
  | DV1 q, DV1 q' => Forall2 (Forall2 (kp_equiv pyint0)) q q'
  | DV2 p, DV2 p' => p = p'
  | _, _ => False
  end.

(* V2 -> V1: shot (obs, qpd) of experiment idx becomes the integer key qpd * 2^nb + obs with
   quasi-probability 1/shots, nb = measured bits of group (idx mod #groups). *)
Definition pack_shots (nb : nat) (shots : list (list N * list N)) : list (key * Q) :=
  map (fun s => (KInt (from_bytes_big (snd s) * 2 ^ N.of_nat nb + from_bytes_big (fst s))%N,
                 (1 / Qnat (length shots))%Q)) shots.

Definition pack (p : part) (d : pdata) : pdata :=
  match d with
  | DV1 q => DV1 q
  | DV2 pubs =>
      DV1 (map (fun ix => pack_shots (num_meas_bits (nth (fst ix mod length (pgroups p)) (pgroups p) dcog)) (snd ix))
               (enumerate pubs))
  end.

(* every observable register value fits its register *)
Definition obs_in_range (p : part) (d : pdata) : Prop :=
  match d with
  | DV1 _ => True
  | DV2 pubs =>
      forall idx s, idx < length pubs -> In s (nth idx pubs []) ->
        (from_bytes_big (fst s) < 2 ^ N.of_nat (num_meas_bits (nth (idx mod length (pgroups p)) (pgroups p) dcog)))%N
  end.

(* ------------------------------------------------------------------------------------------ *)
(* 9. from Pauli letters to (len(pauli_indices), pauli_bitmasks) and lookup                    *)
(* ------------------------------------------------------------------------------------------ *)
(* utils/observable_grouping.py: CommutingObservableGroup.__post_init__ and the lookup loop of
   ObservableCollection.__init__.  A Pauli is one letter per qubit INDEX (0 = I, 1 = X, 2 = Y,
   3 = Z; position q = qubit q).  WHICH observables share a group and the group's general
   observable come from the real object (PauliList.group_commuting / most_general_observable are
   C11's business); the masks and the lookup are recomputed here from the letters, so the
   reconstruction model is NOT fed the implementation's own pauli_bitmasks / lookup. *)
Definition letters := list nat.

(* pauli_indices = [i for i, pauli in enumerate(general_observable) if pauli != I] *)
Fixpoint pauli_indices_from (i : nat) (general : letters) : list nat :=
  match general with
  | [] => []
  | l :: r => if l =? 0 then pauli_indices_from (S i) r else i :: pauli_indices_from (S i) r
  end.
Definition pauli_indices_of (general : letters) : list nat := pauli_indices_from 0 general.

(* v = 0 ; for i, j in enumerate(pauli_indices): if pauli[j] != I: v |= 1 << i *)
Fixpoint bitmask_from (i : nat) (idx : list nat) (member : letters) (v : N) : N :=
  match idx with
  | [] => v
  | j :: r =>
      bitmask_from (S i) r member
        (if nth j member 0 =? 0 then v else N.lor v (N.shiftl 1 (N.of_nat i)))
  end.
Definition bitmask_of (idx : list nat) (member : letters) : N := bitmask_from 0 idx member 0%N.

(* a group as letters: (general observable, commuting observables) *)
Definition lgroup := (letters * list letters)%type.
Definition cog_of_letters (g : lgroup) : cog :=
  let idx := pauli_indices_of (fst g) in (length idx, map (bitmask_of idx) (snd g)).

Definition letters_eqb (a b : letters) : bool := list_beq Nat.eqb a b.

(* for i, group in enumerate(groups): for j, obs in enumerate(group.commuting_observables):
       lookup[obs].append((i, j))                 -- the entry of one observable P *)
Fixpoint lookup_in_group (m n : nat) (members : list letters) (p : letters) : list (nat * nat) :=
  match members with
  | [] => []
  | x :: r => if letters_eqb x p then (m, n) :: lookup_in_group m (S n) r p else lookup_in_group m (S n) r p
  end.
Fixpoint lookup_from (m : nat) (groups : list lgroup) (p : letters) : list (nat * nat) :=
  match groups with
  | [] => []
  | g :: r => lookup_in_group m 0 (snd g) p ++ lookup_from (S m) r p
  end.
Definition lookup_of (groups : list lgroup) (p : letters) : list (nat * nat) := lookup_from 0 groups p.

(* the partition as the reconstruction sees it, from letters only *)
Definition part_of_letters (label : nat) (phases : list nat) (groups : list lgroup) (subobs : list letters) : part :=
  mkPart label phases (map cog_of_letters groups) (map (lookup_of groups) subobs).

(* specification side: the observable `member` acts on qubit q *)
Definition acts_on (member : letters) (q : nat) : bool := negb (nth q member 0 =? 0).

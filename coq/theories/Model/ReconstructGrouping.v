(* Model/ReconstructGrouping.v — the partition that reconstruct_expectation_values sees when it is
   read off C11's model of ObservableCollection (Model/Grouping.v) instead of being handed to the
   C06 model as data:
       subsystem_observables[label] = ObservableCollection(subobservables)
       so.groups[m] -> (len(cog.pauli_indices), cog.pauli_bitmasks) ; so.lookup[subobservable_k]
   No proofs here (Proofs/ReconstructGroupingP.v). *)
From Coq Require Import QArith Ascii String.
From CKT Require Import Common.Base Model.Observables Model.Grouping Model.Reconstruct.
Close Scope Q_scope.
Open Scope nat_scope.

(* so.lookup[p]  (KeyError is not modelled: [] ; never reached for an observable of the collection) *)
Definition lookup_get (p : pauli) (lk : lookup_t) : list (nat * nat) :=
  match lookup_find p lk with Some locs => locs | None => [] end.

(* the cog as _process_outcome uses it *)
Definition cog_of_c11 (c : Grouping.cog) : Reconstruct.cog := (length (cg_indices c), cg_masks c).

Definition part_of_collection (label : nat) (subobs : list pauli) (coll : list Grouping.cog * lookup_t) : part :=
  mkPart label (map pphase subobs) (map cog_of_c11 (fst coll)) (map (fun p => lookup_get p (snd coll)) subobs).

(* the same collection as bare letters (what the C06 harness emits) *)
Definition lgroup_of_c11 (c : Grouping.cog) : lgroup := (plets (cg_general c), map plets (cg_members c)).

(* ObservableCollection(subobs) followed by the reading above; Refused / Crashed as C11 models them *)
Definition part_of_observables (label : nat) (subobs : list pauli) (o : grouping_oracle) : res part :=
  res_map (part_of_collection label subobs) (collection subobs o).

(* specification side: a partition that ObservableCollection, as modelled by C11, builds for a
   phase-free list of nobs sub-observables, for an answer of the unique()/group_commuting oracle
   that satisfies C11's grouping_contract (in particular: every observable is in some group, so no
   lookup list is empty) *)
Definition part_from_collection (nobs : nat) (p : part) : Prop :=
  exists label subobs o coll,
    collection subobs o = Ok coll /\ grouping_contract subobs o = true /\
    (forall x, In x subobs -> pphase x = 0) /\
    length subobs = nobs /\ p = part_of_collection label subobs coll.

Definition from_collection (nobs : nat) (pd : part * pdata) : Prop := part_from_collection nobs (fst pd).

(* Model/SimTree.v — additions to Model/Sim.v for C13 (new file: Model/Sim.v is also imported by C01 and is left untouched).
     tree          specification side: the explicit BRANCH TREE of a dynamic circuit with the implementation's truncation rule
     final_dict    the dictionary held by simulate_statevector_outcomes when its loop ends (simulate = finalize of it)
     sampler_run   ExactSampler.run(circuits) / _call: validation of ALL circuits, then one simulation per circuit
   No proofs here (Proofs/SimTreeP.v). *)
From Coq Require Import QArith Qabs.
From CKT Require Import Common.Base Common.QSim Model.Sim.
Close Scope Q_scope.

Section Tree.
  Variable gate : Type.
  Variable state : Type.
  Variable apply : gate -> list nat -> state -> state.
  Variable p1 : state -> nat -> Q.
  Variable proj : state -> nat -> bool -> state.
  Variable flipx : state -> nat -> state.
  Variable tol : Q.

  (* A leaf is (final classical register, (weight, final state)).
     - a gate is applied to the state with its operands IN THE ORDER OF THE INSTRUCTION (`apply g qs`);
     - a measurement of q into c has a 0-child (bit c cleared, weight * (1 - p1), state projected on 0) and a
       1-child (bit c set, weight * p1, state projected on 1): a later write to the same bit overwrites;
     - a reset has the same two children, leaves the register alone and flips the 1-child back to 0;
     - a child whose CONDITIONAL probability is within tol of 0 is cut together with its whole subtree
       (np.isclose(prob, 0, atol=_TOLERANCE));
     so the weight of a leaf is literally the product of the conditional probabilities along its path. *)
  Fixpoint tree (p : prog gate) (k : N) (w : Q) (s : state) : list (N * (Q * state)) :=
    match p with
    | [] => [(k, (w, s))]
    | PGate g qs :: r => tree r k w (apply g qs s)
    | PBarrier _ :: r => tree r k w s
    | PMeasure q c :: r =>
        (if isclose0 tol (1 - p1 s q)%Q then []
         else tree r (N.clearbit k (N.of_nat c)) (w * (1 - p1 s q))%Q (proj s q false)) ++
        (if isclose0 tol (p1 s q) then []
         else tree r (N.setbit k (N.of_nat c)) (w * p1 s q)%Q (proj s q true))
    | PReset q :: r =>
        (if isclose0 tol (1 - p1 s q)%Q then [] else tree r k (w * (1 - p1 s q))%Q (proj s q false)) ++
        (if isclose0 tol (p1 s q) then [] else tree r k (w * p1 s q)%Q (flipx (proj s q true) q))
    | PCond :: _ => []                 (* not in the domain of the theorems *)
    | PGateWithClbit :: _ => []
    end.

  (* the distribution carried by a list of leaves: (register, weight), equal registers NOT merged (use lookup) *)
  Definition leaf_law (l : list (N * (Q * state))) : list (N * Q) := map (fun kb => (fst kb, fst (snd kb))) l.

  (* current.items() flattened: one entry per (outcome, (prob, sv)) held by the dictionary *)
  Definition dict_items (d : dict state) : list (N * (Q * state)) :=
    flat_map (fun kl => map (fun b => (fst kl, b)) (snd kl)) d.

  (* `current` when the loop over qc.data has ended *)
  Definition final_dict (s0 : state) (p : prog gate) : res (dict state) :=
    res_map fst (run apply p1 proj flipx tol p (init_dict s0) 0).

  (* ---- ExactSampler().run(circuits).result().quasi_dists for already bound circuits ----
     BaseSamplerV1.run (Qiskit): "No circuits were provided" / a circuit without clbits / without a Measure is a
     ValueError for the WHOLE call, raised before any simulation.  ExactSampler._call then evaluates
     [simulate_statevector_outcomes(qc) for qc in bound_circuits] left to right; the first exception ends the call.
     The sampler keeps no state between circuits or between calls: the model is a function of the circuits only. *)
  Definition sampler_valid (c : nat * state * prog gate) : bool :=
    let '(ncl, _, p) := c in negb (Nat.eqb ncl 0) && existsb is_measure p.

  Fixpoint map_res {A B} (f : A -> res B) (l : list A) : res (list B) :=
    match l with
    | [] => Ok []
    | x :: r => match f x with
                | Ok y => res_map (cons y) (map_res f r)
                | Refused => Refused
                | Crashed => Crashed
                end
    end.

  Definition sampler_run (cs : list (nat * state * prog gate)) : res (list (list (N * Q))) :=
    match cs with
    | [] => Refused
    | _ => if forallb sampler_valid cs
           then map_res (fun c => simulate apply p1 proj flipx tol (snd (fst c)) (snd c)) cs
           else Refused
    end.
End Tree.

Arguments tree {gate state} apply p1 proj flipx tol p k w s.
Arguments leaf_law {state} l.
Arguments dict_items {state} d.
Arguments final_dict {gate state} apply p1 proj flipx tol s0 p.
Arguments sampler_valid {gate state} c.
Arguments sampler_run {gate state} apply p1 proj flipx tol cs.

(* number of measure/reset instructions: the a-priori size of the truncation loss (Proofs: loss <= 2 * this * tol) *)
Fixpoint count_nonunitary {gate : Type} (p : prog gate) : nat :=
  match p with
  | [] => 0
  | PMeasure _ _ :: r => S (count_nonunitary r)
  | PReset _ :: r => S (count_nonunitary r)
  | _ :: r => count_nonunitary r
  end.

(* well-formed programs for the QSim instance: what QuantumCircuit guarantees (operand indices in range, distinct
   operands, arity of the gate).  QSim's functions are total and return SOME vector on ill-formed operands; the
   statements about the QSim instance are meaningful only under this predicate (the harness only emits such programs
   and the checker tests it). *)
Definition gate_arity (g : qgate) : nat :=
  match g with Gcx | Gcz | Gswap => 2 | Gccx => 3 | _ => 1 end.
Fixpoint nodupb (l : list nat) : bool :=
  match l with [] => true | x :: r => negb (existsb (Nat.eqb x) r) && nodupb r end.
Definition wf_instr (nq ncl : nat) (i : pinstr qgate) : bool :=
  match i with
  | PGate g qs => Nat.eqb (length qs) (gate_arity g) && forallb (fun q => Nat.ltb q nq) qs && nodupb qs
  | PMeasure q c => Nat.ltb q nq && Nat.ltb c ncl
  | PReset q => Nat.ltb q nq
  | PBarrier qs => forallb (fun q => Nat.ltb q nq) qs && nodupb qs
  | PCond => true
  | PGateWithClbit => true
  end.
Definition wf_qprog (nq ncl : nat) (p : qprog) : bool := forallb (wf_instr nq ncl) p.

(* QSim instance *)
Definition qtree (tol : Q) (nq : nat) (p : qprog) : list (N * (Q * vec)) :=
  tree qapply qp1 qproj qflipx tol p 0%N 1%Q (init_vec nq).
Definition qsampler_run (tol : Q) (cs : list (nat * nat * qprog)) : res (list (list (N * Q))) :=
  sampler_run qapply qp1 qproj qflipx tol (map (fun c => (snd (fst c), init_vec (fst (fst c)), snd c)) cs).

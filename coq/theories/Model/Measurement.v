(* Model/Measurement.v — executable model of cutting_experiments.py :
     _get_pauli_indices, _append_measurement_register, _append_measurement_circuit
   and of the outcome decoding of cutting_reconstruction.py : _process_outcome_v2 (observable part).
   Self-contained (depends only on Common/Base, Common/Circ and the letter encoding
   0 = I, 1 = X, 2 = Y, 3 = Z); written for C11 and meant to be reused by the C05 model.
   No proofs here (Proofs/MeasurementP.v).

   Part A  bookkeeping model (registers, instruction suffix, decoding)
   Part B  single-qubit physics SPECIFICATION used by c11_rotation_signs / c11_expectation:
           exact 2x2 matrices over the Gaussian integers for H, SX, SXdg and the Paulis.       *)
From CKT Require Import Common.Base Common.Circ.

(* =========================================================================================
   Part A — bookkeeping
   ========================================================================================= *)

(* A commuting observable group as the measurement code sees it: the letters of
   cog.general_observable (x/z arrays, one entry per qubit of the subsystem) and cog.pauli_indices. *)

(* _get_pauli_indices: the forced dummy measurement of qubit 0 when nothing needs measuring *)
Definition pauli_indices_or_dummy (idx : list nat) : list nat :=
  match idx with [] => [0] | _ => idx end.

(* The part of a QuantumCircuit these functions touch.
   mcregs: the classical registers in order, as (name == "observable_measurements", clbit indices). *)
Record mcirc := mkMC {
  mnq    : nat ;                          (* qc.num_qubits *)
  mnc    : nat ;                          (* qc.num_clbits *)
  mcregs : list (bool * list nat) ;
  mdata  : circ
}.

(* _append_measurement_register(qc, cog):
     obs_creg = ClassicalRegister(len(_get_pauli_indices(cog)), name="observable_measurements")
     qc.add_register(obs_creg)
   add_register raises CircuitError (Crashed) when a register of that name already exists
   (only classical registers are tracked here).  The new bits get the next free clbit indices. *)
Definition append_measurement_register (qc : mcirc) (idx : list nat) : res mcirc :=
  if existsb fst (mcregs qc) then Crashed
  else let k := length (pauli_indices_or_dummy idx) in
       Ok (mkMC (mnq qc) (mnc qc + k) (mcregs qc ++ [(true, seq (mnc qc) k)]) (mdata qc)).

(* `for reg in qc.cregs: if reg.name == "observable_measurements": break` — the FIRST such register *)
Fixpoint find_obs_creg (regs : list (bool * list nat)) : option (list nat) :=
  match regs with
  | [] => None
  | (true, bits) :: _ => Some bits
  | (false, _) :: r => find_obs_creg r
  end.

(* The loop `for clbit, subqubit in enumerate(pauli_indices)`:
     actual_qubit = qubit_locations[subqubit]
     x and z (Y) -> sx ; x only (X) -> h ; then measure(actual_qubit, obs_creg[clbit])
   gh / gsx are the interned gate ids of HGate / SXGate in the case's CircCtx. *)
Fixpoint suffix_from (gh gsx : nat) (g : list nat) (locs : list nat) (bits : list nat)
         (clbit : nat) (idx : list nat) : list instr :=
  match idx with
  | [] => []
  | sub :: r =>
      let q := nth sub locs 0 in
      let m := mkI Measure [q] [nth clbit bits 0] in
      let rest := suffix_from gh gsx g locs bits (S clbit) r in
      match nth sub g 0 with
      | 1 => mkI (Gate gh) [q] [] :: m :: rest
      | 2 => mkI (Gate gsx) [q] [] :: m :: rest
      | _ => m :: rest
      end
  end.

(* measurement_suffix general pauli_indices qubit_locations obs_register_bits *)
Definition measurement_suffix (gh gsx : nat) (g : list nat) (idx : list nat)
           (locs : list nat) (bits : list nat) : list instr :=
  suffix_from gh gsx g locs bits 0 (pauli_indices_or_dummy idx).

(* _append_measurement_circuit(qc, cog, qubit_locations=None | Sequence):
     1. qubit_locations is None: qc.num_qubits != num_qubits(general) -> ValueError
        else                   : len(qubit_locations) != num_qubits(general) -> ValueError
     2. no "observable_measurements" register -> ValueError
     3. its size != len(_get_pauli_indices(cog)) -> ValueError
     4. qc.h / qc.sx / qc.measure on a qubit index outside the circuit -> CircuitError (Crashed)
   The circuit is copied first (inplace=False), so nothing else changes. *)
Definition append_measurement_circuit (gh gsx : nat) (qc : mcirc) (g : list nat) (idx : list nat)
           (qubit_locations : option (list nat)) : res mcirc :=
  let n := length g in
  let bad_count := match qubit_locations with
                   | None => negb (Nat.eqb (mnq qc) n)
                   | Some l => negb (Nat.eqb (length l) n)
                   end in
  if bad_count then Refused else
  let locs := match qubit_locations with None => seq 0 n | Some l => l end in
  match find_obs_creg (mcregs qc) with
  | None => Refused
  | Some bits =>
      let pidx := pauli_indices_or_dummy idx in
      if negb (Nat.eqb (length bits) (length pidx)) then Refused
      else if negb (forallb (fun sub => Nat.ltb (nth sub locs (mnq qc)) (mnq qc)) pidx) then Crashed
      else Ok (mkMC (mnq qc) (mnc qc) (mcregs qc)
                    (mdata qc ++ measurement_suffix gh gsx g idx locs bits))
  end.

(* ---- decoding: _process_outcome_v2, observable factor ------------------------------------
     obs = 1 - 2 * (bit_count(obs_outcomes & mask) & 1)                                       *)
Fixpoint popcount_pos (p : positive) : nat :=
  match p with
  | xH => 1
  | xO q => popcount_pos q
  | xI q => S (popcount_pos q)
  end.
Definition popcount (x : N) : nat := match x with N0 => 0 | Npos p => popcount_pos p end.

Definition decode (mask obs_outcomes : N) : Z :=
  (1 - 2 * Z.of_nat (Nat.b2n (Nat.odd (popcount (N.land obs_outcomes mask)))))%Z.

(* _process_outcome(cog, outcome), integer outcome:
     num_meas_bits = len(_get_pauli_indices(cog))
     obs_outcomes = outcome & ((1 << num_meas_bits) - 1) ; qpd_outcomes = outcome >> num_meas_bits
     qpd_factor = 1 - 2 * (bit_count(qpd_outcomes) & 1) ; rv[i] = qpd_factor * obs_i
   It reads cog.pauli_indices and cog.pauli_bitmasks and must not change them. *)
Definition process_outcome (idx : list nat) (masks : list N) (outcome : N) : list Z :=
  let k := N.of_nat (length (pauli_indices_or_dummy idx)) in
  let obs := N.land outcome (N.pred (N.shiftl 1 k)) in
  let qpd := N.shiftr outcome k in
  let qf := (1 - 2 * Z.of_nat (Nat.b2n (Nat.odd (popcount qpd))))%Z in
  map (fun m => (qf * decode m obs)%Z) masks.

(* ---- what the decoding is supposed to compute ------------------------------------------------
   The appended circuit measures subsystem qubit pauli_indices[i] into bit i of the register. *)
Definition outcome_bit (idx : list nat) (b : N) (q : nat) : bool :=
  match index_of q idx with
  | Some i => N.testbit b (N.of_nat i)
  | None => false
  end.

Definition sgn (b : bool) : Z := if b then (-1)%Z else 1%Z.

(* prod_{q in S} (-1)^{bit q} *)
Definition sign_product (bit : nat -> bool) (S : list nat) : Z :=
  fold_right (fun q acc => (sgn (bit q) * acc)%Z) 1%Z S.

(* support of a Pauli string: ascending positions of its non-identity letters *)
Fixpoint support_from (i : nat) (lets : list nat) : list nat :=
  match lets with
  | [] => []
  | l :: r => if Nat.eqb l 0 then support_from (S i) r else i :: support_from (S i) r
  end.
Definition support (lets : list nat) : list nat := support_from 0 lets.

(* =========================================================================================
   Part B — single-qubit physics specification (exact, Gaussian integers)
   A gate is  U = M / sqrt(d)  with M a 2x2 matrix over Z[i] and d a positive integer:
       H    = [[1, 1], [1, -1]] / sqrt 2
       SX   = [[1+i, 1-i], [1-i, 1+i]] / sqrt 4
       SXdg = [[1-i, 1+i], [1+i, 1-i]] / sqrt 4
   (these are the matrices Operator(HGate()) etc. return; the harness re-checks that on every run).
   Heisenberg picture: measuring Z after U measures  U† Z U = (M† Z M) / d.
   ========================================================================================= *)
Definition gi := (Z * Z)%type.                        (* a + b i *)
Definition gi_add (x y : gi) : gi := (fst x + fst y, snd x + snd y)%Z.
Definition gi_mul (x y : gi) : gi := (fst x * fst y - snd x * snd y, fst x * snd y + snd x * fst y)%Z.
Definition gi_conj (x : gi) : gi := (fst x, - snd x)%Z.
Definition gi_scale (k : Z) (x : gi) : gi := (k * fst x, k * snd x)%Z.

(* row-major 2x2 matrix *)
Record mat2 := mkM { m00 : gi ; m01 : gi ; m10 : gi ; m11 : gi }.
Definition mmul (a b : mat2) : mat2 :=
  mkM (gi_add (gi_mul (m00 a) (m00 b)) (gi_mul (m01 a) (m10 b)))
      (gi_add (gi_mul (m00 a) (m01 b)) (gi_mul (m01 a) (m11 b)))
      (gi_add (gi_mul (m10 a) (m00 b)) (gi_mul (m11 a) (m10 b)))
      (gi_add (gi_mul (m10 a) (m01 b)) (gi_mul (m11 a) (m11 b))).
Definition madj (a : mat2) : mat2 :=
  mkM (gi_conj (m00 a)) (gi_conj (m10 a)) (gi_conj (m01 a)) (gi_conj (m11 a)).
Definition mscale (k : Z) (a : mat2) : mat2 :=
  mkM (gi_scale k (m00 a)) (gi_scale k (m01 a)) (gi_scale k (m10 a)) (gi_scale k (m11 a)).
Definition mtrace (a : mat2) : gi := gi_add (m00 a) (m11 a).

Definition gi0 : gi := (0, 0)%Z.
Definition gi1 : gi := (1, 0)%Z.
Definition gii : gi := (0, 1)%Z.
Definition mI : mat2 := mkM gi1 gi0 gi0 gi1.
Definition mX : mat2 := mkM gi0 gi1 gi1 gi0.
Definition mY : mat2 := mkM gi0 (0, -1)%Z gii gi0.
Definition mZ : mat2 := mkM gi1 gi0 gi0 (-1, 0)%Z.
Definition pauli_mat (l : nat) : mat2 :=
  match l with 0 => mI | 1 => mX | 2 => mY | _ => mZ end.

(* a gate: (d, M) meaning M / sqrt d *)
Definition gate2 := (Z * mat2)%type.
Definition gId   : gate2 := (1%Z, mI).
Definition gH    : gate2 := (2%Z, mkM gi1 gi1 gi1 (-1, 0)%Z).
Definition gSX   : gate2 := (4%Z, mkM (1, 1)%Z (1, -1)%Z (1, -1)%Z (1, 1)%Z).
Definition gSXdg : gate2 := (4%Z, mkM (1, -1)%Z (1, 1)%Z (1, 1)%Z (1, -1)%Z).

(* d * (U† P U) = M† P M  (a matrix over Z[i]) *)
Definition heis_num (u : gate2) (p : mat2) : mat2 := mmul (madj (snd u)) (mmul p (snd u)).
(* d * (U† U) *)
Definition gram (u : gate2) : mat2 := mmul (madj (snd u)) (snd u).

(* Pauli-transfer matrix of the Heisenberg map P |-> U† P U, scaled:  2 d R[a][b] = tr(P_a M† P_b M).
   Entry (a, b), a row / b column in the order I, X, Y, Z. *)
Definition ptm_num (u : gate2) (a b : nat) : gi := mtrace (mmul (pauli_mat a) (heis_num u (pauli_mat b))).
Definition ptm_table (u : gate2) : list (list gi) :=
  map (fun a => map (fun b => ptm_num u a b) [0; 1; 2; 3]) [0; 1; 2; 3].

(* the rotation the measurement code appends before the Z-measurement of a letter *)
Definition rotation_of (l : nat) : gate2 :=
  match l with 1 => gH | 2 => gSX | _ => gId end.

(* read  U† Z U  off its matrix:  Some (s, l)  iff  M† Z M = s d P_l  with s = +-1 *)
Definition mat2_eqb (a b : mat2) : bool :=
  let e (x y : gi) := Z.eqb (fst x) (fst y) && Z.eqb (snd x) (snd y) in
  e (m00 a) (m00 b) && e (m01 a) (m01 b) && e (m10 a) (m10 b) && e (m11 a) (m11 b).

Definition signed_pauli_of (u : gate2) (p : mat2) : option (Z * nat) :=
  let h := heis_num u p in
  let try (s : Z) (l : nat) := mat2_eqb h (mscale (s * fst u) (pauli_mat l)) in
  find (fun sl => try (fst sl) (snd sl))
       [(1%Z, 0); (1%Z, 1); (1%Z, 2); (1%Z, 3); ((-1)%Z, 0); ((-1)%Z, 1); ((-1)%Z, 2); ((-1)%Z, 3)].

(* the signed Pauli letter actually measured on a qubit whose general-observable letter is l *)
Definition measured_letter (l : nat) : Z * nat :=
  match l with
  | 0 => (1%Z, 0)                         (* not measured / dummy: contributes the identity *)
  | _ => match signed_pauli_of (rotation_of l) mZ with Some sl => sl | None => (0%Z, 0) end
  end.

(* Model/ResetFree.v — executable model of what generate_cutting_experiments does to ONE subexperiment
   (cutting_experiments.py, inner loop + the reset clean-up loop), built from the existing models:

       new_qc = _append_measurement_register(subcircuit, cog)            Model/Measurement.v
       decompose_qpd_instructions(new_qc, ids, map_ids, inplace=True)    Model/Decompose.v
       if not cog.pauli_indices: _remove_final_resets(new_qc)            F2 REPAIR (DESIGN section 6) — see below
       _append_measurement_circuit(new_qc, cog, inplace=True)            Model/Measurement.v
       ...
       _remove_resets_in_zero_state; _remove_final_resets; _consolidate_resets     Model/ResetPasses.v

   REPAIRED behaviour is modelled: when the commuting observable group measures nothing, only the placeholder
   ("dummy") measurement of qubit 0 is appended; its outcome bit is masked out of every observable, so resets that are
   final BEFORE it is appended are removed first.  The unrepaired /repo appends the dummy measurement right after
   the decomposition, which makes a trailing Move-source reset on qubit 0 non-final.

   Also here: the `move` basis table (qpd/decompositions.py), and the vocabulary of the C19 theorems.
   No proofs here (Proofs/ResetFreeP.v). *)
From CKT Require Import Common.Base Common.Circ Model.ResetPasses Model.Decompose Model.Measurement.
From Coq Require Import String.

(* ------------------------------------------------------------------------------------------------
   the pipeline *)

(* the three list passes in the order of the clean-up loop *)
Definition three_passes (nq : nat) (c : circ) : circ := optimise_resets nq c.

(* F2 repair: `if not cog.pauli_indices: _remove_final_resets(new_qc)` *)
Definition maybe_remove_final (nq : nat) (idx : list nat) (c : circ) : circ :=
  match idx with [] => remove_final_resets nq c | _ => c end.

(* the circuit handed to the three passes.
   qc = the subcircuit (placeholders inside); ids/ms = subcirc_qpd_gate_ids[label] / map_ids_tmp;
   g/idx = cog.general_observable letters / cog.pauli_indices; gh/gsx = interned ids of HGate/SXGate.
   decompose appends the register "qpd_measurements" (k bits) after all existing classical bits, i.e. after
   the "observable_measurements" register added first. *)
Definition pre_pass (gh gsx : nat) (env : benv) (qc : mcirc) (ids : list (list nat)) (ms : list Z)
           (g idx : list nat) : res mcirc :=
  res_bind (append_measurement_register qc idx) (fun qc1 =>
  res_bind (decompose env (mdata qc1) (mnc qc1) ids (Some (map Some ms))) (fun dk =>
    let qc2 := mkMC (mnq qc1) (mnc qc1 + snd dk) (mcregs qc1 ++ [(false, seq (mnc qc1) (snd dk))])
                    (maybe_remove_final (mnq qc1) idx (fst dk)) in
    append_measurement_circuit gh gsx qc2 g idx None)).

(* one returned subexperiment (instruction list) *)
Definition finish (gh gsx : nat) (env : benv) (qc : mcirc) (ids : list (list nat)) (ms : list Z)
           (g idx : list nat) : res circ :=
  res_map (fun q => three_passes (mnq q) (mdata q)) (pre_pass gh gsx env qc ids ms g idx).

(* the same with the implementation's own decomposed circuit [d] (k = size of "qpd_measurements") plugged in:
   only the repair step, the measurement suffix and the three passes are the model's *)
Definition finish_from (gh gsx : nat) (qc1 : mcirc) (d : circ) (k : nat) (g idx : list nat) : res circ :=
  let qc2 := mkMC (mnq qc1) (mnc qc1 + k) (mcregs qc1 ++ [(false, seq (mnc qc1) k)])
                  (maybe_remove_final (mnq qc1) idx d) in
  res_map (fun q => three_passes (mnq q) (mdata q)) (append_measurement_circuit gh gsx qc2 g idx None).

(* ------------------------------------------------------------------------------------------------
   the `move` basis (qpd/decompositions.py:519-545), gates interned as 0 = HGate, 1 = SXGate, 2 = XGate, 3 = SXdgGate;
   pinned to the source by Properties/C19.v (c19_facts_move_table) *)
Definition mvH := BGate 0.
Definition mvSX := BGate 1.
Definition mvX := BGate 2.
Definition mvSXdg := BGate 3.

Definition i_measurement := [BReset].
Definition x_measurement := [mvH; BMeas; BReset].
Definition y_measurement := [mvSX; BMeas; BReset].
Definition z_measurement := [BMeas; BReset].
Definition prep_0 := [BReset].
Definition prep_1 := [BReset; mvX].
Definition prep_plus := [BReset; mvH].
Definition prep_minus := [BReset; mvX; mvH].
Definition prep_iplus := [BReset; mvSXdg].
Definition prep_iminus := [BReset; mvX; mvSXdg].

Definition move_basis : basis :=
  [ (i_measurement, prep_0); (i_measurement, prep_1);
    (x_measurement, prep_plus); (x_measurement, prep_minus);
    (y_measurement, prep_iplus); (y_measurement, prep_iminus);
    (z_measurement, prep_0); (z_measurement, prep_1) ].

Open Scope string_scope.
Definition bop_name (o : bop) : string :=
  match o with
  | BGate 0 => "HGate" | BGate 1 => "SXGate" | BGate 2 => "XGate" | BGate 3 => "SXdgGate" | BGate _ => "?"
  | BMeas => "QPDMeasure" | BReset => "Reset"
  end.
Close Scope string_scope.
Definition basis_names (b : basis) : list (list string * list string) :=
  map (fun m => (map bop_name (fst m), map bop_name (snd m))) b.

(* ------------------------------------------------------------------------------------------------
   reset patterns of a sequence, as lists of flags (true = Reset) *)
Fixpoint dropT (l : list bool) : list bool :=                 (* strip the leading resets *)
  match l with true :: r => dropT r | _ => l end.
Fixpoint trimT (l : list bool) : list bool :=                 (* strip the trailing resets *)
  match l with
  | [] => []
  | b :: r => match trimT r with [] => if b then [] else [b] | t => b :: t end
  end.
Definition allfalse (l : list bool) : bool := forallb negb l.
Definition LFb (l : list bool) : bool := allfalse (dropT l).            (* resets only at the beginning *)
Definition TFb (l : list bool) : bool := allfalse (trimT l).            (* resets only at the end *)
Definition Wb (l : list bool) : bool := allfalse (trimT (dropT l)).     (* resets only at the beginning and at the end *)

Definition is_breset (o : bop) : bool := match o with BReset => true | _ => false end.
Definition bflags (s : list bop) : list bool := map is_breset s.

(* classes of bases *)
Definition basis_reset_free (b : basis) : bool :=
  forallb (fun m => allfalse (bflags (fst m)) && allfalse (bflags (snd m))) b.
(* Move-like: on the first qubit (source) every sequence has its resets at the END, on the second qubit
   (destination) every sequence has its resets at the BEGINNING *)
Definition move_like (b : basis) : bool :=
  forallb (fun m => TFb (bflags (fst m)) && LFb (bflags (snd m))) b.
(* what the property text says about the table: every source sequence ENDS with a reset, every destination
   sequence BEGINS with one (this is why resets appear at all) *)
Definition ends_with_reset (s : list bop) : bool := match rev s with o :: _ => is_breset o | [] => false end.
Definition begins_with_reset (s : list bop) : bool := match s with o :: _ => is_breset o | [] => false end.

(* ------------------------------------------------------------------------------------------------
   per-wire vocabulary *)
Definition wflags (q : nat) (c : circ) : list bool := map is_reset (proj_q q c).
Definition count_resets (c : circ) : nat := List.length (filter is_reset c).

(* every Reset acts on exactly one qubit, inside the circuit (weaker than ResetPasses.wf) *)
Definition reset_wf (nq : nat) (x : instr) : bool :=
  if is_reset x then match iqs x with [q] => Nat.ltb q nq | _ => false end else true.
Definition resets_wf (nq : nat) (c : circ) : bool := forallb (reset_wf nq) c.

(* (1) post-conditions, per wire *)
Definition no_leading_reset (c : circ) : Prop :=
  forall q x rest, proj_q q c = x :: rest -> is_reset x = false.
Definition no_trailing_reset (c : circ) : Prop :=
  forall q pre x, proj_q q c = pre ++ [x] -> is_reset x = false.
Definition no_double_reset (c : circ) : Prop :=
  forall q pre a b post, proj_q q c = pre ++ a :: b :: post -> is_reset a = true -> is_reset b = false.

(* (2) the sufficient pattern: on every wire, resets only at the beginning and at the end *)
Definition reset_pattern_ok (nq : nat) (c : circ) : Prop := forall q, q < nq -> Wb (wflags q c) = true.
(* ... the same, instruction by instruction: every Reset is leading on its wire (only Resets before it on that
   wire) or trailing on its wire (only Resets after it) *)
Definition reset_pattern_pointwise (c : circ) : Prop :=
  forall pre x post, c = pre ++ x :: post -> is_reset x = true ->
    forallb is_reset (proj_q (rq x) pre) = true \/ forallb is_reset (proj_q (rq x) post) = true.

(* wire-level normal forms of the passes *)
Fixpoint drop_resets (l : circ) : circ :=
  match l with x :: r => if is_reset x then drop_resets r else l | [] => [] end.
Definition trim_resets (l : circ) : circ := rev (drop_resets (rev l)).
(* keep the first reset of every run; [b]: the previous instruction was a reset *)
Fixpoint squash (b : bool) (l : circ) : circ :=
  match l with
  | [] => []
  | x :: r => if is_reset x then (if b then squash true r else x :: squash true r) else x :: squash false r
  end.

(* ------------------------------------------------------------------------------------------------
   (3) no re-use, on a subcircuit with placeholders *)
Definition untouched (q : nat) (l : circ) : bool := forallb (fun y => negb (on_wire q y)) l.

(* 0: no sequence of the basis contains a Reset (gate cuts); 1: Move-like; 2: anything else *)
Definition basis_class (env : benv) (b : nat) : nat :=
  if basis_reset_free (nth b env []) then 0 else if move_like (nth b env []) then 1 else 2.

(* admissible instruction of a subcircuit on nq qubits: no Reset of its own; placeholders with the right arity
   inside the circuit (QuantumCircuit.append enforces arity and distinct qubits), basis of class 0 or 1 *)
Definition allowed (env : benv) (nq : nat) (x : instr) : bool :=
  match iop x with
  | Reset => false
  | Qpd1 b _ _ _ =>
      negb (Nat.eqb (basis_class env b) 2) && match iqs x with [a] => Nat.ltb a nq | _ => false end
  | Qpd2 b _ _ =>
      negb (Nat.eqb (basis_class env b) 2) &&
      match iqs x with [a; a'] => Nat.ltb a nq && Nat.ltb a' nq && negb (Nat.eqb a a') | _ => false end
  | _ => true
  end.

(* the qubit a Move(-like) placeholder reads from / writes to *)
Definition src_qubit (env : benv) (x : instr) : option nat :=
  match iop x with
  | Qpd1 b 0 _ _ => if Nat.eqb (basis_class env b) 1 then Some (nth 0 (iqs x) 0) else None
  | Qpd2 b _ _ => if Nat.eqb (basis_class env b) 1 then Some (nth 0 (iqs x) 0) else None
  | _ => None
  end.
Definition dst_qubit (env : benv) (x : instr) : option nat :=
  match iop x with
  | Qpd1 b (S _) _ _ => if Nat.eqb (basis_class env b) 1 then Some (nth 0 (iqs x) 0) else None
  | Qpd2 b _ _ => if Nat.eqb (basis_class env b) 1 then Some (nth 1 (iqs x) 0) else None
  | _ => None
  end.

(* every source is the LAST instruction on its qubit, every destination the FIRST one on its qubit *)
Definition no_reuse (env : benv) (nq : nat) (sub : circ) : Prop :=
  forall pre x post, sub = pre ++ x :: post ->
    allowed env nq x = true /\
    (forall q, src_qubit env x = Some q -> untouched q post = true) /\
    (forall q, dst_qubit env x = Some q -> untouched q pre = true).

Definition opt_all (o : option nat) (f : nat -> bool) : bool := match o with Some q => f q | None => true end.
Fixpoint no_reuse_from (env : benv) (nq : nat) (pre c : circ) : bool :=
  match c with
  | [] => true
  | x :: post =>
      allowed env nq x &&
      opt_all (src_qubit env x) (fun q => untouched q post) &&
      opt_all (dst_qubit env x) (fun q => untouched q pre) &&
      no_reuse_from env nq (pre ++ [x]) post
  end.
Definition no_reuseb (env : benv) (nq : nat) (sub : circ) : bool := no_reuse_from env nq [] sub.

(* the measured qubits of the group avoid every source qubit (expanded observables carry the identity on a
   source segment).  Says nothing when idx = []: the dummy measurement is handled by the repair. *)
Definition suffix_avoids_sources (env : benv) (sub : circ) (idx : list nat) : Prop :=
  forall x q, In x sub -> src_qubit env x = Some q -> ~ In q idx.
Definition suffix_avoids_sourcesb (env : benv) (sub : circ) (idx : list nat) : bool :=
  forallb (fun x => opt_all (src_qubit env x) (fun q => negb (existsb (Nat.eqb q) idx))) sub.

(* ------------------------------------------------------------------------------------------------
   (4) no re-use on an unseparated circuit: the output of cut_wires *)
Definition no_resets (c : circ) : bool := forallb (fun x => negb (is_reset x)) c.
Definition no_placeholders (c : circ) : bool := forallb (fun x => negb (is_qpd x)) c.

(* ------------------------------------------------------------------------------------------------
   the subexperiment with NO reset removed at all (register, decomposition, measurement suffix): the reference for
   "the values are unaffected by these removals" *)
Definition reference (gh gsx : nat) (env : benv) (qc : mcirc) (ids : list (list nat)) (ms : list Z)
           (g idx : list nat) : res mcirc :=
  res_bind (append_measurement_register qc idx) (fun qc1 =>
  res_bind (decompose env (mdata qc1) (mnc qc1) ids (Some (map Some ms))) (fun dk =>
    append_measurement_circuit gh gsx
      (mkMC (mnq qc1) (mnc qc1 + snd dk) (mcregs qc1 ++ [(false, seq (mnc qc1) (snd dk))]) (fst dk)) g idx None)).

(* placeholders act inside the circuit (QuantumCircuit.append); with resets_wf: all the post-condition theorem needs *)
Definition ph_wf (nq : nat) (x : instr) : bool :=
  match iop x with
  | Qpd1 _ _ _ _ => Nat.ltb (nth 0 (iqs x) 0) nq
  | Qpd2 _ _ _ => Nat.ltb (nth 0 (iqs x) 0) nq && Nat.ltb (nth 1 (iqs x) 0) nq
  | _ => true
  end.
Definition sub_wf (nq : nat) (sub : circ) : bool := resets_wf nq sub && forallb (ph_wf nq) sub.

(* full well-formedness of a subcircuit on nq qubits / nc clbits: ResetPasses.wf_instr (indices in range; Reset one qubit,
   no clbit; Measure one qubit, one clbit) plus the arities QuantumCircuit.append enforces for the cutting instructions *)
Definition sub_instr_ok (nq nc : nat) (x : instr) : bool :=
  wf_instr nq nc x &&
  match iop x with
  | Qpd1 _ _ _ _ => Nat.eqb (List.length (iqs x)) 1 && Nat.eqb (List.length (ics x)) 0
  | Qpd2 _ _ _ => Nat.eqb (List.length (iqs x)) 2 && Nat.eqb (List.length (ics x)) 0
  | QpdMeasure => Nat.eqb (List.length (iqs x)) 1 && Nat.eqb (List.length (ics x)) 0
  | _ => true
  end.
Definition sub_ok (nq nc : nat) (sub : circ) : bool := forallb (sub_instr_ok nq nc) sub.

(* Model/CutFinderSearch.v — executable model of
     cut_finding/best_first_search.py : BestFirstPriorityQueue, BestFirstSearch
     cut_finding/cut_optimization.py  : CutOptimization.__init__, .optimization_pass
     cut_finding/lo_cuts_optimizer.py : LOCutsOptimizer.optimize (the repeat-until-None loop, min by cost)
   No proofs here.

   Oracles (function arguments, never axioms):
   * the numpy Generator of the priority queue: a TAPE  tape : nat -> Q ; the k-th call of
     random_gen.random() (k = 0,1,...) returns  tape k .  One number is drawn per heap push, so k is also the
     value of the `unique` counter.  The harness records the tape by wrapping np.random.default_rng.
   * heapq: the queue is a list and `get` extracts the least entry w.r.t. the total order on
     (cost, -depth, rand, seq); seq is unique, so the least entry is unique (contract O-heap: heappop
     returns the minimum).

   REPAIRED behaviour (DESIGN F3): in optimization_pass a popped state whose cost exceeds a bound is pushed
   back (pqueue.put: one more random number, one more seq, no counter) when min_reached is not set. *)
From Coq Require Import QArith.
From CKT Require Import Common.Base Common.Circ Common.UF Model.CutFinderState.
Close Scope Q_scope.

Record qentry := mkQE { q_cost : Q ; q_depth : nat ; q_rand : Q ; q_seq : nat ; q_state : dstate }.

(* tuple comparison (cost, -depth, rand, seq) < (cost', -depth', rand', seq') *)
Definition entry_lt (a b : qentry) : bool :=
  match Qcompare (q_cost a) (q_cost b) with
  | Lt => true | Gt => false
  | Eq =>
    match Nat.compare (q_depth b) (q_depth a) with     (* -depth a < -depth b  <->  depth b < depth a *)
    | Lt => true | Gt => false
    | Eq =>
      match Qcompare (q_rand a) (q_rand b) with
      | Lt => true | Gt => false
      | Eq => Nat.ltb (q_seq a) (q_seq b)
      end
    end
  end.

(* extract the least entry: returns (least, rest) *)
Fixpoint extract_min_from (best : qentry) (acc : list qentry) (l : list qentry) : qentry * list qentry :=
  match l with
  | [] => (best, acc)
  | e :: r => if entry_lt e best then extract_min_from e (best :: acc) r
              else extract_min_from best (e :: acc) r
  end.

Definition extract_min (l : list qentry) : option (qentry * list qentry) :=
  match l with
  | [] => None
  | e :: r => Some (extract_min_from e [] r)
  end.

Record stats := mkSt { st_visited : nat ; st_next : nat ; st_enq : nat ; st_backjumps : nat }.

Record bfs := mkB {
  pq : list qentry ;
  pushes : nat ;                 (* number of heap pushes so far = next(unique) = index into the tape *)
  upperbound : option Q ;
  min_reached : bool ;
  n_visited : nat ; n_next : nat ; n_enq : nat ; n_backjumps : nat ;
  pen_stats : stats ;
  n_pushback : nat               (* GHOST (not in the Python object): how often the repaired push-back branch ran *)
}.

Definition get_stats (b : bfs) : stats := mkSt (n_visited b) (n_next b) (n_enq b) (n_backjumps b).

Section Search.
  Variable tape : nat -> Q.
  Variable fa : fargs.
  Variable max_gamma : Q.                  (* mincost_bound = (max_gamma, inf) *)
  Variable max_backjumps : option nat.

  (* BestFirstPriorityQueue.put *)
  Definition pq_put (b : bfs) (s : dstate) (depth : nat) (c : Q) : bfs :=
    mkB (mkQE c depth (tape (pushes b)) (pushes b) s :: pq b) (S (pushes b)) (upperbound b) (min_reached b)
        (n_visited b) (n_next b) (n_enq b) (n_backjumps b) (pen_stats b) (n_pushback b).

  Definition incr_enq (b : bfs) : bfs :=
    mkB (pq b) (pushes b) (upperbound b) (min_reached b) (n_visited b) (n_next b) (S (n_enq b)) (n_backjumps b) (pen_stats b) (n_pushback b).

  (* BestFirstSearch.put: counts all states, enqueues those with cost <= upperbound_cost *)
  Fixpoint put_states (b : bfs) (l : list dstate) (depth : nat) : bfs :=
    match l with
    | [] => b
    | s :: r =>
        let c := cost s in
        let b' := match upperbound b with
                  | Some u => if Qleb c u then incr_enq (pq_put b s depth c) else b
                  | None => incr_enq (pq_put b s depth c)
                  end in
        put_states b' r depth
    end.

  Definition bfs_put (b : bfs) (l : list dstate) (depth : nat) : bfs :=
    let b1 := mkB (pq b) (pushes b) (upperbound b) (min_reached b) (n_visited b) (n_next b + length l) (n_enq b)
                  (n_backjumps b) (pen_stats b) (n_pushback b) in
    put_states b1 l depth.

  (* update_upperbound_goal_state *)
  Definition update_upperbound (b : bfs) (s : dstate) : bfs :=
    let bound := cost s in
    let u' := match upperbound b with
              | None => Some bound
              | Some u => if Qltb bound u then Some bound else Some u
              end in
    mkB (pq b) (pushes b) u' (min_reached b) (n_visited b) (n_next b) (n_enq b) (n_backjumps b) (pen_stats b) (n_pushback b).

  Definition set_min_reached (b : bfs) (v : bool) : bfs :=
    mkB (pq b) (pushes b) (upperbound b) v (n_visited b) (n_next b) (n_enq b) (n_backjumps b) (pen_stats b) (n_pushback b).

  (* update_minimum_reached(cost) with cost not None *)
  Definition update_minimum_reached (b : bfs) (c : Q) : bfs :=
    match upperbound b with
    | Some u => if Qleb u c then set_min_reached b true else b
    | None => b
    end.

  (* cost_bounds_exceeded *)
  Definition cost_bounds_exceeded (b : bfs) (c : Q) : bool :=
    Qltb max_gamma c || match upperbound b with Some u => Qltb u c | None => false end.

  Definition backjumps_left (b : bfs) : bool :=
    match max_backjumps with None => true | Some m => Nat.ltb (n_backjumps b) m end.

  (* initialize([start_state]) *)
  Definition bfs_initialize (start : dstate) : bfs :=
    bfs_put (mkB [] 0 None false 0 0 0 0 (mkSt 0 0 0 0) 0) [start] 0.

  (* the while loop of BestFirstSearch.optimization_pass (stop_at_first_min = True).
     Returns the engine and (Some (state, cost) | None). *)
  Fixpoint pass_loop (fuel : nat) (b : bfs) (prev_depth : option nat) : out (bfs * option (dstate * Q)) :=
    if negb (match pq b with [] => false | _ => true end && negb (min_reached b) && backjumps_left b)
    then (* loop condition false *)
      let b' := match pq b with [] => set_min_reached b true | _ => b end in
      Val (b', None)
    else match fuel with
    | O => NoFuel
    | S f =>
      match extract_min (pq b) with
      | None => Crash    (* unreachable: the queue is not empty here *)
      | Some (e, rest) =>
        let b0 := mkB rest (pushes b) (upperbound b) (min_reached b) (n_visited b) (n_next b) (n_enq b)
                      (n_backjumps b) (pen_stats b) (n_pushback b) in
        let s := q_state e in let depth := q_depth e in let c := q_cost e in
        let b1 := update_minimum_reached b0 c in
        if cost_bounds_exceeded b1 c then
          (* repaired: keep the frontier intact *)
          let b2 := if min_reached b1 then b1 else
                      let b' := pq_put b1 s depth c in
                      mkB (pq b') (pushes b') (upperbound b') (min_reached b') (n_visited b') (n_next b') (n_enq b')
                          (n_backjumps b') (pen_stats b') (S (n_pushback b')) in
          Val (b2, None)
        else
          let bj := match prev_depth with
                    | Some pd => if Nat.leb depth pd then S (n_backjumps b1) else n_backjumps b1
                    | None => n_backjumps b1
                    end in
          let b2 := mkB (pq b1) (pushes b1) (upperbound b1) (min_reached b1) (S (n_visited b1)) (n_next b1) (n_enq b1)
                        bj (pen_stats b1) (n_pushback b1) in
          if goal_state fa s then
            let b3 := mkB (pq b2) (pushes b2) (upperbound b2) (min_reached b2) (n_visited b2) (n_next b2) (n_enq b2)
                          (n_backjumps b2) (get_stats b2) (n_pushback b2) in
            let b4 := update_upperbound b3 s in
            let b5 := update_minimum_reached b4 c in
            Val (b5, Some (s, c))
          else
            do l <- next_states fa s ;;
            pass_loop f (bfs_put b2 l (S depth)) (Some depth)
      end
    end.

  Definition engine_pass (fuel : nat) (b : bfs) : out (bfs * option (dstate * Q)) := pass_loop fuel b None.

  (* CutOptimization: the engine, the greedy incumbent, goal_state_returned *)
  Record cutopt := mkCO { co_engine : bfs ; co_greedy : option dstate ; co_returned : bool }.

  Variable nq : nat.          (* circuit_interface.get_num_qubits() *)

  Definition cutopt_init : out cutopt :=
    do gr <- greedy_cut_optimization nq fa ;;
    let mwc_c := max_wire_cuts_circuit (fa_gates fa) in
    let mwc := match gr with
               | Some g => Nat.min mwc_c (max_wire_cuts_gamma (gamma_UB g))
               | None => Nat.min mwc_c (max_wire_cuts_gamma max_gamma)
               end in
    let start := init_state nq mwc in
    let b := bfs_initialize start in
    let b' := match gr with Some g => update_upperbound b g | None => b end in
    Val (mkCO b' gr false).

  (* CutOptimization.optimization_pass *)
  Definition cutopt_pass (fuel : nat) (co : cutopt) : out (cutopt * option (dstate * Q)) :=
    do '(b, r) <- engine_pass fuel (co_engine co) ;;
    match r with
    | Some sc => Val (mkCO b (co_greedy co) true, Some sc)
    | None =>
        if co_returned co then Val (mkCO b (co_greedy co) true, None)
        else match co_greedy co with
             | Some g => Val (mkCO b (co_greedy co) true, Some (g, cost g))
             | None => Ref    (* cut_optimization_upper_bound_cost_func(None): ValueError *)
             end
    end.

  (* LOCutsOptimizer.optimize: while True: pass; break on None; collect (cost, state) *)
  Fixpoint driver_loop (passes fuel : nat) (co : cutopt) (acc : list (Q * dstate)) : out (cutopt * list (Q * dstate)) :=
    match passes with
    | O => NoFuel
    | S p =>
        do '(co', r) <- cutopt_pass fuel co ;;
        match r with
        | None => Val (co', acc)
        | Some (s, c) => driver_loop p fuel co' (acc ++ [(c, s)])
        end
    end.

  (* min(out_1, key=cost): the first entry of minimal cost *)
  Fixpoint first_min_cost (best : Q * dstate) (l : list (Q * dstate)) : Q * dstate :=
    match l with
    | [] => best
    | x :: r => if Qltb (fst x) (fst best) then first_min_cost x r else first_min_cost best r
    end.

  Record opt_result := mkOR {
    or_best : option dstate ;       (* best_result *)
    or_goals : list (Q * dstate) ;  (* out_1 *)
    or_cutopt : cutopt
  }.

  Definition optimize (fuel : nat) : out opt_result :=
    do co <- cutopt_init ;;
    do '(co', goals) <- driver_loop (S fuel) fuel co [] ;;
    match goals with
    | [] => Val (mkOR None goals co')
    | g :: r => Val (mkOR (Some (snd (first_min_cost g r))) goals co')
    end.
End Search.

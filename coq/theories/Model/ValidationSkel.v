(* Model/ValidationSkel.v — C18 extension: the REGENERATED control skeletons and their execution.

   tools/facts_c18.py slices the body of selected functions down to the guard-relevant statements
   (raise ValueError, return, the if/else and for statements containing them, try/except-raise, calls of
   functions that have their own validation model) and writes that slice as a prefix token stream into
   Extracted/Facts.v (c18_skeletons).  This file
     1. decodes the token stream into a statement tree (parse_stmts),
     2. gives the tree an executable semantics (exec) relative to an INTERPRETATION of the atoms, of the
        collections that loops / any(...) range over and of the watched calls.  The interpretations are the
        hand-written part: they say what each atomic Python test reads from the input abstraction of
        Model/Validation.v.  Atoms are keyed by their source text, so an edited test no longer resolves
        (the execution answers Crashed), and a moved / reordered / dropped guard changes the tree.
   Properties/C18.v proves  exec (decoded regenerated skeleton) interp i = api_* i  for ALL inputs i.
   NO proofs in this file. *)
From Coq Require Import String QArith.
From CKT Require Import Common.Base Model.Validation.
Close Scope Q_scope.
Open Scope string_scope.

Inductive gexp :=
| GAtom (t : string)
| GNot (e : gexp)
| GAnd (a b : gexp)
| GOr (a b : gexp)
| GAny (var coll : string) (e : gexp).

Inductive stmt :=
| SRaise
| SReturn
| SCall (callee : string)
| STry (what : string)
| SMutate (target : string)          (* a store into the argument: <x>.data[...] = / <x>.basis_id = / del / insert *)
| SContinue
| SIf (test : gexp) (body orelse : list stmt)
| SFor (header : string) (body : list stmt).

(* ---------- decoding the token stream ---------- *)
Definition tok := (string * string)%type.
Fixpoint parse_gexp (fuel : nat) (ts : list tok) : option (gexp * list tok) :=
  match fuel with
  | O => None
  | S f =>
    match ts with
    | (tag, txt) :: r =>
        if tag =? "atom" then Some (GAtom txt, r)
        else if tag =? "not" then
          match parse_gexp f r with Some (e, r') => Some (GNot e, r') | None => None end
        else if (tag =? "and") || (tag =? "or") then
          match parse_gexp f r with
          | Some (a, r1) => match parse_gexp f r1 with
                            | Some (b, r2) => Some (if tag =? "and" then GAnd a b else GOr a b, r2)
                            | None => None end
          | None => None end
        else if tag =? "any" then
          match r with
          | (tag2, coll) :: r1 =>
              if tag2 =? "in" then
                match parse_gexp f r1 with Some (e, r2) => Some (GAny txt coll e, r2) | None => None end
              else None
          | [] => None
          end
        else None
    | [] => None
    end
  end.

(* parses statements up to (not including) an "else"/"end" token or the end of the stream *)
Fixpoint parse_stmts (fuel : nat) (ts : list tok) : option (list stmt * list tok) :=
  match fuel with
  | O => None
  | S f =>
    match ts with
    | [] => Some ([], [])
    | (tag, txt) :: r =>
        if (tag =? "else") || (tag =? "end") then Some ([], ts)
        else if tag =? "raise" then
          match parse_stmts f r with Some (l, r') => Some (SRaise :: l, r') | None => None end
        else if tag =? "return" then
          match parse_stmts f r with Some (l, r') => Some (SReturn :: l, r') | None => None end
        else if tag =? "call" then
          match parse_stmts f r with Some (l, r') => Some (SCall txt :: l, r') | None => None end
        else if tag =? "try" then
          match parse_stmts f r with Some (l, r') => Some (STry txt :: l, r') | None => None end
        else if tag =? "mutate" then
          match parse_stmts f r with Some (l, r') => Some (SMutate txt :: l, r') | None => None end
        else if tag =? "continue" then
          match parse_stmts f r with Some (l, r') => Some (SContinue :: l, r') | None => None end
        else if tag =? "if" then
          match parse_gexp f r with
          | Some (t, (tg1, _) :: r1) =>
              if tg1 =? "then" then
                match parse_stmts f r1 with
                | Some (b, (tg2, _) :: r2) =>
                    if tg2 =? "else" then
                      match parse_stmts f r2 with
                      | Some (o, (tg3, _) :: r3) =>
                          if tg3 =? "end" then
                            match parse_stmts f r3 with Some (l, r') => Some (SIf t b o :: l, r') | None => None end
                          else None
                      | _ => None end
                    else None
                | _ => None end
              else None
          | _ => None end
        else if tag =? "for" then
          match parse_stmts f r with
          | Some (b, (tg2, _) :: r2) =>
              if tg2 =? "end" then
                match parse_stmts f r2 with Some (l, r') => Some (SFor txt b :: l, r') | None => None end
              else None
          | _ => None end
        else None
    end
  end.
Definition decode (ts : list tok) : option (list stmt) :=
  match parse_stmts (S (length ts)) ts with Some (l, []) => Some l | _ => None end.

(* ---------- execution ---------- *)
Inductive flow := FNext | FReturned | FRefused | FCrashed | FContinue.
Definition fseq (a : flow) (b : flow) : flow := match a with FNext => b | x => x end.
(* at the end of a loop body `continue` just ends the iteration *)
Definition uncont (a : flow) : flow := match a with FContinue => FNext | x => x end.
Definition flow_of (o : outcome) : flow := match o with Ok _ => FNext | Refused => FRefused | Crashed => FCrashed end.
Definition outcome_of (f : flow) : outcome :=
  match f with FNext | FReturned | FContinue => Proceeds | FRefused => Refused | FCrashed => Crashed end.

Section Exec.
Variables I E : Type.
(* element stack: the values bound by the enclosing loops / any(...) variables, innermost first *)
Variable atom : string -> I -> list E -> option bool.
Variable coll : string -> I -> list E -> option (list E).
Variable call : string -> I -> list E -> option outcome.
Variable i : I.

Fixpoint eval (e : gexp) (st : list E) : option bool :=
  match e with
  | GAtom t => atom t i st
  | GNot a => option_map negb (eval a st)
  | GAnd a b => match eval a st with
                | Some true => eval b st          (* short circuit, as Python *)
                | x => x end
  | GOr a b => match eval a st with
               | Some false => eval b st
               | x => x end
  | GAny _ c a =>
      match coll c i st with
      | None => None
      | Some es =>
          (fix anyl (l : list E) : option bool :=
             match l with
             | [] => Some false
             | x :: r => match eval a (x :: st) with
                         | Some true => Some true
                         | Some false => anyl r
                         | None => None end
             end) es
      end
  end.

Fixpoint exec_stmt (s : stmt) (st : list E) {struct s} : flow :=
  match s with
  | SRaise => FRefused
  | SReturn => FReturned
  | SCall f => match call f i st with Some o => flow_of o | None => FCrashed end
  | STry t => match atom t i st with Some true => FRefused | Some false => FNext | None => FCrashed end
  | SMutate _ => FNext                 (* the decision does not depend on stores; see `dominated` below *)
  | SContinue => FContinue
  | SIf t b o =>
      match eval t st with
      | None => FCrashed
      | Some true => (fix go (l : list stmt) : flow :=
                        match l with [] => FNext | x :: r => fseq (exec_stmt x st) (go r) end) b
      | Some false => (fix go (l : list stmt) : flow :=
                         match l with [] => FNext | x :: r => fseq (exec_stmt x st) (go r) end) o
      end
  | SFor h b =>
      match coll h i st with
      | None => FCrashed
      | Some es =>
          (fix loop (l : list E) : flow :=
             match l with
             | [] => FNext
             | e :: r => fseq (uncont ((fix go (l' : list stmt) : flow :=
                                  match l' with [] => FNext | x :: r' => fseq (exec_stmt x (e :: st)) (go r') end) b))
                              (loop r)
             end) es
      end
  end.
Fixpoint exec_list (l : list stmt) (st : list E) : flow :=
  match l with [] => FNext | x :: r => fseq (exec_stmt x st) (exec_list r st) end.
Definition run (l : list stmt) : outcome := outcome_of (exec_list l []).
End Exec.

(* ---------- domination of the stores by the raise sites (purely syntactic, on the regenerated tree) ----------
   dominated l = true  means: on NO path through l is a statement that can refuse (raise / try-raise / a call of a
   validating function) reachable after a store into the argument; in particular a loop body never contains both.
   `continue` is ignored (it only removes paths).  This is the "validate everything, then mutate" shape. *)
Fixpoint can_raise (s : stmt) : bool :=
  match s with
  | SRaise | STry _ | SCall _ => true
  | SIf _ b o => existsb can_raise b || existsb can_raise o
  | SFor _ b => existsb can_raise b
  | _ => false
  end.
Fixpoint can_mutate (s : stmt) : bool :=
  match s with
  | SMutate _ => true
  | SIf _ b o => existsb can_mutate b || existsb can_mutate o
  | SFor _ b => existsb can_mutate b
  | _ => false
  end.
(* dom_stmt s seen = Some seen' : fine, and a store may have happened afterwards iff seen' *)
Fixpoint dom_stmt (s : stmt) (seen : bool) {struct s} : option bool :=
  let dom_list := fix dl (l : list stmt) (sn : bool) : option bool :=
                    match l with [] => Some sn | x :: r => match dom_stmt x sn with Some s' => dl r s' | None => None end end in
  match s with
  | SRaise | STry _ | SCall _ => if seen then None else Some false
  | SMutate _ => Some true
  | SReturn | SContinue => Some seen
  | SIf _ b o => match dom_list b seen, dom_list o seen with Some x, Some y => Some (x || y) | _, _ => None end
  | SFor _ b => if existsb can_mutate b && existsb can_raise b then None else dom_list b seen
  end.
Fixpoint dom_list (l : list stmt) (seen : bool) : option bool :=
  match l with [] => Some seen | x :: r => match dom_stmt x seen with Some s' => dom_list r s' | None => None end end.
Definition dominated (l : list stmt) : bool := match dom_list l false with Some _ => true | None => false end.

(* ---------- the regenerated skeletons ---------- *)
From CKT Require Import Extracted.Facts.
Definition skeleton_of (f : string) : option (list stmt) :=
  match find (fun p => String.eqb (fst p) f) c18_skeletons with Some p => decode (snd p) | None => None end.

(* ====================================================================================================
   INTERPRETATIONS (hand-written): what every atomic test reads from the abstraction
   ==================================================================================================== *)

(* ---------- partition_problem ---------- *)
Inductive pp_elem := PObs (len phase : nat) | PIdle (acts : bool).
Definition pp_eff_labels (i : pp_in) : list label :=
  match pp_labels i with Some l => l | None => auto_labels (pp_nq i) (pp_insts i) end.
Definition pp_atom (t : string) (i : pp_in) (st : list pp_elem) : option bool :=
  if t =? "partition_labels is not None" then Some (negb (is_none (pp_labels i)))
  else if t =? "partition_labels is None" then Some (is_none (pp_labels i))
  else if t =? "len(partition_labels) != circuit.num_qubits" then
    match pp_labels i with Some l => Some (negb (length l =? pp_nq i)%nat) | None => None end      (* len(None): TypeError *)
  else if t =? "observables is not None" then Some (negb (is_none (pp_obs i)))
  else if t =? "observables" then Some (match pp_obs i with Some (_ :: _) => true | _ => false end)   (* truthiness *)
  else if t =? "len(obs) != circuit.num_qubits" then
    match st with PObs n _ :: _ => Some (negb (n =? pp_nq i)%nat) | _ => None end
  else if t =? "obs.phase != 0" then
    match st with PObs _ p :: _ => Some (negb (p =? 0)%nat) | _ => None end
  else if t =? "len(circuit.cregs) != 0" then Some (negb (pp_ncregs i =? 0)%nat)
  else if t =? "circuit.num_clbits != 0" then Some (negb (pp_nclbits i =? 0)%nat)
  (* idle group: the abstraction keeps, per observable, whether it acts on a None-labelled qubit; the dictionary
     entry None exists exactly when some qubit carries the label None, and without such a qubit no element acts *)
  else if t =? "idle_observables is not None" then Some true
  else if t =? "obs.x.any()" then match st with PIdle b :: _ => Some b | _ => None end
  else if t =? "obs.z.any()" then match st with PIdle _ :: _ => Some false | _ => None end
  else None.
Definition pp_coll (c : string) (i : pp_in) (st : list pp_elem) : option (list pp_elem) :=
  if c =? "observables" then
    match pp_obs i with Some o => Some (map (fun p => PObs (fst p) (snd p)) o) | None => None end
  else if c =? "idle_observables" then
    Some (map (fun sup => PIdle (existsb (fun q => is_none (nth q (pp_eff_labels i) None)) sup)) (pp_support_eff i))
  else None.
Definition pp_call (f : string) (i : pp_in) (st : list pp_elem) : option outcome :=
  if f =? "_partition_labels_from_circuit" then Some Proceeds
  else if f =? "partition_circuit_qubits" then
    Some (match pp_labels i with Some l => pcq_loop l (pp_insts i) | None => Proceeds end)
  else if f =? "separate_circuit" then
    Some (match pp_labels i with Some l => refuse_if (none_label_used l (pp_insts i)) | None => Proceeds end)
  else if f =? "decompose_observables" then Some Proceeds
  else None.
Definition run_partition_problem (sk : list stmt) (i : pp_in) : outcome :=
  run pp_in pp_elem pp_atom pp_coll pp_call i sk.

(* ---------- reconstruct_expectation_values ---------- *)
Inductive rc_elem := RObs (phase : nat) | RSub (phases : list nat) | RCount (n groups : nat).
Definition rc_atom (t : string) (i : rec_in) (st : list rc_elem) : option bool :=
  if t =? "isinstance(observables, PauliList)" then Some (is_oplist (rc_oform i))
  else if t =? "isinstance(observables, Mapping)" then Some (is_odict (rc_oform i))
  else if t =? "isinstance(results, (SamplerResult, PrimitiveResult))" then Some (is_rresult (rc_rform i))
  else if t =? "isinstance(results, Mapping)" then Some (is_rdict (rc_rform i))
  else if t =? "observables.keys() != results.keys()" then Some (negb (rc_keys_match i))
  else if t =? "obs.phase != 0" then match st with RObs p :: _ => Some (negb (p =? 0)%nat) | _ => None end
  else if t =? "len(current_result) != len(coefficients) * len(so.groups)" then
    match st with RCount n g :: _ => Some (negb (n =? rc_ncoef i * g)%nat) | _ => None end
  else None.
Definition rc_coll (c : string) (i : rec_in) (st : list rc_elem) : option (list rc_elem) :=
  if c =? "observables" then Some (map RObs (hd [] (rc_phases i)))
  else if c =? "(label, subobservable) in observables.items()" then Some (map RSub (rc_phases i))
  else if c =? "subobservable" then match st with RSub l :: _ => Some (map RObs l) | _ => None end
  else if c =? "(label, so) in subsystem_observables.items()" then
    Some (map (fun p => RCount (fst p) (snd p)) (rc_counts i))
  else None.
Definition rc_call (f : string) (i : rec_in) (st : list rc_elem) : option outcome :=
  if f =? "decompose_observables" then Some Proceeds else None.
Definition run_reconstruct (sk : list stmt) (i : rec_in) : outcome :=
  run rec_in rc_elem rc_atom rc_coll rc_call i sk.

(* ---------- simulate_statevector_outcomes ---------- *)
Definition sim_atom (t : string) (i : list sim_inst) (st : list sim_inst) : option bool :=
  match st with
  | s :: _ =>
      if t =? "inst.operation.condition_bits" then Some (si_cond s)
      else if t =? "opname in ('measure', 'reset')" then Some (si_nonunitary s)
      else if t =? "len(inst.clbits) != 0" then Some (negb (si_nclbits s =? 0)%nat)
      else None
  | [] => None
  end.
Definition sim_coll (c : string) (i : list sim_inst) (st : list sim_inst) : option (list sim_inst) :=
  if c =? "inst in qc.data" then Some i else None.
Definition sim_call (f : string) (i : list sim_inst) (st : list sim_inst) : option outcome := None.
Definition run_simulate (sk : list stmt) (i : list sim_inst) : outcome :=
  run (list sim_inst) sim_inst sim_atom sim_coll sim_call i sk.

(* ====================================================================================================
   The trees the regenerated skeletons are expected to decode to (Properties/C18.v: the c18_skeleton_ Examples)
   ==================================================================================================== *)
Definition sk_simulate : list stmt :=
  [SFor "inst in qc.data"
     [SIf (GAtom "inst.operation.condition_bits") [SRaise] [];
      SIf (GAtom "opname in ('measure', 'reset')") []
        [SIf (GAtom "len(inst.clbits) != 0") [SRaise] []]]; SReturn].

Definition sk_reconstruct : list stmt :=
  [SIf (GAtom "isinstance(observables, PauliList)")
     [SIf (GNot (GAtom "isinstance(results, (SamplerResult, PrimitiveResult))")) [SRaise] [];
      SIf (GAny "obs" "observables" (GAtom "obs.phase != 0")) [SRaise] [];
      SCall "decompose_observables"]
     [SIf (GAtom "isinstance(observables, Mapping)")
        [SIf (GNot (GAtom "isinstance(results, Mapping)")) [SRaise] [];
         SIf (GAtom "observables.keys() != results.keys()") [SRaise] [];
         SFor "(label, subobservable) in observables.items()"
           [SIf (GAny "obs" "subobservable" (GAtom "obs.phase != 0")) [SRaise] []]]
        [SRaise]];
   SFor "(label, so) in subsystem_observables.items()"
     [SIf (GAtom "len(current_result) != len(coefficients) * len(so.groups)") [SRaise] []];
   SReturn].

Local Notation rc_exec_list := (ValidationSkel.exec_list rec_in rc_elem rc_atom rc_coll rc_call).

Definition sk_partition_problem : list stmt :=
  [SIf (GAnd (GAtom "partition_labels is not None") (GAtom "len(partition_labels) != circuit.num_qubits")) [SRaise] [];
   SIf (GAnd (GAtom "observables is not None") (GAny "obs" "observables" (GAtom "len(obs) != circuit.num_qubits")))
     [SRaise] [];
   SIf (GAnd (GAtom "observables is not None") (GAny "obs" "observables" (GAtom "obs.phase != 0"))) [SRaise] [];
   SIf (GOr (GAtom "len(circuit.cregs) != 0") (GAtom "circuit.num_clbits != 0")) [SRaise] [];
   SIf (GAtom "partition_labels is None") [SCall "_partition_labels_from_circuit"] [];
   SCall "partition_circuit_qubits"; SCall "separate_circuit";
   SIf (GAtom "observables")
     [SCall "decompose_observables";
      SIf (GAnd (GAtom "idle_observables is not None")
             (GAny "obs" "idle_observables" (GOr (GAtom "obs.x.any()") (GAtom "obs.z.any()")))) [SRaise] []] [];
   SReturn].

(* the abstraction is well formed: one support entry per observable *)
Definition pp_wf (i : pp_in) : Prop :=
  match pp_obs i with Some o => length (pp_support i) = length o | None => True end.

Definition sk_partition_circuit_qubits : list stmt :=
  [SIf (GAtom "len(partition_labels) != len(circuit.qubits)") [SRaise] [];
   SFor "(i, instruction) in enumerate(circuit.data)"
     [SIf (GAtom "instruction.operation.name == 'barrier'") [SContinue] [];
      SIf (GOr (GAtom "len(qubit_indices) <= 1")
             (GOr (GAtom "len(partitions_spanned) == 1") (GAtom "isinstance(instruction.operation, Barrier)")))
        [SContinue] [];
      SIf (GAtom "len(qubit_indices) > 2") [SRaise] [];
      SIf (GAtom "isinstance(instruction.operation, TwoQubitQPDGate)") [SContinue] [];
      SCall "from_instruction"];
   SFor "(i, new_instruction) in replacements" [SMutate "circuit.data[i]"];
   SReturn].
Definition sk_cut_gates : list stmt :=
  [SIf (GOr (GAtom "len(circuit.cregs) != 0") (GAtom "circuit.num_clbits != 0")) [SRaise] [];
   SFor "gate_id in gate_ids" [SCall "from_instruction"];
   SFor "(gate_id, new_instruction) in replacements" [SMutate "circuit.data[gate_id]"];
   SReturn].
Definition sk_decompose : list stmt :=
  [SCall "_validate_qpd_instructions";
   SIf (GAtom "map_ids is not None")
     [SIf (GAtom "len(instruction_ids) != len(map_ids)") [SRaise] [];
      SFor "(i, decomp_gate_ids) in enumerate(instruction_ids)"
        [SFor "gate_id in decomp_gate_ids"
           [SIf (GOr (GAtom "map_ids[i] is None") (GAtom "map_ids[i] not in range(num_maps)")) [SRaise] []]];
      SFor "(i, decomp_gate_ids) in enumerate(instruction_ids)"
        [SFor "gate_id in decomp_gate_ids" [SMutate "circuit.data[gate_id].operation.basis_id"]]] [];
   SCall "_decompose_qpd_instructions";
   SReturn].
